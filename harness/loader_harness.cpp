// Correspondence harness for ModuleLoader: materialises the specified tree under a scratch root,
// chdir()s into the specified working directory and calls the real ModuleLoader::load.
#include "common.hpp"
#include <filesystem>
#include <fstream>
#include <unistd.h>
#include "bloch/compiler/import/module_loader.hpp"
#include "bloch/support/error/bloch_error.hpp"

namespace fs = std::filesystem;
using namespace bloch::compiler;
using bloch::support::BlochError;
using bloch::support::ErrorCategory;

static std::vector<std::string> splitOn(const std::string& s, char sep) {
    std::vector<std::string> out;
    std::string cur;
    for (char c : s) {
        if (c == sep) { out.push_back(cur); cur.clear(); } else cur.push_back(c);
    }
    out.push_back(cur);
    return out;
}

static std::string join(const std::vector<std::string>& v) {
    if (v.empty()) return "-";
    std::string o;
    for (size_t i = 0; i < v.size(); ++i) { if (i) o += ","; o += v[i]; }
    return o;
}

int main(int argc, char** argv) {
    std::string root = argc > 1 ? argv[1] : "/tmp/loader_scratch";
    std::string line;
    while (std::getline(std::cin, line)) {
        auto a = vh::split(line);
        std::string out = "bad-op";
        if (a.size() == 2 && a[0] == "loader") {
            std::error_code ec;
            fs::remove_all(root, ec);
            fs::create_directories(root);
            std::string spec = vh::unhexBytes(a[1]);
            std::string cwd = "/", entry;
            std::vector<std::string> sps;
            for (auto& l : splitOn(spec, '\n')) {
                auto t = vh::split(l);
                if (t.empty()) continue;
                if (t[0] == "CWD" && t.size() == 2) cwd = t[1];
                else if (t[0] == "SP") for (size_t i = 1; i < t.size(); ++i) sps.push_back(root + t[i]);
                else if (t[0] == "ENTRY" && t.size() == 2) entry = t[1];
                else if (t[0] == "D" && t.size() == 2) fs::create_directories(root + t[1]);
                else if (t[0] == "X" && t.size() == 2) {
                    fs::create_directories(fs::path(root + t[1]).parent_path());
                    std::ofstream f(root + t[1]);
                    f << "function broken( -> {\n";
                } else if (t[0] == "F" && t.size() == 6) {
                    fs::create_directories(fs::path(root + t[1]).parent_path());
                    std::ofstream f(root + t[1]);
                    if (t[2] != "-") f << "package " << t[2] << ";\n";
                    if (t[3] != "-") for (auto& im : splitOn(t[3], ',')) f << "import " << im << ";\n";
                    if (t[4] != "-") for (auto& c : splitOn(t[4], ',')) f << "class " << c << " { }\n";
                    if (t[5] != "-") for (auto& fn : splitOn(t[5], ',')) f << "function " << fn << "() -> void { }\n";
                }
            }
            fs::create_directories(root + cwd);
            if (chdir((root + cwd).c_str()) != 0) { std::cout << "err chdir\n" << std::flush; continue; }
            try {
                ModuleLoader loader(sps);
                auto prog = loader.load(root + entry);
                std::vector<std::string> cls, fns;
                for (auto& c : prog->classes) cls.push_back(c->name);
                for (auto& f : prog->functions) fns.push_back(f->name);
                out = "ok classes=" + join(cls) + " functions=" + join(fns);
            } catch (const BlochError& e) {
                std::string w = e.what(), kind = "other";
                if (w.find("import cycle") != std::string::npos) kind = "cycle";
                else if (w.find("resolved to package") != std::string::npos) kind = "pkg-mismatch";
                else if (w.find("missing a symbol") != std::string::npos) kind = "missing-symbol";
                else if (w.find("not found") != std::string::npos && w.find("import") != std::string::npos) kind = "not-found";
                else if (w.find("failed to open") != std::string::npos) kind = "open-fail";
                else if (w.find("No 'main'") != std::string::npos) kind = "no-main";
                else if (w.find("Multiple 'main'") != std::string::npos) kind = "multi-main";
                else if (e.category == ErrorCategory::Parse || e.category == ErrorCategory::Lexical) kind = "parse";
                const char* cat = e.category == ErrorCategory::Semantic ? "Semantic"
                                  : e.category == ErrorCategory::Parse  ? "Parse"
                                  : e.category == ErrorCategory::Lexical ? "Lexical" : "Other";
                out = "err " + kind + " " + cat;
            } catch (const std::exception& e) {
                out = std::string("exception ") + e.what();
            }
            if (chdir("/") != 0) {}
        }
        std::cout << out << "\n" << std::flush;
    }
    std::error_code ec;
    fs::remove_all(root, ec);
    return 0;
}
