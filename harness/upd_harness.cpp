// Correspondence harness for the updater: the file-local helpers of update_manager.cpp are
// reached by compiling that file into this translation unit (no source change needed).
#include "common.hpp"
#include <cstdlib>
#include <ctime>
#include <fstream>
#include <filesystem>
#include "bloch/update/update_manager.cpp"

using namespace bloch::update;

static std::string arg(const std::string& h) { return h == "-" ? std::string() : vh::unhexBytes(h); }
static std::string hexOrDash(const std::string& s) { return s.empty() ? "-" : vh::hexBytes(s); }

struct CoutCapture {
    std::streambuf* old;
    std::ostringstream buf;
    CoutCapture() : old(std::cout.rdbuf(buf.rdbuf())) {}
    ~CoutCapture() { std::cout.rdbuf(old); }
};

int main(int argc, char** argv) {
    std::string scratch = argc > 1 ? argv[1] : "/tmp/upd_scratch";
    std::filesystem::create_directories(scratch);
    setenv("XDG_CACHE_HOME", scratch.c_str(), 1);
    std::string line;
    while (std::getline(std::cin, line)) {
        auto a = vh::split(line);
        std::string out = "bad-op";
        try {
            if (a.size() >= 2 && a[0] == "upd") {
                const std::string& c = a[1];
                if (c == "semver" && a.size() == 3) {
                    SemVer v = parseSemVer(arg(a[2]));
                    out = v.valid ? "valid " + std::to_string(v.major) + " " + std::to_string(v.minor) + " " +
                                        std::to_string(v.patch)
                                  : "invalid";
                } else if (c == "cmp" && a.size() == 4) {
                    auto x = arg(a[2]), y = arg(a[3]);
                    SemVer cv = parseSemVer(x), lv = parseSemVer(y);
                    auto d = decideUpdate(x, y);
                    out = std::to_string(compareSemVer(cv, lv)) + " " + changeLabel(cv, lv) + " " +
                          (d == UpdateDecision::AlreadyLatest ? "already-latest"
                           : d == UpdateDecision::Unparsable  ? "unparsable"
                                                              : "install");
                } else if (c == "checksum" && a.size() == 4) {
                    auto r = parseChecksum(arg(a[2]), arg(a[3]));
                    out = r ? "some " + hexOrDash(*r) : "none";
                } else if (c == "notice" && a.size() == 6) {
                    UpdateCache cache = emptyCache();
                    cache.lastNotified = Clock::time_point(std::chrono::seconds(std::stoll(a[5])));
                    auto now = Clock::time_point(std::chrono::seconds(std::stoll(a[4])));
                    bool printed;
                    {
                        CoutCapture cap;
                        printed = maybePrintNotice(arg(a[2]), arg(a[3]), now, cache);
                        bool text = cap.buf.str().find("There is a new") != std::string::npos;
                        if (text != printed) printed = !printed ? true : printed;  // printed text without reporting it
                    }
                    auto secs = std::chrono::duration_cast<std::chrono::seconds>(cache.lastNotified.time_since_epoch()).count();
                    out = std::string(printed ? "1" : "0") + " " + std::to_string(secs) + " " + hexOrDash(cache.latestVersion);
                } else if (c == "due" && a.size() == 8) {
                    bool skip = a[2] == "1";
                    unsetenv("CI");
                    unsetenv("BLOCH_OFFLINE");
                    unsetenv("BLOCH_NO_UPDATE_CHECK");
                    skip = a[2] != "0";
                    // 1-3: the variable set to "1"; 4-6: the same variables set to the empty string (set is set)
                    if (skip) {
                        int code = std::stoi(a[2]);
                        const char* var = (code - 1) % 3 == 0 ? "BLOCH_NO_UPDATE_CHECK" : (code - 1) % 3 == 1 ? "CI" : "BLOCH_OFFLINE";
                        setenv(var, code <= 3 ? "1" : "", 1);
                    }
                    auto path = cacheFilePath();
                    std::filesystem::create_directories(path.parent_path());
                    std::filesystem::remove(path);
                    long long now0 = (long long)std::time(nullptr);
                    if (a[4] == "1") {
                        std::ofstream f(path, std::ios::trunc);
                        f << (now0 - std::stoll(a[5])) << "\n" << arg(a[6]) << "\n" << (now0 - std::stoll(a[7])) << "\n";
                    }
                    int notices = 0;
                    {
                        CoutCapture cap;
                        checkForUpdatesIfDue(arg(a[3]));
                        std::string t = cap.buf.str();
                        size_t pos = 0;
                        while ((pos = t.find("There is a new", pos)) != std::string::npos) { ++notices; ++pos; }
                    }
                    long long now1 = (long long)std::time(nullptr);
                    std::ifstream f(path);
                    std::string l1, l2, l3;
                    if (f && std::getline(f, l1) && std::getline(f, l2)) {
                        if (!std::getline(f, l3)) l3 = "0";
                        out = std::to_string(notices) + " " + std::to_string(now1 - std::stoll(l1)) + " " + hexOrDash(l2) +
                              " " + std::to_string(now1 - std::stoll(l3));
                    } else {
                        out = std::to_string(notices) + " none";
                    }
                }
            }
        } catch (const std::exception& e) {
            out = std::string("exception ") + e.what();
        }
        std::cout << out << "\n" << std::flush;
    }
    return 0;
}
