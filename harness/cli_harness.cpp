// The real command-line front end (bloch::cli::run from cli.cpp) with one addition: when VERIF_DRAWS is set
// (comma-separated IEEE-754 doubles as 16 hex digits), measurement/reset draws are taken from that list in
// order (0.5 after it is exhausted) instead of the process-global generator.
#include <cstdlib>
#include <cstring>
#include <memory>
#include <string>
#include <vector>

#include "bloch/cli/cli.hpp"
#include "bloch/runtime/qasm_simulator.hpp"

int main(int argc, char** argv) {
    if (const char* d = std::getenv("VERIF_DRAWS")) {
        auto draws = std::make_shared<std::vector<double>>();
        std::string s(d);
        size_t i = 0;
        while (i < s.size()) {
            size_t j = s.find(',', i);
            if (j == std::string::npos) j = s.size();
            std::string h = s.substr(i, j - i);
            if (h.size() == 16) {
                unsigned long long bits = std::strtoull(h.c_str(), nullptr, 16);
                double x;
                std::memcpy(&x, &bits, sizeof x);
                draws->push_back(x);
            }
            i = j + 1;
        }
        auto pos = std::make_shared<size_t>(0);
        bloch::runtime::QasmSimulator::verifSetDrawSource([draws, pos]() {
            if (*pos < draws->size()) return (*draws)[(*pos)++];
            return 0.5;
        });
    }
    return bloch::cli::run(argc, argv, bloch::cli::Context{});
}
