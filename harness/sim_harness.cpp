// Correspondence harness for QasmSimulator: same line protocol as the Lean driver's `sim …`.
// Calls the real simulator compiled from /repo (hooks on) in-process.
#include "common.hpp"
#include <memory>
#include "bloch/runtime/qasm_simulator.hpp"

using bloch::runtime::QasmSimulator;
using bloch::support::BlochError;

static double g_forced = 0.0;

int main() {
    std::ios::sync_with_stdio(false);
    auto sim = std::make_unique<QasmSimulator>(true);
    QasmSimulator::verifSetDrawSource([]() { return g_forced; });
    std::string line;
    while (std::getline(std::cin, line)) {
        auto a = vh::split(line);
        std::string out = "bad-op";
        try {
            if (a.size() >= 2 && a[0] == "sim") {
                const std::string& c = a[1];
                if (c == "new" && a.size() == 3) {
                    sim = std::make_unique<QasmSimulator>(a[2] == "1");
                    out = "ok";
                } else if (c == "alloc" && a.size() == 2) {
                    out = "ok " + std::to_string(sim->allocateQubit());
                } else if ((c == "h" || c == "x" || c == "y" || c == "z") && a.size() == 3) {
                    int q = std::stoi(a[2]);
                    if (c == "h") sim->h(q);
                    else if (c == "x") sim->x(q);
                    else if (c == "y") sim->y(q);
                    else sim->z(q);
                    out = "ok";
                } else if ((c == "rx" || c == "ry" || c == "rz") && a.size() == 4) {
                    int q = std::stoi(a[2]);
                    double t = vh::unhex64(a[3]);
                    if (c == "rx") sim->rx(q, t);
                    else if (c == "ry") sim->ry(q, t);
                    else sim->rz(q, t);
                    out = "ok";
                } else if (c == "cx" && a.size() == 4) {
                    sim->cx(std::stoi(a[2]), std::stoi(a[3]));
                    out = "ok";
                } else if (c == "measure" && a.size() == 4) {
                    g_forced = vh::unhex64(a[3]);
                    out = "ok " + std::to_string(sim->measure(std::stoi(a[2])));
                } else if (c == "reset" && a.size() == 4) {
                    g_forced = vh::unhex64(a[3]);
                    size_t before = sim->verifOutcomes().size();
                    sim->reset(std::stoi(a[2]));
                    int res = sim->verifOutcomes().size() > before ? sim->verifOutcomes().back().outcome : -1;
                    out = "ok " + std::to_string(res);
                } else if (c == "state" && a.size() == 2) {
                    const auto& st = sim->verifState();
                    out = "state " + std::to_string(sim->verifQubits()) + " " + std::to_string(st.size());
                    for (auto& z : st) out += " " + vh::hex64(z.real()) + " " + vh::hex64(z.imag());
                } else if (c == "qasm" && a.size() == 2) {
                    out = "qasm " + vh::hexBytes(sim->getQasm());
                } else if (c == "flags" && a.size() == 2) {
                    out = "flags";
                    for (bool b : sim->verifMeasuredFlags()) out += b ? " 1" : " 0";
                }
            }
        } catch (const BlochError& e) {
            std::string w = e.what();
            if (w.find("out of range") != std::string::npos) out = "err range";
            else if (w.find("measured qubit") != std::string::npos) out = "err measured";
            else if (w.find("distinct") != std::string::npos) out = "err same";
            else out = "err other " + w;
            if (e.line != 0 || e.column != 0) out += " located";
        } catch (const std::exception& e) {
            out = std::string("exception ") + e.what();
        }
        std::cout << out << "\n";
    }
    return 0;
}
