// Correspondence harness for the evaluator: runs lexer -> parser -> analyser -> RuntimeEvaluator in-process
// with forced measurement/reset draws and prints everything observable in one canonical line.
#include "common.hpp"
#include <algorithm>
#include <functional>
#include "bloch/compiler/lexer/lexer.hpp"
#include "bloch/compiler/parser/parser.hpp"
#include "bloch/compiler/semantics/semantic_analyser.hpp"
#include "bloch/runtime/runtime_evaluator.hpp"

using namespace bloch::compiler;
using bloch::runtime::QasmSimulator;
using bloch::runtime::RuntimeEvaluator;
using bloch::support::BlochError;
using bloch::support::ErrorCategory;

static const char* catName(ErrorCategory c) {
    switch (c) {
        case ErrorCategory::Lexical: return "Lexical";
        case ErrorCategory::Parse: return "Parse";
        case ErrorCategory::Semantic: return "Semantic";
        case ErrorCategory::Runtime: return "Runtime";
        default: return "Generic";
    }
}

struct Capture {
    std::streambuf* old;
    std::ostream& os;
    std::ostringstream buf;
    explicit Capture(std::ostream& o) : old(o.rdbuf()), os(o) { os.rdbuf(buf.rdbuf()); }
    ~Capture() { os.rdbuf(old); }
};

static std::vector<double> g_draws;
static size_t g_drawPos = 0;

static std::string joinHexLines(const std::string& text) {
    std::string out;
    std::istringstream is(text);
    std::string l;
    bool first = true;
    while (std::getline(is, l)) {
        if (!first) out += ",";
        out += l.empty() ? "-" : vh::hexBytes(l);
        first = false;
    }
    return out;
}

// one execution of an already analysed program; returns the canonical result line
static std::string runOnce(Program& prog, bool echo, std::function<bool(size_t)> gc, bool* failed = nullptr,
                           bool asNonLastShot = false) {
    std::string out;
    std::string echoText, warnText;
    try {
        // asNonLastShot: configured exactly as cli.cpp configures every shot but the last (no operation log, no exit warnings)
        RuntimeEvaluator ev(!asNonLastShot);
        ev.setEcho(echo);
        if (asNonLastShot) ev.setWarnOnExit(false);
        if (gc) ev.verifSetGcSchedule(gc);
        {
            Capture co(std::cout), ce(std::cerr);
            try {
                ev.execute(prog);
            } catch (...) {
                echoText = co.buf.str();
                throw;
            }
            echoText = co.buf.str();
            warnText = ce.buf.str();
        }
        // tracked counts, sorted
        std::vector<std::string> tr;
        for (auto& kv : ev.trackedCounts())
            for (auto& oc : kv.second) tr.push_back(vh::hexBytes(kv.first) + ":" + oc.first + ":" + std::to_string(oc.second));
        std::sort(tr.begin(), tr.end());
        std::string trs;
        for (size_t i = 0; i < tr.size(); ++i) { if (i) trs += ";"; trs += tr[i]; }
        std::string outs;
        const auto& sim = ev.verifSim();
        for (size_t i = 0; i < sim.verifOutcomes().size(); ++i) {
            auto& o = sim.verifOutcomes()[i];
            if (i) outs += ",";
            outs += std::string(1, o.op) + std::to_string(o.qubit) + ":" + std::to_string(o.outcome);
        }
        // unmeasured-qubit warnings, in order
        std::string warn;
        {
            std::istringstream is(warnText);
            std::string l;
            bool first = true;
            while (std::getline(is, l)) {
                auto a = l.find("Qubit ");
                auto b = l.find(" was left unmeasured");
                if (a != std::string::npos && b != std::string::npos && b > a + 6) {
                    if (!first) warn += ",";
                    warn += vh::hexBytes(l.substr(a + 6, b - a - 6));
                    first = false;
                }
            }
        }
        std::string state = "state " + std::to_string(sim.verifQubits()) + " " + std::to_string(sim.verifState().size());
        for (auto& z : sim.verifState()) state += " " + vh::hex64(z.real()) + " " + vh::hex64(z.imag());
        out = "ok echo=" + joinHexLines(echoText) + " tracked=" + trs + " outcomes=" + outs + " qasm=" + vh::hexBytes(ev.getQasm()) +
              " warn=" + warn + " " + state;
    } catch (const BlochError& e) {
        out = std::string("err ") + catName(e.category) + " " + std::to_string(e.line) + " " + std::to_string(e.column);
        if (failed) *failed = true;
    } catch (const std::exception& e) {
        out = std::string("exception ") + e.what();
        if (failed) *failed = true;
    }
    return out;
}

static std::unique_ptr<Program> frontEnd(const std::string& src, std::string& err) {
    try {
        Lexer lx(src);
        auto toks = lx.tokenize();
        Parser ps(std::move(toks));
        auto prog = ps.parse();
        SemanticAnalyser an;
        an.analyse(*prog);
        return prog;
    } catch (const BlochError& e) {
        err = std::string("err ") + catName(e.category) + " " + std::to_string(e.line) + " " + std::to_string(e.column);
    } catch (const std::exception& e) {
        err = std::string("exception ") + e.what();
    }
    return nullptr;
}

static void setDraws(const std::string& arg) {
    g_draws.clear();
    g_drawPos = 0;
    if (arg != "-") {
        std::string cur;
        for (char c : arg + ",") {
            if (c == ',') { if (!cur.empty()) g_draws.push_back(vh::unhex64(cur)); cur.clear(); } else cur.push_back(c);
        }
    }
}

int main() {
    std::ios::sync_with_stdio(false);
    QasmSimulator::verifSetDrawSource([]() { return g_drawPos < g_draws.size() ? g_draws[g_drawPos++] : 0.5; });
    std::string line;
    while (std::getline(std::cin, line)) {
        auto a = vh::split(line);
        std::string out = "bad-op";
        if (a.size() == 4 && a[0] == "run") {
            // run <src> <echo> <draws>
            std::string src = a[1] == "-" ? std::string() : vh::unhexBytes(a[1]);
            std::string err;
            auto prog = frontEnd(src, err);
            if (!prog) out = err;
            else { setDraws(a[3]); out = runOnce(*prog, a[2] == "1", nullptr); }
        } else if (a.size() == 5 && a[0] == "gc") {
            // gc <src> <echo> <draws> <schedule: none|all|<hex bitmask, bit k = collect at boundary k>>
            std::string src = a[1] == "-" ? std::string() : vh::unhexBytes(a[1]);
            std::string err;
            auto prog = frontEnd(src, err);
            if (!prog) out = err;
            else {
                setDraws(a[3]);
                std::string sched = a[4];
                std::function<bool(size_t)> f;
                if (sched == "none") f = [](size_t) { return false; };
                else if (sched == "all") f = [](size_t) { return true; };
                else f = [sched](size_t k) {
                    size_t nib = k / 4;
                    if (nib >= sched.size()) return false;
                    char c = sched[sched.size() - 1 - nib];
                    int v = (c >= '0' && c <= '9') ? c - '0' : (c >= 'a' && c <= 'f') ? c - 'a' + 10 : 0;
                    return ((v >> (k % 4)) & 1) != 0;
                };
                out = runOnce(*prog, a[2] == "1", f);
            }
        } else if (a.size() == 5 && a[0] == "shots") {
            // shots <src> <echo> <n> <draws>: one parsed+analysed Program executed n times (as multi-shot mode does),
            // then n fresh parse-analyse-run of the source with the same draws; prints both sequences
            std::string src = a[1] == "-" ? std::string() : vh::unhexBytes(a[1]);
            int n = std::stoi(a[3]);
            std::string err;
            auto prog = frontEnd(src, err);
            if (!prog) out = err;
            else {
                // echo "01": the shared Program runs with echo off (as multi-shot mode does), the fresh pipelines with echo on;
                // the echo text is then left out of the comparison
                bool mixed = a[2] == "01";
                auto cut = [](std::string& r, const char* from, const char* to) {
                    auto b = r.find(from);
                    auto e = r.find(to);
                    if (b != std::string::npos && e != std::string::npos && e > b) r.erase(b, e - b);
                };
                auto strip = [&](std::string r) {
                    if (!mixed) return r;
                    cut(r, " echo=", " tracked=");
                    // every shot but the last runs without operation log and exit warnings in multi-shot mode
                    cut(r, " qasm=", " warn=");
                    cut(r, " warn=", " state ");
                    return r;
                };
                setDraws(a[4]);
                std::string shared, fresh;
                for (int s = 0; s < n; ++s)
                    shared += (s ? " || " : "") + strip(runOnce(*prog, mixed ? false : a[2] == "1", nullptr, nullptr, mixed && s < n - 1));
                setDraws(a[4]);
                for (int s = 0; s < n; ++s) {
                    std::string e2;
                    auto p2 = frontEnd(src, e2);
                    fresh += (s ? " || " : "") + (p2 ? strip(runOnce(*p2, mixed ? true : a[2] == "1", nullptr)) : e2);
                }
                out = (shared == fresh ? std::string("same ") : std::string("DIFFERENT ")) + shared + " ## " + fresh;
            }
        }
        std::cout << out << "\n" << std::flush;
    }
    return 0;
}
