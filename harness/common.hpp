// Shared helpers for the correspondence harnesses (hex exchange of doubles and bytes).
#pragma once
#include <cstdint>
#include <cstring>
#include <cstdio>
#include <iostream>
#include <sstream>
#include <string>
#include <vector>

namespace vh {

inline std::string hex64(double d) {
    uint64_t b;
    std::memcpy(&b, &d, 8);
    char buf[17];
    std::snprintf(buf, sizeof buf, "%016llx", (unsigned long long)b);
    return buf;
}

inline double unhex64(const std::string& s) {
    uint64_t b = std::stoull(s, nullptr, 16);
    double d;
    std::memcpy(&d, &b, 8);
    return d;
}

inline std::string hexBytes(const std::string& s) {
    static const char* dg = "0123456789abcdef";
    std::string out;
    out.reserve(s.size() * 2);
    for (unsigned char c : s) {
        out.push_back(dg[c >> 4]);
        out.push_back(dg[c & 15]);
    }
    return out;
}

inline std::string unhexBytes(const std::string& h) {
    std::string out;
    auto v = [](char c) -> int {
        if (c >= '0' && c <= '9') return c - '0';
        if (c >= 'a' && c <= 'f') return c - 'a' + 10;
        if (c >= 'A' && c <= 'F') return c - 'A' + 10;
        return 0;
    };
    for (size_t i = 0; i + 1 < h.size(); i += 2) out.push_back((char)(v(h[i]) * 16 + v(h[i + 1])));
    return out;
}

inline std::vector<std::string> split(const std::string& line) {
    std::vector<std::string> out;
    std::istringstream is(line);
    std::string w;
    while (is >> w) out.push_back(w);
    return out;
}

}  // namespace vh
