// Canonical S-expression of the C++ AST; the Lean driver prints the same text for its tree.
#pragma once
#include <string>
#include <vector>
#include "bloch/compiler/ast/ast.hpp"
#include "common.hpp"

namespace vdump {
using namespace bloch::compiler;

inline std::string hx(const std::string& s) { return s.empty() ? "-" : vh::hexBytes(s); }
inline std::string pos(const ASTNode& n) { return "@" + std::to_string(n.line) + ":" + std::to_string(n.column); }
inline std::string b(bool v) { return v ? "1" : "0"; }
inline std::string dots(const std::vector<std::string>& v) {
    if (v.empty()) return "-";
    std::string o;
    for (size_t i = 0; i < v.size(); ++i) { if (i) o += "."; o += v[i]; }
    return o;
}
std::string expr(const Expression* e);
std::string stmt(const Statement* s);

inline std::string type(const Type* t) {
    if (!t) return "-";
    if (dynamic_cast<const VoidType*>(t)) return "void";
    if (auto p = dynamic_cast<const PrimitiveType*>(t)) return "(prim " + p->name + ")";
    if (auto n = dynamic_cast<const NamedType*>(t)) {
        std::string o = "(named " + dots(n->nameParts) + " [";
        for (size_t i = 0; i < n->typeArguments.size(); ++i) { if (i) o += " "; o += type(n->typeArguments[i].get()); }
        return o + "] " + b(n->hasTypeArgumentList) + ")";
    }
    if (auto a = dynamic_cast<const ArrayType*>(t))
        return "(array " + type(a->elementType.get()) + " " + std::to_string(a->size) + " " +
               (a->sizeExpression ? expr(a->sizeExpression.get()) : std::string("-")) + ")";
    return "(type?)";
}

inline std::string exprs(const std::vector<std::unique_ptr<Expression>>& v) {
    std::string o = "[";
    for (size_t i = 0; i < v.size(); ++i) { if (i) o += " "; o += expr(v[i].get()); }
    return o + "]";
}

inline std::string expr(const Expression* e) {
    if (!e) return "-";
    if (auto x = dynamic_cast<const LiteralExpression*>(e)) return "(lit " + hx(x->value) + " " + x->literalType + " " + pos(*e) + ")";
    if (dynamic_cast<const NullLiteralExpression*>(e)) return "(null " + pos(*e) + ")";
    if (auto x = dynamic_cast<const VariableExpression*>(e)) return "(var " + x->name + " " + pos(*e) + ")";
    if (auto x = dynamic_cast<const BinaryExpression*>(e))
        return "(bin " + hx(x->op) + " " + expr(x->left.get()) + " " + expr(x->right.get()) + " " + pos(*e) + ")";
    if (auto x = dynamic_cast<const UnaryExpression*>(e)) return "(un " + hx(x->op) + " " + expr(x->right.get()) + " " + pos(*e) + ")";
    if (auto x = dynamic_cast<const CastExpression*>(e))
        return "(cast " + type(x->targetType.get()) + " " + expr(x->expression.get()) + " " + pos(*e) + ")";
    if (auto x = dynamic_cast<const PostfixExpression*>(e)) return "(postfix " + hx(x->op) + " " + expr(x->left.get()) + " " + pos(*e) + ")";
    if (auto x = dynamic_cast<const CallExpression*>(e)) return "(call " + expr(x->callee.get()) + " " + exprs(x->arguments) + " " + pos(*e) + ")";
    if (auto x = dynamic_cast<const MemberAccessExpression*>(e)) return "(member " + expr(x->object.get()) + " " + x->member + " " + pos(*e) + ")";
    if (auto x = dynamic_cast<const NewExpression*>(e)) return "(new " + type(x->classType.get()) + " " + exprs(x->arguments) + " " + pos(*e) + ")";
    if (dynamic_cast<const ThisExpression*>(e)) return "(this " + pos(*e) + ")";
    if (dynamic_cast<const SuperExpression*>(e)) return "(super " + pos(*e) + ")";
    if (auto x = dynamic_cast<const IndexExpression*>(e)) return "(index " + expr(x->collection.get()) + " " + expr(x->index.get()) + " " + pos(*e) + ")";
    if (auto x = dynamic_cast<const ArrayLiteralExpression*>(e)) return "(arrlit " + exprs(x->elements) + " " + pos(*e) + ")";
    if (auto x = dynamic_cast<const ParenthesizedExpression*>(e)) return "(paren " + expr(x->expression.get()) + " " + pos(*e) + ")";
    if (auto x = dynamic_cast<const MeasureExpression*>(e)) return "(measure " + expr(x->qubit.get()) + " " + pos(*e) + ")";
    if (auto x = dynamic_cast<const AssignmentExpression*>(e)) return "(assign " + x->name + " " + expr(x->value.get()) + " " + pos(*e) + ")";
    if (auto x = dynamic_cast<const MemberAssignmentExpression*>(e))
        return "(massign " + expr(x->object.get()) + " " + x->member + " " + expr(x->value.get()) + " " + pos(*e) + ")";
    if (auto x = dynamic_cast<const ArrayAssignmentExpression*>(e))
        return "(aassign " + expr(x->collection.get()) + " " + expr(x->index.get()) + " " + expr(x->value.get()) + " " + pos(*e) + ")";
    return "(expr?)";
}

inline std::string anns(const std::vector<std::unique_ptr<AnnotationNode>>& v) {
    std::string o = "[";
    for (size_t i = 0; i < v.size(); ++i) {
        if (i) o += " ";
        o += "(ann " + v[i]->name + " " + hx(v[i]->value) + " " + b(v[i]->isFunctionAnnotation) + " " + b(v[i]->isVariableAnnotation) + ")";
    }
    return o + "]";
}

inline std::string stmts(const std::vector<std::unique_ptr<Statement>>& v) {
    std::string o = "[";
    for (size_t i = 0; i < v.size(); ++i) { if (i) o += " "; o += stmt(v[i].get()); }
    return o + "]";
}

inline std::string stmt(const Statement* s) {
    if (!s) return "-";
    if (auto x = dynamic_cast<const VariableDeclaration*>(s))
        return "(vardecl " + x->name + " " + type(x->varType.get()) + " " + expr(x->initializer.get()) + " " + anns(x->annotations) + " " +
               b(x->isFinal) + " " + b(x->isTracked) + " " + pos(*s) + ")";
    if (auto x = dynamic_cast<const BlockStatement*>(s)) return "(block " + stmts(x->statements) + " " + pos(*s) + ")";
    if (auto x = dynamic_cast<const ExpressionStatement*>(s)) return "(exprstmt " + expr(x->expression.get()) + ")";
    if (auto x = dynamic_cast<const ReturnStatement*>(s)) return "(return " + expr(x->value.get()) + " " + pos(*s) + ")";
    if (auto x = dynamic_cast<const IfStatement*>(s))
        return "(if " + expr(x->condition.get()) + " " + stmt(x->thenBranch.get()) + " " + stmt(x->elseBranch.get()) + ")";
    if (auto x = dynamic_cast<const ForStatement*>(s))
        return "(for " + stmt(x->initializer.get()) + " " + expr(x->condition.get()) + " " + expr(x->increment.get()) + " " + stmt(x->body.get()) + ")";
    if (auto x = dynamic_cast<const WhileStatement*>(s)) return "(while " + expr(x->condition.get()) + " " + stmt(x->body.get()) + ")";
    if (auto x = dynamic_cast<const EchoStatement*>(s)) return "(echo " + expr(x->value.get()) + " " + pos(*s) + ")";
    if (auto x = dynamic_cast<const ResetStatement*>(s)) return "(reset " + expr(x->target.get()) + " " + pos(*s) + ")";
    if (auto x = dynamic_cast<const MeasureStatement*>(s)) return "(measurestmt " + expr(x->qubit.get()) + " " + pos(*s) + ")";
    if (auto x = dynamic_cast<const DestroyStatement*>(s)) return "(destroy " + expr(x->target.get()) + " " + pos(*s) + ")";
    if (auto x = dynamic_cast<const TernaryStatement*>(s))
        return "(ternary " + expr(x->condition.get()) + " " + stmt(x->thenBranch.get()) + " " + stmt(x->elseBranch.get()) + ")";
    if (auto x = dynamic_cast<const AssignmentStatement*>(s)) return "(assignstmt " + x->name + " " + expr(x->value.get()) + " " + pos(*s) + ")";
    return "(stmt?)";
}

inline std::string params(const std::vector<std::unique_ptr<Parameter>>& v) {
    std::string o = "[";
    for (size_t i = 0; i < v.size(); ++i) {
        if (i) o += " ";
        o += "(param " + v[i]->name + " " + type(v[i]->type.get()) + " " + pos(*v[i]) + ")";
    }
    return o + "]";
}

inline std::string vis(Visibility v) {
    return v == Visibility::Public ? "public" : v == Visibility::Private ? "private" : "protected";
}

inline std::string member(const ClassMember* m) {
    if (auto f = dynamic_cast<const FieldDeclaration*>(m))
        return "(field " + vis(f->visibility) + " " + f->name + " " + type(f->fieldType.get()) + " " + expr(f->initializer.get()) + " " +
               anns(f->annotations) + " " + b(f->isFinal) + " " + b(f->isStatic) + " " + b(f->isTracked) + " " + pos(*m) + ")";
    if (auto f = dynamic_cast<const MethodDeclaration*>(m))
        return "(method " + vis(f->visibility) + " " + f->name + " " + params(f->params) + " " + type(f->returnType.get()) + " " +
               stmt(f->body.get()) + " " + anns(f->annotations) + " " + b(f->hasQuantumAnnotation) + " " + b(f->isStatic) + " " +
               b(f->isVirtual) + " " + b(f->isOverride) + " " + pos(*m) + ")";
    if (auto f = dynamic_cast<const ConstructorDeclaration*>(m))
        return "(ctor " + vis(f->visibility) + " " + params(f->params) + " " + stmt(f->body.get()) + " " + b(f->isDefault) + " " + pos(*m) + ")";
    if (auto f = dynamic_cast<const DestructorDeclaration*>(m))
        return "(dtor " + vis(f->visibility) + " " + stmt(f->body.get()) + " " + b(f->isDefault) + " " + pos(*m) + ")";
    return "(member?)";
}

inline std::string program(const Program& p) {
    std::string o = "(program ";
    o += p.packageDecl ? "(package " + dots(p.packageDecl->nameParts) + " " + pos(*p.packageDecl) + ")" : std::string("-");
    o += " [";
    for (size_t i = 0; i < p.imports.size(); ++i) {
        if (i) o += " ";
        auto& im = *p.imports[i];
        o += "(import " + dots(im.packageParts) + " " + (im.symbol ? *im.symbol : std::string("-")) + " " + b(im.isWildcard) + " " + pos(im) + ")";
    }
    o += "] [";
    for (size_t i = 0; i < p.classes.size(); ++i) {
        if (i) o += " ";
        auto& c = *p.classes[i];
        o += "(class " + c.name + " [";
        for (size_t k = 0; k < c.typeParameters.size(); ++k) {
            if (k) o += " ";
            o += "(tparam " + c.typeParameters[k]->name + " " + type(c.typeParameters[k]->bound.get()) + " " + pos(*c.typeParameters[k]) + ")";
        }
        o += "] " + dots(c.baseName) + " " + type(c.baseType.get()) + " " + b(c.isStatic) + " " + b(c.isAbstract) + " [";
        for (size_t k = 0; k < c.members.size(); ++k) { if (k) o += " "; o += member(c.members[k].get()); }
        o += "] " + pos(c) + ")";
    }
    o += "] [";
    for (size_t i = 0; i < p.functions.size(); ++i) {
        if (i) o += " ";
        auto& f = *p.functions[i];
        o += "(function " + f.name + " " + params(f.params) + " " + type(f.returnType.get()) + " " + stmt(f.body.get()) + " " +
             anns(f.annotations) + " " + b(f.hasQuantumAnnotation) + " " + b(f.hasShotsAnnotation) + " " + pos(f) + ")";
    }
    o += "] " + stmts(p.statements) + ")";
    return o;
}
}  // namespace vdump
