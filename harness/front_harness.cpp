// Correspondence harness for the front end (lexer now; parser/analyser commands added below).
#include "common.hpp"
#include "bloch/compiler/lexer/lexer.hpp"
#include "bloch/compiler/parser/parser.hpp"
#include "ast_dump.hpp"
#include "bloch/compiler/semantics/semantic_analyser.hpp"
#include "bloch/compiler/import/module_loader.hpp"
#include <filesystem>
#include <fstream>
#include <unistd.h>

using namespace bloch::compiler;
using bloch::support::BlochError;
using bloch::support::ErrorCategory;

#define TT(x) case TokenType::x: return #x;
static const char* ttName(TokenType t) {
    switch (t) {
        TT(Identifier) TT(IntegerLiteral) TT(FloatLiteral) TT(LongLiteral) TT(BitLiteral) TT(StringLiteral)
        TT(CharLiteral) TT(True) TT(False) TT(Null) TT(Int) TT(Long) TT(Float) TT(String) TT(Char) TT(Qubit)
        TT(Bit) TT(Boolean) TT(Void) TT(Function) TT(Return) TT(If) TT(Else) TT(For) TT(While) TT(Measure)
        TT(Final) TT(Reset) TT(Default) TT(At) TT(Quantum) TT(Tracked) TT(Shots) TT(Class) TT(Public)
        TT(Private) TT(Protected) TT(Static) TT(Extends) TT(Abstract) TT(Virtual) TT(Override) TT(Super)
        TT(This) TT(Import) TT(Package) TT(New) TT(Constructor) TT(Destructor) TT(Destroy) TT(Equals) TT(Plus)
        TT(PlusPlus) TT(Minus) TT(MinusMinus) TT(Star) TT(Slash) TT(Percent) TT(Greater) TT(GreaterEqual)
        TT(Less) TT(LessEqual) TT(EqualEqual) TT(Bang) TT(BangEqual) TT(Ampersand) TT(AmpersandAmpersand)
        TT(Pipe) TT(PipePipe) TT(Caret) TT(Tilde) TT(Question) TT(Colon) TT(Dot) TT(Semicolon) TT(Comma)
        TT(Arrow) TT(LParen) TT(RParen) TT(LBrace) TT(RBrace) TT(LBracket) TT(RBracket) TT(Echo) TT(Eof)
        TT(Unknown)
        default: return "?";
    }
}

static std::string lexErrKind(const std::string& w) {
    if (w.find("must end with 'f'") != std::string::npos) return "float-no-f";
    if (w.find("bit literals") != std::string::npos) return "bad-bit";
    if (w.find("unterminated string") != std::string::npos) return "unterminated-string";
    if (w.find("unterminated char") != std::string::npos) return "unterminated-char";
    return "other";
}

static const char* catName(ErrorCategory c) {
    switch (c) {
        case ErrorCategory::Lexical: return "Lexical";
        case ErrorCategory::Parse: return "Parse";
        case ErrorCategory::Semantic: return "Semantic";
        case ErrorCategory::Runtime: return "Runtime";
        default: return "Generic";
    }
}

int main() {
    std::ios::sync_with_stdio(false);
    std::string line;
    while (std::getline(std::cin, line)) {
        auto a = vh::split(line);
        std::string out = "bad-op";
        try {
            if (a.size() == 2 && a[0] == "check") {
                // lexer -> parser -> analyser; the analyser instance is shared across all inputs of this
                // process and its verdict is compared with a fresh instance's ("usable for the next program")
                static SemanticAnalyser shared;
                std::string src = a[1] == "-" ? std::string() : vh::unhexBytes(a[1]);
                auto verdict = [&](SemanticAnalyser& an) -> std::string {
                    try {
                        Lexer lx(src);
                        auto toks = lx.tokenize();
                        Parser ps(std::move(toks));
                        auto prog = ps.parse();
                        an.analyse(*prog);
                        return "ok";
                    } catch (const BlochError& e) {
                        return std::string("err ") + catName(e.category) + " " + std::to_string(e.line) + " " + std::to_string(e.column);
                    }
                };
                std::string v1 = verdict(shared);
                SemanticAnalyser fresh;
                std::string v2 = verdict(fresh);
                out = v1 == v2 ? v1 : "REUSE-MISMATCH shared=" + v1 + " fresh=" + v2;
                // the same source through the import loader (as the CLI does), then the analyser
                {
                    static std::string dir = std::string("/tmp/front_scratch_") + std::to_string(getpid());
                    std::filesystem::create_directories(dir);
                    std::string file = dir + "/input.bloch";
                    { std::ofstream f(file, std::ios::binary); f << src; }
                    std::string v3;
                    try {
                        ModuleLoader loader(std::vector<std::string>{});
                        auto prog = loader.load(file);
                        SemanticAnalyser an;
                        an.analyse(*prog);
                        v3 = "ok";
                    } catch (const BlochError& e) {
                        v3 = std::string("err ") + catName(e.category) + " " + std::to_string(e.line) + " " + std::to_string(e.column);
                    }
                    out += " | " + v3;
                    std::filesystem::remove(file);
                }
            } else if (a.size() == 2 && a[0] == "parse") {
                std::string src = a[1] == "-" ? std::string() : vh::unhexBytes(a[1]);
                try {
                    Lexer lx(src);
                    auto toks = lx.tokenize();
                    Parser ps(std::move(toks));
                    auto prog = ps.parse();
                    out = "ok " + vdump::program(*prog);
                } catch (const BlochError& e) {
                    out = std::string("err ") + catName(e.category) + " " + std::to_string(e.line) + " " + std::to_string(e.column);
                }
            } else if (a.size() == 2 && a[0] == "lex") {
                std::string src = a[1] == "-" ? std::string() : vh::unhexBytes(a[1]);
                try {
                    Lexer lx(src);
                    auto toks = lx.tokenize();
                    out = "ok";
                    for (auto& t : toks) {
                        std::string h = vh::hexBytes(t.value);
                        out += std::string(" ") + ttName(t.type) + ":" + (h.empty() ? "-" : h) + ":" +
                               std::to_string(t.line) + ":" + std::to_string(t.column);
                    }
                } catch (const BlochError& e) {
                    if (e.category == ErrorCategory::Lexical)
                        out = "err " + lexErrKind(e.what()) + " " + std::to_string(e.line) + " " + std::to_string(e.column);
                    else
                        out = std::string("err-category ") + catName(e.category);
                }
            }
        } catch (const std::exception& e) {
            out = std::string("exception ") + e.what();
        }
        std::cout << out << "\n" << std::flush;
    }
    return 0;
}
