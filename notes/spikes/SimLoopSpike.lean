/-! Feasibility spike (not framework code): the blocked 2x2 update of
    `QasmSimulator::applySingleQubitGate` equals the per-index formula, for every size/q. -/

def forStep {σ} (stop step : Nat) (body : Nat → σ → σ) (i : Nat) (s : σ) : σ :=
  if _h : i < stop ∧ 0 < step then forStep stop step body (i + step) (body i s) else s
termination_by stop - i
decreasing_by omega

/-- Invariant rule for a loop whose start index is a multiple of `step` and whose bound is too. -/
theorem forStep_mul_inv {σ} (step cnt : Nat) (hstep : 0 < step) (body : Nat → σ → σ)
    (I : Nat → σ → Prop)
    (hI : ∀ t s, t < cnt → I t s → I (t + 1) (body (t * step) s)) :
    ∀ t s, t ≤ cnt → I t s → I cnt (forStep (cnt * step) step body (t * step) s) := by
  intro t s ht
  induction h : cnt - t generalizing t s with
  | zero =>
    intro hi
    have : t = cnt := by omega
    subst this
    rw [forStep, dif_neg (by omega)]; exact hi
  | succ n ih =>
    intro hi
    have hlt : t < cnt := by omega
    have hlt' : t * step < cnt * step := Nat.mul_lt_mul_of_pos_right hlt hstep
    rw [forStep, dif_pos ⟨hlt', hstep⟩]
    have : t * step + step = (t + 1) * step := by rw [Nat.add_mul, Nat.one_mul]
    rw [this]
    exact ih (t + 1) _ (by omega) (by omega) (hI t s hlt hi)

structure Mat2 (K : Type) where
  a : K
  b : K
  c : K
  d : K

section
variable {K : Type} [Add K] [Mul K] [Inhabited K]

def pairUpdate (m : Mat2 K) (step i j : Nat) (st : Array K) : Array K :=
  let idx0 := i + j
  let idx1 := idx0 + step
  let a0 := st[idx0]!
  let a1 := st[idx1]!
  (st.setIfInBounds idx0 (m.a * a0 + m.b * a1)).setIfInBounds idx1 (m.c * a0 + m.d * a1)

def applySingle (arr : Array K) (q : Nat) (m : Mat2 K) : Array K :=
  let step := 2 ^ q
  forStep arr.size (2 * step) (fun i st => forStep step 1 (fun j st => pairUpdate m step i j st) 0 st) 0 arr

/-- The specification, index by index. -/
def gate1 (arr : Array K) (q : Nat) (m : Mat2 K) (k : Nat) : K :=
  if (k / 2 ^ q) % 2 = 1 then m.c * arr[k - 2 ^ q]! + m.d * arr[k]!
  else m.a * arr[k]! + m.b * arr[k + 2 ^ q]!
end

#eval applySingle #[1, 10, 100, 1000, 2, 20, 200, 2000] 1 ⟨1, 0, 0, (3 : Nat)⟩

theorem blk (s t : Nat) : t * (2 * s) = (2 * t) * s := by
  rw [Nat.mul_comm 2 s, ← Nat.mul_assoc, Nat.mul_comm t s, Nat.mul_assoc, Nat.mul_comm s (t*2), Nat.mul_comm t 2]

theorem div_block_lo (s t j : Nat) (hj : j < s) : (t * (2 * s) + j) / s = 2 * t := by
  rw [blk]; generalize 2 * t = u
  apply Nat.div_eq_of_lt_le
  · exact Nat.le_add_right _ _
  · rw [Nat.succ_mul]; omega

theorem div_block_hi (s t j : Nat) (hj : j < s) : (t * (2 * s) + j + s) / s = 2 * t + 1 := by
  rw [blk]; generalize 2 * t = u
  apply Nat.div_eq_of_lt_le
  · rw [Nat.succ_mul]; omega
  · rw [Nat.succ_mul, Nat.succ_mul]; omega

section
variable {K : Type} [Add K] [Mul K] [Inhabited K]

theorem rd_set (a : Array K) (i k : Nat) (v : K) :
    (a.setIfInBounds i v)[k]! = if i = k ∧ i < a.size then v else a[k]! := by
  by_cases h : i = k
  · subst h
    by_cases hb : i < a.size
    · simp [hb]
    · simp [hb, Array.setIfInBounds]
  · simp only [h, false_and, if_false]
    rw [getElem!_def, getElem!_def, Array.getElem?_setIfInBounds_ne h]

/-- cells already rewritten while working on block `t` after `j` inner iterations -/
def done (s t j k : Nat) : Prop :=
  k < t * (2 * s) ∨ (t * (2 * s) ≤ k ∧ k < t * (2 * s) + j) ∨
    (t * (2 * s) + s ≤ k ∧ k < t * (2 * s) + s + j)

instance (s t j k : Nat) : Decidable (done s t j k) := by unfold done; exact inferInstance

def LoopInv (arr : Array K) (q : Nat) (m : Mat2 K) (t j : Nat) (st : Array K) : Prop :=
  st.size = arr.size ∧ ∀ k, k < arr.size →
    st[k]! = if done (2 ^ q) t j k then gate1 arr q m k else arr[k]!

theorem inner_step (arr : Array K) (q : Nat) (m : Mat2 K) (t j : Nat) (st : Array K)
    (hj : j < 2 ^ q) (hblk : t * (2 * 2 ^ q) + 2 * 2 ^ q ≤ arr.size)
    (h : LoopInv arr q m t j st) :
    LoopInv arr q m t (j + 1) (pairUpdate m (2 ^ q) (t * (2 * 2 ^ q)) j st) := by
  obtain ⟨hsz, hval⟩ := h
  have hspos : 0 < 2 ^ q := Nat.two_pow_pos q
  refine ⟨by simp [pairUpdate, hsz], ?_⟩
  intro k hk
  have h0 : st[t * (2 * 2 ^ q) + j]! = arr[t * (2 * 2 ^ q) + j]! := by
    rw [hval _ (by omega), if_neg]; unfold done; omega
  have h1 : st[t * (2 * 2 ^ q) + j + 2 ^ q]! = arr[t * (2 * 2 ^ q) + j + 2 ^ q]! := by
    rw [hval _ (by omega), if_neg]; unfold done; omega
  simp only [pairUpdate]
  rw [rd_set, rd_set, h0, h1, Array.size_setIfInBounds, hsz]
  by_cases e1 : t * (2 * 2 ^ q) + j + 2 ^ q = k
  · rw [if_pos ⟨e1, by omega⟩, if_pos (by unfold done; omega)]
    unfold gate1; rw [← e1, div_block_hi (2 ^ q) t j hj]
    rw [if_pos (by omega)]
    have : t * (2 * 2 ^ q) + j + 2 ^ q - 2 ^ q = t * (2 * 2 ^ q) + j := by omega
    rw [this]
  · rw [if_neg (by intro h; exact e1 h.1)]
    by_cases e0 : t * (2 * 2 ^ q) + j = k
    · rw [if_pos ⟨e0, by omega⟩, if_pos (by unfold done; omega)]
      unfold gate1; rw [← e0, div_block_lo (2 ^ q) t j hj]
      rw [if_neg (by omega)]
    · rw [if_neg (by intro h; exact e0 h.1), hval k hk]
      have : done (2 ^ q) t (j + 1) k ↔ done (2 ^ q) t j k := by unfold done; omega
      by_cases hd : done (2 ^ q) t j k
      · rw [if_pos hd, if_pos (this.mpr hd)]
      · rw [if_neg hd, if_neg (fun h => hd (this.mp h))]

theorem applySingle_eq_gate1 (arr : Array K) (n q : Nat) (m : Mat2 K)
    (hsize : arr.size = 2 ^ n) (hq : q < n) :
    (applySingle arr q m).size = arr.size ∧
    ∀ k, k < arr.size → (applySingle arr q m)[k]! = gate1 arr q m k := by
  -- size = cnt * (2 * 2^q)
  have hcnt : arr.size = 2 ^ (n - q - 1) * (2 * 2 ^ q) := by
    rw [hsize, ← Nat.pow_succ', ← Nat.pow_add]; congr 1; omega
  generalize hc : 2 ^ (n - q - 1) = cnt at hcnt
  have hspos : 0 < 2 ^ q := Nat.two_pow_pos q
  unfold applySingle
  have outer := forStep_mul_inv (2 * 2 ^ q) cnt (by omega)
    (fun i st => forStep (2 ^ q) 1 (fun j st => pairUpdate m (2 ^ q) i j st) 0 st)
    (fun t st => LoopInv arr q m t 0 st)
    (by
      intro t st ht hI
      -- inner loop over j
      have inner := forStep_mul_inv 1 (2 ^ q) (by omega)
        (fun j st => pairUpdate m (2 ^ q) (t * (2 * 2 ^ q)) j st)
        (fun j st => LoopInv arr q m t j st)
        (by
          intro j st' hj hI'
          have hb : t * (2 * 2 ^ q) + 2 * 2 ^ q ≤ arr.size := by
            rw [hcnt]
            have : (t + 1) * (2 * 2 ^ q) ≤ cnt * (2 * 2 ^ q) := Nat.mul_le_mul_right _ (by omega)
            rw [Nat.succ_mul] at this; exact this
          simpa using inner_step arr q m t j st' hj hb hI')
        0 st (by omega) hI
      simp only [Nat.mul_one, Nat.zero_mul] at inner
      -- LoopInv t (2^q) = LoopInv (t+1) 0
      obtain ⟨hsz, hv⟩ := inner
      refine ⟨hsz, ?_⟩
      intro k hk
      rw [hv k hk]
      have : done (2 ^ q) t (2 ^ q) k ↔ done (2 ^ q) (t + 1) 0 k := by
        have e : (t + 1) * (2 * 2 ^ q) = t * (2 * 2 ^ q) + 2 * 2 ^ q := Nat.succ_mul _ _
        unfold done; rw [e]; omega
      by_cases hd : done (2 ^ q) t (2 ^ q) k
      · rw [if_pos hd, if_pos (this.mp hd)]
      · rw [if_neg hd, if_neg (fun h => hd (this.mpr h))])
    0 arr (by omega)
    (by
      refine ⟨rfl, ?_⟩
      intro k hk; rw [if_neg]; unfold done; omega)
  simp only [Nat.zero_mul] at outer
  rw [← hcnt] at outer
  obtain ⟨hsz, hv⟩ := outer
  refine ⟨hsz, ?_⟩
  intro k hk
  rw [hv k hk, if_pos]
  unfold done; left; rw [← hcnt]; exact hk
end

#print axioms applySingle_eq_gate1
