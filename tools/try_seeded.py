#!/usr/bin/env python3
"""Apply a seeded change to /repo, run the named checks (quick tier), undo the change.
usage: try_seeded.py <dir-with-patch.diff> <ID> [<ID> ...]"""
import os
import subprocess
import sys

VERIF = os.path.dirname(os.path.dirname(os.path.abspath(__file__)))


def main():
    d = sys.argv[1]
    ids = sys.argv[2:]
    patch = os.path.join(d, "patch.diff")
    st = subprocess.run(["git", "-C", "/repo", "status", "--porcelain", "--untracked-files=no"], capture_output=True, text=True).stdout
    if st.strip():
        print("refusing: /repo has local modifications"); return 2
    r = subprocess.run(["git", "-C", "/repo", "apply", patch], capture_output=True, text=True)
    if r.returncode != 0:
        print("patch does not apply:", r.stderr[:500]); return 2
    try:
        for pid in ids:
            r = subprocess.run([sys.executable, os.path.join(VERIF, "tools", "check.py"), pid, "--tier", os.environ.get("VERIF_TIER", "quick")],
                               cwd=VERIF, capture_output=True, text=True)
            hit = [l for l in r.stdout.splitlines() if l.startswith("VIOLATION")]
            print("%s: exit %d %s" % (pid, r.returncode, "DETECTED" if hit else "missed"))
            for l in r.stdout.splitlines()[-4:]:
                print("    " + l[:300])
    finally:
        subprocess.run(["git", "-C", "/repo", "checkout", "--", "."])
    return 0


if __name__ == "__main__":
    sys.exit(main())
