#!/usr/bin/env python3
"""Apply a seeded change to /repo, run the named checks (quick tier), undo the change.
usage: try_seeded.py <dir-with-patch.diff> <ID> [<ID> ...]"""
import os
import subprocess
import sys

VERIF = os.path.dirname(os.path.dirname(os.path.abspath(__file__)))


def main():
    d = sys.argv[1]
    ids = sys.argv[2:]
    patch = os.path.join(d, "patch.diff")
    st = subprocess.run(["git", "-C", "/repo", "status", "--porcelain", "--untracked-files=no"], capture_output=True, text=True).stdout
    if st.strip():
        print("refusing: /repo has local modifications"); return 2
    r = subprocess.run(["git", "-C", "/repo", "apply", patch], capture_output=True, text=True)
    if r.returncode != 0:
        print("patch does not apply:", r.stderr[:500]); return 2
    try:
        for pid in ids:
            r = subprocess.run([sys.executable, os.path.join(VERIF, "tools", "check.py"), pid, "--tier", os.environ.get("VERIF_TIER", "quick")],
                               cwd=VERIF, capture_output=True, text=True)
            hit = [l for l in r.stdout.splitlines() if l.startswith("VIOLATION")]
            print("%s: exit %d %s" % (pid, r.returncode, "DETECTED" if hit else "missed"))
            try:
                import json
                mp = os.path.join(d, "meta.json")
                meta = json.load(open(mp))
                if not isinstance(meta.get("detected_by"), dict):
                    meta["detected_by_note"] = meta.pop("detected_by", None)
                meta.setdefault("detected_by", {})[pid] = {"detected": bool(hit), "tier": os.environ.get("VERIF_TIER", "quick"),
                                                            "line": (hit[0] if hit else r.stdout.splitlines()[-1] if r.stdout else "")[:300]}
                json.dump(meta, open(mp, "w"), indent=1)
            except Exception as ex:      # recording is best-effort
                print("    (meta.json not updated: %s)" % ex)
            for l in r.stdout.splitlines()[-4:]:
                print("    " + l[:300])
    finally:
        subprocess.run(["git", "-C", "/repo", "checkout", "--", "."])
    return 0


if __name__ == "__main__":
    sys.exit(main())
