"""Random statement trees over the all-int fragment of Sem.Scope, rendered as Bloch source and as the prefix code of the Lean
`scope` command.  Trees are built so that most are well scoped, with a controlled rate of single injected violations (write to a
final, use before/without declaration, redeclaration in an active scope, final without initialiser) at a random position:
statement, nested expression, for-header clause, ternary branch, inner block."""

NAMES = ["a", "b", "c", "d", "e", "f"]


class Gen:
    def __init__(self, rng, violation_rate=0.5):
        self.r = rng
        self.inject = rng.random() < violation_rate
        self.injected = None

    # scopes: list of dicts name -> isFinal (innermost last)
    def visible(self, scopes):
        out = {}
        for sc in scopes:
            out.update(sc)
        return out

    def expr(self, scopes, depth, allow_write=True, top=True):
        """`top`: the expression is a whole initialiser / argument / statement (assignment expressions are typed only there
        and as the right-hand side of another assignment; under an operator they are rejected by the typing rules)"""
        r = self.r
        vis = self.visible(scopes)
        k = r.random()
        if depth <= 0 or k < 0.3:
            if vis and r.random() < 0.7:
                n = r.choice(sorted(vis))
                if self.inject and self.injected is None and r.random() < 0.08:
                    und = [x for x in NAMES if x not in vis]
                    if und:
                        self.injected = "undeclared"
                        return ("v", r.choice(und))
                return ("v", n)
            return ("lit",)
        if k < 0.5:
            return ("bin", self.expr(scopes, depth - 1, allow_write, False), self.expr(scopes, depth - 1, allow_write, False))
        if k < 0.6:
            # rendered as a cast half of the time; an assignment expression is typed directly under a cast
            return ("un", self.expr(scopes, depth - 1, allow_write, self.r.random() < 0.5), self.r.random() < 0.5)
        writable = [n for n, f in vis.items() if not f]
        finals = [n for n, f in vis.items() if f]
        if allow_write and self.inject and self.injected is None and finals and r.random() < 0.3:
            self.injected = "final-write"
            n = r.choice(finals)
            return ("pp", n) if (not top or r.random() < 0.4) else ("as", n, self.expr(scopes, depth - 1, allow_write, True))
        if allow_write and writable:
            n = r.choice(sorted(writable))
            return ("pp", n) if (not top or r.random() < 0.4) else ("as", n, self.expr(scopes, depth - 1, allow_write, True))
        return ("lit",)

    def stmt(self, scopes, depth):
        r = self.r
        vis = self.visible(scopes)
        k = r.random()
        free = [n for n in NAMES if n not in vis]
        if k < 0.28 or not vis:
            # declaration
            if self.inject and self.injected is None and vis and r.random() < 0.15:
                self.injected = "redeclared"
                n = r.choice(sorted(vis))
                return ("decl", 0, n, self.expr(scopes, 1))
            if not free:
                return ("ex", self.expr(scopes, 2))
            n = r.choice(free)
            fin = 1 if r.random() < 0.35 else 0
            if fin and self.inject and self.injected is None and r.random() < 0.1:
                self.injected = "final-no-init"
                scopes[-1][n] = True
                return ("decl", 1, n, None)
            if self.inject and self.injected is None and r.random() < 0.06:
                self.injected = "undeclared"          # use in its own initialiser
                return ("decl", fin, n, ("bin", ("v", n), ("lit",)))
            init = self.expr(scopes, 2) if (fin or r.random() < 0.8) else None
            scopes[-1][n] = bool(fin)
            return ("decl", fin, n, init)
        if k < 0.42:
            writable = [n for n, f in vis.items() if not f]
            finals = [n for n, f in vis.items() if f]
            if self.inject and self.injected is None and finals and r.random() < 0.4:
                self.injected = "final-write"
                return ("asg", r.choice(finals), self.expr(scopes, 2))
            if writable:
                return ("asg", r.choice(sorted(writable)), self.expr(scopes, 2))
            return ("ex", self.expr(scopes, 2))
        if k < 0.5:
            if r.random() < 0.35:
                # an element store `ra[i] = e;` — arrays are values, so it writes the variable: refused for the final array `rf`
                arr = "ra"
                if self.inject and self.injected is None and r.random() < 0.3:
                    self.injected = "final-write"
                    arr = "rf"
                return ("ex", ("st", arr, self.expr(scopes, 1, True, True), self.expr(scopes, 1, True, True)))
            return ("ex", self.expr(scopes, 2))
        if k < 0.58:
            return ("echo", self.expr(scopes, 2))
        if depth <= 0:
            return ("ex", self.expr(scopes, 1))
        if k < 0.68:
            return ("scope", self.block(scopes + [{}], depth - 1))
        if k < 0.78:
            return ("if", self.expr(scopes, 1, False), ("scope", self.block(scopes + [{}], depth - 1)),
                    ("scope", self.block(scopes + [{}], depth - 1)) if r.random() < 0.5 else ("skip",))
        if k < 0.86:
            return ("wh", self.expr(scopes, 1, False), ("scope", self.block(scopes + [{}], depth - 1)))
        if k < 0.95:
            inner = scopes + [{}]
            free2 = [n for n in NAMES if n not in self.visible(inner)]
            if free2:
                n = r.choice(free2)
                inner[-1][n] = False
                init = ("decl", 0, n, self.expr(scopes, 1))
            else:
                init = ("skip",)
            cond = self.expr(inner, 1, False)
            inc = self.expr(inner, 1, True)
            if r.random() < 0.15:
                arr = "ra"
                if self.inject and self.injected is None and r.random() < 0.3:
                    self.injected = "final-write"
                    arr = "rf"
                inc = ("st", arr, self.expr(inner, 1, False), self.expr(inner, 1, False))
            return ("for", init, cond, inc, ("scope", self.block(inner + [{}], depth - 1)))
        # ternary statement: branches are single simple statements
        vis2 = self.visible(scopes)
        writable = [n for n, f in vis2.items() if not f]
        finals = [n for n, f in vis2.items() if f]

        def simple():
            if self.inject and self.injected is None and finals and r.random() < 0.3:
                self.injected = "final-write"
                return ("asg", r.choice(finals), self.expr(scopes, 1))
            if writable and r.random() < 0.6:
                return ("asg", r.choice(sorted(writable)), self.expr(scopes, 1))
            return ("echo", self.expr(scopes, 1))
        return ("tern", self.expr(scopes, 1, False), simple(), simple())

    def block(self, scopes, depth):
        n = self.r.randrange(1, 5)
        out = ("skip",)
        stmts = [self.stmt(scopes, depth) for _ in range(n)]
        for s in reversed(stmts):
            out = ("seq", s, out)
        return out

    def program(self):
        scopes = [{}]
        body = self.block(scopes, 3)
        # two arrays every program can store into: `ra` and the final `rf` (never named by the random part)
        return ("seq", ("decl", 0, "ra", ("lit",)), ("seq", ("decl", 1, "rf", ("lit",)), body))


def code(t):
    """prefix tokens for the Lean `scope` command"""
    k = t[0]
    if k in ("skip", "lit"):
        return [k]
    if k in ("v", "pp"):
        return [k, t[1]]
    if k == "as":
        return ["as", t[1]] + code(t[2])
    if k == "un":
        return ["un"] + code(t[1])
    if k == "st":
        return ["st", t[1]] + code(t[2]) + code(t[3])
    if k == "bin":
        return ["bin"] + code(t[1]) + code(t[2])
    if k == "seq":
        return ["seq"] + code(t[1]) + code(t[2])
    if k == "scope":
        return ["scope"] + code(t[1])
    if k == "decl":
        return ["decl", str(t[1]), t[2]] + (code(t[3]) if t[3] is not None else ["-"])
    if k == "asg":
        return ["asg", t[1]] + code(t[2])
    if k in ("ex", "echo", "ret"):
        return [k] + code(t[1])
    if k == "if":
        return ["if"] + code(t[1]) + code(t[2]) + code(t[3])
    if k == "wh":
        return ["wh"] + code(t[1]) + code(t[2])
    if k == "for":
        return ["for"] + code(t[1]) + code(t[2]) + code(t[3]) + code(t[4])
    if k == "tern":
        return ["tern"] + code(t[1]) + code(t[2]) + code(t[3])
    raise ValueError(t)


def rex(t):
    k = t[0]
    if k == "lit":
        return "1"
    if k == "v":
        return t[1]
    if k == "pp":
        return "%s++" % t[1]
    if k == "as":
        return "(%s = %s)" % (t[1], rex(t[2]))
    if k == "st":
        return "(%s[%s] = %s)" % (t[1], rex(t[2]), rex(t[3]))
    if k == "un":
        if (len(t) > 2 and t[2]) or t[1][0] == "as":
            return "((int) %s)" % rex(t[1])
        return "(-%s)" % rex(t[1])
    if k == "bin":
        return "(%s + %s)" % (rex(t[1]), rex(t[2]))
    raise ValueError(t)


def rst(t, ind="    "):
    k = t[0]
    if k == "skip":
        return ""
    if k == "seq":
        return rst(t[1], ind) + rst(t[2], ind)
    if k == "scope":
        return ind + "{\n" + rst(t[1], ind + "    ") + ind + "}\n"
    if k == "decl":
        if t[2] in ("ra", "rf"):
            return ind + "%sint[] %s = {1, 2, 3};\n" % ("final " if t[1] else "", t[2])
        return ind + "%sint %s%s;\n" % ("final " if t[1] else "", t[2], (" = " + rex(t[3])) if t[3] is not None else "")
    if k == "asg":
        return ind + "%s = %s;\n" % (t[1], rex(t[2]))
    if k == "ex":
        e = rex(t[1])
        # an expression statement must be a call, assignment or ++; others are wrapped in an echo-free use
        if t[1][0] in ("as", "pp", "st"):
            return ind + (e[1:-1] if t[1][0] in ("as", "st") else e) + ";\n"
        return ind + "sink(%s);\n" % e
    if k == "echo":
        return ind + "echo(%s);\n" % rex(t[1])
    if k == "if":
        s = ind + "if (%s > 0) \n" % rex(t[1]) + rst(t[2], ind)
        if t[3][0] != "skip":
            s += ind + "else\n" + rst(t[3], ind)
        return s
    if k == "wh":
        return ind + "while (%s > 1000)\n" % rex(t[1]) + rst(t[2], ind)
    if k == "for":
        init = rst(t[1], "").strip() if t[1][0] != "skip" else ";"
        inc = rex(t[3])
        if t[3][0] in ("as", "st"):
            inc = inc[1:-1]
        return ind + "for (%s %s > 1000; %s)\n" % (init, rex(t[2]), inc) + rst(t[4], ind)
    if k == "tern":
        return ind + "%s > 0 ? %s : %s\n" % (rex(t[1]), rst(t[2], "").strip(), rst(t[3], "").strip())
    raise ValueError(t)


def source(t):
    return "function sink(int v) -> void { }\nfunction main() -> void {\n" + rst(t) + "}\n"
