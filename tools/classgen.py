"""Generator of class programs together with the trace the documented object model
(docs/bloch_class_system.md) prescribes for them.

A program is built from a small structured description — a linear hierarchy C0 <- C1 <- ... with per-class
override patterns, an overload set in a helper class, static counters, destructors — and a list of actions in
main.  The expected echo trace is computed from the *rules* (base-first construction: base constructor, then the
class's field initialisers, then its body; virtual dispatch to the most-derived override; super.m() runs the base
version; overloads chosen from the static argument types; one static slot per class; derived-first destruction when
the last reference disappears), not by interpreting the program text."""


class ClassProgram:
    def __init__(self, rng, depth=None, with_qubits=False, with_cycles=False, churn=False):
        self.rng = rng
        self.depth = depth if depth is not None else rng.randrange(1, 4)       # number of classes in the chain
        self.with_qubits = with_qubits
        self.with_cycles = with_cycles
        self.churn = churn
        r = rng
        # per class: does it override who()? does its who() call super.who()? field initial value; has destructor
        self.cls = []
        for i in range(self.depth):
            self.cls.append({
                "name": "C%d" % i,
                "overrides": i == 0 or r.random() < 0.6,
                "calls_super": i > 0 and r.random() < 0.5,
                "field": r.randrange(1, 9),
                "dtor": r.random() < 0.7,
                "extra_overload": r.random() < 0.4,
            })
        self.decls = []          # top-level declarations (strings), permutable
        self.main = []           # statements of main
        self.expected = []       # expected echo lines
        self.static_count = [0] * self.depth
        self.actions = []        # the same main as action codes of the Lean object model (Driver.ObjCmd)
        self.known_overload_case = False
        self._build_classes()
        self._build_main()

    # ------------------------------------------------------------------ classes
    def _who_impl_class(self, dyn):
        """index of the class whose who() runs for dynamic class `dyn`"""
        i = dyn
        while not self.cls[i]["overrides"]:
            i -= 1
        return i

    def _who_trace(self, impl):
        """lines printed by C<impl>.who()"""
        out = ["C%d.who" % impl]
        if self.cls[impl]["calls_super"]:
            out += self._who_trace(self._who_impl_class(impl - 1))
        return out

    def _build_classes(self):
        for i, c in enumerate(self.cls):
            name = c["name"]
            base = self.cls[i - 1]["name"] if i > 0 else None
            members = []
            members.append("    public int f%d = tick(\"init f%d\", %d);" % (i, i, c["field"]))
            members.append("    public int h%d = tick(\"init h%d\", %d);" % (i, i, i))
            members.append("    public static int made = 0;")
            if i == 0:
                members.append("    public static int root = %d;" % (40 + c["field"]))
            if self.with_qubits and i == self.depth - 1:
                members.append("    @tracked public qubit q;")
            if self.with_cycles and i == 0:
                members.append("    public C0 peer;")
            sup = "super(a + 1); " if base else ""
            members.append("    public constructor(int a) -> %s { %secho(\"ctor %s \" + a + \" \" + f%d); %s.made = %s.made + 1; return this; }"
                           % (name, sup, name, i, name, name))
            if c["overrides"]:
                kw = "virtual" if i == 0 else "virtual override" if i < self.depth - 1 else "override"
                body = "echo(\"%s.who\");" % name
                if c["calls_super"]:
                    body += " super.who();"
                members.append("    public %s function who() -> void { %s }" % (kw, body))
            if i == 0:
                members.append("    public function call() -> void { echo(\"call\"); who(); }")
                members.append("    public function getf() -> int { return f0; }")
                members.append("    public function bump() -> int { made = made + 100; return made; }")
            if c["dtor"]:
                members.append("    public destructor() -> void { echo(\"dtor %s\"); }" % name)
            elif self.rng.random() < 0.4:
                members.append("    public destructor() -> void = default;")
            hdr = "class %s%s {" % (name, (" extends " + base) if base else "")
            self.decls.append(hdr + "\n" + "\n".join(members) + "\n}")
        # overload helper: resolved from the static argument types
        self.decls.append("function tick(string s, int v) -> int { echo(s); return v; }")
        k = ["class K {", "    public constructor() -> K = default;",
             "    public function g(int v) -> string { return \"g(int)\"; }",
             "    public function g(float v) -> string { return \"g(float)\"; }",
             "    public function g(string v) -> string { return \"g(string)\"; }",
             "    public function g(C0 v) -> string { return \"g(C0)\"; }"]
        if self.depth > 1:
            k.append("    public function g(C%d v) -> string { return \"g(C%d)\"; }" % (self.depth - 1, self.depth - 1))
        k.append("}")
        self.decls.append("\n".join(k))
        # a static initialiser that constructs an object of another top-level class (declared before or after)
        self.static_new = self.rng.random() < 0.5
        if self.static_new:
            self.sn_val = self.rng.randrange(1, 50)
            self.decls.append("class Reg { public static Item first = new Item(%d); public constructor() -> Reg = default; public static function get() -> int { return first.v * 2; } }" % self.sn_val)
            self.decls.append("class Item { public int v; public constructor(int v) -> Item { this.v = v; return this; } }")
        if self.churn:
            self.decls.append("class Junk { public int v; public Junk other; public constructor(int v) -> Junk { this.v = v; return this; } }")
            self.decls.append("function churn(int n) -> int { int i = 0; while (i < n) { Junk a = new Junk(i); Junk b = new Junk(i + 1); "
                              "a.other = b; b.other = a; i = i + 1; } return n; }")

    # ------------------------------------------------------------------ expected traces
    def _ctor_trace(self, dyn, a):
        """new C<dyn>(a): base constructor first (with a+1), then this class's initialisers, then its body"""
        out = []
        if dyn > 0:
            out += self._ctor_trace(dyn - 1, a + 1)
        out.append("init f%d" % dyn)
        out.append("init h%d" % dyn)
        out.append("ctor C%d %d %d" % (dyn, a, self.cls[dyn]["field"]))
        self.static_count[dyn] += 1
        return out

    def _dtor_trace(self, dyn):
        return ["dtor C%d" % i for i in range(dyn, -1, -1) if self.cls[i]["dtor"]]

    # ------------------------------------------------------------------ main
    def _build_main(self):
        r = self.rng
        m, e = self.main, self.expected
        m.append("K k = new K();")
        if self.static_new:
            m.append("echo(Reg.get());")
            e.append("%d" % (2 * self.sn_val))
        nobj = r.randrange(1, 4)
        for j in range(nobj):
            dyn = r.randrange(self.depth)
            stat = r.randrange(dyn + 1) if r.random() < 0.5 else dyn        # declared (static) class <= dynamic class
            a = r.randrange(0, 5)
            v = "o%d" % j
            m.append("{")
            if self.churn and r.random() < 0.6:
                # an object held only by a pending argument while a later argument allocates heavily
                m.append("echo(k.g(%d) + churn(%d));" % (a, r.choice([20, 40])))
                e.append("g(int)%d" % 0 if False else "g(int)" + str(0))          # placeholder, fixed below
                e.pop()
                n = int(m[-1].split("churn(")[1].split(")")[0])
                e.append("g(int)%d" % n)
                self.actions.append("ch,%d,%d" % (a, n))
            m.append("C%d %s = new C%d(%d);" % (stat, v, dyn, a))
            e += self._ctor_trace(dyn, a)
            self.actions.append("n,%d,%d,%d,%d" % (j, stat, dyn, a))
            for _ in range(r.randrange(1, 4)):
                act = r.random()
                if act < 0.35:
                    m.append("%s.who();" % v)
                    e += self._who_trace(self._who_impl_class(dyn))
                    self.actions.append("w,%d" % j)
                elif act < 0.55:
                    m.append("%s.call();" % v)
                    e.append("call")
                    e += self._who_trace(self._who_impl_class(dyn))
                    self.actions.append("c,%d" % j)
                elif act < 0.7:
                    m.append("echo(%s.getf());" % v)
                    e.append(str(self.cls[0]["field"]))
                    self.actions.append("f,%d" % j)
                elif act < 0.72:
                    # a static of C0 read through an instance (declared and dynamic class anywhere in the chain)
                    m.append("echo(%s.root);" % v)
                    e.append(str(40 + self.cls[0]["field"]))
                    self.actions.append("rs,%d" % j)
                elif act < 0.78:
                    # unqualified static in a base method names the base's slot, whatever the receiver's class
                    m.append("echo(%s.bump());" % v)
                    self.static_count[0] += 100
                    e.append(str(self.static_count[0]))
                    self.actions.append("b,%d" % j)
                elif act < 0.88:
                    arg = r.choice(["1", "2.5f", "\"s\"", v])
                    if arg == v:
                        # resolved from the STATIC type of the argument
                        if stat != dyn and self.depth > 1 and dyn == self.depth - 1 and stat != self.depth - 1:
                            # static C<stat>, dynamic most-derived: the implementation picks g(C<depth-1>) (known finding)
                            self.known_overload_case = True
                            continue
                        exp = "g(C%d)" % (self.depth - 1) if (stat == self.depth - 1 and self.depth > 1) else "g(C0)"
                    else:
                        exp = {"1": "g(int)", "2.5f": "g(float)", "\"s\"": "g(string)"}[arg]
                    m.append("echo(k.g(%s));" % arg)
                    e.append(exp)
                    self.actions.append({"1": "g,i", "2.5f": "g,f", "\"s\"": "g,s"}.get(arg, "g,o,%d" % stat))
                else:
                    if self.churn:
                        m.append("echo(churn(%d));" % 30)
                        e.append("30")
                        self.actions.append("ec,30")
            self.actions.append("d,%d" % j)
            if r.random() < 0.5:
                m.append("destroy %s;" % v)
                e += self._dtor_trace(dyn)
                m.append("}")
            else:
                m.append("}")
                e += self._dtor_trace(dyn)
        # statics: one slot per class, counting constructions of that class and of its subclasses
        for i in range(self.depth):
            m.append("echo(\"made C%d \" + C%d.made);" % (i, i))
            e.append("made C%d %d" % (i, self.static_count[i]))

    def source(self, order=None):
        decls = list(self.decls)
        main = "function main() -> void {\n    " + "\n    ".join(self.main) + "\n}"
        parts = decls + [main]
        if order is not None:
            parts = [parts[i] for i in order]
        return "\n".join(parts)

    def model_line(self):
        hier = ";".join("%d,%d,%d,%d" % (1 if (c["overrides"] or i == 0) else 0, 1 if c["calls_super"] else 0, c["field"], 1 if c["dtor"] else 0)
                        for i, c in enumerate(self.cls))
        pre = ["ec,%d" % (2 * self.sn_val)] if self.static_new else []
        return "obj %s %s" % (hier, ";".join(pre + self.actions) if (pre + self.actions) else "-")

    def n_decls(self):
        return len(self.decls) + 1
