#!/usr/bin/env python3
"""Copy the output of one sub-agent round (/tmp/mut_out/<round>/<PROP>_<n>/) into /verif/seeded/<PROP>_<round><n>/ with a
meta.json (property, origin, demo command, the agent's README as summary).  usage: import_seeded.py <round> [<round> ...]"""
import json
import os
import shutil
import sys

ROOT = os.path.dirname(os.path.dirname(os.path.abspath(__file__)))
for rnd in sys.argv[1:]:
    src = "/tmp/mut_out/" + rnd
    for name in sorted(os.listdir(src)):
        d = os.path.join(src, name)
        if not os.path.isdir(d) or not os.path.exists(os.path.join(d, "patch.diff")):
            continue
        prop, n = name.split("_")
        dst = os.path.join(ROOT, "seeded", "%s_%s%s" % (prop, rnd, n))
        if os.path.exists(dst):
            shutil.rmtree(dst)
        shutil.copytree(d, dst, ignore=shutil.ignore_patterns("*.qasm", "_build", "*.o", "demo_bin", "a.out"))
        args = ""
        if os.path.exists(os.path.join(d, "demo_args.txt")):
            args = open(os.path.join(d, "demo_args.txt")).read().strip()
        readme = open(os.path.join(d, "README.md")).read() if os.path.exists(os.path.join(d, "README.md")) else ""
        meta = {"property": prop, "origin": "fresh sub-agent given only the property text and a scratch worktree",
                "demo": "bloch demo.bloch " + args, "summary": readme}
        json.dump(meta, open(os.path.join(dst, "meta.json"), "w"), indent=1)
        print("imported", dst)
