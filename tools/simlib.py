"""Simulator histories: generators, paired execution (real QasmSimulator vs Lean model), and an
independent textbook oracle (pure Python complex arithmetic, bit-indexed)."""
import cmath
import math

from framework import hex64, unhex64, run_lines, driver
import buildlib

GATES1 = ["h", "x", "y", "z"]
ROTS = ["rx", "ry", "rz"]
TOL = 1e-9


def harness():
    return buildlib.build_harness("sim_harness")


# ------------------------------------------------------------------ generators
def angle(rng):
    k = rng.randrange(6)
    if k == 0:
        return rng.randrange(-4096, 4096) / 1024.0          # prints exactly in six decimals
    if k == 1:
        return math.pi * rng.choice([0.25, 0.5, 1, 1.5, 2, -0.5, -1, 1 / 3])
    if k == 2:
        # includes rotations whose small amplitudes are far above the comparison tolerance (1e-9) yet tiny: 1e-4 .. 2e-8
        return rng.choice([0.0, -0.0, 1e-9, 2 * math.pi, 4 * math.pi, 1e3, 1e-4, -1e-5, 1.9e-6, 1e-6, -3e-7, 1e-7, 4e-8,
                           math.pi - 1.9e-6, math.pi + 3e-7, -math.pi + 1e-5, 2 * math.pi - 1e-6])
    return rng.uniform(-7, 7)


def draw(rng, adversarial=True):
    if adversarial and rng.random() < 0.25:
        return rng.choice([0.0, 0.5, 1 - 2 ** -53, 0.25, 0.75, 2 ** -60])
    return rng.random()


def random_history(rng, max_n=5, length=40, p_measure=0.12, p_reset=0.08, p_alloc=0.1, start_n=None,
                   errors=True):
    """A history as protocol lines (without 'sim ' prefix applied later). State after every op."""
    n = start_n if start_n is not None else rng.randrange(1, max_n + 1)
    ops = ["new 1"] + ["alloc"] * n
    for _ in range(length):
        u = rng.random()
        if u < p_alloc and n < max_n:
            ops.append("alloc")
            n += 1
            continue
        q = rng.randrange(n)
        if errors and rng.random() < 0.02:
            q = rng.choice([n, n + 3, -1])
        if u < p_alloc + p_measure:
            ops.append("measure %d %s" % (q, hex64(draw(rng))))
        elif u < p_alloc + p_measure + p_reset:
            ops.append("reset %d %s" % (q, hex64(draw(rng))))
        else:
            g = rng.choice(GATES1 + ROTS + ["cx", "cx"])
            if g in GATES1:
                ops.append("%s %d" % (g, q))
            elif g in ROTS:
                ops.append("%s %d %s" % (g, q, hex64(angle(rng))))
            else:
                t = rng.randrange(n)
                if t == q and not (errors and rng.random() < 0.1):
                    t = (q + 1) % n if n > 1 else q
                ops.append("cx %d %d" % (q, t))
    return ops


def preparations(n, rng):
    """Gate lists preparing: every basis state, and three entangled states."""
    preps = []
    for b in range(2 ** n):
        preps.append(("basis%d" % b, ["x %d" % k for k in range(n) if (b >> k) & 1]))
    if n >= 2:
        preps.append(("ghz", ["h 0"] + ["cx 0 %d" % k for k in range(1, n)]))
        preps.append(("rot", ["ry %d %s" % (k, hex64(0.3 + 0.7 * k)) for k in range(n)] +
                      ["cx %d %d" % (k, (k + 1) % n) for k in range(n - 1)] +
                      ["rz %d %s" % (k, hex64(1.1 * k - 0.4)) for k in range(n)]))
        preps.append(("hx", ["h %d" % k for k in range(n)] + ["rx 0 %s" % hex64(0.77), "cx 0 %d" % (n - 1)]))
    else:
        preps.append(("plus", ["h 0"]))
        preps.append(("rot", ["ry 0 %s" % hex64(0.9), "rz 0 %s" % hex64(-2.2)]))
    return preps


def systematic_gate_cases(nmax, rng):
    """For every n ≤ nmax: every preparation × every gate on every q / ordered (c,t)."""
    for n in range(1, nmax + 1):
        for pname, prep in preparations(n, rng):
            base = ["new 1"] + ["alloc"] * n + prep
            gates = []
            for q in range(n):
                gates += ["%s %d" % (g, q) for g in GATES1]
                gates += ["%s %d %s" % (g, q, hex64(angle(rng))) for g in ROTS]
            for c in range(n):
                for t in range(n):
                    if c != t:
                        gates.append("cx %d %d" % (c, t))
            # one history per preparation: apply each gate to the prepared state by re-preparing
            for g in gates:
                yield (n, pname, base + [g])


def with_state(ops):
    """Interleave a `state` query after every op; returns protocol lines."""
    out = []
    for o in ops:
        out.append("sim " + o)
        if not o.startswith("new"):
            out.append("sim state")
    return out


# ------------------------------------------------------------------ parsing and comparison
def parse_state(line):
    p = line.split()
    if not p or p[0] != "state":
        return None
    n, size = int(p[1]), int(p[2])
    vals = [unhex64(x) for x in p[3:]]
    if len(vals) != 2 * size:
        return None
    return n, [complex(vals[2 * i], vals[2 * i + 1]) for i in range(size)]


def states_close(a, b, tol=TOL):
    if a is None or b is None:
        return False
    if a[0] != b[0] or len(a[1]) != len(b[1]):
        return False
    for x, y in zip(a[1], b[1]):
        if not (abs(x.real - y.real) <= tol and abs(x.imag - y.imag) <= tol):  # NaN-safe
            return False
    return True


def compare_streams(lines, impl, model, stats):
    """First index where impl and model replies differ (state lines with tolerance)."""
    if len(impl) != len(lines) or len(model) != len(lines):
        return min(len(impl), len(model)), "length impl=%d model=%d expected=%d" % (len(impl), len(model), len(lines))
    for i, (a, b) in enumerate(zip(impl, model)):
        if a == b:
            stats["bit_exact"] = stats.get("bit_exact", 0) + 1
            continue
        if a.startswith("state") and b.startswith("state"):
            if states_close(parse_state(a), parse_state(b)):
                stats["within_tol"] = stats.get("within_tol", 0) + 1
                continue
        return i, "impl=%s model=%s" % (a[:200], b[:200])
    return None, ""


def run_pair(lines):
    impl, rc, err = run_lines(harness(), lines)
    model, rc2, err2 = driver(lines)
    return impl, model, (rc, err[-500:], rc2, err2[-500:])


# ------------------------------------------------------------------ textbook oracle
S2 = 1 / math.sqrt(2.0)


def matrix_of(op, t=None):
    if op == "h":
        return [[S2, S2], [S2, -S2]]
    if op == "x":
        return [[0, 1], [1, 0]]
    if op == "y":
        return [[0, -1j], [1j, 0]]
    if op == "z":
        return [[1, 0], [0, -1]]
    c, s = math.cos(t / 2), math.sin(t / 2)
    if op == "rx":
        return [[c, -1j * s], [-1j * s, c]]        # exp(-i t X / 2)
    if op == "ry":
        return [[c, -s], [s, c]]                   # exp(-i t Y / 2)
    if op == "rz":
        return [[cmath.exp(-0.5j * t), 0], [0, cmath.exp(0.5j * t)]]   # exp(-i t Z / 2)
    raise ValueError(op)


def apply_unitary(psi, q, m):
    """(I ⊗ … ⊗ M_q ⊗ … ⊗ I) ψ, written from the tensor-product definition per basis index."""
    out = [0j] * len(psi)
    for i, a in enumerate(psi):
        if a == 0:
            continue
        b = (i >> q) & 1
        i0 = i & ~(1 << q)
        out[i0] += m[0][b] * a
        out[i0 | (1 << q)] += m[1][b] * a
    return out


def apply_cx(psi, c, t):
    out = [0j] * len(psi)
    for i, a in enumerate(psi):
        out[i ^ (1 << t) if (i >> c) & 1 else i] += a
    return out


def oracle_step(psi, op):
    """Expected post-state of a unitary op line, or None if not a unitary op."""
    p = op.split()
    if p[0] in GATES1:
        return apply_unitary(psi, int(p[1]), matrix_of(p[0]))
    if p[0] in ROTS:
        return apply_unitary(psi, int(p[1]), matrix_of(p[0], unhex64(p[2])))
    if p[0] == "cx":
        return apply_cx(psi, int(p[1]), int(p[2]))
    return None


def vec_close(a, b, tol=TOL):
    return len(a) == len(b) and all(abs(x - y) <= tol for x, y in zip(a, b))


def norm2(psi):
    return sum(abs(a) ** 2 for a in psi)


# ------------------------------------------------------------------ shared run/compare driver
def run_histories(chk, histories, stream="sim"):
    """histories: list of (tag, ops). Runs all through impl and model, compares, returns
    (per-history list of (op, reply, state_or_None)), and the first correspondence disagreement."""
    lines, spans = [], []
    for (_tag, ops) in histories:
        ls = with_state(ops)
        spans.append((len(lines), len(lines) + len(ls)))
        lines += ls
    impl, model, diag = run_pair(lines)
    stats = {}
    bad_idx, why = compare_streams(lines, impl, model, stats)
    chk.extra["correspondence"] = {"lines": len(lines), "histories": len(histories), **stats,
                                   "first_disagreement": why}
    per = []
    for hi, (a, _b) in enumerate(spans):
        ops = histories[hi][1]
        li = a
        rows = []
        for op in ops:
            rep = impl[li] if li < len(impl) else ""
            li += 1
            st = None
            if not op.startswith("new"):
                st = parse_state(impl[li]) if li < len(impl) else None
                li += 1
            else:
                st = (0, [1 + 0j])
            rows.append((op, rep, st))
        per.append(rows)
    disagreement = None
    if bad_idx is not None:
        hi = next((i for i, (a, b) in enumerate(spans) if a <= bad_idx < b), len(spans) - 1)
        disagreement = {"history": histories[hi][1], "line": bad_idx - spans[hi][0], "why": why, "diag": diag}
    return per, disagreement


def report_correspondence(chk, disagreement, searched):
    if disagreement is None:
        return
    chk.violation("correspondence: Lean model and real simulator disagree (%s); %s" % (disagreement["why"], searched),
                  {"ops": disagreement["history"], "kind": "sim-history", "stream": "sim",
                   "line": disagreement["line"], "diag": disagreement["diag"]},
                  arm="correspondence:sim", found_input=False)


def mass(psi, q, b):
    acc = 0.0
    for i, z in enumerate(psi):
        if ((i >> q) & 1) == b:
            acc += z.real * z.real + z.imag * z.imag
    return acc


def shrink_ops(ops, fails):
    cur = list(ops)
    i = 1
    while i < len(cur) - 1:
        if cur[i] == "alloc":
            i += 1
            continue
        cand = cur[:i] + cur[i + 1:]
        try:
            ok = fails(cand)
        except Exception:
            ok = False
        if ok:
            cur = cand
        else:
            i += 1
    return cur


def impl_rows(ops):
    lines = with_state(ops)
    impl, _rc, _ = run_lines(harness(), lines)
    rows, li = [], 0
    for op in ops:
        rep = impl[li] if li < len(impl) else ""
        li += 1
        st = (0, [1 + 0j])
        if not op.startswith("new"):
            st = parse_state(impl[li]) if li < len(impl) else None
            li += 1
        rows.append((op, rep, st))
    return rows


def generic_replay(path, oracle_name, oracle_fn):
    import json
    obj = json.load(open(path))
    ops = obj.get("ops")
    if not ops:
        print(json.dumps(obj, indent=1))
        return 1
    lines = with_state(ops)
    impl, model, _ = run_pair(lines)
    for l, a, b in zip(lines, impl, model):
        print(l, "\n   impl :", a[:160], "\n   model:", b[:160])
    bad = oracle_fn(ops)
    print("%s fails on the real simulator: %s" % (oracle_name, bad))
    return 1 if bad else 0
