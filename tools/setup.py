#!/usr/bin/env python3
"""MANIFEST.setup_cmd: build the Lean library + driver and the harness objects, offline."""
import os
import sys
import time

sys.path.insert(0, os.path.dirname(os.path.abspath(__file__)))
import buildlib


def main():
    t0 = time.time()
    import translate_tables
    for fn in (translate_tables.keywords, translate_tables.binding_table, translate_tables.builtins,
               translate_tables.gate_matrices, translate_tables.qasm_lines, translate_tables.update_constants, translate_tables.operators, translate_tables.parser_constants):
        try:
            print(fn())
        except translate_tables.TableError as e:
            print("table extraction failed:", e)
    ok, log, dt = buildlib.lake_build(["BlochVerif", "driver"])
    print("lake build: %s (%.0fs)" % ("ok" if ok else "FAILED", dt))
    if not ok:
        print(log[-8000:])
        return 1
    try:
        buildlib.build_core("plain")
        print("core objects built (%.0fs)" % (time.time() - t0))
    except buildlib.BuildError as e:
        print(str(e)[-4000:])
        return 1
    return 0


if __name__ == "__main__":
    sys.exit(main())
