#!/usr/bin/env python3
"""Regenerates the seeded-change table of DESIGN.md §8a from seeded/*/meta.json."""
import glob
import json
import os
import re

VERIF = os.path.dirname(os.path.dirname(os.path.abspath(__file__)))


def main():
    rows = []
    for d in sorted(glob.glob(os.path.join(VERIF, "seeded", "*", "meta.json"))):
        m = json.load(open(d))
        name = os.path.basename(os.path.dirname(d))
        det = m.get("detected_by", {})
        summ = re.sub(r"\s+", " ", (m.get("summary") or "")).strip()[:170].replace("|", "/")
        if isinstance(det, dict):
            dd = "; ".join("%s: %s" % (k, "detected" if v.get("detected") else "MISSED") for k, v in det.items())
        else:
            dd = str(det)
        rows.append("| %s | %s | %s | %s |" % (name, m.get("property", ""), summ, dd or "not run"))
    p = os.path.join(VERIF, "DESIGN.md")
    s = open(p).read()
    hdr = "| seeded | prop | change | quick check |\n| --- | --- | --- | --- |\n"
    a = s.index(hdr) + len(hdr)
    b = s.index("\n\n", a)
    s = s[:a] + "\n".join(rows) + s[b:]
    open(p, "w").write(s)
    print(len(rows), "rows")


if __name__ == "__main__":
    main()
