#!/usr/bin/env python3
"""Regenerates the seeded-change table of DESIGN.md §8a from seeded/*/meta.json."""
import glob
import json
import os
import re

VERIF = os.path.dirname(os.path.dirname(os.path.abspath(__file__)))


def main():
    rows = []
    for d in sorted(glob.glob(os.path.join(VERIF, "seeded", "*", "meta.json"))):
        m = json.load(open(d))
        name = os.path.basename(os.path.dirname(d))
        det = m.get("detected_by", {})
        summ = re.sub(r"\s+", " ", (m.get("summary") or "")).strip()[:170].replace("|", "/")
        if isinstance(det, dict):
            dd = "; ".join("%s: %s" % (k, "detected" if v.get("detected") else "MISSED") for k, v in det.items())
        else:
            dd = str(det)
        rows.append("| %s | %s | %s | %s |" % (name, m.get("property", ""), summ, dd or "not run"))
    p = os.path.join(VERIF, "DESIGN.md")
    s = open(p).read()
    hdr = "| seeded | prop | change | quick check |\n| --- | --- | --- | --- |\n"
    a = s.index(hdr) + len(hdr)
    b = s.index("\n\n", a)
    s = s[:a] + "\n".join(rows) + s[b:]
    # the repaired-defects and the known-findings tables of section 8, from known_findings.json
    kf = json.load(open(os.path.join(VERIF, "known_findings.json")))["findings"]

    def what(f):
        w = re.sub(r"^fixed:\s*property=\S+\s+[0-9a-f,\s]+?\s(?=\S)", "", f["what"], count=1)
        return w.replace("|", "\\|")
    fixed = [f for f in kf if f["status"] == "fixed"]
    known = [f for f in kf if f["status"] == "known"]
    t1 = "| prop | commit | what failed |\n| --- | --- | --- |\n" + "\n".join(
        "| %s | %s | %s |" % (f["property"], f.get("commit", ""), what(f)) for f in fixed) + "\n"
    a = s.index("| prop | commit | what failed |")
    b = s.index("Known findings (recorded, not repaired")
    s = s[:a] + t1 + "\n" + s[b:]
    t2 = "| id | prop | what | witness |\n| --- | --- | --- | --- |\n" + "\n".join(
        "| %s | %s | %s | %s |" % (f["id"], f["property"], f["what"].replace("|", "\\|"), f.get("witness", "")) for f in known) + "\n"
    a = s.index("| id | prop | what | witness |")
    b = s.index("Why these are not repaired")
    s = s[:a] + t2 + "\n" + s[b:]
    open(p, "w").write(s)
    print(len(rows), "rows;", len(fixed), "repaired,", len(known), "known")


if __name__ == "__main__":
    main()
