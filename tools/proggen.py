"""Type-directed generator of class-free Bloch programs (C05–C07, C09, C10, C12, C17, C18).

Programs are mostly valid by construction (the analyser's verdict is still the filter and the
acceptance ratio is reported).  Every loop carries an explicit bounded counter so programs
terminate; recursion is bounded by a decreasing int parameter."""

SCALARS = ["int", "long", "float", "bit", "boolean", "string", "char"]
ARRAY_ELEMS = ["int", "long", "float", "bit", "boolean", "string", "char"]

INT_EDGE = ["0", "1", "2", "7", "10", "255", "1000", "46341", "65536", "2147483647", "2147483646", "1073741824"]
LONG_EDGE = ["0L", "1L", "3L", "1000L", "2147483648L", "4294967296L", "9223372036854775807L", "4611686018427387904L"]
FLOAT_LITS = ["0.0f", "1.0f", "0.5f", "2.5f", "0.1f", "3.14159f", "100.25f", "1e0f" if False else "7f", "0.001f", "123456.75f", "1000000.0f", "0.33f"]
STRINGS = ["\"a\"", "\"hello\"", "\"x y\"", "\"\"", "\"1\"", "\"=\""]
CHARS = ["'a'", "'Z'", "'0'", "' '"]


class Fn:
    def __init__(self, name, params, ret):
        self.name, self.params, self.ret = name, params, ret


class Gen:
    def __init__(self, rng, quantum=False, edge=False, tracked=False, max_qubits=5, qprob=0.35, main_len=(3, 9)):
        self.rng = rng
        self.quantum = quantum
        self.edge = edge
        self.tracked = tracked
        self.max_qubits = max_qubits
        self.qprob = qprob
        self.main_len = main_len
        self.fns = []
        self.counter = 0
        self.features = set()
        self.qubits_declared = 0
        self.qfns = []
        self.maybe_measured = set()
        self.nest = 0

    def fresh(self, pre="v"):
        self.counter += 1
        return "%s%d" % (pre, self.counter)

    # ---------------------------------------------------------------- expressions
    def lit(self, ty):
        r = self.rng
        if ty == "int":
            if self.edge and r.random() < 0.03:
                return r.choice(["2147483648", "3000000000", "4294967296", "9223372036854775807"])   # does not fit an int: a located runtime error
            return r.choice(INT_EDGE) if self.edge and r.random() < 0.5 else str(r.randrange(0, 20))
        if ty == "long":
            return r.choice(LONG_EDGE) if self.edge and r.random() < 0.5 else "%dL" % r.randrange(0, 50)
        if ty == "float":
            return r.choice(FLOAT_LITS)
        if ty == "bit":
            return r.choice(["0b", "1b"])
        if ty == "boolean":
            return r.choice(["true", "false"])
        if ty == "string":
            return r.choice(STRINGS)
        if ty == "char":
            return r.choice(CHARS)
        raise ValueError(ty)

    def vars_of(self, env, ty):
        return [n for n, t in env.items() if t == ty]

    def expr(self, env, ty, depth):
        r = self.rng
        vs = self.vars_of(env, ty)
        if depth <= 0 or r.random() < 0.25:
            if vs and r.random() < 0.6:
                return r.choice(vs)
            return self.lit(ty)
        d = depth - 1
        E = lambda t: self.expr(env, t, d)
        k = r.random()
        # calls to earlier functions of the right type
        fs = [f for f in self.fns if f.ret == ty]
        if fs and k < 0.12:
            f = r.choice(fs)
            self.features.add("call")
            if f.name.startswith("rec"):
                return "%s(%d)" % (f.name, r.randrange(0, 6))
            # an int argument for a long parameter is widened at the call
            return "%s(%s)" % (f.name, ", ".join(self.expr(env, "int" if (t == "long" and r.random() < 0.35) else t, d) for t, _ in f.params))
        arrs = [n for n, t in env.items() if t == ty + "[]"]
        if arrs and k < 0.22:
            self.features.add("index")
            a = r.choice(arrs)
            return "%s[%s]" % (a, self.small_index(env))
        if ty == "int":
            c = r.random()
            if c < 0.5:
                return "(%s %s %s)" % (E("int"), r.choice(["+", "-", "*"]), E("int"))
            if c < 0.65:
                self.features.add("mod")
                rhs = r.choice(["3", "7", "2", "-1", "5"]) if r.random() < 0.9 else E("int")
                return "(%s %% %s)" % (E("int"), rhs)
            if c < 0.85:
                self.features.add("cast")
                src = r.choice(["float", "long", "bit", "int"])
                return "((int) %s)" % E(src)
            return "(-%s)" % E("int")
        if ty == "long":
            c = r.random()
            lfs = [f for f in self.fns if f.ret == "long" and not f.name.startswith("rec")]
            if lfs and r.random() < 0.2:
                # the result of a long-returning call combined with ints: long arithmetic whatever the body returned
                f = r.choice(lfs)
                callsrc = "%s(%s)" % (f.name, ", ".join(self.expr(env, "int" if t == "long" else t, 1) for t, _ in f.params))
                return r.choice(["(%s + %s)" % (callsrc, callsrc), "(%s * 3)" % callsrc, "(%s + 2147483647)" % callsrc])
            if c < 0.6:
                other = r.choice(["long", "int"])
                a, b = E("long"), E(other)
                if r.random() < 0.5:
                    a, b = b, a
                return "(%s %s %s)" % (a, r.choice(["+", "-", "*"]), b)
            if c < 0.75:
                self.features.add("mod")
                return "(%s %% %s)" % (E("long"), r.choice(["3L", "7L", "-1L", "2L"]))
            self.features.add("cast")
            return "((long) %s)" % E(r.choice(["int", "float", "bit"]))
        if ty == "float":
            c = r.random()
            if c < 0.45:
                other = r.choice(["float", "int", "long"])
                a, b = E("float"), E(other)
                if r.random() < 0.5:
                    a, b = b, a
                return "(%s %s %s)" % (a, r.choice(["+", "-", "*"]), b)
            if c < 0.75:
                self.features.add("div")
                den = r.choice(["2", "4", "3", "2.0f", "8L", "0"]) if r.random() < 0.93 else E("int")
                return "(%s / %s)" % (E(r.choice(["int", "float", "long"])), den)
            self.features.add("cast")
            return "((float) %s)" % E(r.choice(["int", "long", "bit"]))
        if ty == "bit":
            c = r.random()
            if c < 0.5:
                return "(%s %s %s)" % (E("bit"), r.choice(["&", "|", "^"]), E("bit"))
            if c < 0.7:
                return "(~%s)" % E("bit")
            self.features.add("cast")
            return "((bit) %s)" % E(r.choice(["int", "float", "long"]))
        if ty == "boolean":
            c = r.random()
            if self.edge and r.random() < 0.12:
                # neighbours that only exact 64-bit integer comparison tells apart (doubles cannot above 2^53)
                base = r.choice([9007199254740992, 9007199254740993, 4611686018427387904, 9223372036854775806, 36028797018963968,
                                 1152921504606846977])
                a = base + r.choice([0, 0, 1, -1])
                b = base + r.choice([0, 1, -1, 2])
                sa, sb = "%dL" % a, "%dL" % b
                if r.random() < 0.3:
                    sa = "(%s + %s)" % (sa, r.choice(["0L", "0", "(1L - 1L)"]))
                return "(%s %s %s)" % (sa, r.choice(["==", "!=", "==", "!=", "<", ">", "<=", ">="]), sb)
            if c < 0.4:
                t = r.choice(["int", "long", "float"])
                t2 = t if r.random() < 0.7 else r.choice(["int", "long", "float"])
                return "(%s %s %s)" % (E(t), r.choice(["<", ">", "<=", ">=", "==", "!="]), E(t2))
            if c < 0.5:
                t = r.choice(["string", "char", "boolean", "bit"])
                return "(%s %s %s)" % (E(t), r.choice(["==", "!="]), E(t))
            if c < 0.8:
                return "(%s %s %s)" % (E(r.choice(["boolean", "bit"])), r.choice(["&&", "||"]), E(r.choice(["boolean", "bit"])))
            return "(!%s)" % E(r.choice(["boolean", "bit"]))
        if ty == "string":
            self.features.add("concat")
            t = r.choice(SCALARS)
            a, b = E("string"), self.expr(env, t, d)
            if r.random() < 0.4:
                a, b = b, a
            return "(%s + %s)" % (a, b)
        if ty == "char":
            return self.lit("char")
        raise ValueError(ty)

    def small_index(self, env):
        r = self.rng
        ints = self.vars_of(env, "int")
        u = r.random()
        if u < 0.6:
            return str(r.randrange(0, 3))
        if u < 0.7 and ints:
            return r.choice(ints)                        # may be out of bounds: runtime error path
        if u < 0.8:
            return r.choice(["3", "5", "1L", "1b", "0L", "2L", "4294967296L", "4294967297L", "(0L - 4294967295L)", "9223372036854775807L"])
        return "(%s %% 3)" % (r.choice(ints) if ints else "4")

    # ---------------------------------------------------------------- statements
    def block(self, env, depth, qenv, n=None, in_loop=False, ret=None):
        r = self.rng
        env = dict(env)
        qenv = dict(qenv)
        out = []
        self.nest += 1
        for _ in range(n if n is not None else r.randrange(1, 5)):
            out.append(self.stmt(env, depth, qenv, in_loop, ret))
        self.nest -= 1
        return "{ " + " ".join(out) + " }"

    def stmt(self, env, depth, qenv, in_loop, ret):
        r = self.rng
        k = r.random()
        if self.quantum and r.random() < self.qprob:
            return self.qstmt(env, qenv, in_loop)
        if k < 0.30 or not env:
            ty = r.choice(SCALARS)
            name = self.fresh()
            # "int values can widen to long in assignments and calls": a long variable initialised from an int expression
            # (large ones included) must behave as a long afterwards
            if ty == "long" and r.random() < 0.35:
                init = r.choice(["2000000000", "2147483647", "(0 - 2000000000)", self.expr(env, "int", 2)])
                env[name] = ty
                return "long %s = %s; echo(%s + %s); echo(%s * 3);" % (name, init, name, name, name)
            init = self.expr(env, ty, 2)
            if r.random() < 0.1:
                name = "f_" + name          # finals are readable but never chosen as assignment targets
                env[name] = ty
                return "final %s %s = %s;" % (ty, name, init)
            env[name] = ty
            return "%s %s = %s;" % (ty, name, init)
        if k < 0.38:
            el = r.choice(ARRAY_ELEMS)
            name = self.fresh("a")
            self.features.add("array")
            if r.random() < 0.7:
                n = r.randrange(1, 4)
                s = "%s[] %s = {%s};" % (el, name, ", ".join(self.expr(env, el, 1) for _ in range(n)))
            else:
                s = "%s[%d] %s;" % (el, r.randrange(1, 4), name)
            env[name] = el + "[]"
            return s
        if k < 0.50:
            cands = [(n, t) for n, t in env.items() if t in SCALARS and not n.startswith(("f_", "i", "j"))]
            if cands:
                n, t = r.choice(cands)
                if t == "long" and r.random() < 0.35:
                    return "%s = %s; echo(%s + %s);" % (n, r.choice(["2000000000", "2147483647", self.expr(env, "int", 2)]), n, n)
                return "%s = %s;" % (n, self.expr(env, t, 2))
        if k < 0.56:
            arrs = [(n, t) for n, t in env.items() if t.endswith("[]")]
            if arrs:
                n, t = r.choice(arrs)
                self.features.add("array-store")
                return "%s[%s] = %s;" % (n, self.small_index(env), self.expr(env, t[:-2], 1))
        if k < 0.70:
            self.features.add("echo")
            ivars = [n for n, t in env.items() if t == "int"]
            if ivars and r.random() < 0.12:
                # an untyped array literal whose elements depend on variables (unary forms included), echoed or assigned: evaluated
                # afresh every time control passes here (loop counters make the values differ between passes)
                self.features.add("array-literal-expr")
                v = r.choice([n for n in ivars if n.startswith("i")] or ivars)
                els = [r.choice(["-%s" % v, "-(%s * %s)" % (v, v), "-%s - 1" % v, "%s + 1" % v, "- -%s" % v, "-(%s)" % self.expr(env, "int", 1)])
                       for _ in range(r.randrange(1, 4))]
                arrs = [n for n, tt in env.items() if tt == "int[]"]
                if arrs and r.random() < 0.5:
                    a = r.choice(arrs)
                    return "%s = {%s}; echo(%s);" % (a, ", ".join(els), a)
                return "echo({%s});" % ", ".join(els)
            t = r.choice(SCALARS + ["arr"])
            if t == "arr":
                arrs = [n for n, tt in env.items() if tt.endswith("[]")]
                if arrs:
                    return "echo(%s);" % r.choice(arrs)
                t = "int"
            return "echo(%s);" % self.expr(env, t, 2)
        if k < 0.78 and depth > 0:
            self.features.add("if")
            c = self.expr(env, r.choice(["boolean", "boolean", "bit"]), 2)
            s = "if (%s) %s" % (c, self.block(env, depth - 1, qenv, in_loop=in_loop, ret=ret))
            if r.random() < 0.5:
                s += " else " + self.block(env, depth - 1, qenv, in_loop=in_loop, ret=ret)
            return s
        if k < 0.84 and depth > 0:
            self.features.add("while")
            c = self.fresh("i")
            bound = r.randrange(0, 4)
            inner = dict(env)
            inner[c] = "int"
            body = self.block(inner, depth - 1, qenv, n=r.randrange(1, 3), in_loop=True, ret=ret)
            return "int %s = 0; while (%s < %d) { %s %s = %s + 1; }" % (c, c, bound, body, c, c)
        if k < 0.90 and depth > 0:
            self.features.add("for")
            c = self.fresh("j")
            inner = dict(env)
            inner[c] = "int"
            body = self.block(inner, depth - 1, qenv, n=r.randrange(1, 3), in_loop=True, ret=ret)
            inc = r.choice(["%s = %s + 1" % (c, c), "%s++" % c])
            return "for (int %s = 0; %s < %d; %s) %s" % (c, c, r.randrange(0, 4), inc, body)
        if k < 0.94:
            self.features.add("ternary")
            c = self.expr(env, "boolean", 1)
            cands = [(n, t) for n, t in env.items() if t in SCALARS and not n.startswith(("f_", "i", "j"))]
            if cands:
                n, t = r.choice(cands)
                return "%s ? %s = %s; : echo(%s);" % (c, n, self.expr(env, t, 1), self.expr(env, "string", 1))
            return "%s ? echo(1); : echo(2);" % c
        if k < 0.97:
            ints = [n for n, t in env.items() if t in ("int", "long", "float") and not n.startswith(("f_", "i", "j"))]
            if ints:
                self.features.add("postfix")
                return "%s%s;" % (r.choice(ints), r.choice(["++", "--"]))
        if ret is not None and r.random() < 0.5:
            self.features.add("early-return")
            return "return;" if ret == "void" else "return %s;" % self.expr(env, ret, 1)
        return "echo(%s);" % self.expr(env, "int", 2)

    # ---------------------------------------------------------------- quantum statements
    def qstmt(self, env, qenv, in_loop):
        """qenv: name -> ('q' | 'qa', size, state) where state tracks measured flags conservatively (None = unknown)."""
        r = self.rng
        singles = [n for n, v in qenv.items() if v[0] == "q"]
        arrays = [n for n, v in qenv.items() if v[0] == "qa"]
        k = r.random()
        can_alloc = self.qubits_declared < self.max_qubits and not in_loop
        if (not singles and not arrays) or (k < 0.2 and can_alloc):
            if not can_alloc and not singles and not arrays:
                return "echo(0);"
            tr = "@tracked " if self.tracked and r.random() < 0.6 else ""
            if r.random() < 0.7:
                n = self.fresh("q")
                qenv[n] = ("q", 1)
                self.qubits_declared += 1
                self.features.add("qubit")
                return "%squbit %s;" % (tr, n)
            size = r.randrange(1, 3)
            if self.qubits_declared + size > self.max_qubits:
                size = 1
            n = self.fresh("r")
            qenv[n] = ("qa", size)
            self.qubits_declared += size
            self.features.add("qubit-array")
            return "%squbit[%d] %s;" % (tr, size, n)

        pre = []

        def operand(for_measure=False):
            if arrays and (not singles or r.random() < 0.35):
                a = r.choice(arrays)
                o = "%s[%d]" % (a, r.randrange(qenv[a][1]))
            else:
                o = r.choice(singles)
            # a qubit that may already be measured is usually reset first (the refusal path stays reachable)
            if (o in self.maybe_measured or in_loop) and r.random() < 0.85:
                pre.append("reset %s;" % o)
                if self.nest <= 1:
                    self.maybe_measured.discard(o)      # a reset inside a branch/loop may not execute
            if for_measure:
                self.maybe_measured.add(o)
            return o

        def done(s):
            return " ".join(pre + [s])
        if self.qfns and k < 0.30:
            name, kinds, ret = r.choice(self.qfns)
            args = []
            ok = True
            for kd in kinds:
                if kd == "q":
                    args.append(operand())
                elif arrays:
                    args.append(r.choice(arrays))
                else:
                    ok = False
            if ok and len(set(args)) < len(args) and r.random() < 0.9:
                ok = False
            if ok:
                self.features.add("qubit-param-call")
                if ret == "bit":
                    n = self.fresh("b")
                    env[n] = "bit"
                    self.maybe_measured.update(args)
                    return done("bit %s = %s(%s);" % (n, name, ", ".join(args)))
                return done("%s(%s);" % (name, ", ".join(args)))
        if k < 0.55:
            g = r.choice(["h", "x", "y", "z", "rx", "ry", "rz", "cx"])
            self.features.add("gate")
            if g in ("rx", "ry", "rz"):
                ang = r.choice(["0.5f", "1.5f", "3.140625f", "0.25f", "2.0f", "0.75f", "-0.75f", "-0.25f", "-1.5f", "-3.0f", "100.5f", "-12.125f", "0.0f"])
                if self.edge or r.random() < 0.02:
                    # an angle that overflows to infinity, or is not a number: refused with a located runtime error
                    if r.random() < 0.25:
                        big = "(300000000000000000000000000000000000000.0f * 300000000000000000000000000000000000000.0f * 300000000000000000000000000000000000000.0f * 300000000000000000000000000000000000000.0f * 300000000000000000000000000000000000000.0f)"
                        ang = r.choice(["(%s * %s)" % (big, big), "(0.0f - %s * %s)" % (big, big), "((%s * %s) - (%s * %s))" % (big, big, big, big)])
                # angles below the six printed decimals are left out: with an adversarial draw the recorded outcome can have
                # probability ~1e-14 under the exact angle and 0 under the printed one, which the property's own tolerance excludes
                return done("%s(%s, %s);" % (g, operand(), ang))
            if g == "cx":
                a, b = operand(), operand()
                if a == b and r.random() < 0.8:
                    return done("h(%s);" % a)
                return done("cx(%s, %s);" % (a, b))          # a == b stays possible: runtime error path
            return done("%s(%s);" % (g, operand()))
        if k < 0.72:
            self.features.add("measure")
            if arrays and r.random() < 0.3:
                a = r.choice(arrays)
                els = ["%s[%d]" % (a, i) for i in range(qenv[a][1])]
                for e in els:
                    if e in self.maybe_measured and r.random() < 0.85:
                        pre.append("reset %s;" % e)
                self.maybe_measured.update(els)
                return done("measure %s;" % a)
            if r.random() < 0.5:
                n = self.fresh("b")
                env[n] = "bit"
                return done("bit %s = measure %s;" % (n, operand(True)))
            return done("measure %s;" % operand(True))
        if k < 0.86:
            self.features.add("reset")
            o = operand()
            if self.nest <= 1:
                self.maybe_measured.discard(o)
            return done("reset %s;" % o)
        self.features.add("measure-cond")
        t = operand()
        m = operand(True)
        self.maybe_measured.add(m)
        if t == m:
            return done("measure %s;" % m)
        return done("if (measure %s) { x(%s); }" % (m, t))

    # ---------------------------------------------------------------- whole programs
    def function(self, idx):
        r = self.rng
        ret = r.choice(["int", "float", "boolean", "string", "void", "long", "bit"])
        nparams = r.randrange(0, 3)
        params = [(r.choice(["int", "float", "boolean", "string", "long", "bit"]), self.fresh("p")) for _ in range(nparams)]
        name = "fn%d" % idx
        env = {n: t for t, n in params}
        body = self.block(env, 1, {}, n=r.randrange(1, 4), ret=ret)
        # a long-returning function may return an int expression: the result is a long at the call site
        rty = "int" if (ret == "long" and r.random() < 0.4) else ret
        tail = "" if ret == "void" else " return %s;" % (r.choice(["2000000000", "2147483647"]) if (rty == "int" and r.random() < 0.5) else self.expr(env, rty, 2))
        # body is "{ ... }": splice the final return in
        src = "function %s(%s) -> %s %s" % (name, ", ".join("%s %s" % p for p in params), ret, body[:-1] + tail + " }")
        self.fns.append(Fn(name, params, ret))
        return src

    def qfunction(self):
        """a helper that takes qubits (and maybe a qubit[]) by parameter: the access path 'function parameter'"""
        r = self.rng
        name = "qf%d" % len(self.qfns)
        self.features.add("qubit-param")
        k = r.randrange(3)
        if k == 0:
            src = "function %s(qubit a, qubit b) -> void { h(a); cx(a, b); }" % name
            self.qfns.append((name, ["q", "q"], "void"))
        elif k == 1:
            src = "@quantum function %s(qubit a) -> bit { %s(a); bit m = measure a; return m; }" % (name, r.choice(["h", "x", "y"]))
            self.qfns.append((name, ["q"], "bit"))
        else:
            src = "function %s(qubit[] rs, qubit c) -> void { cx(c, rs[0]); %s(rs[0]); }" % (name, r.choice(["z", "h", "x"]))
            self.qfns.append((name, ["qa", "q"], "void"))
        return src

    def recursive_function(self):
        name = "rec%d" % len(self.fns)
        self.features.add("recursion")
        src = ("function %s(int n) -> int { if (n <= 0) { return 1; } return n * %s(n - 1) + %s; }"
               % (name, name, self.rng.choice(["0", "1", "n"])))
        self.fns.append(Fn(name, [("int", "n")], "int"))
        return src

    def program(self):
        return "\n".join(self.program_parts())

    def program_parts(self):
        """the top-level declarations, one string each (main last)"""
        r = self.rng
        parts = []
        for i in range(r.randrange(0, 4)):
            parts.append(self.function(i))
        if r.random() < 0.3:
            parts.append(self.recursive_function())
        if self.quantum:
            for _ in range(r.randrange(0, 3)):
                parts.append(self.qfunction())
        main = "function main() -> void " + self.block({}, 2, {}, n=r.randrange(*self.main_len), ret="void")
        parts.append(main)
        return parts
