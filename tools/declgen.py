"""Declaration graphs for C10's acceptance clause: classes with bases, functions with calls and `new` expressions,
mostly valid, with a separate stream of seeded declaration errors (duplicate class/function, missing base,
inheritance cycle, undefined callee, wrong arity, `new` of an undeclared class).  Each graph renders to Bloch source
in any order of its declarations and to the `decl` line of the Lean driver (Sem/Decls.lean)."""

DEFECTS = ["dup-class", "dup-function", "missing-base", "cycle", "self-base", "undefined-callee", "wrong-arity", "undefined-new",
           "new-abstract", "new-abstract", "passthrough", "passthrough"]


class DeclGraph:
    def __init__(self, rng, defect=None):
        self.defect = defect
        nc = rng.randrange(0, 6)
        nf = rng.randrange(1, 6)
        cnames = ["K%d" % i for i in range(nc)]
        fnames = ["main"] + ["f%d" % i for i in range(nf - 1)]
        ar = {"main": 0}
        for f in fnames[1:]:
            ar[f] = rng.randrange(0, 4)
        # a random forest, then declaration order shuffled (so bases come before or after at random)
        order = cnames[:]
        rng.shuffle(order)
        base = {}
        for i, c in enumerate(order):
            base[c] = rng.choice(order[:i]) if i and rng.random() < 0.7 else None

        # obligations: a class may declare bodyless virtual methods (unique names), descendants implement a random part of what
        # they still owe; a class that owes something (or is declared abstract) must not be instantiated
        self.abst = {}
        owes = {}
        for c in order:                                   # bases come before derived classes in `order`
            inherited = list(owes.get(base[c], [])) if base[c] else []
            own = ["a_%s_%d" % (c, j) for j in range(rng.choice([0, 0, 0, 1, 1, 2]))]
            impl = [m for m in inherited if rng.random() < 0.6]
            still = [m for m in inherited + own if m not in impl]
            declared = bool(still) and rng.random() < 0.7 or rng.random() < 0.05
            owes[c] = still
            self.abst[c] = [declared, own, impl]
        concrete = [c for c in cnames if not self.abst[c][0] and not owes[c]]
        self.abstract_names = [c for c in cnames if c not in concrete]

        def body():
            calls = []
            for _ in range(rng.choice([0, 0, 1, 1, 2, 3])):
                g = rng.choice(fnames[1:]) if len(fnames) > 1 else None
                if g:
                    calls.append([g, ar[g]])
            news = [rng.choice(concrete) for _ in range(rng.choice([0, 0, 1, 2]))] if concrete else []
            if rng.random() < 0.1:
                news.append("Object")
            return calls, news
        self.items = []          # ("c", name, base, calls, news) | ("f", name, arity, calls, news)
        for c in cnames:
            calls, news = body()
            self.items.append(["c", c, base[c], calls, news])
        for f in fnames:
            calls, news = body()
            self.items.append(["f", f, ar[f], calls, news])
        rng.shuffle(self.items)
        self.applied = None
        if defect:
            self.applied = self.inject(rng, defect, cnames, fnames, ar)

    def inject(self, rng, defect, cnames, fnames, ar):
        cls = [it for it in self.items if it[0] == "c"]
        fns = [it for it in self.items if it[0] == "f"]
        if defect == "dup-class" and cls:
            src = rng.choice(cls)
            self.items.insert(rng.randrange(len(self.items) + 1), ["c", src[1], None, [], []])
        elif defect == "dup-function":
            src = rng.choice(fns)
            self.items.insert(rng.randrange(len(self.items) + 1), ["f", src[1], src[2], [], []])
        elif defect == "missing-base" and cls:
            rng.choice(cls)[2] = "Nowhere"
        elif defect == "cycle" and len(cls) >= 2:
            k = rng.randrange(2, len(cls) + 1)
            ring = rng.sample(cls, k)
            for i, it in enumerate(ring):
                it[2] = ring[(i + 1) % k][1]
        elif defect == "self-base" and cls:
            it = rng.choice(cls)
            it[2] = it[1]
        elif defect == "undefined-callee":
            rng.choice(self.items)[3].append(["ghost", rng.randrange(0, 3)])
        elif defect == "wrong-arity" and len(fnames) > 1:
            g = rng.choice(fnames[1:])
            rng.choice(self.items)[3].append([g, ar[g] + rng.choice([1, 2]) if ar[g] == 0 or rng.random() < 0.5 else ar[g] - 1])
        elif defect == "undefined-new":
            rng.choice(self.items)[4].append("Phantom")
        elif defect == "passthrough":
            # an obligation declared at the top of a chain, handed down through classes that neither implement it nor are all
            # declared abstract, to a leaf that is not declared abstract either and is instantiated
            pool = ["Shape", "Polygon", "Square", "Base", "Mid", "Leaf", "Zeta", "Alpha", "Node", "Q", "M1", "Widget", "Ab", "Top"]
            depth = rng.choice([3, 3, 4, 5])
            names = rng.sample(pool, depth)
            for i, nm in enumerate(names):
                self.abst[nm] = [i == 0 or (i < depth - 1 and rng.random() < 0.5), ["duty_%s" % nm] if i == 0 else [], []]
                self.items.insert(rng.randrange(len(self.items) + 1), ["c", nm, names[i - 1] if i else None, [], []])
            rng.choice(self.items)[4].append(names[-1])
        elif defect == "new-abstract" and self.abstract_names:
            rng.choice(self.items)[4].append(rng.choice(self.abstract_names))
        else:
            return None
        return defect

    def n(self):
        return len(self.items)

    @staticmethod
    def _stmts(calls, news):
        out = []
        for g, k in calls:
            out.append("%s(%s);" % (g, ", ".join(str(i + 1) for i in range(k))))
        for i, c in enumerate(news):
            out.append("%s t%d = new %s();" % (c, i, c))
        return " ".join(out)

    def render_item(self, it):
        if it[0] == "c":
            _t, name, base, calls, news = it
            declared, own, impl = self.abst.get(name, [False, [], []])
            extra = "".join(" public virtual function %s() -> int;" % m for m in own)
            extra += "".join(" public override function %s() -> int { return %d; }" % (m, len(m)) for m in impl)
            return "%sclass %s%s { public constructor() -> %s = default; public function m() -> void { %s }%s }" % (
                "abstract " if declared else "", name, (" extends " + base) if base else "", name, self._stmts(calls, news), extra)
        _t, name, k, calls, news = it
        return "function %s(%s) -> void { %s }" % (name, ", ".join("int a%d" % i for i in range(k)), self._stmts(calls, news))

    def source(self, perm=None):
        idx = perm if perm is not None else range(len(self.items))
        return "\n".join(self.render_item(self.items[i]) for i in idx)

    def model_line(self, perm=None):
        idx = perm if perm is not None else range(len(self.items))
        parts = []
        for i in idx:
            it = self.items[i]
            calls = "+".join("%s/%d" % (g, k) for g, k in it[3]) or "-"
            news = "+".join(it[4]) or "-"
            if it[0] == "c":
                declared, own, impl = self.abst.get(it[1], [False, [], []])
                parts.append("c,%s,%s,%s,%s,%d,%s,%s" % (it[1], it[2] or "-", calls, news, 1 if declared else 0,
                                                         "+".join(own) or "-", "+".join(impl) or "-"))
            else:
                parts.append("f,%s,%d,%s,%s" % (it[1], it[2], calls, news))
        return "decl " + ";".join(parts)
