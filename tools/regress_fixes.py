#!/usr/bin/env python3
"""Self-test of the checks: every `fix:` commit recorded in known_findings.json is reverted on its own in /repo's working tree
(reverse patch, never committed), the owning property's quick check is run, and the change is undone.  A reverted fix must make
the check report a violation.  Results go to regressions.json.  usage: regress_fixes.py [commit ...]"""
import json
import os
import subprocess
import sys

VERIF = os.path.dirname(os.path.dirname(os.path.abspath(__file__)))


def sh(cmd, **kw):
    return subprocess.run(cmd, shell=True, capture_output=True, text=True, **kw)


def main():
    kf = json.load(open(os.path.join(VERIF, "known_findings.json")))["findings"]
    only = set(sys.argv[1:])
    outp = os.path.join(VERIF, "regressions.json")
    res = json.load(open(outp)) if os.path.exists(outp) else {}
    st = sh("git -C /repo status --porcelain --untracked-files=no").stdout
    if st.strip():
        print("refusing: /repo has local modifications")
        return 2
    tmpd = os.path.join(VERIF, ".build", "regress")
    os.makedirs(tmpd, exist_ok=True)
    for f in kf:
        if f["status"] != "fixed" or not f.get("commit"):
            continue
        c, pid = f["commit"], f["property"]
        if only and c not in only and f["id"] not in only:
            continue
        key = f["id"]
        patch = os.path.join(tmpd, c + ".diff")
        r = sh("git -C /repo diff %s %s^ -- src > %s" % (c, c, patch))
        chk = sh("git -C /repo apply --check %s" % patch)
        if chk.returncode != 0:
            # later fixes touched the same lines: try a 3-way apply
            r3 = sh("git -C /repo apply --3way %s" % patch)
            if r3.returncode != 0:
                sh("git -C /repo checkout -- . ; git -C /repo reset -q")
                res[key] = {"commit": c, "property": pid, "result": "reverse patch does not apply on HEAD (later fixes overlap)"}
                print(key, "SKIP (overlap)")
                json.dump(res, open(outp, "w"), indent=1)
                continue
            sh("git -C /repo reset -q")
        else:
            sh("git -C /repo apply %s" % patch)
        try:
            b = sh("cd /repo && cmake --build _build -j16 2>&1 | tail -1 && ./_build/bin/bloch_tests | tail -1")
            tests = b.stdout.strip().splitlines()[-1] if b.stdout.strip() else "build failed"
            rr = sh("python3 %s %s --tier quick" % (os.path.join(VERIF, "tools", "check.py"), pid), cwd=VERIF)
            hit = [l for l in rr.stdout.splitlines() if l.startswith("VIOLATION")]
            res[key] = {"commit": c, "property": pid, "result": "DETECTED" if hit else "missed", "tests_with_fix_reverted": tests,
                        "line": (hit[0] if hit else (rr.stdout.splitlines()[-1] if rr.stdout else ""))[:240]}
            print(key, res[key]["result"], "|", tests)
        finally:
            sh("git -C /repo checkout -- .")
        json.dump(res, open(outp, "w"), indent=1)
    sh("cd /repo && cmake --build _build -j16 >/dev/null 2>&1")
    return 0


if __name__ == "__main__":
    sys.exit(main())
