#!/usr/bin/env python3
"""Entry point: `python3 tools/check.py <ID> [--tier quick|thorough] [--replay <path>]`."""
import importlib
import os
import sys

HERE = os.path.dirname(os.path.abspath(__file__))
sys.path.insert(0, HERE)
sys.path.insert(0, os.path.join(HERE, "props"))


def main():
    if len(sys.argv) < 2:
        print("usage: check.py <ID> [--tier quick|thorough] [--replay path]")
        sys.exit(2)
    pid = sys.argv[1].upper()
    mod = importlib.import_module(pid.lower())
    if "--replay" in sys.argv:
        path = sys.argv[sys.argv.index("--replay") + 1]
        sys.exit(mod.replay(path))
    import framework
    chk = framework.Check(pid)
    try:
        mod.run(chk)
    except framework.buildlib.BuildError as e:
        # /repo no longer builds with the harness: nothing can be shown
        chk.violation("harness build failed: " + str(e)[:1500], {"build_error": str(e)[-3000:]},
                      arm="build", found_input=False)
    chk.finish()


if __name__ == "__main__":
    main()
