"""Independent strict OpenQASM 2.0 reader (the subset docs/reference/qasm-mapping.md defines) and a replay
interpreter that forces recorded measure/reset outcomes.  Written from the OpenQASM 2.0 / qelib1 definitions,
not from the printer."""
import cmath
import math
import re

import simlib

HEADER = ["OPENQASM 2.0;", "include \"qelib1.inc\";"]
REG = r"(\d+)"
PATTERNS = [
    (re.compile(r"^(h|x|y|z) q\[%s\];$" % REG), "g1"),
    (re.compile(r"^(rx|ry|rz)\((-?\d+\.\d+)\) q\[%s\];$" % REG), "rot"),
    (re.compile(r"^cx q\[%s\],q\[%s\];$" % (REG, REG)), "cx"),
    (re.compile(r"^reset q\[%s\];$" % REG), "reset"),
    (re.compile(r"^measure q\[%s\] -> c\[%s\];$" % (REG, REG)), "measure"),
]


def parse(text):
    """returns (n, ops) or raises ValueError with the reason (well-formedness per C05)"""
    if not text.endswith("\n"):
        raise ValueError("text does not end with a newline")
    lines = text[:-1].split("\n")
    if lines[:2] != HEADER:
        raise ValueError("bad header")
    m = re.match(r"^qreg q\[(\d+)\];$", lines[2]) if len(lines) > 2 else None
    c = re.match(r"^creg c\[(\d+)\];$", lines[3]) if len(lines) > 3 else None
    if not m or not c:
        raise ValueError("missing qreg/creg")
    n = int(m.group(1))
    if int(c.group(1)) != n:
        raise ValueError("creg size differs from qreg size")
    ops = []
    for ln in lines[4:]:
        for pat, kind in PATTERNS:
            mm = pat.match(ln)
            if mm:
                g = mm.groups()
                if kind == "g1":
                    op = (g[0], int(g[1]))
                elif kind == "rot":
                    op = (g[0], int(g[2]), float(g[1]))
                elif kind == "cx":
                    op = ("cx", int(g[0]), int(g[1]))
                    if op[1] == op[2]:
                        raise ValueError("cx on identical qubits: " + ln)
                elif kind == "reset":
                    op = ("reset", int(g[0]))
                else:
                    op = ("measure", int(g[0]), int(g[1]))
                    if op[1] != op[2]:
                        raise ValueError("measure q[i] -> c[j] with i != j: " + ln)
                for idx in op[1:3]:
                    if isinstance(idx, int) and idx >= n:
                        raise ValueError("operand out of range: " + ln)
                ops.append(op)
                break
        else:
            raise ValueError("unrecognised line: %r" % ln)
    return n, ops


def replay(n, ops, outcomes):
    """start from |0..0> on n qubits; outcomes: list of ('m'|'r', qubit, bit) consumed in order"""
    psi = [0j] * (2 ** n)
    psi[0] = 1 + 0j
    oi = 0
    for op in ops:
        k = op[0]
        if k in ("h", "x", "y", "z"):
            psi = simlib.apply_unitary(psi, op[1], simlib.matrix_of(k))
        elif k in ("rx", "ry", "rz"):
            psi = simlib.apply_unitary(psi, op[1], simlib.matrix_of(k, op[2]))
        elif k == "cx":
            psi = simlib.apply_cx(psi, op[1], op[2])
        else:
            if oi >= len(outcomes):
                raise ValueError("more measure/reset lines than recorded outcomes")
            kind, q, bit = outcomes[oi]
            oi += 1
            if (kind == "m") != (k == "measure") or q != op[1]:
                raise ValueError("outcome record %r does not match line %r" % (outcomes[oi - 1], op))
            p = sum(abs(a) ** 2 for i, a in enumerate(psi) if ((i >> q) & 1) == bit)
            if p <= 0:
                raise ValueError("recorded outcome has probability 0")
            s = math.sqrt(p)
            psi = [(a / s if ((i >> q) & 1) == bit else 0j) for i, a in enumerate(psi)]
            if k == "reset" and bit == 1:
                psi = [psi[i | (1 << q)] if not (i >> q) & 1 else 0j for i in range(len(psi))]
    if oi != len(outcomes):
        raise ValueError("recorded outcomes not all consumed")
    return psi
