#!/usr/bin/env python3
"""Apply a behaviour-preserving refactoring (patch.diff in <dir>) to /repo's working tree, run the quick tier of every check
whose property is anchored in the touched files, report any alarm (a false alarm, to be fixed in the machinery), and undo the
change.  usage: try_harmless.py <dir> [ID ...]   (IDs override the file-based selection)"""
import json
import os
import re
import subprocess
import sys

ROOT = os.path.dirname(os.path.dirname(os.path.abspath(__file__)))
BY_FILE = {
    "qasm_simulator": ["C01", "C02", "C03", "C04", "C05", "C06", "C18"],
    "runtime_evaluator": ["C02", "C03", "C05", "C06", "C07", "C08", "C09", "C10", "C11", "C12", "C17", "C18"],
    "cli.cpp": ["C17", "C18", "C05", "C12", "C04"],
    "lexer": ["C13", "C14", "C15"],
    "parser": ["C13", "C14", "C10", "C07"],
    "semantic_analyser": ["C16", "C10", "C13", "C08", "C09"],
    "module_loader": ["C19", "C10"],
    "update_manager": ["C20"],
}


def sh(cmd, cwd=None):
    r = subprocess.run(cmd, shell=True, cwd=cwd, capture_output=True, text=True)
    return r.returncode, r.stdout + r.stderr


def main():
    d = os.path.abspath(sys.argv[1])
    patch = open(os.path.join(d, "patch.diff")).read()
    ids = sys.argv[2:]
    if not ids:
        for key, lst in BY_FILE.items():
            if key in patch:
                ids += [i for i in lst if i not in ids]
    rc, o = sh("git status --short | grep -v _build", cwd="/repo")
    if o.strip():
        print("refusing: /repo has local changes:\n" + o)
        return 2
    rc, o = sh("git apply %s" % os.path.join(d, "patch.diff"), cwd="/repo")
    if rc != 0:
        print("patch does not apply:", o[:300])
        return 2
    res = {}
    try:
        for i in sorted(ids):
            rc, o = sh("python3 tools/check.py %s" % i, cwd=ROOT)
            tail = [l for l in o.splitlines() if l.strip()][-1] if o.strip() else ""
            res[i] = {"exit": rc, "alarm": rc != 0 or "VIOLATION" in o, "tail": tail[:200],
                      "first_violation": next((l for l in o.splitlines() if "VIOLATION" in l), "")[:200]}
            print(os.path.basename(d), i, "ALARM" if res[i]["alarm"] else "quiet", tail[:120], flush=True)
    finally:
        sh("git checkout -- .", cwd="/repo")
    json.dump(res, open(os.path.join(d, "harmless_result.json"), "w"), indent=1)
    return 1 if any(v["alarm"] for v in res.values()) else 0


if __name__ == "__main__":
    sys.exit(main())
