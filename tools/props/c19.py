"""C19 — imports resolve deterministically, load once, detect cycles, check packages."""
import json
import os
import shutil

import buildlib
from framework import run_lines, driver, load_corpus


def harness():
    return buildlib.build_harness("loader_harness")


# ------------------------------------------------------------------ layout generator
def gen_two_path_layout(rng):
    """one file reachable by two dotted paths: relative to a sibling's directory (where its package line may fit) and from the entry's
    root (where it may not); single and wildcard imports in either order"""
    p, q = rng.sample(["p", "q", "a", "b", "x"], 2)
    h, mid = rng.sample(["H", "Mid", "Util", "A", "B"], 2)
    decl_h = rng.choice([[q], [p, q], [p], None])
    mods = [
        {"path": "/w/%s/%s/%s.bloch" % (p, q, h), "pkg": decl_h, "dirpkg": [p, q], "name": h, "imports": [], "classes": ["K0"], "functions": ["m0"], "bad": False},
        {"path": "/w/%s/%s.bloch" % (p, mid), "pkg": [p], "dirpkg": [p], "name": mid,
         "imports": [rng.choice(["%s.%s" % (q, h), "%s.*" % q, "%s.%s.%s" % (p, q, h)])], "classes": ["K1"], "functions": ["m1"], "bad": False},
    ]
    if rng.random() < 0.4:
        mods.append({"path": "/w/%s/%s/Other.bloch" % (p, q), "pkg": rng.choice([[p, q], [q]]), "dirpkg": [p, q], "name": "Other", "imports": [],
                     "classes": ["K2"], "functions": ["m2"], "bad": False})
    imps = ["%s.%s" % (p, mid), rng.choice(["%s.%s.*" % (p, q), "%s.%s.%s" % (p, q, h)])]
    rng.shuffle(imps)
    entry = {"path": "/w/main.bloch", "pkg": None, "dirpkg": [], "name": "main", "imports": imps, "classes": [], "functions": ["e0", "main"], "bad": False}
    mods.append(entry)
    return {"roots": ["/w"], "cwd": rng.choice(["/w", "/w/" + p]), "sps": [], "mods": mods, "entry": entry["path"], "dirs": ["/w"]}


def gen_layout(rng, big=False):
    if rng.random() < 0.2:
        return gen_two_path_layout(rng)
    roots = ["/w", "/lib", "/alt"][: rng.randrange(1, 4)]
    cwd = rng.choice(roots + ["/w/sub"] if "/w" in roots else roots)
    sps = [r for r in roots[1:] if rng.random() < 0.7 and (r != cwd or rng.random() < 0.3)]
    rng.shuffle(sps)
    pkgs = [[], ["a"], ["a", "b"], ["x"], ["bloch", "lang"], ["bloch", "util"], ["blochlab", "util"], ["blochx"], ["blo", "ch"]]
    nmod = rng.randrange(2, 9 if big else 7)
    mods = []          # dicts: path, pkg(decl), imports, classes, functions
    used = set()
    for i in range(nmod):
        pkg = rng.choice(pkgs)
        root = rng.choice(roots)
        name = rng.choice(["A", "B", "C", "D", "Object", "Util", "M"]) if rng.random() < 0.6 else "N%d" % i
        path = root + "".join("/" + p for p in pkg) + "/" + name + ".bloch"
        if path in used:
            continue
        used.add(path)
        decl = pkg
        u = rng.random()
        if u < 0.04:
            decl = rng.choice(pkgs)             # wrong package line
        elif u < 0.06:
            decl = None                         # missing package line
        elif u < 0.16 and len(pkg) >= 2:
            decl = pkg[1:]                      # fits the path relative to the parent package's directory, not the path from the root
        mods.append({"path": path, "pkg": decl, "dirpkg": pkg, "name": name, "imports": [], "classes": ["K%d" % i],
                     "functions": ["m%d" % i], "bad": rng.random() < 0.03})
    if not mods:
        return None
    # shadowing candidates: the same package-qualified module in a second (and third) root, distinguishable by its marker
    for m in list(mods):
        if rng.random() < 0.35:
            for other in roots:
                if other != m["path"].split("/")[1] and rng.random() < 0.6:
                    path = "/" + other.strip("/") + "".join("/" + p for p in m["dirpkg"]) + "/" + m["name"] + ".bloch"
                    if path not in used:
                        used.add(path)
                        j = len(mods)
                        mods.append({"path": path, "pkg": m["pkg"], "dirpkg": m["dirpkg"], "name": m["name"], "imports": [],
                                     "classes": ["K%d" % j], "functions": ["m%d" % j], "bad": False})
    entry = {"path": "/w/main.bloch" if "/w" in roots else roots[0] + "/main.bloch", "pkg": None, "dirpkg": [], "name": "main",
             "imports": [], "classes": [], "functions": ["e0"], "bad": False}
    mods.append(entry)
    # imports: mostly valid targets (by package + name), some wildcard, some missing
    for mi, m in enumerate(mods):
        k = rng.randrange(0, 4)
        for _ in range(k):
            # mostly forward edges (a DAG with diamonds); some back edges make cycles
            cands = mods[:mi] if (mi > 0 and rng.random() < 0.85) else mods[:-1]
            t = rng.choice(cands)
            u = rng.random()
            same_root = t["path"].split("/")[1] == m["path"].split("/")[1]
            below = same_root and len(t["dirpkg"]) > len(m["dirpkg"]) and t["dirpkg"][:len(m["dirpkg"])] == m["dirpkg"]
            if below and rng.random() < 0.5:
                # the same file reached by its path relative to the importer's own directory
                relpkg = t["dirpkg"][len(m["dirpkg"]):]
                imp = ".".join(relpkg + [t["name"] if rng.random() < 0.7 else "*"])
            elif u < 0.2:
                imp = ".".join(t["dirpkg"] + ["*"]) if t["dirpkg"] else None
            elif u < 0.24:
                imp = ".".join(t["dirpkg"] + ["Missing"])
            else:
                imp = ".".join(t["dirpkg"] + [t["name"]])
            if imp and imp not in m["imports"]:
                m["imports"].append(imp)
    # mains: usually exactly one
    u = rng.random()
    holders = [entry] if u < 0.8 else ([] if u < 0.88 else [entry, rng.choice(mods[:-1])] if u < 0.95 else [rng.choice(mods[:-1])])
    for h in holders:
        h["functions"].append("main")
    dirs = set()
    for r in roots:
        dirs.add(r)
    dirs.add(cwd)
    if rng.random() < 0.3:
        dirs.add(rng.choice(roots) + "/a")          # an empty package directory in some root (wildcard must skip it)
    return {"roots": roots, "cwd": cwd, "sps": sps, "mods": mods, "entry": entry["path"], "dirs": sorted(dirs)}


def spec_text(L):
    lines = ["CWD " + L["cwd"], "SP " + " ".join(L["sps"]) if L["sps"] else "SP", "ENTRY " + L["entry"]]
    dirs = set(L["dirs"])
    for m in L["mods"]:
        d = os.path.dirname(m["path"])
        while d and d != "/":
            dirs.add(d)
            d = os.path.dirname(d)
    for d in sorted(dirs):
        lines.append("D " + d)
    for m in L["mods"]:
        if m["bad"]:
            lines.append("X " + m["path"])
        else:
            lines.append("F %s %s %s %s %s" % (m["path"], ".".join(m["pkg"]) if m["pkg"] else "-",
                                               ",".join(m["imports"]) or "-", ",".join(m["classes"]) or "-",
                                               ",".join(m["functions"]) or "-"))
    return "\n".join(lines) + "\n"


# ------------------------------------------------------------------ reference written from docs/language/semantics.md
class RefErr(Exception):
    pass


def reference(L):
    files = {m["path"]: m for m in L["mods"]}
    dirs = set(L["dirs"])
    for p in files:
        d = os.path.dirname(p)
        while d and d != "/":
            dirs.add(d); d = os.path.dirname(d)

    def roots_for(parts, from_dir):
        if parts and parts[0] == "bloch":
            return L["sps"] + [from_dir, L["cwd"]]
        return [from_dir] + L["sps"] + [L["cwd"]]

    def resolve_single(parts, from_dir):
        rel = "/".join(parts) + ".bloch"
        for r in roots_for(parts, from_dir):
            if r + "/" + rel in files:
                return r + "/" + rel
        return None

    def resolve_wild(pkg, from_dir):
        for r in roots_for(pkg, from_dir):
            d = r + "".join("/" + p for p in pkg)
            here = sorted(p for p in files if os.path.dirname(p) == d)
            if d in dirs and here:
                return here
        return []

    order, stack = [], []

    def load(path):
        if path in stack:
            raise RefErr("cycle")
        if path in order:
            return
        m = files.get(path)
        if m is None:
            raise RefErr("open-fail")
        if m["bad"]:
            raise RefErr("parse")
        stack.append(path)
        d = os.path.dirname(path)
        for imp in m["imports"]:
            parts = imp.split(".")
            if parts[-1] == "*":
                pkg = parts[:-1]
                ts = resolve_wild(pkg, d)
                if not ts:
                    raise RefErr("not-found")
                for t in ts:
                    if t == path:
                        continue
                    load(t)
                    if (files[t]["pkg"] or []) != pkg:
                        raise RefErr("pkg-mismatch")
            else:
                t = resolve_single(parts, d)
                if t is None:
                    raise RefErr("not-found")
                load(t)
                if (files[t]["pkg"] or []) != parts[:-1]:
                    raise RefErr("pkg-mismatch")
        order.append(path)
        stack.pop()

    obj = resolve_single(["bloch", "lang", "Object"], os.path.dirname(L["entry"]))
    if obj:
        load(obj)
    load(L["entry"])
    fns = [f for p in order for f in files[p]["functions"]]
    cls = [c for p in order for c in files[p]["classes"]]
    n = fns.count("main")
    if n == 0:
        raise RefErr("no-main")
    if n > 1:
        raise RefErr("multi-main")
    return cls, fns


def expected_line(L):
    try:
        cls, fns = reference(L)
        return "ok classes=%s functions=%s" % (",".join(cls) or "-", ",".join(fns) or "-")
    except RefErr as e:
        return "err " + str(e)


SEMANTIC_KINDS = {"cycle", "not-found", "pkg-mismatch", "no-main", "multi-main", "missing-symbol"}


def judge(L, impl_reply):
    """Property oracle on the real loader's reply (None = fine)."""
    exp = expected_line(L)
    got = impl_reply
    parts = got.split()
    if got.startswith("err") and len(parts) == 3:
        kind, cat = parts[1], parts[2]
        if kind in SEMANTIC_KINDS and cat != "Semantic":
            return "'%s' reported with category %s, not Semantic" % (kind, cat)
        got = "err " + kind
    if got != exp:
        return "loader gives %r, the documented resolution/loading rules give %r" % (impl_reply, exp)
    return None


def run(chk):
    chk.rule = ("seeded directory layouts: 1-3 roots (importer dir / search paths / cwd), packages incl. bloch.*, same-named modules in "
                "several roots (shadowing), diamonds and cycles via random imports, wildcard directories incl. empty ones, wrong or missing "
                "package lines, unparsable files, 0/1/2 mains; entry, search-path order and cwd vary. distinct non-trivial = distinct "
                "layouts whose load touches >= 3 modules or ends in an import-related diagnostic")
    chk.assumptions = ["symlinks, '..', case folding and weakly_canonical are outside the model; the generator avoids them",
                       "a file is abstracted to package line, imports, class and function names"]
    chk.prove()
    rng = chk.rng
    n = 20000 if chk.thorough else 450
    layouts = []
    for fn, o in load_corpus("C19"):
        if "layout" in o:
            layouts.append(o["layout"])
    while len(layouts) < n:
        L = gen_layout(rng, big=chk.thorough)
        if L:
            layouts.append(L)
    lines = ["loader " + spec_text(L).encode().hex() for L in layouts]
    scratch = os.path.join(buildlib.BUILD, "loader_scratch_%d" % os.getpid())
    try:
        impl, rc, err = run_lines([harness(), scratch], lines)
    finally:
        shutil.rmtree(scratch, ignore_errors=True)
    model, _, _ = driver(lines)
    kinds = {}
    dis = bad = None
    for i, L in enumerate(layouts):
        a = impl[i] if i < len(impl) else "<missing>"
        b = model[i] if i < len(model) else "<missing>"
        a_cmp = " ".join(a.split()[:2]) if a.startswith("err") else a
        if a_cmp != b and dis is None:
            dis = (L, a, b)
        k = a.split()[1] if a.startswith("err") else "ok"
        kinds[k] = kinds.get(k, 0) + 1
        nontriv = (a.startswith("ok") and a.count(",") >= 3) or k in ("cycle", "not-found", "pkg-mismatch")
        chk.count(spec_text(L) if nontriv else None)
        why = judge(L, a)
        if why and bad is None:
            bad = (L, why)
    chk.extra["result_histogram"] = kinds
    chk.extra["correspondence"] = {"layouts": len(layouts), "first_disagreement": ("impl=%s model=%s" % (dis[1], dis[2])) if dis else ""}
    chk.sample({"spec": spec_text(layouts[0]), "result": impl[0] if impl else ""})
    chk.sample({"spec": spec_text(layouts[1]), "result": impl[1] if len(impl) > 1 else ""})
    if bad:
        L, why = bad
        chk.violation("module loader: " + why, {"layout": L, "spec": spec_text(L), "kind": "layout"})
    elif dis:
        chk.violation("correspondence: loader model and real ModuleLoader disagree (impl=%s model=%s); the documented-rules oracle did "
                      "not fail on the explored layouts" % (dis[1], dis[2]), {"layout": dis[0], "spec": spec_text(dis[0]), "stream": "loader"},
                      arm="correspondence:loader", found_input=False)


def replay(path):
    obj = json.load(open(path))
    L = obj.get("layout")
    if not L:
        print(json.dumps(obj, indent=1)); return 1
    ln = "loader " + spec_text(L).encode().hex()
    scratch = os.path.join(buildlib.BUILD, "loader_scratch_replay")
    impl, _, _ = run_lines([harness(), scratch], [ln])
    model, _, _ = driver([ln])
    shutil.rmtree(scratch, ignore_errors=True)
    print(spec_text(L)); print(" impl :", impl, "\n model:", model, "\n documented:", expected_line(L))
    why = judge(L, impl[0]) if impl else "no reply"
    print(" oracle:", why or "holds")
    return 1 if why else 0
