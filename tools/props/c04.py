"""C04 — reset is local (simulator level): both branches forced from the same pre-state."""
import simlib
from simlib import mass, hex64

R_ONE = 0.0                 # draw 0 selects outcome 1 whenever P(1) > 0
R_ZERO = 1 - 2 ** -53       # the largest draw selects outcome 0 whenever P(1) < 1


def rho_rest(psi, q):
    """reduced density matrix of the qubits other than q (dict (j,j') -> complex), j with bit q clear"""
    idx = [j for j in range(len(psi)) if not (j >> q) & 1]
    bit = 1 << q
    return {(j, k): psi[j] * psi[k].conjugate() + psi[j | bit] * psi[k | bit].conjugate() for j in idx for k in idx}


def check_reset(pre, q, post1, post0):
    n, psi = pre
    p1, p0 = mass(psi, q, 1), mass(psi, q, 0)
    bit = 1 << q
    for nm, post in (("1", post1), ("0", post0)):
        if post is None:
            continue
        if any(abs(post[1][i]) > 1e-12 for i in range(len(psi)) if i & bit):
            return "target not in |0> after reset (branch %s)" % nm
        if abs(simlib.norm2(post[1]) - 1) > 1e-9:
            return "norm after reset (branch %s) = %.12g" % (nm, simlib.norm2(post[1]))
    if post1 is None or post0 is None:
        return None
    # branches: with P(1)=0 the draw 0 still gives outcome 0 (0<0 false); with P(1)=1 draw R_ZERO gives 1
    r_pre = rho_rest(psi, q)
    r1 = rho_rest(post1[1], q)
    r0 = rho_rest(post0[1], q)
    w1 = p1 if p1 > 0 else 0.0
    w0 = p0 if p1 < 1 else 0.0
    if p1 <= 0:
        w0, w1 = 1.0, 0.0
    if p1 >= 1:
        w0, w1 = 0.0, 1.0
    for key, v in r_pre.items():
        avg = w0 * r0[key] + w1 * r1[key]
        if abs(avg - v) > 1e-8:
            return "reduced state of the other qubits changed: rho%s before %.6g%+.6gi, averaged after %.6g%+.6gi" % (
                key, v.real, v.imag, avg.real, avg.imag)
    return None


def prep_histories(chk, nmax, nrand):
    out = []
    for n in range(1, nmax + 1):
        for pname, prep in simlib.preparations(n, chk.rng):
            if pname.startswith("basis") and n > 3:
                continue
            out.append((n, ["new 1"] + ["alloc"] * n + prep))
    for _ in range(nrand):
        n = chk.rng.randrange(2, nmax + 2)
        ops = simlib.random_history(chk.rng, max_n=n, length=chk.rng.randrange(4, 25), p_measure=0.05, p_reset=0.0,
                                    p_alloc=0.0, start_n=n, errors=False)
        out.append((n, ops))
    return out


def oracle_fails(ops):
    # ops ends with "reset q <r>"; evaluate both branches
    q = int(ops[-1].split()[1])
    base = ops[:-1]
    rows1 = simlib.impl_rows(base + ["reset %d %s" % (q, hex64(R_ONE))])
    rows0 = simlib.impl_rows(base + ["reset %d %s" % (q, hex64(R_ZERO))])
    if not rows1[-1][1].startswith("ok") or rows1[-2][2] is None:
        return False
    return check_reset(rows1[-2][2], q, rows1[-1][2], rows0[-1][2]) is not None


def run(chk):
    chk.rule = ("every preparation (basis states, GHZ, rotated-entangled, H-layer) for n<=N plus seeded random entangled states; "
                "for each, reset of every qubit with both branches forced (draw 0 and draw 1-2^-53); a case is one (state, target); "
                "distinct non-trivial = distinct (n, q, preparation) where the target is entangled or in superposition (0<P(1)<1)")
    chk.assumptions = ["branch b is taken with probability ||P_b psi||^2 under a uniform draw (assumed RNG uniformity)",
                       "tolerance 1e-8 on reduced density matrices"]
    chk.prove()
    nmax = 5 if chk.thorough else 4
    preps = prep_histories(chk, nmax, 400 if chk.thorough else 60)
    import framework
    for fn, o in framework.load_corpus("C04"):
        if "ops" in o and o["ops"][-1].startswith("reset"):
            preps.insert(0, (sum(1 for x in o["ops"] if x == "alloc"), o["ops"][:-1]))
    hs = []
    meta = []
    for pi, (n, base) in enumerate(preps):
        for q in range(n):
            hs.append(("p%d-q%d-1" % (pi, q), base + ["reset %d %s" % (q, hex64(R_ONE))]))
            hs.append(("p%d-q%d-0" % (pi, q), base + ["reset %d %s" % (q, hex64(R_ZERO))]))
            meta.append((pi, q))
    per, dis = simlib.run_histories(chk, hs)
    bad = None
    for mi, (pi, q) in enumerate(meta):
        rows1, rows0 = per[2 * mi], per[2 * mi + 1]
        pre = rows1[-2][2]
        if pre is None or not rows1[-1][1].startswith("ok"):
            chk.count(None)
            continue
        p1 = mass(pre[1], q, 1)
        chk.count((pre[0], q, pi) if 1e-9 < p1 < 1 - 1e-9 else None)
        why = check_reset(pre, q, rows1[-1][2], rows0[-1][2])
        if why and bad is None:
            bad = (2 * mi, why)
    for t, ops in hs[:1] + hs[len(hs) // 2:len(hs) // 2 + 2]:
        chk.sample({"history": ops})
    # evaluator level: releasing the qubits of a dying object is the sampling reset — an outside qubit entangled with one collapses to the sampled branch, it is not post-selected
    import qobjgen
    qprogs, qout, qinc = qobjgen.run_family(chk.rng, 600 if chk.thorough else 120)
    qbad = None
    for qp, ql in zip(qprogs, qout):
        chk.count(("qobj", qp.text) if ql.startswith("ok ") else None)
        w = qobjgen.judge(qp, ql, "ent")
        if w and qbad is None:
            qbad = (qp, ql, w)
    # releasing an object's qubits resets them there and then: once every object is gone the register is back in |0...0>, whether or
    # not the indices are ever reused
    import evallib as _ev4
    rel = []
    for _ in range(200 if chk.thorough else 20):
        c = chk.rng.choice(["QB", "QD", "QE"])
        body = []
        for f in qobjgen.FIELDS[c]:
            g = chk.rng.choice(["x(o.%s);" % f, "h(o.%s);" % f, "", "x(o.%s); h(o.%s);" % (f, f)])
            body.append(g)
        if chk.rng.random() < 0.5:
            body.append("cx(o.%s, o.%s);" % tuple(chk.rng.sample(qobjgen.FIELDS[c], 2)))
        end = chk.rng.choice(["destroy o;", ""])
        d = chk.rng.choice([0.1, 0.9])
        rel.append((qobjgen.CLASSES + "function main() -> void { { %s o = new %s(); %s %s } echo(1); }" % (c, c, " ".join(body), end), [d] * 40))
    _lr, rimpl, _mr, _ir = _ev4.run_programs(rel, with_model=False)
    for (src, ds), a in zip(rel, rimpl):
        chk.count(("release-resets", src) if a.startswith("ok ") else None)
        st = _ev4.split_result(a).get("state") if a.startswith("ok ") else None
        ok = st is not None and abs(abs(st[1][0]) - 1.0) < 1e-9
        if a.startswith("ok ") and not ok and qbad is None and not bad:
            chk.violation("after every object is gone the register is not back in |0...0> (amplitude of |0...0> is %s): released qubits were not reset\n%s"
                          % (abs(st[1][0]) if st else "?", src[-500:]), {"source": src, "draw": ds[0], "kind": "qobj", "clause": "release"})
            break
    # a re-allocated index starts in |0> whatever happened to it between its release and its re-use: the only way to reach a released
    # index is a handle copied out of its owner before the owner died (the copied-handle finding recorded under C03), which is exactly
    # why the re-allocation resets once more
    realloc = []
    RB = "class RBox { public qubit q; public qubit[2] r; public constructor() -> RBox { } public function handle() -> qubit { return this.q; } public function second() -> qubit { return this.r[1]; } }\n"
    for touch in ("x(old);", "h(old); z(old); h(old);", "x(old); x(old); x(old);", "rx(old, 3.141592653589793f);"):
        for getter, field in (("handle()", "q"), ("second()", "r[1]")):
            for fresh in ("RBox c = new RBox(); bit m = measure c.%s; echo(m);" % field,
                          "qubit f0; qubit f1; qubit f2; bit m0 = measure f0; bit m1 = measure f1; bit m2 = measure f2; echo(m0); echo(m1); echo(m2);",
                          "qubit[3] fr; bit[] ms = measure fr; echo(ms[0]); echo(ms[1]); echo(ms[2]);"):
                for end in ("destroy b;", ""):
                    if end:
                        src = RB + "function main() -> void { RBox b = new RBox(); qubit old = b.%s; destroy b; %s %s }" % (getter, touch, fresh)
                    else:
                        src = RB + "function mk() -> qubit { RBox b = new RBox(); return b.%s; }\nfunction main() -> void { qubit old = mk(); %s %s }" % (getter, touch, fresh)
                    realloc.append((src, [0.5] * 40))
    _l5, aimpl, _m5, _i5 = _ev4.run_programs(realloc, with_model=False)
    for (src, ds), a in zip(realloc, aimpl):
        chk.count(("realloc-resets", src) if a.startswith("ok ") else None)
        if not a.startswith("ok "):
            continue
        got = _ev4.split_result(a).get("echo_lines")
        if any(x != "0" for x in got) and qbad is None and not bad:
            chk.violation("a freshly allocated qubit does not read 0 (%s): its index was released, touched through a surviving handle, and handed "
                          "out again without a reset\n%s" % (got, src[-420:]), {"source": src, "draw": 0.5, "kind": "qobj", "clause": "realloc"})
            break
    # the one thing forced draws cannot show: the random numbers a reset consumes are independent of those of the measurements.  Real
    # command-line runs with the process generator: a reset of half a Bell pair leaves the partner a fair coin that is independent of a
    # third, separately measured coin, so "partner == coin" holds in about half of 200 shots.  Judged with a margin that a fair coin
    # misses with probability below 1e-30 (fewer than 20 of 200); supporting evidence, not a proof.
    import shutil as _sh, tempfile as _tf
    import buildlib as _bl
    import c17 as _c17
    exe = _bl.build_cli()
    work = _tf.mkdtemp(prefix="c04_", dir=_bl.BUILD)
    try:
        STAT = ["qubit a; qubit b; qubit c; @tracked qubit same; h(a); cx(a, b); h(c); reset a; bit mc = measure c; bit mb = measure b; reset a; reset a; if (mb == mc) { x(same); } bit ms = measure same;",
                "qubit a; qubit b; qubit c; @tracked qubit same; h(c); h(a); cx(a, b); bit mc = measure c; reset a; bit mb = measure b; if (mb == mc) { x(same); } bit ms = measure same;",
                "qubit a; qubit b; qubit c; @tracked qubit same; h(a); cx(a, b); reset a; h(c); bit mb = measure b; bit mc = measure c; if (mb == mc) { x(same); } bit ms = measure same;"]
        for body in (STAT if chk.thorough else STAT[:2]):
            src = "function main() -> void { %s }" % body
            rc, out, err, _q = _c17.run_cli(exe, work, src, ["--shots=200"])
            chk.count(("reset-draw-independence", body))
            _shots, tables, _pre = _c17.parse_tables(out)
            rows = {o: c for o, c, _p in tables.get("qubit same", [])}
            if rc == 0 and (rows.get("0", 0) < 20 or rows.get("1", 0) < 20) and qbad is None and not bad:
                chk.violation("after resetting half of a Bell pair its partner agrees with an independent coin in %s of 200 shots: the reset's random "
                              "draws are not independent of the measurements'\n%s" % (rows, src), {"source": src, "args": ["--shots=200"], "kind": "cli-statistics"})
                break
    finally:
        _sh.rmtree(work, ignore_errors=True)
    chk.extra["evaluator_level_programs"] = len(qprogs)
    if qbad:
        qp, ql, w = qbad
        chk.violation("quantum object program (constant draw %.1f): %s\n%s" % (qp.draw, w, qp.text[-900:]),
                      {"source": qp.text, "draw": qp.draw, "kind": "qobj", "clause": "ent"})
    if bad:
        hi, why = bad
        ops = hs[hi][1]
        small = simlib.shrink_ops(ops, oracle_fails) if oracle_fails(ops) else ops
        chk.violation("reset on the real simulator: " + why, {"ops": small, "kind": "sim-history"})
    else:
        simlib.report_correspondence(chk, dis, "the reset-locality oracle did not fail on the explored states")


def replay(path):
    import json as _json
    _o = _json.load(open(path))
    if _o.get("kind") == "qobj":
        import evallib, qobjgen
        from framework import run_guarded
        out, _ = run_guarded(evallib.harness(), ["run %s 1 %s" % (evallib.hx(_o["source"]), evallib.draws_arg([_o["draw"]] * 400))])
        print(_o["source"]); print(" ->", evallib.split_result(out[0]).get("echo_lines", out[0][:200]), evallib.split_result(out[0]).get("tracked"))
        return 1
    if _o.get("kind") == "cli-statistics":
        import c17
        return c17.replay(path)
    return simlib.generic_replay(path, "reset-locality oracle", oracle_fails)
