"""C13 — the front end is total: any input yields an AST or one categorised diagnostic."""
import json
import re
import subprocess

import buildlib
import bytegen
from framework import run_lines, driver, load_corpus

OK_RE = re.compile(r"^(ok|err (Lexical|Parse|Semantic) \d+ \d+)$")


def harness(flavour="asan"):
    return buildlib.build_harness("front_harness", flavour=flavour)


def hx(b):
    return b.hex() if b else "-"


def run_guarded(exe, lines, per_input_timeout=5):
    """Run the harness; on a crash/timeout find the input that kills it (bisection by re-running the tail)."""
    replies = []
    i = 0
    crash = None
    while i < len(lines):
        chunk = lines[i:]
        try:
            r = subprocess.run([exe], input="\n".join(chunk) + "\n", stdout=subprocess.PIPE, stderr=subprocess.PIPE, text=True,
                               timeout=max(60, per_input_timeout * 4 + len(chunk) // 200))
            out = r.stdout.split("\n")
            if out and out[-1] == "":
                out.pop()
            replies += out[:len(chunk)]
            if len(out) >= len(chunk):
                break
            # died on input number len(out) of this chunk
            k = i + len(out)
            crash = crash or (k, "exit %s: %s" % (r.returncode, r.stderr[-1500:]))
            replies.append("CRASH")
            i = k + 1
        except subprocess.TimeoutExpired as e:
            out = (e.stdout or b"").decode("latin-1").split("\n") if isinstance(e.stdout, bytes) else (e.stdout or "").split("\n")
            if out and out[-1] == "":
                out.pop()
            replies += out[:len(chunk)]
            k = i + len(out)
            crash = crash or (k, "timeout (hang)")
            replies.append("HANG")
            i = k + 1
    return replies, crash


def run(chk):
    chk.rule = ("valid corpus (examples/, library/, demo/), every kind of byte-level mutation of it (deletion, insertion of a token, "
                "replacement, truncation at a random byte), token-alphabet strings, random bytes, deep bracket nesting; each input goes "
                "through lexer+parser (compared with the Lean front end) and lexer+parser+analyser with ONE shared analyser instance "
                "(compared with a fresh instance); the harness is built with ASan+UBSan. distinct non-trivial = distinct inputs that reach "
                "the parser (no lexical error)")
    chk.assumptions = ["memory safety and stack depth of the real front end are observed through ASan/UBSan and a per-run timeout, not proved",
                       "import loading is exercised by C19's harness; here the analyser sees single-file programs"]
    import translate_tables
    chk.prove(generated=[translate_tables.keywords, translate_tables.binding_table, translate_tables.parser_constants])
    rng = chk.rng
    inputs = []
    for fn, o in load_corpus("C13"):
        if "hex" in o:
            inputs.append(bytes.fromhex(o["hex"]))
    corp = bytegen.corpus_sources(6000)
    inputs += [b for _f, b in corp]
    for _f, b in corp[: (60 if chk.thorough else 14)]:
        inputs += bytegen.byte_mutations(rng, b, 150 if chk.thorough else 45)
    inputs += bytegen.token_soup(rng, 5000 if chk.thorough else 700, maxlen=25)
    inputs += bytegen.random_bytes(rng, 2000 if chk.thorough else 250)
    # nesting and chain length around and far beyond the parser's limit (256): every recursive construct and every loop-built chain
    for d in (50, 254, 255, 256, 257, 400, 3000, 60000 if chk.thorough else 20000):
        inputs.append(b"function main() -> void { int x = " + b"(" * d + b"1" + b")" * d + b"; }")
        inputs.append(b"function main() -> void { " + b"{" * d + b"}" * d + b" }")
        inputs.append(b"function main() -> void { int x = " + b"-" * d + b" 1; }")
        inputs.append(b"function main() -> void { boolean x = " + b"!" * d + b"true; }")
        inputs.append(b"function main() -> void { int[] a = " + b"{" * d)
        inputs.append(b"function main() -> void { int x = 1" + b" + 1" * d + b"; echo(x); }")
        inputs.append(b"function main() -> void { int[] a = {1}; int x = a" + b"[0]" * d + b"; }")
        inputs.append(b"function f(int a) -> int { return a; }\nfunction main() -> void { echo(" + b"f(" * d + b"1" + b")" * d + b"); }")
        inputs.append(b"class A<T> { public constructor() -> A<T> = default; }\nfunction main() -> void { " + b"A<" * d + b"int" + b">" * d + b" v; }")
        inputs.append(b"class A { public A n; public int v = 1; public constructor() -> A = default; }\nfunction main() -> void { A a = new A(); echo(a" + b".n" * d + b".v); }")
        inputs.append(b"function main() -> void { int x = 1; " + b"x == 1 ? " * d + b"echo(1); " + b": echo(0); " * d + b" }")
        inputs.append(b"function main() -> void { int x = 1; " + b"if (x == 1) { " * d + b"echo(1);" + b" }" * d + b" }")
        inputs.append(b"function main() -> void { int x = " + b"(int) " * d + b"1; }")
        inputs.append(b"function main() -> void { int a = 0; a = " + b"a = " * d + b"1; }")
        inputs.append(b"function main() -> void { int[] v = {0}; int a = 0; v[0] = " + b"a = " * d + b"1; }")
        inputs.append(b"function f(int p) -> int { return p; }\nfunction main() -> void { int a = 0; echo(f(" + b"a = " * d + b"1)); }")
        # types: a run of '[]' / '[3]' builds a chain of array types that the later passes walk recursively
        inputs.append(b"function main() -> void { int" + b"[]" * d + b" x; }")
        inputs.append(b"function f(int" + b"[2]" * d + b" p) -> void { }\nfunction main() -> void { }")
        inputs.append(b"class A { public int" + b"[]" * d + b" f; public constructor() -> A = default; }\nfunction main() -> void { }")
        inputs.append(b"function main() -> void { int x = (int" + b"[]" * d + b") 1; }")
    # imports whose path components are absurd for a file system (too long, dots only, empty): the loader's probe must end in a diagnostic
    for comp in ("a" * 300, "b" * 5000, "x" * 256, "y" * 255):
        inputs.append(("import %s;\nfunction main() -> void { }" % comp).encode())
        inputs.append(("import pkg.%s.Thing;\nfunction main() -> void { }" % comp).encode())
        inputs.append(("import %s.*;\nfunction main() -> void { }" % comp).encode())
    # numeric extremes in every position where the front end converts digits itself (index guards, array sizes, @shots, literals)
    NUMS = ["0", "7", "2147483647", "2147483648", "4294967295", "4294967296", "9223372036854775807", "9223372036854775808",
            "18446744073709551616", "9" * 20, "9" * 25, "1" + "0" * 40, "9" * 400, "00000000000000000000001", "0" * 30]
    for n in NUMS:
        for form in ("function main() -> void { int[] a = {1, 2}; echo(a[-%s]); }", "function main() -> void { int[] a = {1, 2}; echo(a[%s]); }",
                     "function main() -> void { int[] a = {1, 2}; a[-%s] = 1; }", "function main() -> void { int[%s] a; }",
                     "function main() -> void { int[-%s] a; }", "@shots(%s) function main() -> void { }", "@shots(-%s) function main() -> void { }",
                     "function main() -> void { int x = %s; }", "function main() -> void { int x = -%s; }", "function main() -> void { long x = %sL; }",
                     "function main() -> void { long x = -%sL; }", "function main() -> void { float x = %s.5f; }", "function main() -> void { float x = %sf; }",
                     "function main() -> void { bit x = %sb; }", "function main() -> void { int[] a = {1}; echo(a[-(%s)]); }",
                     "function main() -> void { int[] a = {1}; echo(a[- -%s]); }", "function main() -> void { qubit[%s] q; }",
                     "function main() -> void { int x = 1; echo(x[-%s][-%s]); }"):
            inputs.append((form.replace("%s", n)).encode())
    # constant expressions the analyser folds itself (array sizes, final ints): division and modulo at the int limits, by zero, nested
    for ce in ("(-2147483647 - 1) / -1", "(-2147483647 - 1) % -1", "(-2147483647 - 1) % -1 + 2", "4 / 0", "4 % 0", "2147483647 + 1", "-(-2147483647 - 1)",
               "(-2147483647 - 1) * -1", "7 / -1", "((-2147483647 - 1) / -1) / -1", "(int) ((-2147483647 - 1) / -1)", "2147483647 * 2147483647",
               "(0 - 2147483647 - 1) / (0 - 1)", "1 / (1 - 1)"):
        inputs.append(("function main() -> void { int[%s] a; echo(1); }" % ce).encode())
        inputs.append(("function main() -> void { final int n = %s; int[n] a; echo(1); }" % ce).encode())
        inputs.append(("function main() -> void { final int m = -1; int[(-2147483647 - 1) / m] a; final int k = %s; }" % ce).encode())
        inputs.append(("class B { public int[%s] xs; public constructor() -> B = default; }\nfunction main() -> void { B b = new B(); }" % ce).encode())
    inputs += [b"@shots(99999999999) function main() -> void { }", b"@shots(5) function main() -> void { }",
               b"@quantum function f() -> bit { qubit q; return measure q; }", b"function main() -> void { int[99999999999] a; }"]
    # structured analyser hazards: inheritance graphs with cycles, self-extension, chains leading into a cycle (under many class
    # names: the analyser's maps are hash-ordered), mutually recursive generic bounds, very deep hierarchies
    POOL = ["A", "B", "C", "D", "E", "Z", "Leaf", "Child", "Sub", "Q1", "Node", "Base", "Mid", "Top", "K9", "Zeta", "alpha", "M", "N", "P"]
    for _ in range(900 if chk.thorough else 160):
        k = rng.randrange(2, 7)
        names = rng.sample(POOL, k)
        decls = []
        for i, n in enumerate(names):
            mode = rng.random()
            if mode < 0.25:
                ext = ""
            elif mode < 0.35:
                ext = " extends " + n                      # self
            else:
                ext = " extends " + rng.choice(names)
            decls.append("class %s%s { public constructor() -> %s = default; }" % (n, ext, n))
        rng.shuffle(decls)
        inputs.append(("\n".join(decls) + "\nfunction main() -> void { }").encode())
    # the same class names with a different inheritance relation (and a use that the relation decides) in consecutive inputs: the shared
    # analyser instance must judge each program by its own hierarchy, like a fresh one
    for _ in range(200 if chk.thorough else 30):
        a, b, c = rng.sample(POOL, 3)
        use = rng.choice(["%s v = new %s();" % (a, b), "%s v = new %s(); %s w = v;" % (b, b, a), "takes(new %s());" % b,
                          "%s[] vs = {new %s()};" % (a, b)])
        shapes = ["class %s { public constructor() -> %s = default; }\nclass %s extends %s { public constructor() -> %s = default; }" % (a, a, b, a, b),
                  "class %s { public constructor() -> %s = default; }\nclass %s { public constructor() -> %s = default; }" % (a, a, b, b),
                  "class %s extends %s { public constructor() -> %s = default; }\nclass %s { public constructor() -> %s = default; }" % (a, b, a, b, b),
                  "class %s { public constructor() -> %s = default; }\nclass %s extends %s { public constructor() -> %s = default; }\nclass %s extends %s { public constructor() -> %s = default; }" % (a, a, c, a, c, b, c, b)]
        rng.shuffle(shapes)
        for sh in shapes[:3]:
            inputs.append((sh + "\nfunction takes(%s p) -> void { }\nfunction main() -> void { %s }" % (a, use)).encode())
    for _ in range(40 if chk.thorough else 10):
        a, b = rng.sample(POOL, 2)
        inputs.append(("class %s<T extends %s<T>> { public constructor() -> %s<T> = default; }\nclass %s<U extends %s<U>> { public constructor() -> %s<U> = default; }\n"
                       "function main() -> void { }" % (a, b, a, b, a, b)).encode())
    for depth in (30, 150 if chk.thorough else 80):
        chain = ["class H0 { public constructor() -> H0 = default; public virtual function m() -> int { return 0; } }"]
        for i in range(1, depth):
            chain.append("class H%d extends H%d { public constructor() -> H%d = default; public %s function m() -> int { return %d; } }"
                         % (i, i - 1, i, "override" if i == depth - 1 else "virtual override", i))
        rng.shuffle(chain)
        inputs.append(("\n".join(chain) + "\nfunction main() -> void { H0 h = new H%d(); echo(h.m()); }" % (depth - 1)).encode())
    plines = ["parse " + hx(b) for b in inputs]
    clines = ["check " + hx(b) for b in inputs]
    exe = harness()
    preplies, pcrash = run_guarded(exe, plines)
    creplies, ccrash = run_guarded(exe, clines)
    model, _, _ = driver(plines)
    dis = bad = None
    cats = {}
    for i, src in enumerate(inputs):
        a = preplies[i] if i < len(preplies) else "<missing>"
        m = model[i] if i < len(model) else "<missing>"
        c_full = creplies[i] if i < len(creplies) else "<missing>"
        c, _, c_load = c_full.partition(" | ")
        a_cmp = "ok" if a.startswith("ok ") else a
        m_cmp = "ok" if m.startswith("ok ") else m
        if a != m and dis is None and a not in ("CRASH", "HANG"):
            dis = (src, a[:300], m[:300])
        key = c.split()[1] if c.startswith("err") else c.split()[0]
        cats[key] = cats.get(key, 0) + 1
        chk.count(src if not a.startswith("err Lexical") else None)
        why = None
        if not OK_RE.match(a_cmp):
            why = "lexer+parser: " + a_cmp[:200]
        elif not OK_RE.match(c):
            why = "lexer+parser+analyser: " + c[:300]
        elif a_cmp != "ok" and c != a_cmp:
            why = "the analyser pipeline reports %r where lexer+parser alone reports %r" % (c, a_cmp)
        elif c not in ("CRASH", "HANG") and not OK_RE.match(c_load):
            why = "loader+analyser pipeline: " + c_load[:300]
        if why and bad is None:
            bad = (src, why)
    if (pcrash or ccrash) and bad is None:
        k, what = pcrash or ccrash
        bad = (inputs[k] if k < len(inputs) else b"", "front end died: " + what)
    chk.extra["verdict_histogram"] = cats
    chk.extra["correspondence"] = {"inputs": len(inputs), "first_disagreement": ("%r impl=%s model=%s" % (dis[0][:80], dis[1], dis[2])) if dis else ""}
    chk.sample({"input": inputs[3][:120].decode("latin-1")})
    chk.sample({"input": inputs[len(inputs) // 2][:120].decode("latin-1")})
    if bad:
        src, why = bad
        chk.violation("front end is not total: %s — input %r" % (why, src[:120]), {"hex": src.hex(), "kind": "bytes"})
    elif dis:
        chk.violation("correspondence: Lean front end and real lexer+parser disagree on %r (impl=%s model=%s); the totality oracle did not "
                      "fail on the explored inputs" % (dis[0][:100], dis[1], dis[2]), {"hex": dis[0].hex(), "stream": "front"},
                      arm="correspondence:front", found_input=False)


def replay(path):
    obj = json.load(open(path))
    src = bytes.fromhex(obj.get("hex", ""))
    exe = harness()
    for cmd in ("parse", "check"):
        r, crash = run_guarded(exe, [cmd + " " + hx(src)])
        print(cmd, "->", (r[0][:300] if r else None), crash or "")
    m, _, _ = driver(["parse " + hx(src)])
    print("model parse ->", m[0][:300] if m else None)
    return 1
