"""C05 — the emitted OpenQASM 2.0 replays to the same quantum state as the simulation."""
import json

import evallib
import proggen
import qasmlib
import simlib
from framework import load_corpus


def parse_outcomes(s):
    out = []
    for item in s.split(",") if s else []:
        kind, rest = item[0], item[1:]
        q, bit = rest.split(":")
        out.append((kind, int(q), int(bit)))
    return out


def judge_text(text):
    """well-formedness of a .qasm file (None = fine)"""
    try:
        qasmlib.parse(text)
    except ValueError as e:
        return "not well-formed OpenQASM 2.0: %s" % e
    return None


def judge(res):
    """C05 oracle on one result line of the real pipeline (None = fine)"""
    d = evallib.split_result(res)
    if not res.startswith("ok "):
        return None
    try:
        n, ops = qasmlib.parse(d["qasm_text"])
    except ValueError as e:
        return "emitted text is not well-formed OpenQASM 2.0: %s" % e
    st = d["state"]
    if st is None or st[0] != n:
        return "qreg is sized %d but the run used %s qubits" % (n, st[0] if st else "?")
    try:
        psi = qasmlib.replay(n, ops, parse_outcomes(d.get("outcomes", "")))
    except ValueError as e:
        return "replaying the emitted text with the recorded outcomes fails: %s" % e
    rots = sum(1 for o in ops if o[0] in ("rx", "ry", "rz"))
    if not simlib.vec_close(psi, st[1], 1e-6 + 2e-6 * rots):
        return "replayed state differs from the simulator's final state"
    return None


def run(chk):
    chk.rule = ("seeded quantum programs: gates reached through functions with qubit parameters, loops and conditionals on measured "
                "bits, qubit arrays, resets, forced measurement/reset draws; the emitted text is read by an independent strict parser, "
                "replayed on an independent interpreter with the recorded outcomes and compared with the simulator's final state. "
                "distinct non-trivial = distinct accepted programs whose QASM has >= 4 operation lines")
    chk.assumptions = ["angles in generated programs print exactly in six decimals; tolerance 1e-6 + 2e-6 per rotation otherwise",
                       "object qubit fields reach the simulator through the same calls (C06 renders gates through fields); the "
                       "file-vs-stdout clause runs the real command-line front end with the same forced draws"]
    import translate_tables
    chk.prove(generated=[translate_tables.keywords, translate_tables.binding_table, translate_tables.qasm_lines])
    rng = chk.rng
    progs = [(o["source"], o.get("draws", [])) for _fn, o in load_corpus("C05") if "source" in o]
    feats = {}
    for _ in range(12000 if chk.thorough else 400):
        g = proggen.Gen(rng, quantum=True, tracked=rng.random() < 0.3, max_qubits=6 if chk.thorough else 5,
                        qprob=rng.choice([0.5, 0.8, 0.9]), main_len=(8, 24))
        progs.append((g.program(), evallib.gen_draws(rng, 16)))
        for f in g.features:
            feats[f] = feats.get(f, 0) + 1
    # objects owning qubits (fields, registers, inherited fields), created, used, destroyed, their indices reused: every reset the
    # run performs - also the ones at release - must be in the listing for the replay to end in the simulator's state
    import qobjgen
    for _ in range(600 if chk.thorough else 40):
        qp = qobjgen.QObjProgram(rng, rng.choice([0.1, 0.9]))
        progs.append((qp.text, [qp.draw] * 400))
        feats["object-qubits"] = feats.get("object-qubits", 0) + 1
    for _ in range(200 if chk.thorough else 15):
        flip = rng.random() < 0.5
        progs.append(("class Anc { public qubit q; public qubit[2] r; public constructor() -> Anc = default; }\n"
                      "function main() -> void { qubit keep; Anc a = new Anc(); %s%s cx(a.q, keep); destroy a; %s }"
                      % ("x(a.q); " if flip else "h(a.q); ", rng.choice(["", "x(a.r[1]); ", "h(a.r[0]); cx(a.r[0], a.r[1]); "]),
                         rng.choice(["", "qubit later; x(later);", "bit b = measure keep; echo(b);"])), evallib.gen_draws(rng, 16)))
    lines, impl, model, incident = evallib.run_programs(progs)
    dis = bad = None
    verdicts = {}
    oplines = 0
    for i, (src, ds) in enumerate(progs):
        a = impl[i] if i < len(impl) else "<missing>"
        b = model[i] if i < len(model) else "<missing>"
        k = a.split()[0] + (" " + a.split()[1] if a.startswith("err") else "")
        verdicts[k] = verdicts.get(k, 0) + 1
        if a.startswith(("err Semantic", "err Parse", "err Lexical")):
            chk.count(None)
            continue
        if b.startswith("unsupported"):
            # class programs have no Lean evaluator reference: the replay oracle still applies to what the real pipeline emitted
            chk.count(src if a.startswith("ok ") else None)
            why = judge(a)
            if why and bad is None:
                bad = (src, ds, why, a)
            continue
        d = evallib.split_result(a)
        nops = d.get("qasm_text", "").count("\n") - 4 if a.startswith("ok ") else 0
        oplines += max(nops, 0)
        chk.count(src if nops >= 4 else None)
        if not evallib.same_result(a, b) and dis is None:
            dis = (src, ds, a, b)
        why = judge(a)
        if why and bad is None:
            bad = (src, ds, why, a)
    # the file written next to the source equals what --emit-qasm prints, and both equal the evaluator's text for the same draws
    import os, shutil, tempfile
    import buildlib
    import c17
    exe = buildlib.build_cli()
    work = tempfile.mkdtemp(prefix="c05_", dir=buildlib.BUILD)
    file_checked = 0
    try:
        idx = [i for i, a in enumerate(impl) if a.startswith("ok ")][: (120 if chk.thorough else 25)]
        for i in idx:
            src, ds = progs[i]
            rc, out, err, qfile = c17.run_cli(exe, work, src, ["--emit-qasm"], draws=evallib.draws_arg(ds) if ds else None,
                                              elsewhere=(file_checked % 2 == 1))
            want = evallib.split_result(impl[i]).get("qasm_text", "")
            file_checked += 1
            why = None
            if rc != 0:
                why = "the command-line run exits with %d where the in-process run succeeded: %s" % (rc, err[-200:])
            elif qfile != want:
                why = "the .qasm file written next to the source differs from the evaluator's OpenQASM text"
            elif not out.endswith(qfile):
                why = "--emit-qasm prints something else than the .qasm file written next to the source"
            if why and bad is None:
                bad = (src, ds, why, impl[i])
            # multi-shot runs write the same file whether or not the text is also printed
            if file_checked <= (40 if chk.thorough else 8) and "main()" in src and "@shots" not in src:
                dr = evallib.draws_arg(ds) if ds else None
                away = file_checked % 2 == 0          # every other program: started from another directory
                rc1, _o1, e1, q1 = c17.run_cli(exe, work, src, ["--shots=3"], draws=dr, elsewhere=away)
                rc2, o2, e2, q2 = c17.run_cli(exe, work, src, ["--shots=3", "--emit-qasm"], draws=dr, elsewhere=away)
                why = None
                if rc1 != rc2:
                    why = "a 3-shot run exits with %d without --emit-qasm and %d with it" % (rc1, rc2)
                elif rc1 == 0 and q1 != q2:
                    why = "a 3-shot run writes a different .qasm file with and without --emit-qasm (%d vs %d bytes)" % (len(q1), len(q2))
                elif rc1 == 0 and judge_text(q1):
                    why = "the .qasm file of a 3-shot run: " + judge_text(q1)
                elif rc1 == 0 and (not q2 or not o2.endswith(q2)):
                    why = ("a 3-shot run%s: --emit-qasm prints something else than the .qasm file next to the source (%d bytes in the file)"
                           % (" started from another directory" if away else "", len(q2)))
                if why and bad is None:
                    bad = (src, ds, why, impl[i])
    finally:
        shutil.rmtree(work, ignore_errors=True)
    chk.extra["file_vs_stdout_runs"] = file_checked
    chk.extra["verdicts"] = verdicts
    chk.extra["feature_histogram"] = feats
    chk.extra["qasm_operation_lines"] = oplines
    chk.extra["correspondence"] = {"programs": len(progs), "first_disagreement": ("%s impl=%s model=%s" % (dis[0][:300], dis[2][:200], dis[3][:200])) if dis else ""}
    ok_i = next((i for i, a in enumerate(impl) if a.startswith("ok ") and a.count("71") > 3), 0)
    chk.sample({"program": progs[ok_i][0][:600], "qasm": evallib.split_result(impl[ok_i]).get("qasm_text", "")[:400]})
    if bad:
        src, ds, why, a = bad
        chk.violation("OpenQASM output: %s — program %r" % (why, src[:300]), {"source": src, "draws": ds, "impl": a[:1500], "kind": "program"})
    elif dis:
        src, ds, a, b = dis
        chk.violation("evaluator/simulator model and real pipeline disagree on %r: impl=%s model=%s (log_is_history / replay are theorems "
                      "about the model)" % (src[:300], a[:300], b[:300]), {"source": src, "draws": ds, "impl": a[:1500], "model": b[:1500], "kind": "program"})


def replay(path):
    obj = json.load(open(path))
    _l, impl, model, _ = evallib.run_programs([(obj["source"], obj.get("draws", []))])
    print(obj["source"], "\n impl :", impl[0][:800], "\n model:", model[0][:800])
    why = judge(impl[0])
    print(" oracle:", why or "holds")
    return 1 if (why or not evallib.same_result(impl[0], model[0])) else 0
