"""C09 — scoping is lexical: renaming one function's locals/parameters never changes the output."""
import json
import re

import evallib
import proggen
from framework import load_corpus

IDENT = re.compile(r"\b([A-Za-z_]\w*)\b")
DECL = re.compile(r"\b(?:int|long|float|bit|boolean|string|char|qubit)(?:\[\d*\])?\s+([A-Za-z_]\w*)\b")
KEYWORDS = set("int long float bit boolean string char qubit void function return if else for while measure final reset echo true "
               "false null class new this super public private protected static virtual override constructor destructor destroy "
               "import package default tracked quantum shots".split())


def locals_of(fn_src):
    return [m.group(1) for m in DECL.finditer(fn_src) if m.group(1) not in KEYWORDS]


def rename_in(fn_src, old, new):
    # strings are left alone: generated string literals never contain identifier-like words equal to variable names
    out, i = [], 0
    for m in re.finditer(r"\"[^\"]*\"|'[^']*'|\b%s\b" % re.escape(old), fn_src):
        out.append(fn_src[i:m.start()])
        out.append(new if m.group(0) == old else m.group(0))
        i = m.end()
    out.append(fn_src[i:])
    return "".join(out)


def variants(parts, rng, k):
    """up to k single-function renamings: to a fresh name and to a name that is a local/parameter of another function"""
    all_locals = [locals_of(p) for p in parts]
    used = set(n for ls in all_locals for n in ls) | set(IDENT.findall(" ".join(parts)))
    out = []
    for _ in range(k * 3):
        fi = rng.randrange(len(parts))
        if not all_locals[fi]:
            continue
        old = rng.choice(all_locals[fi])
        if rng.random() < 0.5:
            new = "zz%d" % rng.randrange(1000)
            if new in used:
                continue
            kind = "fresh"
        else:
            others = [n for j, ls in enumerate(all_locals) if j != fi for n in ls if n not in all_locals[fi]]
            others = [n for n in others if n not in IDENT.findall(parts[fi])]
            if not others:
                continue
            new = rng.choice(others)
            kind = "colliding"
        q = list(parts)
        q[fi] = rename_in(parts[fi], old, new)
        out.append(("\n".join(q), "%s: %s -> %s in declaration %d" % (kind, old, new, fi)))
        if len(out) >= k:
            break
    return out


def observable(line):
    d = evallib.split_result(line)
    if line.startswith("ok "):
        return ("ok", d.get("echo"), d.get("outcomes"), d.get("qasm"))
    return (" ".join(line.split()[:2]),)       # error category only: positions move with identifier lengths


def run(chk):
    chk.rule = ("seeded class-free programs (classical and quantum) x single-function consistent renamings of a local or parameter, to a "
                "fresh name and to a name that collides with locals/parameters of other functions; observable: echo output, outcomes, "
                "QASM, or the error category. distinct non-trivial = (program, renaming) pairs where the program echoes something")
    chk.assumptions = ["class programs: the witness of the known finding C09-method-sees-caller-local runs from corpus/C09; "
                       "generated class programs are added with the class fragment"]
    import translate_tables
    chk.prove(generated=[translate_tables.keywords, translate_tables.binding_table])
    rng = chk.rng
    cases = []      # (original, variant, description, draws)
    for _ in range(1500 if chk.thorough else 220):
        g = proggen.Gen(rng, quantum=rng.random() < 0.4, tracked=False)
        parts = g.program_parts()
        ds = evallib.gen_draws(rng)
        for v, desc in variants(parts, rng, 3):
            cases.append(("\n".join(parts), v, desc, ds))
    # class programs: colliding vs all-fresh names of locals/parameters in methods, constructors, functions
    import scopegen
    for _ in range(400 if chk.thorough else 70):
        sp = scopegen.ScopeProgram(rng)
        ref = sp.reference()
        for desc, v in sp.variants():
            cases.append((ref, v, "class program, " + desc, []))
    corpus = [(o["source"], o["variant"], o.get("known"), o.get("draws", [])) for _fn, o in load_corpus("C09") if "variant" in o]
    progs = []
    for o, v, _d, ds in cases:
        progs += [(o, ds), (v, ds)]
    for o, v, _k, ds in corpus:
        progs += [(o, ds), (v, ds)]
    lines, impl, model, incident = evallib.run_programs(progs)
    dis = bad = None
    for i, (o, v, desc, ds) in enumerate(cases):
        a, b = impl[2 * i], impl[2 * i + 1]
        ma, mb = model[2 * i], model[2 * i + 1]
        if a.startswith(("err Semantic", "err Parse", "err Lexical")):
            chk.count(None)
            continue
        chk.count((o, desc) if "echo=" in a and "echo= " not in a else None)
        for x, y, src in ((a, ma, o), (b, mb, v)):
            if not y.startswith("unsupported") and not evallib.same_result(x, y) and dis is None:
                dis = (src, ds, x, y)
        if observable(a) != observable(b) and bad is None:
            bad = (o, v, desc, ds, a, b)
    base = 2 * len(cases)
    for j, (o, v, known, ds) in enumerate(corpus):
        a, b = impl[base + 2 * j], impl[base + 2 * j + 1]
        if observable(a) != observable(b):
            chk.violation("renaming changes the output (corpus case)", {"match_key": known, "source": o, "variant": v, "draws": ds})
    chk.extra["correspondence"] = {"pairs": len(cases), "first_disagreement": ("%s impl=%s model=%s" % (dis[0][:200], dis[2][:150], dis[3][:150])) if dis else ""}
    if cases:
        chk.sample({"renaming": cases[0][2], "original": cases[0][0][:300]})
    if bad:
        o, v, desc, ds, a, b = bad
        chk.violation("renaming a local changes the behaviour (%s): original gives %s, renamed gives %s" % (desc, a[:200], b[:200]),
                      {"source": o, "variant": v, "draws": ds, "renaming": desc, "kind": "program-pair"})
    elif dis:
        src, ds, x, y = dis
        chk.violation("evaluator model and real pipeline disagree: impl=%s model=%s\n%s" % (x[:200], y[:200], src[:400]),
                      {"source": src, "draws": ds, "kind": "program"})


def replay(path):
    obj = json.load(open(path))
    ps = [(obj["source"], obj.get("draws", []))] + ([(obj["variant"], obj.get("draws", []))] if "variant" in obj else [])
    _l, impl, model, _ = evallib.run_programs(ps)
    for (s, _), a in zip(ps, impl):
        print(s[:600], "\n ->", a[:300])
    return 1 if len(impl) == 2 and observable(impl[0]) != observable(impl[1]) else 0
