"""C12 — running an accepted program never crashes the interpreter. ASan+UBSan build of the in-process harness over every
generator, an arithmetic edge matrix, runtime errors injected while objects are alive, deep hierarchies and overloaded virtuals."""
import json
import os

import classgen
import evallib
import heapgen
import proggen
import scopegen
from framework import load_corpus, run_guarded

IMIN = "(0 - 2147483647 - 1)"
LMIN = "(0L - 9223372036854775807L - 1L)"
INTS = ["0", "1", "(0 - 1)", "2147483647", IMIN, "2", "46341"]
LONGS = ["0L", "1L", "(0L - 1L)", "9223372036854775807L", LMIN, "4294967296L"]
FLOATS = ["0.0f", "1.5f", "(0.0f - 1.5f)", "1000000000000.0f", "(0.0f - 1000000000000.0f)", "0.0000001f"]
BINOPS = ["+", "-", "*", "/", "%", "<", "==", ">="]


def edge_matrix():
    """every binary operator over every pair of extreme int/long/float operands, plus casts, unary minus, ++/--, indices"""
    progs = []
    vals = [("int", v) for v in INTS] + [("long", v) for v in LONGS] + [("float", v) for v in FLOATS]
    for op in BINOPS:
        for ta, a in vals:
            body = []
            for tb, b in vals:
                if op == "%" and (ta == "float" or tb == "float"):
                    continue
                body.append((ta, a, tb, b))
            # one program per (op, left operand): each right operand in its own function so that an error does not hide the rest
            for tb, b in [(x[2], x[3]) for x in body]:
                progs.append("function main() -> void { %s x = %s; %s y = %s; echo(x %s y); }" % (ta, a, tb, b, op))
    for t, v in vals:
        for target in ("int", "long", "float", "bit"):
            progs.append("function main() -> void { %s x = %s; echo((%s) x); }" % (t, v, target))
        if t != "float":
            progs.append("function main() -> void { %s x = %s; x++; echo(x); x--; x--; echo(x); echo(-x); }" % (t, v))
        progs.append("function main() -> void { int[] a = {1, 2, 3}; %s i = %s; echo(a[i]); }" % (t, v))
        progs.append("function main() -> void { long[] a = {1L, 2L}; %s i = %s; a[i] = 5L; echo(a[0]); }" % (t, v))
        progs.append("function main() -> void { string[] a = {\"p\", \"q\"}; %s i = %s; echo(a[i]); }" % (t, v))
    # literals outside their type's range (every literal kind, in an initialiser, an operand, an argument, an index, an array size)
    for lit in ("2147483648", "99999999999", "9223372036854775808L", "99999999999999999999L", "340282366920938463463374607431768211456f",
                "1e400f" if False else "99999999999999999999999999999999999999999999.0f"):
        progs.append("function main() -> void { echo(%s); }" % lit)
        progs.append("function main() -> void { float x = 1.0f; echo(x + %s); }" % lit)
    progs.append("function id(int a) -> int { return a; }\nfunction main() -> void { echo(id(2147483648)); }")
    progs.append("function main() -> void { int[] a = {1}; echo(a[2147483648]); }")
    progs.append("function main() -> void { int[2147483648] a; echo(1); }")
    progs.append("function main() -> void { int x = 2147483647; x = 4294967296; echo(x); }")
    for n in ("0", "3", "(0 - 1)", "1000000"):
        progs.append("function main() -> void { final int n = %s; int[n] a; echo(n); }" % n)
    return progs


ERRORS = ["echo(1 / zero);", "echo(7 %% zero);", "int[] arr = {1, 2}; echo(arr[idx]);", "NodeX nx = null; echo(nx.v);",
          "long big = 9223372036854775807L; echo(big %% (zero - 1));"]


def error_injected(rng):
    """a class program that fails at run time at a random depth (main, a method, a constructor, a destructor, a field initialiser)
    while objects with destructors and cyclic references are alive"""
    err = rng.choice(ERRORS)
    where = rng.choice(["main", "method", "ctor", "dtor", "init", "nested"])
    L = ["class NodeX { public int v = 1; public NodeX other; public constructor() -> NodeX = default; }",
         "function boom(int zero, int idx) -> int { %s return 1; }" % err,
         "class Base { public int b = %s; public constructor(int z) -> Base { %s return this; }" %
         ("boom(0, 5)" if where == "init" else "3", "int q = boom(z, 9);" if where == "ctor" else ""),
         "    public virtual function run(int z) -> int { %s return 1; }" % ("return boom(z, 4);" if where == "method" else ""),
         "    public virtual function run(long z) -> int { return 2; }",
         "    public virtual function run(float z) -> int { return 3; }",
         "    public destructor() -> void { echo(\"dtor Base\"); %s }" % ("int q = boom(0, 7);" if where == "dtor" else ""),
         "}",
         "class Mid extends Base { public Mid peer; public constructor(int z) -> Mid { super(z); return this; }",
         "    public override function run(int z) -> int { return super.run(z) + 10; }",
         "    public destructor() -> void { echo(\"dtor Mid\"); } }",
         "class Leaf extends Mid { public constructor(int z) -> Leaf { super(z); return this; }",
         "    public override function run(long z) -> int { return 20; } }",
         "function deep(int n, int z) -> int { Leaf t = new Leaf(1); if (n > 0) { return deep(n - 1, z) + t.run(1); } %s return 0; }"
         % ("return boom(z, 3);" if where == "nested" else ""),
         "function main() -> void {",
         "    Mid a = new Mid(1); Mid b = new Leaf(1); a.peer = b; b.peer = a;",
         "    Base c = new Leaf(1);",
         "    echo(c.run(1)); echo(c.run(2L)); echo(c.run(1.5f));",
         "    { Base e = new Base(1); echo(e.run(1)); echo(e.run(2L)); echo(e.run(0.5f)); Base f = new Mid(1); echo(f.run(3L)); }",
         "    echo(deep(%d, 0));" % rng.randrange(1, 6),
         "    %s" % ("int q = boom(0, 2);" if where == "main" else "echo(\"fine\");"),
         "    { Base d = new Mid(0); echo(d.run(0)); }",
         "    echo(\"end\");",
         "}"]
    return "\n".join(L), where


def static_hazard(rng):
    """class-level initialisation orders that an interpreter can get fatally wrong: a generic class whose static creates its own
    specialisation, two generic classes whose statics create each other, statics reading statics of classes declared later, static and
    field initialisers that fail at run time (the failure must be a located diagnostic)"""
    k = rng.randrange(16)
    t = rng.choice(["int", "string", "Item", "float"])
    if k >= 13:
        # methods, functions and fields named like built-in gates, called with their own arity from inside and outside the class:
        # whatever the front end decides (accept or reject), running an accepted program must not crash
        g = rng.choice(["h", "x", "y", "z", "rx", "ry", "rz", "cx"])
        call = rng.choice(["%s();" % g, "%s(1);" % g, "%s(1, 2);" % g, "int r = %s(); echo(r);" % g, "this.%s();" % g])
        outside = rng.choice(["k.%s();" % g, "echo(k.go());", "k.go();"])
        params = rng.choice(["", "int a", "int a, int b"])
        return ("class K { public int n = 1; public constructor() -> K = default; public function %s(%s) -> int { n = n + 1; return n; }\n"
                "  public function go() -> int { %s return n; } }\n"
                "function main() -> void { K k = new K(); %s echo(k.n); }" % (g, params, call, outside))
    if k >= 10:
        # array fields without a size, sized by a named constant, sized zero: objects of such classes are created, used, dropped
        elem = rng.choice(["qubit", "int", "bit", "string", "float"])
        size = ["", "W", "0"][k - 10]
        use = "" if elem == "qubit" else " echo(h.f);"
        return ("class Holder { public static final int W = %d; public %s[%s] f; public int n = 1; public constructor() -> Holder = default; }\n"
                "function main() -> void { Holder h = new Holder(); echo(h.n);%s { Holder g = new Holder(); echo(g.n + 1); } Holder[] hs = {new Holder(), h}; echo(hs[0].n); }"
                % (rng.randrange(1, 4), elem, size, use))
    if k >= 8:
        # a destructor that leaks `this` (into a static, another object's field, an array): the alias must never dangle
        where = ["Keep.last = this;", "Keep.box.held = this;"][k - 8]
        n1, n2, n3 = rng.randrange(1, 9), rng.randrange(10, 19), rng.randrange(20, 29)
        return ("class Box { public Obj held = null; public constructor() -> Box = default; }\n"
                "class Keep { public static Obj last = null; public static Box box = new Box(); public constructor() -> Keep = default; }\n"
                "class Obj { public int v; public int[] data = {1, 2, 3}; public constructor(int v) -> Obj { this.v = v; return this; }\n"
                "  public destructor() -> void { %s } }\n"
                "function make(int k) -> void { Obj o = new Obj(k); }\n"
                "function main() -> void { make(%d); Obj other = new Obj(%d); Obj again = new Obj(%d); make(%d);\n"
                "  if (Keep.last != null) { echo(Keep.last.v); echo(Keep.last.data); }\n"
                "  if (Keep.box.held != null) { echo(Keep.box.held.v); }\n"
                "  if (Keep.last != null) { Obj z = Keep.last; z.v = 5; echo(z.v); }\n"
                "  echo(other.v + again.v); }" % (where, n1, n2, n3, n1 + 1))
    item = "class Item { public int w = 3; public constructor() -> Item = default; }\n"
    if k == 0:
        return item + ("class Node<T> { public static int made = 0; public static Node<T> empty = new Node<T>(); public Node<T> next;\n"
                       "  public constructor() -> Node<T> { made = made + 1; next = null; return this; }\n"
                       "  public function isEmpty() -> boolean { return this == empty; } public function count() -> int { return made; } }\n"
                       "function main() -> void { Node<%s> n = new Node<%s>(); echo(n.isEmpty()); echo(n.count()); Node<Item> m = new Node<Item>(); echo(m.count()); }" % (t, t))
    if k == 1:
        return item + ("class PA<T> { public static int na = 0; public static PB<T> partner = new PB<T>(); public constructor() -> PA<T> { na = na + 1; return this; } }\n"
                       "class PB<T> { public static int nb = 0; public static PA<T> partner = new PA<T>(); public constructor() -> PB<T> { nb = nb + 1; return this; } }\n"
                       "function main() -> void { PA<%s> a = new PA<%s>(); echo(PA.na); PB<%s> b = new PB<%s>(); echo(1); }" % (t, t, t, t))
    if k == 2:
        return ("class Early { public static int a = Late.b + 1; public constructor() -> Early = default; }\n"
                "class Late { public static int b = %d; public constructor() -> Late = default; }\n"
                "function main() -> void { echo(Early.a); echo(Late.b); }" % rng.randrange(1, 9))
    if k == 3:
        return ("class Bad { public static int z = %d; public static int boom = 10 / (z - z); public constructor() -> Bad = default; }\n"
                "function main() -> void { echo(1); echo(Bad.boom); }" % rng.randrange(1, 9))
    if k == 4:
        return ("class Arr { public static int[] xs = {1, 2, 3}; public static int pick = xs[%d]; public constructor() -> Arr = default; }\n"
                "function main() -> void { echo(Arr.pick); }" % rng.choice([0, 2, 3, 7]))
    if k == 5:
        return ("class F { public int[] xs = {1, 2}; public int y = xs[%d]; public constructor() -> F = default; }\n"
                "function main() -> void { F f = new F(); echo(f.y); }" % rng.choice([0, 1, 2, 5]))
    if k == 6:
        return item + ("class Reg<T> { public static int n = 0; public T held; public static Reg<T> last = null;\n"
                       "  public constructor(T h) -> Reg<T> { this.held = h; n = n + 1; return this; }\n"
                       "  public static function make(T h) -> Reg<T> { last = new Reg<T>(h); return last; } }\n"
                       "function main() -> void { Reg<Item> r = Reg.make(new Item()); echo(r.held.w + Reg.n); Reg<Item> s = Reg.make(new Item()); echo(Reg.n); }")
    return ("class Self { public static Self only = new Self(); public static int made = 0; public int id = 0;\n"
            "  public constructor() -> Self { made = made + 1; id = made; return this; } }\n"
            "function main() -> void { Self s = new Self(); echo(s.id); echo(Self.only.id); echo(Self.made); }")


def deep_hierarchy(depth):
    L = ["class D0 { public int f0 = 0; public constructor() -> D0 = default; public virtual function m(int a) -> int { return a; } "
         "public virtual function m(long a) -> int { return 1; } public destructor() -> void { echo(\"~0\"); } }"]
    for i in range(1, depth):
        over = "public override function m(int a) -> int { return super.m(a) + 1; }" if i % 2 else "public override function m(long a) -> int { return %d; }" % i
        L.append("class D%d extends D%d { public int f%d = %d; public constructor() -> D%d { super(); return this; } %s }" % (i, i - 1, i, i, i, over))
    L.append("function main() -> void { D0 z = new D0(); echo(z.m(1)); echo(z.m(2L)); D0 o = new D%d(); echo(o.m(1)); echo(o.m(2L)); D%d p = new D%d(); echo(p.f%d + p.f0); }" % (depth - 1, depth - 1, depth - 1, depth - 1))
    return "\n".join(L)


def run(chk):
    chk.rule = ("ASan+UBSan build of the real pipeline, one process for many programs: (a) arithmetic edge matrix — every binary operator over "
                "every pair of extreme int/long/float values, casts, unary minus, ++/--, indices of every numeric kind, array sizes; (b) "
                "type-directed programs with edge constants; (c) class programs (hierarchies depth 1-5, churn), heap-shape programs with "
                "destructors and cycles, scope programs; (d) runtime errors injected in main / method / constructor / destructor / field "
                "initialiser / nested call while objects with destructors and cyclic references are alive (teardown after an error); (e) deep "
                "hierarchies (up to 40 levels) with overloaded virtual methods. Accepted programs must end with 'ok' or a located Bloch Runtime "
                "error; a sanitizer report, signal, hang or raw C++ exception is a violation. distinct non-trivial = accepted programs")
    chk.assumptions = ["memory safety is observed with sanitizers on generated inputs (bounded), not proved; the Lean theorems cover the operator "
                       "layer of the evaluator model (refusals are located runtime errors; integer edge cases are defined)"]
    chk.prove()
    rng = chk.rng
    progs = [(s, "edge-matrix") for s in edge_matrix()]
    if not chk.thorough:
        # the quick tier samples the operator x operand matrix but always keeps the out-of-range literal and array-size programs
        # ... and every division and modulo by -1 and by 0 (the operand pairs on which machine arithmetic traps)
        trap = lambda t: ("echo(x % y)" in t or "echo(x / y)" in t) and any(m in t for m in ("y = (0 - 1);", "y = (0L - 1L);", "y = 0;", "y = 0L;"))
        keep = [p for p in progs if "main() -> void { echo(" in p[0] and "x =" not in p[0] or "2147483648" in p[0] or "4294967296" in p[0] or "final int n" in p[0]
                or trap(p[0])]
        rest = [p for p in progs if p not in keep]
        rng.shuffle(rest)
        progs = keep + rest[:max(0, 760 - len(keep))]
    for _ in range(600 if chk.thorough else 120):
        g = proggen.Gen(rng, quantum=rng.random() < 0.3, edge=True, tracked=rng.random() < 0.2)
        progs.append((g.program(), "typed-edge"))
    for _ in range(300 if chk.thorough else 60):
        progs.append((classgen.ClassProgram(rng, depth=rng.choice([1, 2, 3, 4, 5]), churn=rng.random() < 0.3).source(), "class"))
    for _ in range(200 if chk.thorough else 40):
        progs.append((heapgen.HeapProgram(rng, dtor=rng.random() < 0.7).source(), "heap"))
    for _ in range(60 if chk.thorough else 15):
        progs.append((scopegen.ScopeProgram(rng).render(scopegen.ScopeProgram(rng).colliding) if False else scopegen.ScopeProgram(rng).reference(), "scope"))
    for _ in range(400 if chk.thorough else 90):
        src, where = error_injected(rng)
        progs.append((src, "error-in-" + where))
    for _ in range(120 if chk.thorough else 24):
        progs.append((static_hazard(rng), "static-hazard"))
    # overrides chaining to base versions that may be abstract (no body), through one or two levels, called through base and derived variables
    for mid in (False, True):
        for absarea in (True, False):
            for via in ("Shape x = new Square(3);", "Square x = new Square(3);"):
                midcls = "abstract class Poly extends Shape { public constructor() -> Poly { super(); } public override function sides() -> int { return super.sides() + 1; } }\n" if mid else ""
                progs.append(("abstract class Shape { public constructor() -> Shape { } public virtual function area() -> int%s public virtual function sides() -> int { return 0; } }\n%s"
                              "class Square extends %s { public int s; public constructor(int s) -> Square { super(); this.s = s; }\n"
                              "  public override function sides() -> int { return super.sides() + 4; }\n"
                              "  public override function area() -> int { int base = super.area(); return this.s * this.s + base; } }\n"
                              "function main() -> void { %s echo(x.sides()); echo(x.area()); }"
                              % (";" if absarea else " { return 1; }", midcls, "Poly" if mid else "Shape", via), "abstract-super"))
    # static methods of a generic class called through the bare template name: with an argument (the type argument is inferred
    # from it), without any, through a specialisation
    for calls in ("echo(Registry.record(new Ticket())); echo(Registry.next());", "echo(Registry.next()); echo(Registry.next());",
                  "echo(Registry.peek()); Registry.clear(); echo(Registry.next());", "Registry<Ticket> r = new Registry<Ticket>(); echo(Registry.next()); echo(r.own());"):
        progs.append(("class Registry<T> { public static int issued = 0; public T last; public constructor() -> Registry<T> { }\n"
                      "  public static function record(T item) -> int { issued = issued + 10; return issued; }\n"
                      "  public static function next() -> int { issued = issued + 1; return issued; }\n"
                      "  public static function peek() -> int { return issued; } public static function clear() -> void { issued = 0; }\n"
                      "  public function own() -> int { return issued; } }\n"
                      "class Ticket { public constructor() -> Ticket { } }\nfunction main() -> void { %s echo(\"done\"); }" % calls, "generic-static"))
    # members named like built-in gates: every gate x own arity x call form, inside and outside the class
    for g in ["h", "x", "y", "z", "rx", "ry", "rz", "cx"]:
        for params in ["", "int a", "int a, int b"]:
            for ret, body in (("void", "n = n + 1;"), ("int", "n = n + 1; return n;")):
                for call in ["%s();" % g, "%s(1);" % g, "%s(1, 2);" % g, "this.%s();" % g]:
                    progs.append(("class K { public int n = 1; public constructor() -> K = default; public function %s(%s) -> %s { %s }\n"
                                  "  public function go() -> void { %s echo(\"went \" + n); } }\n"
                                  "function main() -> void { K k = new K(); k.go(); echo(k.n); }" % (g, params, ret, body, call), "gate-named"))
    import c18 as _c18
    for _ in range(60 if chk.thorough else 6):
        progs.append((_c18.stateful_program(rng), "stateful"))
    for d in ([2, 3, 5, 9, 17, 40] if chk.thorough else [3, 9, 24]):
        progs.append((deep_hierarchy(d), "deep-hierarchy"))
    # tear-down with references parked by the collector: a garbage cycle that points at an object owning qubits (never swept itself)
    # leaves that reference on the collector's limbo list until the evaluator goes away — after main, after the last collection
    for _ in range(40 if chk.thorough else 8):
        fld = rng.choice(["public qubit q;", "@tracked public qubit q;", "public qubit[2] q;", "public qubit q; public qubit[2] r;"])
        dt = rng.choice(["", "public destructor() -> void { echo(\"Q gone\"); }"])
        k = rng.randrange(2, 4)
        ring = " ".join("n%d.next = n%d;" % (i, (i + 1) % k) for i in range(k))
        via = rng.choice(["n0.payload = new Q();", "n0.payload = new Q(); n1.payload = n0.payload;", "n1.more = {new Q(), new Q()};",
                          "Q keep = new Q(); n0.payload = keep;"])
        churn = rng.choice(["", "for (int i = 0; i < 25; i = i + 1) { Node t = new Node(); t.next = t; }"])
        where = rng.choice(["main", "helper"])
        body = "%s %s %s" % (" ".join("Node n%d = new Node();" % i for i in range(k)), ring, via)
        src = ("class Q { %s public constructor() -> Q { return this; } %s }\n"
               "class Node { public Node next; public Q payload; public Q[] more; public constructor() -> Node { this.next = null; this.payload = null; return this; } }\n"
               % (fld, dt))
        if where == "main":
            src += "function main() -> void { %s %s echo(\"end of main\"); }" % (body, churn)
        else:
            src += "function mk() -> void { %s }\nfunction main() -> void { mk(); %s echo(\"end of main\"); }" % (body, churn)
        progs.append((src, "limbo-at-teardown"))
    known_src = {}
    for _fn, o in load_corpus("C12"):
        if "source" in o:
            progs.append((o["source"], "corpus"))
            if o.get("known"):
                known_src[o["source"]] = o["known"]
    lines = ["run %s 1 %s" % (evallib.hx(s), evallib.draws_arg(evallib.gen_draws(rng, 6))) for s, _k in progs]
    impl, incident = run_guarded(evallib.harness("asan"), lines, chunk_timeout=240)
    kinds, outcomes = {}, {}
    bad = None
    for (src, kind), a in zip(progs, impl):
        kinds[kind] = kinds.get(kind, 0) + 1
        tag = " ".join(a.split()[:2]) if not a.startswith("ok ") else "ok"
        outcomes[tag] = outcomes.get(tag, 0) + 1
        accepted = not a.startswith(("err Semantic", "err Parse", "err Lexical"))
        chk.count(src if accepted else None)
        why = None
        if a.startswith("ok "):
            pass
        elif a.startswith("err Runtime"):
            p = a.split()
            if len(p) < 4 or int(p[2]) <= 0 or int(p[3]) <= 0:
                why = "runtime error without a location: " + a[:80]
        elif not accepted:
            pass
        else:
            why = "the run ended with '%s'" % a[:200]
        if why and src in known_src:
            chk.violation("corpus program: " + why, {"match_key": known_src[src], "source": src, "kind": "program"})
        elif why and bad is None:
            bad = (src, kind, why)
    # the whole tool, many shots: what is printed after the last shot (the tracked tables, sorted and aligned) is part of executing the
    # program; tracked variables whose outcome differs from shot to shot — measured in some shots, '?' in others, registers likewise —
    # must end in a summary and status 0, never in a raw exception text
    import shutil as _sh, tempfile as _tf
    import buildlib as _bl
    import c17 as _c17
    exe = _bl.build_cli()
    work = _tf.mkdtemp(prefix="c12_", dir=_bl.BUILD)
    cli_runs = 0
    bad_args = None
    try:
        MIX = ["qubit c; h(c); bit b = measure c; { @tracked qubit t; if (b == 1b) { measure t; } }",
               "qubit c; h(c); bit b = measure c; { @tracked qubit t; if (b == 1b) { x(t); measure t; } else { h(t); } }",
               "qubit c; h(c); bit b = measure c; { @tracked qubit[2] r; if (b == 1b) { measure r; } else { measure r[0]; } }",
               "qubit c; h(c); bit b = measure c; { @tracked qubit t; @tracked qubit u; if (b == 0b) { measure t; } else { x(u); measure u; } }",
               "qubit c; h(c); bit b = measure c; { TQ o = new TQ(); if (b == 1b) { measure o.q; } }"]
        for body in MIX:
            for shots in ((16, 64) if chk.thorough else (24,)):
                src = "class TQ { @tracked public qubit q; public constructor() -> TQ = default; }\nfunction main() -> void { %s }" % body
                rc, out, err, _q = _c17.run_cli(exe, work, src, ["--shots=%d" % shots])
                cli_runs += 1
                chk.count(("cli-mixed-outcomes", body, shots))
                why = None
                if rc != 0:
                    why = "a %d-shot run of an accepted program exits with %d: %s" % (shots, rc, (err + out)[-200:].strip())
                elif "Shots: %d" % shots not in out:
                    why = "a %d-shot run prints no summary" % shots
                elif any(t in out + err for t in ("stoi", "std::", "terminate called", "what():", "vector::", "basic_string")):
                    why = "a raw C++ exception text surfaces in the output of a %d-shot run" % shots
                if why and bad is None:
                    bad = (src, "cli-mixed-outcomes", why)
                    bad_args = ["--shots=%d" % shots]
    finally:
        _sh.rmtree(work, ignore_errors=True)
    kinds["cli-mixed-outcomes"] = cli_runs
    chk.extra["input_distribution"] = kinds
    chk.extra["outcomes"] = outcomes
    chk.extra["harness_incident"] = str(incident)[:1500] if incident else ""
    chk.sample({"kind": progs[-1][1], "program": progs[-1][0][:300]})
    if bad:
        src, kind, why = bad
        chk.violation("%s program: %s%s" % (kind, why, ("\n" + str(incident[1])[-900:]) if (incident and kind != "cli-mixed-outcomes") else ""),
                      {"source": src, "kind": "program", "sanitizer": str(incident)[-3000:] if (incident and kind != "cli-mixed-outcomes") else "",
                       **({"cli_args": bad_args} if kind == "cli-mixed-outcomes" and bad_args else {})})


def replay(path):
    obj = json.load(open(path))
    if obj.get("cli_args"):
        import c17
        obj2 = dict(obj, args=obj["cli_args"])
        tmp = path + ".cli"
        json.dump(obj2, open(tmp, "w"))
        try:
            return c17.replay(tmp)
        finally:
            os.remove(tmp)
    out, inc = run_guarded(evallib.harness("asan"), ["run %s 1 -" % evallib.hx(obj["source"])])
    print(obj["source"][:1500])
    print(" ->", out[0][:300] if out else "<nothing>")
    if inc:
        print(str(inc)[-2500:])
    return 0 if out and (out[0].startswith("ok ") or out[0].startswith("err ")) else 1
