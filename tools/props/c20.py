"""C20 — self-update: strictly-newer only, exact checksum line, throttled notice."""
import itertools
import os
import shutil

import buildlib
import framework
from framework import run_lines, driver, LineProc

W = 72 * 3600


def harness():
    return buildlib.build_harness("upd_harness", needs_core=False,
                                  extra_srcs=["src/bloch/update/update_manager.cpp"],
                                  extra_flags=["-DCPPHTTPLIB_OPENSSL_SUPPORT", "-O0"], libs=["-lssl", "-lcrypto"])


def hx(s):
    if isinstance(s, str):
        s = s.encode("latin-1")
    return s.hex() if s else "-"


def unhx(h):
    return b"" if h == "-" else bytes.fromhex(h)


COMPONENTS = ["0", "1", "2", "9", "10", "11", "007", "99", "100", "2147483647", "2147483648", "99999999999",
              "4294967297", "18446744073709551617"]


def version_strings(rng, n_random):
    base = ["", "v", "garbage", "1.x", "x.1", " 1.2.3", "1.2.3 ", "1..2", ".1.2", "1.2.", "v1", "vv1.2.3", "V1.2.3", "1.2.3.4",
            "1.2.3-rc1", "1.2.3+build", "v1.10.0", "v1.9.0", "1.9.10", "1.10.9", "-1.2.3", "1.-2.3", "1,2,3", "\xff1.2", "1.2.3\n",
            "0.0.0", "v0.0.1", "00.00.00", "1.2.3.99999999999", "1.2.99999999999", "99999999999.1.1", "1.99999999999.1"]
    out = list(base)
    for a in COMPONENTS:
        out.append(a)
        out.append("v" + a + ".0.0")
        out.append("1." + a + ".3")
        out.append("1.2." + a)
    for _ in range(n_random):
        k = rng.randrange(5)
        if k == 0:
            s = "".join(rng.choice("0123456789.v-x ") for _ in range(rng.randrange(0, 12)))
        else:
            parts = [rng.choice(COMPONENTS[:9] + [str(rng.randrange(0, 3000))]) for _ in range(rng.randrange(1, 5))]
            s = rng.choice(["", "v", "v", ""]) + ".".join(parts) + rng.choice(["", "", "", "-beta", "+x", ".", " "])
        out.append(s)
    return out


def reference_semver(s):
    """Independent statement of the documented parse: optional 'v', up to three dot-separated decimal runs,
    each within int range; missing components are 0; anything after is ignored."""
    b = s.encode("latin-1") if isinstance(s, str) else s
    if not b:
        return None
    if b[:1] == b"v":
        b = b[1:]
    comps = []
    pos = 0
    while pos < len(b) and len(comps) < 3:
        st = pos
        while pos < len(b) and 48 <= b[pos] <= 57:
            pos += 1
        if st == pos:
            break
        v = int(b[st:pos])
        if v > 2147483647:
            return None
        comps.append(v)
        if pos >= len(b) or b[pos] != 46:
            break
        pos += 1
    if not comps:
        return None
    return tuple(comps + [0] * (3 - len(comps)))


def checksum_cases(rng, n):
    assets = ["bloch-v1.2.3-linux-x86_64.tar.gz", "bloch-v1.2.3-macos-arm64.tar.gz", "a", "bloch.tar.gz"]
    out = []
    for _ in range(n):
        asset = rng.choice(assets)
        names = [asset, asset + ".sig", "x" + asset, asset[:-1], asset.replace("x86_64", "x86_64_v2"), "checksums.txt",
                 "*" + asset, asset + ".sha256", "dir/" + asset]
        rng.shuffle(names)
        k = rng.randrange(0, len(names) + 1)
        lines = []
        for nm in names[:k]:
            h = "".join(rng.choice("0123456789abcdef") for _ in range(rng.choice([8, 64])))
            sep = rng.choice(["  ", " ", "\t", "   ", " *"])
            if sep == " *" and nm.startswith("*"):
                sep = " "
            style = rng.randrange(8)
            if style == 0:
                lines.append(h)                       # hash only
            elif style == 1:
                lines.append(h + sep + nm + " extra")
            elif style == 2:
                lines.append("")                      # blank
            else:
                lines.append(h + sep + nm)
        nl = rng.choice(["\n", "\n", "\r\n"])
        content = nl.join(lines) + rng.choice(["", nl])
        out.append((content, asset))
    return out


def reference_checksum(content, asset):
    for line in content.split("\n"):
        f = line.split()          # whitespace fields (space, \t, \r, \v, \f)
        if len(f) >= 2:
            nm = f[1][1:] if f[1].startswith("*") else f[1]
            if nm == asset:
                return f[0]
    return None


def run(chk):
    chk.rule = ("version strings: exhaustive pairs over a grammar-based + hand-picked set (prefix v, missing components, suffixes, "
                "components at and beyond INT_MAX, garbage) plus seeded random ones; checksums.txt contents with reordered lines, "
                "similarly named assets, '*' binary marker, CRLF, missing entry; notice calls around the 72 h boundary; invocation "
                "sequences over an evolving cache file with simulated passage of time. distinct non-trivial = distinct inputs whose "
                "result is not the trivial one (valid parse / non-zero compare / found hash / printed notice)")
    chk.assumptions = ["the network fetch result and the wall clock are inputs of the model; sub-second truncation of cache "
                       "timestamps is outside the model", "the download/extract/install path after the decision gate is not modelled"]
    import translate_tables
    chk.prove(generated=[translate_tables.update_constants])
    rng = chk.rng
    vs = version_strings(rng, 1500 if chk.thorough else 60)
    lines, meta = [], []
    for s in vs:
        lines.append("upd semver " + hx(s)); meta.append(("semver", s))
    # pairs: boundary magnitudes in every position (a packed or truncated comparison key breaks at powers of 10 / 2),
    # plus the shapes above
    mags = ["0", "1", "9", "10", "999", "1000", "1001", "65535", "65536", "99999", "100000", "2147483647"]
    boundary = []
    for m in mags:
        boundary += ["1.%s.0" % m, "1.0.%s" % m, "%s.0.0" % m, "1.%s.%s" % (m, m)]
    boundary += ["1.2.1001", "1.3.0", "2.0.0", "1.999.999", "1.1000.0", "0.1000.1000", "1.0.0"]
    rng.shuffle(boundary)
    pair_set = (vs[:45] + boundary) if not chk.thorough else (vs[:80] + boundary)
    for a, b in itertools.product(pair_set, pair_set):
        lines.append("upd cmp %s %s" % (hx(a), hx(b))); meta.append(("cmp", a, b))
    for content, asset in checksum_cases(rng, 20000 if chk.thorough else 400):
        lines.append("upd checksum %s %s" % (hx(content), hx(asset))); meta.append(("checksum", content, asset))
    now0 = 1_900_000_000
    for _ in range(15000 if chk.thorough else 300):
        lat, cur = rng.choice(vs[:60]), rng.choice(vs[:60])
        gap = rng.choice([0, 1, W - 1, W, W + 1, 2 * W, rng.randrange(0, 3 * W), -5])
        lines.append("upd notice %s %s %d %d" % (hx(lat), hx(cur), now0, now0 - gap)); meta.append(("notice", lat, cur, gap))
    scratch = os.path.join(buildlib.BUILD, "upd_scratch_%d" % os.getpid())
    os.makedirs(scratch, exist_ok=True)
    try:
        impl, rc, err = run_lines([harness(), scratch], lines)
        model, rc2, err2 = driver(lines)
        first_dis = None
        oracle_bad = None
        hist = {}
        for i, (ln, m) in enumerate(zip(lines, meta)):
            a = impl[i] if i < len(impl) else "<missing>"
            b = model[i] if i < len(model) else "<missing>"
            if a != b and first_dis is None:
                first_dis = (ln, a, b, m)
            kind = m[0]
            hist[kind] = hist.get(kind, 0) + 1
            why = None
            if kind == "semver":
                ref = reference_semver(m[1])
                exp = "invalid" if ref is None else "valid %d %d %d" % ref
                chk.count(("semver", m[1]) if ref else None)
                if a != exp:
                    why = "parseSemVer(%r) gives %r, documented numeric parse gives %r" % (m[1], a, exp)
            elif kind == "cmp":
                ra, rb = reference_semver(m[1]), reference_semver(m[2])
                if ra is None or rb is None:
                    exp_dec = "unparsable"; exp_cmp = 0
                else:
                    exp_cmp = (ra > rb) - (ra < rb)
                    exp_dec = "install" if ra < rb else "already-latest"
                chk.count(("cmp", m[1], m[2]) if exp_cmp != 0 else None)
                f = a.split()
                if a.startswith("exception") or len(f) != 3:
                    why = "version pair (%r, %r): %s" % (m[1], m[2], a)
                elif int(f[0]) != exp_cmp or f[2] != exp_dec:
                    why = "version pair (current=%r, latest=%r): compare=%s decision=%s, numeric triple order says compare=%d decision=%s" % (
                        m[1], m[2], f[0], f[2], exp_cmp, exp_dec)
            elif kind == "checksum":
                ref = reference_checksum(m[1], m[2])
                exp = "none" if ref is None else "some " + hx(ref)
                chk.count(("ck", m[1], m[2]) if ref else None)
                if a != exp:
                    why = "parseChecksum for asset %r in %r gives %s, the exact-name line gives %s" % (m[2], m[1][:300], a, exp)
            elif kind == "notice":
                lat, cur, gap = m[1], m[2], m[3]
                rl, rc_ = reference_semver(lat), reference_semver(cur)
                should = bool(lat) and gap >= W and rl is not None and rc_ is not None and rc_ < rl
                chk.count(("n", lat, cur, gap) if should else None)
                f = a.split()
                if a.startswith("exception") or len(f) != 3:
                    why = "maybePrintNotice(latest=%r,current=%r): %s" % (lat, cur, a)
                elif (f[0] == "1") != should:
                    why = "notice printed=%s for latest=%r current=%r, %d s after the previous notice (expected %s)" % (
                        f[0], lat, cur, gap, should)
            if why and oracle_bad is None:
                oracle_bad = (ln, why)
        chk.extra["input_histogram"] = hist
        # invocation sequences against the real checkForUpdatesIfDue with simulated time
        seq_bad, seq_dis, nseq = run_sequences(chk, scratch, vs)
        chk.extra["sequences"] = nseq
        chk.extra["correspondence"] = {"lines": len(lines), "first_disagreement": str(first_dis)[:400] if first_dis else ""}
        chk.sample({"semver": vs[:8]})
        chk.sample({"checksum": [m for m in meta if m[0] == "checksum"][0][1:]})
        if oracle_bad or seq_bad:
            ln, why = oracle_bad or seq_bad
            chk.violation("updater: " + why, {"line": ln, "kind": "upd-line"})
        elif first_dis or seq_dis:
            d = first_dis or seq_dis
            chk.violation("correspondence: updater model and real code disagree on %r: impl=%r model=%r; the documented-semantics "
                          "oracle did not fail on the explored inputs" % (d[0][:200], d[1], d[2]),
                          {"line": d[0], "impl": d[1], "model": d[2], "stream": "upd"}, arm="correspondence:upd", found_input=False)
    finally:
        shutil.rmtree(scratch, ignore_errors=True)


def run_sequences(chk, scratch, vs):
    """Sequences of invocations; between invocations time advances by a chosen amount (the cache file's ages grow)."""
    rng = chk.rng
    nseq = 400 if chk.thorough else 30
    hp = LineProc([harness(), scratch])
    dp = LineProc(buildlib.driver_path())
    bad = dis = None
    try:
        for _ in range(nseq):
            present, age_c, lat, age_n = "0", 0, "", 0
            if rng.random() < 0.7:
                present, age_c, lat, age_n = "1", rng.choice([10, 3600, W - 600, W + 500, 2 * W, 5 * W]), rng.choice(["v9.9.9", "v9.9.9", "v1.0.0", "", "junk"]), rng.choice(
                    [W + 500, 10, 2 * W])
            cur = rng.choice(["1.0.0", "v1.0.0", "9.9.9", "bogus"])
            since_notice = None        # simulated seconds since the last printed notice
            for step in range(rng.randrange(2, 7)):
                skip = rng.choice(["0", "0", "0", "0", "1", "2", "3", "4", "5", "6"])
                ln = "upd due %s %s %s %d %s %d" % (skip, hx(cur), present, age_c, hx(lat), age_n)
                a, b = hp.ask(ln), dp.ask(ln)
                chk.count(("seq", ln) if a.startswith("1") else None)
                fa, fb = a.split(), b.split()
                same = len(fa) == len(fb) and fa[0] == fb[0] and (len(fa) == 2 or (
                    fa[2] == fb[2] and abs(int(fa[1]) - int(fb[1])) <= 3 and abs(int(fa[3]) - int(fb[3])) <= 3))
                if not same and dis is None:
                    dis = (ln, a, b)
                printed = fa[0] not in ("0",)
                if skip != "0" and printed and bad is None:
                    bad = (ln, "a notice was printed although update checks are disabled by environment")
                if printed:
                    if since_notice is not None and since_notice < W - 5 and bad is None:
                        bad = (ln, "two notices only %d s apart (window is 72 h)" % since_notice)
                    since_notice = 0
                # next file state = what the real code left, aged by dt
                dt = rng.choice([5, 3600, W // 2, W - 400, W + 400, 3 * W])
                if since_notice is not None:
                    since_notice += dt
                if len(fa) == 4:
                    present, age_c, lat, age_n = "1", int(fa[1]) + dt, unhx(fa[2]).decode("latin-1"), int(fa[3]) + dt
                # keep the file fresh enough that the (offline) fetch path is not the only one exercised
                if present == "1" and age_c > W and rng.random() < 0.5:
                    age_c = rng.choice([30, 7200])
                # stay away from the boundary second
                for nm in ("age_c", "age_n"):
                    v = locals()[nm]
                    if abs(v - W) < 8:
                        if nm == "age_c":
                            age_c = W + 60
                        else:
                            age_n = W + 60
    finally:
        hp.close()
        dp.close()
    return bad, dis, nseq


def replay(path):
    import json
    obj = json.load(open(path))
    ln = obj.get("line")
    if not ln:
        print(json.dumps(obj, indent=1))
        return 1
    scratch = os.path.join(buildlib.BUILD, "upd_scratch_replay")
    os.makedirs(scratch, exist_ok=True)
    impl, _, _ = run_lines([harness(), scratch], [ln])
    model, _, _ = driver([ln])
    print(ln, "\n  impl :", impl, "\n  model:", model, "\n ", obj.get("what"))
    shutil.rmtree(scratch, ignore_errors=True)
    return 1
