"""C03 — unit 2^n vector in any history; allocation keeps existing qubits (simulator half)."""
import math

import simlib
from simlib import norm2


def check_row(prev, op, rep, st):
    if st is None:
        return "no state"
    n, amps = st
    if len(amps) != 2 ** n:
        return "state has %d amplitudes for n=%d" % (len(amps), n)
    if not all(math.isfinite(z.real) and math.isfinite(z.imag) for z in amps):
        return "non-finite amplitude"
    if abs(norm2(amps) - 1) > 1e-9:
        return "norm^2 = %.12g" % norm2(amps)
    if op == "alloc" and prev is not None:
        old = prev[1]
        if n != prev[0] + 1 or not simlib.vec_close(list(old) + [0j] * len(old), amps, 0.0):
            return "allocation changed the existing qubits' amplitudes"
    return None


def oracle_fails(ops):
    rows = simlib.impl_rows(ops)
    prev = None
    for (op, rep, st) in rows:
        if not op.startswith("new") and check_row(prev, op, rep, st):
            return True
        prev = st
    return False


def run(chk):
    chk.rule = ("seeded histories interleaving alloc / gates / cx / measure / reset (refused ops included, adversarial draws: "
                "outcomes of probability ~0 or ~1, reset of a qubit that is certainly 1, allocation after entanglement); a case is one "
                "op; distinct non-trivial = distinct (n, op kind, #non-zero amplitudes bucket)")
    chk.assumptions = ["floating-point drift is monitored (|norm^2-1|<1e-9), not proved; the theorem is over exact reals"]
    chk.prove()
    nh = 1500 if chk.thorough else 200
    hs = []
    for k in range(nh):
        hs.append(("h%d" % k, simlib.random_history(chk.rng, max_n=(8 if chk.thorough else 6),
                                                    length=chk.rng.randrange(8, 60), p_measure=0.12, p_reset=0.1, p_alloc=0.12,
                                                    start_n=chk.rng.randrange(1, 3))))
    # certain-1 resets and allocation after entanglement, explicitly
    hs.append(("cert1", ["new 1", "alloc", "x 0", "reset 0 " + simlib.hex64(0.3), "alloc", "h 0", "cx 0 1", "alloc", "cx 1 2",
                         "measure 2 " + simlib.hex64(0.0), "reset 2 " + simlib.hex64(1 - 2 ** -53)]))
    import framework
    hs = [("corpus:" + fn, o["ops"]) for fn, o in framework.load_corpus("C03") if "ops" in o] + hs
    per, dis = simlib.run_histories(chk, hs)
    bad = None
    kinds = {}
    for hi, rows in enumerate(per):
        prev = None
        for i, (op, rep, st) in enumerate(rows):
            if op.startswith("new"):
                prev = st
                continue
            k = op.split()[0]
            kinds[k] = kinds.get(k, 0) + 1
            nz = sum(1 for z in st[1] if abs(z) > 1e-12) if st else 0
            chk.count((st[0] if st else -1, k, min(nz, 9), rep.split()[0]) if nz > 1 else None)
            why = check_row(prev, op, rep, st)
            if why and bad is None:
                bad = (hi, i, why)
            prev = st
    chk.extra["op_histogram"] = kinds
    for t, ops in hs[:2] + hs[-1:]:
        chk.sample({"history": ops[:16]})
    # evaluator level: fresh qubits declared after objects owning qubits (own, inherited, registers) died read exactly their own preparation — handles stay distinct through index recycling
    import qobjgen
    qprogs, qout, qinc = qobjgen.run_family(chk.rng, 600 if chk.thorough else 120)
    qbad = None
    for qp, ql in zip(qprogs, qout):
        chk.count(("qobj", qp.text) if ql.startswith("ok ") else None)
        w = qobjgen.judge(qp, ql, "probe")
        if w and qbad is None:
            qbad = (qp, ql, w)
    chk.extra["evaluator_level_programs"] = len(qprogs)
    # the qubit book (Props/C03 live_handles_are_distinct_in_any_history): declarations, constructions and destructions of objects
    # owning 3/4/6 qubit handles; every new handle gets an x gate at once, so the OpenQASM text shows which simulator index it denotes
    from framework import driver as _driver
    import re as _re
    KH = {"QB": 3, "QD": 4, "QE": 6}
    FL = {"QB": ["bq", "br[0]", "br[1]"], "QD": ["bq", "br[0]", "br[1]", "dq"], "QE": ["bq", "br[0]", "br[1]", "dq", "er[0]", "er[1]"]}
    bprogs = []
    for _ in range(400 if chk.thorough else 80):
        ops, lines_, live, nid, nloc = [], [], [], 0, 0
        budget = 12          # the register must stay small: allocations stop once 12 indices may be in use at once
        in_use = 0
        sizes = {}
        for _k in range(chk.rng.randrange(3, 14)):
            u = chk.rng.random()
            if u < 0.3 and in_use + 3 <= budget:
                k = chk.rng.randrange(1, 4)
                in_use += k
                names = ["l%d" % (nloc + i) for i in range(k)]
                nloc += k
                if chk.rng.random() < 0.5:
                    lines_.append("qubit %s; %s" % (", ".join(names), " ".join("x(%s);" % n for n in names)))
                else:
                    lines_.append("qubit[%d] %s; %s" % (k, names[0], " ".join("x(%s[%d]);" % (names[0], i) for i in range(k))))
                ops.append("d,%d" % k)
            elif (u < 0.7 or not live) and in_use + 6 <= budget:
                c = chk.rng.choice(list(KH))
                nid += 1
                live.append(nid)
                sizes[nid] = KH[c]
                in_use += KH[c]
                lines_.append("%s o%d = new %s(); %s" % (c, nid, c, " ".join("x(o%d.%s);" % (nid, f) for f in FL[c])))
                ops.append("n,%d,%d" % (nid, KH[c]))
            elif live:
                d = live.pop(chk.rng.randrange(len(live)))
                in_use -= sizes[d]
                lines_.append("destroy o%d;" % d)
                ops.append("x,%d" % d)
        # qubits held by static fields are allocated while the static initialisers run, before main (classes by name, fields
        # in declaration order): they are handles like any other and must not share an index with main's
        statics = ""
        if chk.rng.random() < 0.5:
            pre_l, pre_o = [], []
            if chk.rng.random() < 0.7:
                statics += "static class SQA { public static qubit sq; public static function flip() -> void { x(sq); } }\n"
                pre_l.append("SQA.flip();")
                pre_o.append("d,1")
            if chk.rng.random() < 0.6:
                statics += "static class SQB { public static qubit sa; public static qubit sb; }\n"
                pre_l.append("x(SQB.sa); x(SQB.sb);")
                pre_o.append("d,2")
            lines_ = pre_l + lines_
            ops = pre_o + ops
        bprogs.append((qobjgen.CLASSES + statics + "function main() -> void {\n    " + "\n    ".join(lines_) + "\n}", ";".join(ops)))
    import evallib as _ev2
    _l, bimpl, _m, _i = _ev2.run_programs([(src, [0.9] * 300) for src, _o in bprogs], with_model=False)
    bmodel = _driver(["book " + o for _s, o in bprogs])[0]
    bbad = None
    for (src, o), a, m in zip(bprogs, bimpl, bmodel):
        chk.count(("book", o))
        if not a.startswith("ok "):
            bbad = bbad or (src, o, "the run ends with " + a[:80], m)
            continue
        got = [int(x) for x in _re.findall(r"^x q\[(\d+)\];", _ev2.split_result(a).get("qasm_text", ""), _re.M)]
        want = [int(x) for grp in m[len("handles "):].split(";") for x in grp.split(",") if x]
        if got != want and bbad is None:
            bbad = (src, o, "simulator indices denoted by the handles, in allocation order: %s" % got, "qubit book model: %s" % want)
    chk.extra["qubit_book_programs"] = len(bprogs)
    if bbad:
        chk.violation("qubit book: %s; %s\n%s" % (bbad[2], bbad[3], bbad[0][-700:]), {"source": bbad[0], "model_line": "book " + bbad[1], "kind": "book"})
    # corpus programs with their documented output (known findings are reported as such)
    import evallib as _ev
    cprogs = [o for _fn, o in framework.load_corpus("C03") if "source" in o]
    if cprogs:
        _l, cimpl, _m, _i = _ev.run_programs([(o["source"], []) for o in cprogs], with_model=False)
        for o, a in zip(cprogs, cimpl):
            got = _ev.split_result(a).get("echo_lines") if a.startswith("ok ") else [a[:80]]
            if got != o["expected"]:
                chk.violation("corpus program prints %s, distinct handles give %s" % (got, o["expected"]),
                              {"match_key": o.get("known"), "source": o["source"], "kind": "corpus"})
    # rotations by angles that are not finite numbers (float overflow, inf - inf): the state must stay a unit vector, i.e. the
    # operation is refused; the Lean evaluator is the reference (class-free programs)
    big = "(300000000000000000000000000000000000000.0f * 300000000000000000000000000000000000000.0f * 300000000000000000000000000000000000000.0f * 300000000000000000000000000000000000000.0f * 300000000000000000000000000000000000000.0f)"
    nf = []
    for g in ("rx", "ry", "rz"):
        for ang in ("(%s * %s)" % (big, big), "(0.0f - %s * %s)" % (big, big), "((%s * %s) - (%s * %s))" % (big, big, big, big), "1.5f"):
            nf.append(("function main() -> void { qubit q; h(q); float a = %s; %s(q, a); qubit r; x(r); bit c = measure r; echo(c); }" % (ang, g), [0.3, 0.3]))
    _l9, nimpl, nmodel, _i9 = _ev.run_programs(nf)
    for (src, ds), a, m in zip(nf, nimpl, nmodel):
        chk.count(("non-finite-angle", src))
        if not _ev.same_result(a, m) and bad is None and qbad is None:
            chk.violation("rotation by a non-finite angle: implementation %s, reference %s\n%s" % (a[:120], m[:120], src),
                          {"source": src, "kind": "corpus"})
            break
    if qbad:
        qp, ql, w = qbad
        chk.violation("quantum object program (constant draw %.1f): %s\n%s" % (qp.draw, w, qp.text[-900:]),
                      {"source": qp.text, "draw": qp.draw, "kind": "qobj", "clause": "probe"})
    if bad:
        hi, i, why = bad
        ops = hs[hi][1][:i + 1]
        small = simlib.shrink_ops(ops, oracle_fails) if oracle_fails(ops) else ops
        chk.violation("state invariant broken on the real simulator: " + why, {"ops": small, "kind": "sim-history"})
    else:
        simlib.report_correspondence(chk, dis, "the state-invariant oracle did not fail on the explored histories")


def replay(path):
    import json as _json
    _o = _json.load(open(path))
    if _o.get("kind") == "qobj":
        import evallib, qobjgen
        from framework import run_guarded
        out, _ = run_guarded(evallib.harness(), ["run %s 1 %s" % (evallib.hx(_o["source"]), evallib.draws_arg([_o["draw"]] * 400))])
        print(_o["source"]); print(" ->", evallib.split_result(out[0]).get("echo_lines", out[0][:200]), evallib.split_result(out[0]).get("tracked"))
        return 1
    return simlib.generic_replay(path, "state-invariant oracle", oracle_fails)
