"""C10 — acceptance and behaviour do not depend on top-level declaration order."""
import json

import buildlib
import classgen
import declgen
import evallib
import proggen
from framework import load_corpus, run_lines, driver


def observable(line):
    d = evallib.split_result(line)
    if line.startswith("ok "):
        return ("ok", d.get("echo"), d.get("outcomes"), d.get("tracked"))
    return (" ".join(line.split()[:2]),)         # category only: line numbers move with the order


def perms(rng, n, k):
    """reverse, rotations and random shuffles of range(n) (identity excluded)"""
    ident = list(range(n))
    out = []
    cand = [ident[::-1], ident[1:] + ident[:1], ident[-1:] + ident[:-1]]
    for _ in range(k):
        p = ident[:]
        rng.shuffle(p)
        cand.append(p)
    for p in cand:
        if p != ident and p not in out:
            out.append(p)
    return out[:k]


def run(chk):
    chk.rule = ("seeded programs x permutations of their top-level declarations (reverse = every derived class before its base and "
                "main before everything it calls, rotations, random shuffles): class-free programs from the type-directed generator "
                "(functions calling each other, recursion, quantum functions) and class programs (hierarchies depth 1-5, overload "
                "helper, statics, destructors). observable: accepted or error category; echo, outcomes, tracked counts when accepted. "
                "distinct non-trivial = (program, permutation) pairs whose program echoes")
    chk.assumptions = ["acceptance by the real analyser is compared across orders (differential, bounded); the Lean theorems cover the "
                       "evaluator's function table and the class layout (PARTIAL for 'whether the program is accepted')"]
    chk.prove()
    rng = chk.rng
    cases = []        # (sources list [orig, perm...], descs, draws, modelled)
    for _ in range(3000 if chk.thorough else 90):
        g = proggen.Gen(rng, quantum=rng.random() < 0.4, tracked=rng.random() < 0.3)
        parts = g.program_parts()
        ds = evallib.gen_draws(rng)
        ps = perms(rng, len(parts), 3)
        cases.append((["\n".join(parts)] + ["\n".join(parts[i] for i in p) for p in ps], ps, ds, True))
    for _ in range(4000 if chk.thorough else 110):
        cp = classgen.ClassProgram(rng, depth=rng.choice([1, 2, 3, 3, 4, 5]), churn=rng.random() < 0.2)
        ps = perms(rng, cp.n_decls(), 3)
        cases.append(([cp.source()] + [cp.source(p) for p in ps], ps, [], False))
    # hierarchies through generic classes: Base <- G<T> <- D, Box<T extends Item>, statics initialised from other classes
    for _ in range(1000 if chk.thorough else 30):
        a, b, c3 = rng.randrange(1, 9), rng.randrange(1, 9), rng.randrange(1, 9)
        decls = ["class GBase { public int gb = %d; public constructor() -> GBase = default; public virtual function id() -> int { return gb; } }" % a,
                 "class GMid<T> extends GBase { public int gm = %d; public T held; public static GTag tag = new GTag(7); public constructor() -> GMid<T> { super(); return this; } public function tagv() -> int { return tag.v; } public override function id() -> int { return gm * 10 + gb; } }" % b,
                 "class GLeaf extends GMid<int> { public int gl = %d; public constructor() -> GLeaf { super(); return this; } }" % c3,
                 "class GItem { public int w = %d; public constructor() -> GItem = default; }" % (a + b),
                 "class GTag { public int v; public constructor(int v) -> GTag { this.v = v; return this; } }",
                 "class GBox<T extends GItem> { public T it; public static int made = 0; public constructor(T it) -> GBox<T> { this.it = it; made = made + 1; return this; } public function w() -> int { return it.w + made; } }",
                 "class GDog extends GItem { public constructor() -> GDog { super(); return this; } }",
                 "class GCrate<T> { public T item; public int puts = 0; public constructor() -> GCrate<T> = default; public function put(T x) -> void { this.item = x; puts = puts + 1; } }",
                 "class GKennel extends GCrate<GDog> { public constructor() -> GKennel { super(); return this; } }",
                 "class GPlant { public int h = 2; public constructor() -> GPlant = default; }",
                 "class GHouse<T extends GPlant> { public T crop; public constructor(T crop) -> GHouse<T> { this.crop = crop; return this; } }",
                 "class GDepot { public GBox<GDog> slot; public GHouse<GPlant> hs; public constructor() -> GDepot { this.slot = new GBox<GDog>(new GDog()); this.hs = new GHouse<GPlant>(new GPlant()); return this; } "
                 "public function take(GBox<GDog> b) -> GBox<GDog> { return b; } public function sum() -> int { return take(slot).it.w + hs.crop.h; } }",
                 "function kennel() -> int { GKennel k = new GKennel(); k.put(new GDog()); GHouse<GPlant> g = new GHouse<GPlant>(new GPlant()); return k.puts + g.crop.h; }",
                 "function main() -> void { echo(kennel()); GLeaf x = new GLeaf(); echo(x.gb); echo(x.gm); echo(x.gl); echo(x.id()); echo(x.tagv()); GBase y = new GLeaf(); echo(y.id()); "
                 "GBox<GItem> bx = new GBox<GItem>(new GItem()); echo(bx.w()); GMid<string> ms = new GMid<string>(); echo(ms.gm + ms.gb); GDepot dp = new GDepot(); echo(dp.sum()); }"]
        ps = perms(rng, len(decls), 4)
        cases.append((["\n".join(decls)] + ["\n".join(decls[i] for i in p) for p in ps], ps, [], False))
    # statics whose initialisers read other classes' statics (in either direction, also cyclically) or call a counting function:
    # values and the order of side effects must not depend on where the classes stand in the file
    for _ in range(1200 if chk.thorough else 40):
        k = rng.randrange(2, 6)
        names = rng.sample(["A", "B", "C", "D", "Early", "Late", "Mid", "Zeta", "Q1", "Util", "Cfg", "M"], k)
        decls = ["static class Tick { public static int n = 0; public static function next() -> int { n = n + 1; return n; } }"]
        for i, nm in enumerate(names):
            others = [x for x in names if x != nm]
            terms = [str(rng.randrange(1, 9))]
            for o in rng.sample(others, rng.randrange(0, min(3, len(others)) + 1)):
                terms.append("%s.v" % o)
            if rng.random() < 0.4:
                terms.append("Tick.next() * 100")
            stat = rng.random() < 0.5
            decls.append("%sclass %s { public static int v = %s; public static int w = v * 2;%s }"
                         % ("static " if stat else "", nm, " + ".join(terms), "" if stat else " public constructor() -> %s = default;" % nm))
        decls.append("function main() -> void { %s echo(Tick.n); }" % " ".join("echo(%s.v); echo(%s.w);" % (nm, nm) for nm in names))
        ps = perms(rng, len(decls), 4)
        cases.append((["\n".join(decls)] + ["\n".join(decls[i] for i in p) for p in ps], ps, [], False))
    for _fn, o in load_corpus("C10"):
        cases.append(([o["source"]] + o["variants"], ["corpus"] * len(o["variants"]), o.get("draws", []), False))
    progs, owner = [], []
    for ci, (srcs, _ps, ds, _m) in enumerate(cases):
        for s in srcs:
            progs.append((s, ds))
            owner.append(ci)
    mod_idx = [i for i, ci in enumerate(owner) if cases[ci][3]]
    _l, impl, _m, incident = evallib.run_programs(progs, with_model=False)
    _l2, _i2, model_sub, _ = evallib.run_programs([progs[i] for i in mod_idx]) if mod_idx else ([], [], [], None)
    # re-running the implementation for the model subset is avoided: only the model lines are used
    model = {i: m for i, m in zip(mod_idx, model_sub)}
    bad = dis = None
    pos = 0
    accepted = rejected = 0
    for ci, (srcs, ps, ds, _m) in enumerate(cases):
        base = impl[pos]
        if base.startswith("ok "):
            accepted += 1
        else:
            rejected += 1
        for k in range(1, len(srcs)):
            chk.count((srcs[0], str(ps[k - 1])) if ("echo=" in base and "echo=-" not in base and "echo= " not in base) else None)
            if observable(impl[pos + k]) != observable(base) and bad is None:
                bad = (srcs[0], srcs[k], ps[k - 1], ds, base, impl[pos + k])
        for k in range(len(srcs)):
            m = model.get(pos + k)
            if m is not None and not m.startswith("unsupported") and not impl[pos + k].startswith(("err Semantic", "err Parse", "err Lexical")) \
                    and not evallib.same_result(impl[pos + k], m) and dis is None:
                dis = (srcs[k], ds, impl[pos + k], m)
        pos += len(srcs)
    chk.extra["input_distribution"] = {"programs": len(cases), "accepted": accepted, "rejected_or_error": rejected, "runs": len(progs)}
    chk.extra["harness_incident"] = str(incident)[:300] if incident else ""
    chk.sample({"permutation": str(cases[0][1][0]) if cases[0][1] else "", "source": cases[0][0][0][:300]})
    if bad:
        o, v, p, ds, a, b = bad
        chk.violation("reordering top-level declarations (%s) changes the result: original %s, reordered %s" % (p, a[:200], b[:200]),
                      {"source": o, "variant": v, "permutation": str(p), "draws": ds, "kind": "program-pair"})
    elif dis:
        src, ds, x, y = dis
        chk.violation("evaluator model and real pipeline disagree: impl=%s model=%s\n%s" % (x[:200], y[:200], src[:400]),
                      {"source": src, "draws": ds, "kind": "program"})
    acceptance(chk)


def front_verdict(line):
    """front harness 'check' reply -> accept / reject / other (parse or lexical errors are generator bugs)"""
    parts = [x.strip() for x in line.split("|")]
    vs = set()
    for x in parts:
        if x == "ok":
            vs.add("accept")
        elif x.startswith("err Semantic"):
            vs.add("reject")
        else:
            vs.add("other:" + x[:60])
    return vs.pop() if len(vs) == 1 else "mixed:" + line[:120]


def acceptance(chk):
    """declaration graphs (valid + seeded declaration errors) in several orders: the real analyser's verdict must equal
    Decls.accept, which Props/C10.acceptance_order_independent proves order-free"""
    rng = chk.rng
    graphs = []
    for _ in range(6000 if chk.thorough else 260):
        graphs.append(declgen.DeclGraph(rng, None if rng.random() < 0.45 else rng.choice(declgen.DEFECTS)))
    lines_impl, lines_model, owner = [], [], []
    for gi, g in enumerate(graphs):
        orders = [None] + perms(rng, g.n(), 3)
        for o in orders:
            lines_impl.append("check " + g.source(o).encode().hex())
            lines_model.append(g.model_line(o))
            owner.append((gi, o))
    impl = run_lines(buildlib.build_harness("front_harness"), lines_impl, 900)[0]
    model = driver(lines_model)[0]
    if len(impl) != len(lines_impl) or len(model) != len(lines_model):
        chk.violation("acceptance run incomplete: %d/%d analyser replies, %d/%d model replies" %
                      (len(impl), len(lines_impl), len(model), len(lines_model)), {"kind": "decl-incomplete"})
        return
    dist = {"accept": 0, "reject": 0}
    per_defect = {}
    first = None
    for k, (a, m) in enumerate(zip(impl, model)):
        gi, o = owner[k]
        v = front_verdict(a)
        g = graphs[gi]
        if o is None:
            dist[m] = dist.get(m, 0) + 1
            per_defect[g.applied or "none"] = per_defect.get(g.applied or "none", 0) + 1
        chk.count((g.model_line(), str(o)))
        if v != m and first is None:
            first = (g, o, a, m)
    chk.extra["acceptance_distribution"] = {"graphs": len(graphs), "orders_run": len(lines_impl), "model_verdicts": dist,
                                            "seeded_defects": per_defect}
    if first:
        g, o, a, m = first
        chk.violation("acceptance of the declarations differs from Decls.accept (order %s): analyser says %s, model says %s\n%s"
                      % (o, a[:160], m, g.source(o)[:600]),
                      {"source": g.source(o), "model_line": g.model_line(o), "kind": "decl", "expected": m})


def replay(path):
    obj = json.load(open(path))
    if obj.get("kind") == "decl":
        a = run_lines(buildlib.build_harness("front_harness"), ["check " + obj["source"].encode().hex()], 60)[0][0]
        print(obj["source"][:800], "\n -> analyser:", a, " model:", obj["expected"])
        return 1 if front_verdict(a) != obj["expected"] else 0
    ps = [(obj["source"], obj.get("draws", []))] + ([(obj["variant"], obj.get("draws", []))] if "variant" in obj else [])
    _l, impl, _m, _ = evallib.run_programs(ps, with_model=False)
    for (s, _), a in zip(ps, impl):
        print(s[:800], "\n ->", a[:300])
    return 1 if len(impl) == 2 and observable(impl[0]) != observable(impl[1]) else 0
