"""C18 — shots are isolated: one analysed Program executed N times equals N fresh parse-analyse-run pipelines."""
import json

import classgen
import evallib
import heapgen
import proggen
import scopegen
from framework import load_corpus, run_guarded


def stateful_program(rng):
    """programs whose every shot would differ if anything carried over: statics, sized arrays (final int sizes, constant expressions),
    generic specialisations with static counters, tracked qubits, measured flags, qubit indices, objects"""
    n = rng.randrange(1, 5)
    k = rng.randrange(2, 6)
    L = ["class Counter { public static int hits = 0; public static int[] hist = {0, 0, 0}; public constructor() -> Counter = default;",
         "    public static function hit() -> int { hits = hits + 1; hist[hits % 3] = hist[hits % 3] + 1; return hits; } }",
         "class Box<T> { public T v; public static int made = 0; public constructor(T v) -> Box<T> { this.v = v; made = made + 1; return this; }",
         "    public function count() -> int { return made; }",
         "    public static function of(T v) -> Box<T> { return new Box<T>(v); } }",
         # statics whose initialisers have side effects or depend on other statics (final and not, scalar and object, generic self-reference)
         "class Ticket { public static int issued = 0; public static function next() -> int { issued = issued + 1; return issued; } public constructor() -> Ticket = default; }",
         "class Session { public static final int id = Ticket.next(); public static int second = Ticket.next() + %d; public static final string tag = \"s\" + Ticket.next();" % k,
         "    public static final float fz = 0.5f + Ticket.issued; public static Ticket owner = new Ticket(); public constructor() -> Session = default; }",
         "class Chain<T> { public static int made = 0; public static Chain<T> empty = new Chain<T>(); public Chain<T> next; public constructor() -> Chain<T> { made = made + 1; next = null; return this; }",
         "    public function isEmpty() -> boolean { return this == empty; } public function count() -> int { return made; } }",
         "class A { public int x = %d; public constructor() -> A = default; }" % n,
         "class TankOf<T> { public int capacity = %d; public T cargo; public constructor() -> TankOf<T> = default; public function cap() -> int { return capacity; } }" % (k + 1),
         "class FuelTank extends TankOf<A> { public int level = 5; public constructor() -> FuelTank { super(); return this; } public function total() -> int { return capacity + level; } }",
         "class B extends A { public int y = %d; public constructor() -> B = default; }" % k,
         "class Solo { public int s = 9; public constructor() -> Solo = default; }",
         "class Held { @tracked public qubit hq; public constructor() -> Held = default; }",
         "function fill(int m) -> int { final int sz = %d; int[sz] buf; int i = 0; int s = 0; while (i < sz) { buf[i] = i + m; s = s + buf[i]; i = i + 1; } return s; }" % (k + 1),
         "@quantum function flip(qubit q) -> bit { h(q); bit r = measure q; return r; }",
         "function main() -> void {",
         "    final int n = %d;" % (n + 2),
         "    final int m2 = %d; int[n] arr; int[m2] arr2; bit[n] flags;" % (k + 1),
         "    echo(\"session \" + Session.id + \" \" + Session.second + \" \" + Session.tag + \" \" + Session.fz + \" issued \" + Ticket.issued);",
         "    Chain<int> cn = new Chain<int>(); echo(cn.isEmpty()); echo(cn.count()); Chain<A> ca = new Chain<A>(); echo(ca.count());",
         "    FuelTank ft = new FuelTank(); echo(ft.capacity); echo(ft.total()); echo(ft.cap());",
         "    echo(Counter.hit()); echo(Counter.hit()); echo(Counter.hist[1]);",
         "    if (Counter.hits == 2) { echo(\"two\"); } else { echo(\"not two\"); }",
         "    Box<A> ba = new Box<A>(new A()); Box<B> bb = new Box<B>(new B()); Box<B> bc = new Box<>(new B());",
         "    echo(ba.count()); echo(bc.count()); echo(bc.v.y + ba.v.x);",
         "    Box<Solo> bf = Box.of(new Solo()); echo(bf.v.s + bf.count());",
         "    echo(fill(%d));" % n,
         "    @tracked qubit t; qubit[%d] reg;" % (n + 1),
         "    echo(flip(t));",
         "    { Held hd = new Held(); x(hd.hq); bit hb = measure hd.hq; echo(hb); }",
         "    %s" % rng.choice(["reset t; h(t);", "", "reset t;"]),
         "    x(reg[0]); bit m0 = measure reg[0]; echo(m0); measure reg[1]; arr[0] = Counter.hits; echo(arr[0] + arr2[0]);",
         "    qubit late; bit lb = measure late; echo(lb);",
         "}"]
    return "\n".join(L)


def failing_teardown_program(rng):
    """a run whose failure comes late: a destructor (run at main's scope exit, at an inner scope exit, on destroy or reassignment) raises a
    runtime error; every shot must fail exactly like a fresh run"""
    err = rng.choice(["int[3] copy = {1, 2, 3}; int last = copy[this.used];", "int z = this.used - this.used; int r = 7 % z;",
                      "Journal nj = null; int r = nj.used;"])
    when = rng.choice(["exit", "inner", "destroy", "reassign"])
    body = {"exit": "Journal j = new Journal(); j.add(); j.add(); j.add();",
            "inner": "{ Journal j = new Journal(); j.add(); j.add(); j.add(); } echo(\"after inner\");",
            "destroy": "Journal j = new Journal(); j.add(); j.add(); j.add(); destroy j; echo(\"after destroy\");",
            "reassign": "Journal j = new Journal(); j.add(); j.add(); j.add(); j = new Journal(); echo(\"after reassign\");"}[when]
    return ("class Journal { public int used = 0; public constructor() -> Journal = default; public function add() -> void { this.used = this.used + 1; }\n"
            "  public destructor() -> void { %s echo(\"closed\"); } }\n"
            "function main() -> void { @tracked qubit q; x(q); bit b = measure q; %s echo(\"shot finished \" + b); }" % (err, body))


def run(chk):
    chk.rule = ("programs x N in 2..4 shots x forced draw sequences: one parsed+analysed Program executed N times (as multi-shot mode does) "
                "against N fresh parse-analyse-run pipelines given the same draws; every shot's echo output, tracked counts, outcomes, QASM, "
                "final state and status must coincide. Programs: statics, sized arrays with final/constant sizes, generic specialisations with "
                "static counters, tracked qubits (locals and object fields), measured flags, qubit recycling; type-directed class-free "
                "programs (quantum, tracked); class, heap and scope programs. distinct non-trivial = programs whose shots echo something")
    chk.assumptions = ["the process-global RNG is replaced by forced draws on both sides (shots are compared per draw sequence, as the property states)"]
    chk.prove()
    rng = chk.rng
    progs = []
    for _ in range(1500 if chk.thorough else 25):
        progs.append((stateful_program(rng), "stateful"))
    for _ in range(4000 if chk.thorough else 80):
        g = proggen.Gen(rng, quantum=rng.random() < 0.6, tracked=rng.random() < 0.5)
        progs.append((g.program(), "typed"))
    for _ in range(2000 if chk.thorough else 40):
        progs.append((classgen.ClassProgram(rng, depth=rng.choice([1, 2, 3, 4]), churn=rng.random() < 0.2).source(), "class"))
    for _ in range(600 if chk.thorough else 15):
        progs.append((heapgen.HeapProgram(rng, dtor=True).source(), "heap"))
    for _ in range(300 if chk.thorough else 8):
        progs.append((scopegen.ScopeProgram(rng).reference(), "scope"))
    for _ in range(200 if chk.thorough else 12):
        progs.append((failing_teardown_program(rng), "failing-teardown"))
    # array sizes named by final ints whose value is only known at run time (a measurement, a call, a static): whether the front end
    # accepts them or not, no size may be carried from one shot to the next
    for _ in range(120 if chk.thorough else 10):
        val = rng.choice(["1 + (int) r", "1 + (int) r + (int) r", "pick(r)", "2 - (int) r"])
        where = rng.choice(["main", "fn"])
        decl = "qubit q; h(q); bit r = measure q; final int n = %s; int[n] buf; buf[n - 1] = 7; echo(\"n = \" + n); echo(buf);" % val
        if where == "main":
            src = "function pick(bit b) -> int { return 1 + (int) b; }\nfunction main() -> void { %s }" % decl
        else:
            src = ("function pick(bit b) -> int { return 1 + (int) b; }\n@quantum function fill() -> void { %s }\n"
                   "function main() -> void { fill(); fill(); }" % decl)
        progs.append((src, "runtime-sized"))
    # array fields sized by expressions with side effects or run-dependent values: every shot sizes (or does not size) them for itself
    for _ in range(60 if chk.thorough else 6):
        size = rng.choice(["(Dice.roll())", "Dice.roll()", "(1 + Dice.roll())", "Dice.n"])
        progs.append(("static class Dice { public static int n = 2; public static function roll() -> int { qubit q; h(q); bit b = measure q; echo(\"rolled\"); n = n + 1; if (b == 1b) { return 2; } return 1; } }\n"
                      "class Buffer { public int[%s] cells; public int k = 0; public constructor() -> Buffer { } }\n"
                      "function main() -> void { Buffer b = new Buffer(); echo(b.cells); echo(Dice.n); Buffer c = new Buffer(); echo(c.cells); }" % size, "field-size-expr"))
    # deterministic programs whose output goes through every formatter: whole and fractional floats, longs, negative numbers, bits,
    # strings, arrays — in an order that would expose a formatter that remembers what it printed last
    FMT = ["echo(1.0f / 4.0f);", "echo(2.0f * 2.0f);", "echo(0.125f);", "echo(100.0f);", "echo(-0.5f);", "echo(3);", "echo(-7L * 1000000000L);",
           "echo(1b);", "echo(\"s\" + 1.5f);", "echo(\"t\" + 2.0f);", "float[] fa = {0.25f, 4.0f, 0.3f}; echo(fa);", "echo((float) 7);", "echo(1.0f / 3.0f);",
           "echo(true);", "echo('c');", "int[] ia = {1, -2}; echo(ia);"]
    for _ in range(60 if chk.thorough else 10):
        body = [rng.choice(FMT) for _k in range(rng.randrange(2, 7))]
        progs.append(("function main() -> void { { %s } }" % " } { ".join(body), "formatters"))
    for _fn, o in load_corpus("C18"):
        progs.append((o["source"], "corpus"))
    lines = []
    for src, _k in progs:
        n = rng.randrange(2, 5)
        ds = evallib.draws_arg(evallib.gen_draws(rng, 40))
        lines.append("shots %s 1 %d %s" % (evallib.hx(src), n, ds))
        # multi-shot mode runs with echo suppressed: everything but the echo text must still equal a fresh echoing run
        lines.append("shots %s 01 %d %s" % (evallib.hx(src), n, ds))
    impl, incident = run_guarded(evallib.harness(), lines, chunk_timeout=240)
    kinds = {}
    rejected = {}
    bad = None
    progs2 = [p for p in progs for _ in (0, 1)]
    for (src, kind), ln, a in zip(progs2, lines, impl):
        kinds[kind] = kinds.get(kind, 0) + 1
        chk.count((src, ln.split()[2]) if " echo=" in a and "echo= " not in a.split("##")[0][:400] else None)
        if a.startswith("same "):
            # shots that consumed no randomness (no measurement, no reset) are runs of one deterministic program: they must agree with
            # each other to the letter — state that leaks through something both the shared and the fresh pipeline use
            # (a process-wide formatter, a cache) shows here and nowhere else
            shots_ = a[len("same "):].partition(" ## ")[0].split(" || ")
            if bad is None and len(shots_) > 1 and all(" outcomes= " in x for x in shots_):
                k = next((i for i, x in enumerate(shots_) if x != shots_[0]), None)
                if k is not None:
                    bad = (src, kind, ln, k, shots_[k][:300], shots_[0][:300], "deterministic program, shot %d differs from shot 1" % (k + 1))
            continue
        if a.startswith(("err Semantic", "err Parse", "err Lexical")):
            rejected[kind] = rejected.get(kind, 0) + 1
            if kind == "stateful" and bad is None:
                # these programs are valid by construction: a rejection means the family checks nothing
                bad = (src, kind, ln, 0, a[:120], "an accepted program", "stateful program rejected by the front end")
            continue
        if bad is None:
            shared, _, fresh = a.partition(" ## ")
            sh, fr = shared.split(" || "), fresh.split(" || ")
            k = next((i for i, (x, y) in enumerate(zip(sh, fr)) if x.replace("DIFFERENT ", "") != y), 0)
            bad = (src, kind, ln, k, sh[k][:300] if k < len(sh) else "", fr[k][:300] if k < len(fr) else "", a[:80])
    # the formatter programs are deterministic and class-free: every shot must print what the reference evaluator (Lean) prints, whatever
    # ran before in the same process — earlier shots, earlier programs
    fprogs = [(src, []) for src, kind in progs if kind == "formatters"]
    if fprogs:
        _lf, _if, fmodel, _incf = evallib.run_programs(fprogs)
        import re as _re
        _echo = lambda t: (_re.search(r" echo=(\S*)", t) or [None, None])[1]
        want = {src: _echo(m) for (src, _d), m in zip(fprogs, fmodel) if m.startswith("ok ")}
        for (src, kind), ln, a in zip(progs2, lines, impl):
            if kind != "formatters" or src not in want or bad is not None or ln.split()[2] != "1":
                continue
            body = a[len("same "):] if a.startswith("same ") else a
            shots_ = body.partition(" ## ")[0].split(" || ")
            for k, x in enumerate(shots_):
                got = _echo(x)
                if got != want[src]:
                    bad = (src, kind, ln, k, "echo=%s" % got, "echo=%s (reference evaluator)" % want[src], "formatting depends on what ran before")
                    break
    chk.extra["input_distribution"] = kinds
    chk.extra["rejected_by_front_end"] = rejected
    chk.extra["harness_incident"] = str(incident)[:600] if incident else ""
    chk.sample({"kind": progs[0][1], "program": progs[0][0][:400]})
    if bad:
        src, kind, ln, k, sh, fr, head = bad
        chk.violation("%s program: shot %d of a shared Program gives %s, a fresh run with the same draws gives %s (%s)" % (kind, k + 1, sh, fr, head),
                      {"source": src, "line": ln, "kind": "shots"})


def replay(path):
    obj = json.load(open(path))
    out, inc = run_guarded(evallib.harness(), [obj["line"]])
    print(obj["source"][:1500])
    a = out[0] if out else ""
    shared, _, fresh = a.partition(" ## ")
    for i, (x, y) in enumerate(zip(shared.split(" || "), fresh.split(" || "))):
        print("shot", i + 1, "shared:", x[:200])
        print("shot", i + 1, "fresh :", y[:200])
    return 0 if a.startswith("same ") else 1
