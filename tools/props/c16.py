"""C16 — static rules are enforced in every syntactic position, and only there. Lean: Sem.Compat + Props/C16 (the declared-type
rule in the five positions where a value meets a declared type). Check: rule x position matrix on the real analyser, every
violating program with its repaired twin; the type matrix also against the Lean model's verdict."""
import json

import evallib
import semgen
from framework import load_corpus, driver, run_guarded


def run(chk):
    chk.rule = ("EXHAUSTIVE over the generator's table: rules {declared-type compatibility for 25 expected/actual pairs, final "
                "variables/fields (assign, ++, --, nested, loop header, ternary branch, constructor rules), visibility (private/protected "
                "fields, methods, statics, constructors; through objects, this, bare names, super), use before declaration (also in the own "
                "initialiser), redeclaration, void misuse (assigned, argument, operand, echoed, variable, parameter of function/method/"
                "constructor, field), return rules (function, method, destructor, nested), static/abstract instantiation, this/super/"
                "instance members in static context, @quantum return types, @shots placement, null only for class references} x positions "
                "{main, nested block, if, else, while, for, function, method, constructor, static method, destructor, ternary branch; typed "
                "positions: initialiser, assignment, argument, nested argument, return, field initialiser, field assignment via this / bare / "
                "object / static, method argument, constructor argument}. Every violating program must be rejected before it runs, its "
                "repaired twin must be accepted. distinct non-trivial = violating programs")
    chk.assumptions = ["a rule is 'enforced' when the violating program is rejected statically (Semantic error, or Parse error for annotation "
                       "placement) and its twin — the same program without the violation — is accepted",
                       "element writes to a final array and array literals in primitive positions are outside the rules the property lists"]
    chk.prove()
    cs = semgen.cases()
    for _fn, o in load_corpus("C16"):
        cs.append({"rule": o.get("rule", "corpus"), "position": o.get("position", "corpus"), "bad": o.get("bad"), "good": o.get("good"), "model": None})
    progs = []
    for c in cs:
        if c["bad"]:
            progs.append(c["bad"])
        if c["good"]:
            progs.append(c["good"])
    out, incident = run_guarded(evallib.harness(), ["run %s 0 -" % evallib.hx(s) for s in progs], chunk_timeout=600)
    mlines = [c["model"] for c in cs if c.get("model")]
    mres = iter(driver(mlines)[0])
    i = 0
    first = None
    rules, positions = {}, {}
    for c in cs:
        rules[c["rule"].split()[0]] = rules.get(c["rule"].split()[0], 0) + 1
        positions[c["position"]] = positions.get(c["position"], 0) + 1
        mv = next(mres) if c.get("model") else None
        if c["bad"]:
            a = out[i]; i += 1
            chk.count((c["rule"], c["position"]))
            rejected = a.startswith(("err Semantic", "err Parse"))
            if not rejected and first is None:
                first = ("rule '%s' is not enforced at position '%s': the violating program is accepted (%s)" % (c["rule"], c["position"], a[:60]),
                         {"source": c["bad"], "twin": c["good"], "rule": c["rule"], "position": c["position"], "kind": "hole"})
            if mv is not None and mv != "reject" and first is None:
                first = ("Lean analyser model accepts %s at %s, the declared-type rule rejects it" % (c["rule"], c["position"]),
                         {"model_line": c["model"], "kind": "model"})
        else:
            chk.count(None)
            if mv is not None and mv != "accept" and first is None:
                first = ("Lean analyser model rejects %s at %s, the declared-type rule accepts it" % (c["rule"], c["position"]),
                         {"model_line": c["model"], "kind": "model"})
        if c["good"]:
            g = out[i]; i += 1
            if g.startswith(("err Semantic", "err Parse", "err Lexical")) and first is None:
                first = ("the program without the violation is rejected (rule '%s', position '%s'): %s" % (c["rule"], c["position"], g[:60]),
                         {"source": c["good"], "rule": c["rule"], "position": c["position"], "kind": "over-rejection"})
    # declaration / final rules: random statement trees through the Lean walk (Props/C16: the walk is the rule system) and the analyser
    import scopetree
    gens = [scopetree.Gen(chk.rng) for _ in range(40000 if chk.thorough else 500)]
    trees = [g.program() for g in gens]
    souts, _inc2 = run_guarded(evallib.harness(), ["run %s 0 -" % evallib.hx(scopetree.source(t)) for t in trees], chunk_timeout=600)
    smod = driver(["scope " + " ".join(scopetree.code(t)) for t in trees])[0]
    sdist = {}
    for g, t, a, m in zip(gens, trees, souts, smod):
        impl_rej = a.startswith("err Semantic")
        impl_acc = a.startswith(("ok ", "err Runtime"))
        key = "%s/%s" % ("reject" if impl_rej else "accept" if impl_acc else a[:12], g.injected or "well-scoped")
        sdist[key] = sdist.get(key, 0) + 1
        chk.count(("scope", " ".join(scopetree.code(t))) if g.injected else None)
        if (m.split()[0] == "reject") != impl_rej or not (impl_rej or impl_acc):
            if first is None:
                first = ("declaration/final rules: the analyser %s this program, the rule system (Lean walk) says %s" % ("rejects" if impl_rej else "accepts: " + a[:40], m),
                         {"source": scopetree.source(t), "model_line": "scope " + " ".join(scopetree.code(t)), "kind": "scope-tree"})
    chk.extra["scope_trees"] = sdist
    chk.exhaustive = True
    chk.extra["input_distribution"] = {"rules": rules, "positions": positions, "programs": len(progs), "model_verdicts": len(mlines)}
    chk.extra["harness_incident"] = str(incident)[:300] if incident else ""
    chk.sample({"rule": cs[0]["rule"], "position": cs[0]["position"], "violating": (cs[0]["bad"] or "")[-300:]})
    if first:
        chk.violation(first[0], first[1])


def replay(path):
    obj = json.load(open(path))
    srcs = [obj[k] for k in ("source", "twin") if obj.get(k)]
    if not srcs:
        print(json.dumps(obj, indent=1)[:2000])
        return 1
    out, _ = run_guarded(evallib.harness(), ["run %s 0 -" % evallib.hx(s) for s in srcs])
    for s, o in zip(srcs, out):
        print(s[-700:], "\n ->", o[:100])
    return 1
