"""C08 — object model. Lean: Obj.Model + Props/C08 (dispatch, super, construction/destruction order, statics,
overload selection, generic specialisation). Correspondence: programs rendered from random hierarchy/action
descriptions must print the model's trace; overload matrix against `pick`; generic instantiation sequences."""
import json

import classgen
import evallib
from framework import load_corpus, driver

TYS = {"i": ("int", "1"), "l": ("long", "5L"), "f": ("float", "2.5f"), "s": ("string", "\"s\""), "b": ("boolean", "true"),
       "t": ("bit", "1b"), "c": ("char", "'c'")}


def overload_case(rng):
    """K.g candidates over primitives and the chain C0<-C1<-C2; one call. Returns (source, driver line, description)."""
    codes = list(TYS) + ["C0", "C1", "C2"]
    arity = rng.choice([1, 1, 2])
    cands = []
    for _ in range(rng.randrange(1, 5)):
        c = tuple(rng.choice(codes) for _ in range(arity))
        if c not in cands:
            cands.append(c)
    args = [rng.choice(codes + ["n"]) for _ in range(arity)]
    # make applicable calls common: half of the time derive the arguments from a candidate
    if rng.random() < 0.6:
        base = rng.choice(cands)
        args = []
        for t in base:
            if t.startswith("C") and rng.random() < 0.6:
                args.append("C%d" % rng.randrange(int(t[1]), 3))
            elif t == "l" and rng.random() < 0.5:
                args.append("i")
            else:
                args.append(t)

    def tyname(t):
        return TYS[t][0] if t in TYS else t

    def argexpr(t, k):
        if t in TYS:
            return TYS[t][1]
        if t == "n":
            return "null"
        return "v%s" % t          # variable of that declared AND dynamic class

    lines = ["class C0 { public constructor() -> C0 = default; }", "class C1 extends C0 { public constructor() -> C1 = default; }",
             "class C2 extends C1 { public constructor() -> C2 = default; }"]
    sig = lambda i, c: "    public function g(%s) -> string { return \"g%d\"; }" % (", ".join("%s p%d" % (tyname(t), j) for j, t in enumerate(c)), i)
    if rng.random() < 0.45:
        # the overloads are spread over the receiver's class chain K0 <- K1 <- K2: the set visible from the receiver's class is what
        # the call chooses from, inherited or not
        owner = [rng.randrange(3) for _ in cands]
        recv = rng.choice([1, 2, 2])
        if rng.random() < 0.6 and "n" not in args:
            # two applicable overloads of different cost in different classes: the exact one and a widened one (int->long, Ck->Cj)
            wide = tuple(("l" if t == "i" else ("C%d" % rng.randrange(0, int(t[1]))) if t.startswith("C") and t != "C0" else t) for t in args)
            exact = tuple(args)
            if wide != exact:
                for c in (exact, wide):
                    if c not in cands:
                        cands.append(c)
                        owner.append(0)
                lo, hi = sorted(rng.sample(range(0, recv + 1), 2)) if recv >= 1 else (0, 0)
                a, b = (lo, hi) if rng.random() < 0.6 else (hi, lo)
                owner[cands.index(exact)], owner[cands.index(wide)] = a, b
        visible = [i for i, o in enumerate(owner) if o <= recv]
        if not visible:
            owner[0] = 0
            visible = [0]
        for lvl in range(3):
            lines.append("class K%d%s {" % (lvl, (" extends K%d" % (lvl - 1)) if lvl else ""))
            lines.append("    public constructor() -> K%d = default;" % lvl)
            lines += [sig(visible.index(i) if i in visible else 90 + i, c) for i, c in enumerate(cands) if owner[i] == lvl]
            lines.append("}")
        lines += ["function main() -> void {", "    K%d k = new K%d();" % (recv, recv)]
        vis_cands = [cands[i] for i in visible]
        desc = "chain recv=K%d owners=%s " % (recv, owner)
    else:
        lines += ["class K {", "    public constructor() -> K = default;"] + [sig(i, c) for i, c in enumerate(cands)] + ["}"]
        lines += ["function main() -> void {", "    K k = new K();"]
        vis_cands = cands
        desc = ""
    lines += ["    C0 vC0 = new C0(); C1 vC1 = new C1(); C2 vC2 = new C2();",
              "    echo(k.g(%s));" % ", ".join(argexpr(t, j) for j, t in enumerate(args)), "}"]
    line = "ovl %s %s" % (";".join(",".join(c) for c in vis_cands), ",".join(args))
    return "\n".join(lines), line, desc + "%s <- (%s)" % (" | ".join(",".join(c) for c in vis_cands), ",".join(args))


def default_binding_case(rng):
    """(source, expected echo lines): fields with and without initialisers, a default constructor binding some of them, a derived class
    passing arguments up through super(...)"""
    names = ["w", "h", "t", "k"]
    tys = {"w": "int", "h": "int", "t": "string", "k": "float"}
    lit = {"int": lambda: str(rng.randrange(1, 50)), "string": lambda: '"s%d"' % rng.randrange(9), "float": lambda: "%d.5f" % rng.randrange(1, 9)}
    show = {"int": lambda v: v, "string": lambda v: v.strip('"'), "float": lambda v: v[:-1]}
    init = {n: (lit[tys[n]]() if rng.random() < 0.7 else None) for n in names}
    bound = [n for n in names if rng.random() < 0.6] or ["w"]
    rng.shuffle(bound)
    args = {n: lit[tys[n]]() for n in bound}
    fields = " ".join("public %s %s%s;" % (tys[n], n, (" = " + init[n]) if init[n] else "") for n in names)
    dflt = {"int": "0", "string": "", "float": "0.0"}
    final = {n: (args[n] if n in bound else init[n]) for n in names}
    want = [show[tys[n]](final[n]) if final[n] is not None else dflt[tys[n]] for n in names]
    src = ["class R { %s public constructor(%s) -> R = default; }" % (fields, ", ".join("%s %s" % (tys[n], n) for n in bound))]
    derived = rng.random() < 0.5
    if derived:
        extra = lit["int"]()
        src.append("class S extends R { public int z = %s; public constructor(%s) -> S { super(%s); return this; } }"
                   % (extra, ", ".join("%s %s" % (tys[n], n) for n in bound), ", ".join(bound)))
        want = want + [extra]
    cls = "S" if derived else "R"
    src.append("function main() -> void { %s r = new %s(%s); %s%s }" % (cls, cls, ", ".join(args[n] for n in bound),
               " ".join("echo(r.%s);" % n for n in names), " echo(r.z);" if derived else ""))
    return "\n".join(src), want


def generic_case(rng):
    ts = [rng.randrange(3) for _ in range(rng.randrange(1, 8))]
    names = ["A", "B", "C"]
    lines = ["class A { public constructor() -> A = default; }", "class B extends A { public constructor() -> B = default; }",
             "class C { public constructor() -> C = default; }",
             "class Box<T> { public T v; public static int n = 0;",
             "    public constructor(T v) -> Box<T> { this.v = v; bump(); return this; }",
             "    public function bump() -> void { step(1); }",
             "    public function step(int k) -> void { n = n + k; }",
             "    public function count() -> int { return read(); }",
             "    public function read() -> int { return n; } }",
             "function main() -> void {"]
    for k, t in enumerate(ts):
        form = rng.randrange(3)
        if form == 0:
            lines.append("    Box<%s> b%d = new Box<%s>(new %s()); echo(b%d.count());" % (names[t], k, names[t], names[t], k))
        elif form == 1:
            lines.append("    Box<%s> b%d = new Box<>(new %s()); echo(b%d.count());" % (names[t], k, names[t], k))
        else:
            lines.append("    { Box<%s> b%d = new Box<%s>(new %s()); echo(b%d.count()); }" % (names[t], k, names[t], names[t], k))
    lines.append("}")
    return "\n".join(lines), "gen " + ",".join(map(str, ts)), ts


def run(chk):
    chk.rule = ("class programs rendered from (hierarchy, action list) descriptions: depth 1-5, per-class override/super/destructor "
                "patterns, side-effecting field initialisers, statics, declared-vs-dynamic class of each variable, overload calls, "
                "optional allocation churn; the real pipeline's echo lines must equal Obj.programTrace. Plus overload matrix "
                "(candidate lists over 7 primitives + a 3-class chain + null, arity 1-2) against Obj.pick, and generic instantiation "
                "sequences against Obj.genRun. distinct non-trivial = distinct descriptions")
    chk.assumptions = ["linear hierarchies only; interfaces/abstract classes are exercised by the repo's own tests, not by the model",
                       "overload argument whose dynamic class is below its declared class: known finding C08-dynamic-overload "
                       "(runtime re-resolves from the value), generated cases avoid it and the corpus witness reports it"]
    chk.prove()
    rng = chk.rng
    n = 12000 if chk.thorough else 260
    cps = []
    for _ in range(n):
        depth = rng.choice([1, 2, 2, 3, 3, 4, 5])
        cps.append(classgen.ClassProgram(rng, depth=depth, churn=rng.random() < 0.25))
    ovs = [overload_case(rng) for _ in range(20000 if chk.thorough else 500)]
    gens = [generic_case(rng) for _ in range(3000 if chk.thorough else 60)]
    corpus = load_corpus("C08")
    progs = [(c.source(), []) for c in cps] + [(o[0], []) for o in ovs] + [(g[0], []) for g in gens] + \
            [(o["source"], []) for _fn, o in corpus]
    _l, impl, _m, incident = evallib.run_programs(progs, with_model=False)
    model = driver([c.model_line() for c in cps] + [o[1] for o in ovs] + [g[1] for g in gens])[0]
    first = None
    kinds = {}
    for i, c in enumerate(cps):
        a, m = impl[i], model[i]
        got = evallib.split_result(a).get("echo_lines") if a.startswith("ok ") else None
        want = m[len("trace "):].split("|") if m.startswith("trace ") else None
        chk.count(c.model_line())
        kinds["hier depth %d" % c.depth] = kinds.get("hier depth %d" % c.depth, 0) + 1
        if got != want and first is None:
            first = ("class program: implementation prints %s, object model prescribes %s" % (got if got is not None else a[:200], want),
                     {"source": c.source(), "model_line": c.model_line(), "kind": "trace"})
        if c.expected != want and first is None:
            first = ("generator oracle and Lean model disagree (%s vs %s)" % (c.expected, want), {"model_line": c.model_line(), "kind": "oracle"})
    base = len(cps)
    for j, (src, line, desc) in enumerate(ovs):
        a, m = impl[base + j], model[base + j]
        chk.count("ovl " + desc)
        kinds["ovl " + m.split()[0]] = kinds.get("ovl " + m.split()[0], 0) + 1
        if m.startswith("chosen "):
            ok = a.startswith("ok ") and evallib.split_result(a)["echo_lines"] == ["g" + m.split()[1]]
        else:
            ok = a.startswith("err Semantic")
        if not ok and first is None:
            first = ("overload selection: candidates/arguments %s: model says %s, implementation %s" % (desc, m, a[:160]),
                     {"source": src, "model_line": line, "kind": "overload"})
    base += len(ovs)
    for j, (src, line, ts) in enumerate(gens):
        a, m = impl[base + j], model[base + j]
        chk.count(line)
        got = evallib.split_result(a).get("echo_lines") if a.startswith("ok ") else None
        if got != m[len("trace "):].split("|") and first is None:
            first = ("generic specialisation: implementation prints %s, model %s" % (got if got is not None else a[:200], m),
                     {"source": src, "model_line": line, "kind": "generic"})
    base += len(gens)
    for j, (_fn, o) in enumerate(corpus):
        a = impl[base + j]
        got = evallib.split_result(a).get("echo_lines") if a.startswith("ok ") else [a[:120]]
        if got != o["expected"]:
            chk.violation("corpus program prints %s, the documented rules give %s" % (got, o["expected"]),
                          {"match_key": o.get("known"), "source": o["source"], "expected": o["expected"], "kind": "corpus"})
    # destructor clause on arbitrary object graphs: heap-shape programs (sharing, cycles, temporaries) with a destructor in the class,
    # collections disabled, against the reference-counting model (Life.Model); the variables of main die in reverse order of
    # declaration at the very end, and the trace is compared line for line
    import heapgen
    from framework import run_guarded
    lps = []
    while len(lps) < (3000 if chk.thorough else 300):
        hp = heapgen.HeapProgram(rng, dtor=True)
        if not any(o[0] in ("hold", "pendq") for o in hp.ops):
            lps.append(hp)
    limpl, _linc = run_guarded(evallib.harness(), ["gc %s 1 - none" % evallib.hx(hp.source()) for hp in lps], chunk_timeout=300)
    lmod = driver(["life " + hp.model_ops() for hp in lps])[0]
    for hp, a, m in zip(lps, limpl, lmod):
        chk.count(("life", hp.model_ops()))
        got = evallib.split_result(a).get("echo_lines") if a.startswith("ok ") else [a[:80]]
        body, _, fin = m[len("trace "):].partition(" ## ")
        wb = body.split("|") if body else []
        wf = fin.split("|") if fin else []
        if not (got[:len(wb)] == wb and got[len(wb):] == wf) and first is None:
            first = ("object lifetime: implementation prints %s, reference counting prescribes %s then (as main's variables die, last declared first) %s" % (got, wb, wf),
                     {"source": hp.source(), "model_line": "life " + hp.model_ops(), "kind": "lifetime"})
    # `= default` constructors bind their parameters to the fields of the same name AFTER the field initialisers have run (an
    # initialiser never overwrites a constructor argument), in a base class reached through super(...) as well
    dbs = [default_binding_case(rng) for _ in range(600 if chk.thorough else 40)]
    _l2, dimpl, _m2, _inc2 = evallib.run_programs([(d[0], []) for d in dbs], with_model=False)
    for (src, want), a in zip(dbs, dimpl):
        chk.count(("default-binding", src))
        got = evallib.split_result(a).get("echo_lines") if a.startswith("ok ") else [a[:120]]
        if got != want and first is None:
            first = ("default constructor binding: implementation prints %s, 'initialisers first, then the constructor binds its arguments' gives %s"
                     % (got, want), {"source": src, "kind": "default-binding"})
    # a `return` inside one destructor of the chain ends that destructor only
    drs = []
    for _ in range(300 if chk.thorough else 30):
        depth = rng.randrange(2, 5)
        rets = [rng.random() < 0.5 for _ in range(depth)]
        hasd = [rng.random() < 0.85 for _ in range(depth)]
        src, want = [], []
        for i in range(depth):
            d = ""
            if hasd[i]:
                d = " public destructor() -> void { echo(\"~R%d a\"); int hv = helper7(); if (k == 1) { %s } echo(\"~R%d b\"); }" % (i, "return;" if rets[i] else "echo(\"-\");", i)
            src.append("class R%d%s { %spublic constructor() -> R%d = default;%s }" % (i, (" extends R%d" % (i - 1)) if i else "", "public int k = 1; " if i == 0 else "", i, d))
        for i in reversed(range(depth)):
            if hasd[i]:
                want.append("~R%d a" % i)
                if not rets[i]:
                    want += ["-", "~R%d b" % i]
        if rng.random() < 0.5:
            src.append("function main() -> void { { R%d o = new R%d(); echo(\"in\"); } echo(\"after\"); }" % (depth - 1, depth - 1))
        else:
            # the object dies while a `return` of its function is unwinding
            src.append("function mk() -> int { if (true) { R%d o = new R%d(); echo(\"in\"); return 5; } return 0; }\nfunction main() -> void { int r = mk(); echo(\"after\"); echo(r); }" % (depth - 1, depth - 1))
            src.insert(0, "function helper7() -> int { return 7; }")
            drs.append(("\n".join(src), ["in"] + want + ["after", "5"]))
            continue
        src.insert(0, "function helper7() -> int { return 7; }")
        drs.append(("\n".join(src), ["in"] + want + ["after"]))
    _l3, drimpl, _m3, _inc3 = evallib.run_programs([(d[0], []) for d in drs], with_model=False)
    for (src, want), a in zip(drs, drimpl):
        chk.count(("destructor-return", src))
        got = evallib.split_result(a).get("echo_lines") if a.startswith("ok ") else [a[:120]]
        if got != want and first is None:
            first = ("destructor chain with returns: implementation prints %s, 'derived first, each destructor to its own return' gives %s" % (got, want),
                     {"source": src, "kind": "destructor-return"})
    # field initialisers run in the context of the class that declares them: `this` has that class as its static type (overloads,
    # non-virtual methods re-declared below), whatever the dynamic class of the object under construction
    its = []
    for _ in range(200 if chk.thorough else 20):
        depth = rng.randrange(2, 5)
        codes = [rng.randrange(1, 90) for _ in range(depth)]
        use_ovl, use_code = rng.random() < 0.8, rng.random() < 0.8
        src = ["static class Log { %s }" % " ".join("public static function describe(I%d s) -> int { return %d; }" % (i, 100 + i) for i in range(depth))]
        for i in range(depth):
            flds = ""
            if use_ovl:
                flds += " public int tag%d = Log.describe(this);" % i
            if use_code:
                flds += " public int own%d = this.code();" % i
            src.append("class I%d%s {%s public constructor() -> I%d { %sreturn this; } public function code() -> int { return %d; } }"
                       % (i, (" extends I%d" % (i - 1)) if i else "", flds, i, "super(); " if i else "", codes[i]))
        dyn = rng.randrange(depth)
        echos, want = [], []
        for i in range(dyn + 1):
            if use_ovl:
                echos.append("echo(o.tag%d);" % i); want.append(str(100 + i))
            if use_code:
                echos.append("echo(o.own%d);" % i); want.append(str(codes[i]))
        src.append("function main() -> void { I%d o = new I%d(); %s echo(0); }" % (dyn, dyn, " ".join(echos)))
        its.append(("\n".join(src), want + ["0"]))
    _l4, itimpl, _m4, _inc4 = evallib.run_programs([(d[0], []) for d in its], with_model=False)
    for (src, want), a in zip(its, itimpl):
        chk.count(("initialiser-this", src))
        got = evallib.split_result(a).get("echo_lines") if a.startswith("ok ") else [a[:120]]
        if got != want and first is None:
            first = ("field initialisers and `this`: implementation prints %s, 'initialisers run in their declaring class' gives %s" % (got, want),
                     {"source": src, "kind": "initialiser-this"})
    # a static field is one slot per declaring class: written or read through a subclass's name (or an instance of a subclass) it is
    # the same slot; a subclass's own statics are separate
    sts = []
    for _ in range(120 if chk.thorough else 12):
        a, b, c = rng.randrange(1, 9), rng.randrange(10, 19), rng.randrange(20, 29)
        w1, w2 = rng.randrange(30, 39), rng.randrange(40, 49)
        ops, want = [], []
        cur = {"s": a, "t": b, "u": c}
        for _k in range(rng.randrange(2, 6)):
            kind = rng.choice(["Bs", "Cs", "As", "Bt", "Ct", "Cu", "is"])
            val = rng.choice([w1, w2, rng.randrange(50, 99)])
            if kind == "Bs":
                ops.append("SB.s = %d;" % val); cur["s"] = val
            elif kind == "Cs":
                ops.append("SC.s = %d;" % val); cur["s"] = val
            elif kind == "As":
                ops.append("SA.s = %d;" % val); cur["s"] = val
            elif kind == "Bt":
                ops.append("SB.t = %d;" % val); cur["t"] = val
            elif kind == "Ct":
                ops.append("SC.t = %d;" % val); cur["t"] = val
            elif kind == "Cu":
                ops.append("SC.u = %d;" % val); cur["u"] = val
            else:
                ops.append("oc.s = %d;" % val); cur["s"] = val
            ops.append("echo(SA.s); echo(SB.s); echo(SC.s); echo(SB.t); echo(SC.t); echo(SC.u); echo(oc.s + ob.t);")
            want += [str(cur["s"])] * 3 + [str(cur["t"])] * 2 + [str(cur["u"]), str(cur["s"] + cur["t"])]
        src = ("class SA { public static int s = %d; public constructor() -> SA = default; }\n"
               "class SB extends SA { public static int t = %d; public constructor() -> SB = default; }\n"
               "class SC extends SB { public static int u = %d; public constructor() -> SC = default; }\n"
               "function main() -> void { SC oc = new SC(); SB ob = new SB(); %s }" % (a, b, c, " ".join(ops)))
        sts.append((src, want))
    _l5, stimpl, _m5, _inc5 = evallib.run_programs([(d[0], []) for d in sts], with_model=False)
    for (src, want), a in zip(sts, stimpl):
        chk.count(("static-through-subclass", src))
        got = evallib.split_result(a).get("echo_lines") if a.startswith("ok ") else [a[:120]]
        if got != want and first is None:
            first = ("statics through subclass names: implementation prints %s, one slot per declaring class gives %s" % (got, want),
                     {"source": src, "kind": "static-through-subclass"})
    kinds["static-through-subclass programs"] = len(sts)
    kinds["initialiser-this programs"] = len(its)
    kinds["destructor-return programs"] = len(drs)
    kinds["default-binding programs"] = len(dbs)
    kinds["lifetime programs"] = len(lps)
    chk.extra["input_distribution"] = kinds
    chk.extra["harness_incident"] = str(incident)[:300] if incident else ""
    chk.sample({"model_line": cps[0].model_line(), "trace": model[0][:300]})
    chk.sample({"overload": ovs[0][2], "model": model[len(cps)]})
    if first:
        chk.violation(first[0], first[1])


def replay(path):
    obj = json.load(open(path))
    if "source" not in obj:
        print(json.dumps(obj, indent=1)[:2000])
        return 1
    _l, impl, _m, _ = evallib.run_programs([(obj["source"], [])], with_model=False)
    print(obj["source"])
    print(" ->", impl[0][:400])
    if "model_line" in obj:
        print(" model:", driver([obj["model_line"]])[0][0][:400])
    return 1
