"""C06 — a measured qubit cannot be operated on until reset, through any access path."""
import itertools
import json

import evallib
from framework import load_corpus

OPS = ["gate", "cxa", "measure", "mexpr", "reset", "marr"]   # on qubit a / b; marr measures the array holding both


def render(seq, paths, rng):
    """seq: list of (op, qubit index 0/1). The two qubits live in `qubit[2] r;` and are reached through the chosen path:
    'elem' r[i]; 'param' via helper functions taking a qubit; 'arrparam' via a helper taking the qubit[]."""
    lines = ["@quantum function g1(qubit a) -> void { h(a); }",
             "@quantum function m1(qubit a) -> bit { bit t = measure a; return t; }",
             "@quantum function r1(qubit a) -> void { reset a; }",
             "@quantum function gA(qubit[] rs, int i) -> void { x(rs[i]); }",
             "function main() -> void {"]
    outer = rng.random() < 0.6
    if outer:
        lines.append("  qubit p0;")
    lines.append("  qubit[2] r;")
    pos = {}
    for k, (op, q) in enumerate(seq):
        path = paths[k]
        other = 1 - q
        ln = len(lines) + 1
        if op == "gate":
            s = {"elem": "h(r[%d]);" % q, "param": "g1(r[%d]);" % q, "arrparam": "gA(r, %d);" % q}[path]
        elif op == "cxa":
            s = "cx(r[%d], r[%d]);" % (q, other)
        elif op == "measure":
            s = "measure r[%d];" % q
        elif op == "mexpr":
            s = {"elem": "bit b%d = measure r[%d];" % (k, q), "param": "bit b%d = m1(r[%d]);" % (k, q),
                 "arrparam": "bit b%d = measure r[%d];" % (k, q)}[path]
        elif op == "reset":
            s = {"elem": "reset r[%d];" % q, "param": "r1(r[%d]);" % q, "arrparam": "reset r[%d];" % q}[path]
        else:
            s = "measure r;"
        lines.append("  " + s)
        pos[k] = ln
    if outer:
        lines.append("  h(p0);")          # never measured: must not be refused, whatever happened to the array
    lines.append("}")
    return "\n".join(lines), pos


RECYCLE_CLASSES = [
    ("\nclass PB { public qubit q; public constructor() -> PB { return this; } }\n"
     "class WP extends PB { public qubit p; public constructor() -> WP { super(); return this; } "
     "public function fire() -> void { x(q); measure q; measure this.p; } }\n"),
    ("\nclass PB { public qubit q; public qubit[2] rr; public constructor() -> PB { return this; } }\n"
     "class WP extends PB { public qubit p; public constructor() -> WP { super(); return this; } "
     "public function fire() -> void { x(q); measure q; measure this.p; measure rr[1]; } }\n"),
    ("\nclass PA { public qubit q; public constructor() -> PA { return this; } }\n"
     "class PB extends PA { public constructor() -> PB { super(); return this; } }\n"
     "class WP extends PB { public constructor() -> WP { super(); return this; } "
     "public function fire() -> void { x(q); measure q; } }\n")]


def render_recycled(seq, paths, rng):
    """the same program, but its qubits are declared after an object that owned qubits — its own and inherited ones, all measured — has
    died: the recycled indices are fresh, pairwise distinct qubits, flags included"""
    src, pos = render(seq, paths, rng)
    end = rng.choice(["destroy w;", ""])
    src = src.replace("function main() -> void {", "function main() -> void { { WP w = new WP(); w.fire(); %s }" % end, 1)
    return src + rng.choice(RECYCLE_CLASSES), pos


def render_obj(seq, paths, rng):
    """the two qubits are fields a, b of an object created in an inner block; reached as o.a, through methods using the bare
    field name / this.a, or passed to a helper function; the object dies (with whatever flags its fields have) at the block end."""
    f = ["a", "b"]
    lines = ["@quantum function g1(qubit a) -> void { h(a); }",
             "@quantum function m1(qubit a) -> bit { bit t = measure a; return t; }",
             "@quantum function r1(qubit a) -> void { reset a; }",
             "class H { public qubit a; public qubit b; public constructor() -> H = default; @quantum public function ga() -> void { h(a); } "
             "@quantum public function gb() -> void { h(this.b); } @quantum public function ma() -> bit { bit t = measure this.a; return t; } "
             "@quantum public function mb() -> bit { bit t = measure b; return t; } public function ra() -> void { reset a; } "
             "public function rb() -> void { reset this.b; } }",
             "function mkH() -> H { H t = new H(); return t; }",
             "function main() -> void {", "  qubit p0;", "  {", "  H o = new H();"]
    pos = {}
    for k, (op, q) in enumerate(seq):
        path = paths[k]
        other = 1 - q
        ln = len(lines) + 1
        if op == "gate":
            s = {"elem": "h(o.%s);" % f[q], "param": "g1(o.%s);" % f[q], "arrparam": "o.g%s();" % f[q]}[path]
        elif op == "cxa":
            s = "cx(o.%s, o.%s);" % (f[q], f[other])
        elif op == "measure":
            s = "measure o.%s;" % f[q]
        elif op == "mexpr":
            s = {"elem": "bit b%d = measure o.%s;" % (k, f[q]), "param": "bit b%d = m1(o.%s);" % (k, f[q]),
                 "arrparam": "bit b%d = o.m%s();" % (k, f[q])}[path]
        else:
            s = {"elem": "reset o.%s;" % f[q], "param": "r1(o.%s);" % f[q], "arrparam": "o.r%s();" % f[q]}[path]
        lines.append("  " + s)
        pos[k] = ln
    # the object dies here; a never-measured outer qubit must stay usable afterwards
    lines += ["  }", "  h(p0);"]
    if rng.random() < 0.5:
        # a qubit measured through a temporary that is gone by then; later allocations reuse its index and must be usable
        lines += ["  measure mkH().a;", "  H late = new H(); h(late.a); h(late.b); qubit fresh; x(fresh);"]
    lines.append("}")
    return "\n".join(lines), pos


def expected(seq):
    """index of the first refused op (None if none): an op touching a qubit whose last {alloc, reset, measure} was measure"""
    measured = [False, False]
    for k, (op, q) in enumerate(seq):
        touch = {"gate": [q], "cxa": [q, 1 - q], "measure": [q], "mexpr": [q], "reset": [], "marr": [0, 1]}[op]
        # measure-array checks elements in order and marks each one it reaches
        if op == "marr":
            for e in (0, 1):
                if measured[e]:
                    return k
                measured[e] = True
            continue
        if any(measured[t] for t in touch):
            return k
        if op in ("measure", "mexpr"):
            measured[q] = True
        if op == "reset":
            measured[q] = False
    return None


def flag_line(seq):
    m = {"gate": lambda q: "g,%d" % q, "cxa": lambda q: "c,%d,%d" % (q, 1 - q), "measure": lambda q: "m,%d" % q,
         "mexpr": lambda q: "m,%d" % q, "reset": lambda q: "r,%d" % q, "marr": lambda q: "a,0,1"}
    return "flag 2 " + ";".join(m[op](q) for op, q in seq)


def run(chk):
    chk.rule = ("EXHAUSTIVE: every sequence of length <= L over {gate, cx, measure statement, measure expression, reset, measure-array} x "
                "{qubit 0, qubit 1} of a qubit[2], each rendered with a seeded choice of access path per step (array element, function "
                "parameter, qubit[] parameter); expected: the first op that touches a qubit whose last {declare, reset, measure} was a "
                "measure is refused with a located runtime error on that line, nothing else is refused. distinct non-trivial = sequences "
                "containing at least one measure")
    chk.assumptions = ["object-field sequences have no Lean evaluator reference (classes are outside the evaluator model): they are judged by the "
                       "flag-machine oracle only"]
    import translate_tables
    chk.prove(generated=[translate_tables.keywords, translate_tables.binding_table])
    rng = chk.rng
    L = 5 if chk.thorough else 4
    atoms = [(op, q) for op in OPS for q in (0, 1) if not (op == "marr" and q == 1)]
    seqs = []
    for n in range(1, L + 1):
        seqs += list(itertools.product(atoms, repeat=n))
    progs, meta = [], []
    for fn, o in load_corpus("C06"):
        if "source" in o:
            progs.append((o["source"], o.get("draws", []))); meta.append(None)
    for seq in seqs:
        paths = [rng.choice(["elem", "param", "arrparam"]) for _ in seq]
        src, pos = render(seq, paths, rng)
        progs.append((src, evallib.gen_draws(rng, len(seq) + 2)))
        meta.append((seq, pos))
        if not any(op == "marr" for op, _ in seq):
            src, pos = render_obj(seq, paths, rng)
            progs.append((src, evallib.gen_draws(rng, len(seq) + 2)))
            meta.append((seq, pos))
        if len(seq) <= 2 or rng.random() < 0.05:
            src, pos = render_recycled(seq, paths, rng)
            progs.append((src, evallib.gen_draws(rng, len(seq) + 6)))
            meta.append((seq, pos))
    chk.exhaustive = True
    lines, impl, model, incident = evallib.run_programs(progs)
    # the oracle is the Lean flag machine (Props/C06 theorems are about it); the Python `expected` must agree with it
    from framework import driver
    fm = driver([flag_line(seq) for seq in seqs])[0]
    lean_expected = {tuple(seq): (None if r == "none" else int(r.split()[1])) for seq, r in zip(seqs, fm)}
    oracle_mismatch = next((seq for seq in seqs if lean_expected[tuple(seq)] != expected(seq)), None)
    dis = bad = None
    refused = 0
    for i, (src, ds) in enumerate(progs):
        a = impl[i] if i < len(impl) else "<missing>"
        b = model[i] if i < len(model) else "<missing>"
        if not evallib.same_result(a, b) and dis is None and not b.startswith("unsupported"):
            dis = (src, ds, a, b)
        if meta[i] is None:
            continue
        seq, pos = meta[i]
        chk.count(tuple(seq) if any(op in ("measure", "mexpr", "marr") for op, _ in seq) else None)
        k = lean_expected[tuple(seq)]
        why = None
        if k is None:
            if not a.startswith("ok "):
                why = "no measured qubit is touched, yet the run ends with %s" % a[:60]
        else:
            refused += 1
            p = a.split()
            if not a.startswith("err Runtime"):
                why = "step %d touches a measured qubit but the run ends with %s" % (k, a[:60])
            elif int(p[2]) <= 0 or int(p[3]) <= 0:
                why = "the refusal is not located (line %s, column %s)" % (p[2], p[3])
            elif int(p[2]) != pos[k] and not _inside_helper(int(p[2])):
                why = "refusal reported on line %s, the offending step is on line %d" % (p[2], pos[k])
        if why and bad is None:
            bad = (src, ds, why, a)
    chk.extra["sequences"] = len(seqs)
    chk.extra["expected_refusals"] = refused
    chk.extra["correspondence"] = {"programs": len(progs), "first_disagreement": ("%s impl=%s model=%s" % (dis[0][-300:], dis[2][:120], dis[3][:120])) if dis else ""}
    chk.sample({"program": progs[len(progs) // 2][0], "result": impl[len(progs) // 2][:80]})
    if oracle_mismatch is not None:
        chk.violation("Lean flag machine and the python oracle disagree on %s" % (oracle_mismatch,), {"sequence": str(oracle_mismatch), "kind": "oracle"},
                      found_input=False)
    if bad:
        src, ds, why, a = bad
        chk.violation("measured-qubit guard: %s\n%s" % (why, src), {"source": src, "draws": ds, "impl": a[:300], "kind": "program"})
    elif dis:
        src, ds, a, b = dis
        chk.violation("evaluator model and real pipeline disagree: impl=%s model=%s\n%s" % (a[:200], b[:200], src),
                      {"source": src, "draws": ds, "impl": a[:600], "model": b[:600], "kind": "program"})


def _inside_helper(line):
    return 1 <= line <= 5      # the helper functions occupy lines 1-4: a refusal inside a helper is located there


def replay(path):
    obj = json.load(open(path))
    _l, impl, model, _ = evallib.run_programs([(obj["source"], obj.get("draws", []))])
    print(obj["source"], "\n impl :", impl[0][:300], "\n model:", model[0][:300])
    return 0 if evallib.same_result(impl[0], model[0]) else 1
