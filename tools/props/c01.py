"""C01 — gates act as their defining unitaries on exactly the addressed qubits."""
import json

import simlib
from simlib import with_state, parse_state, oracle_step, vec_close, compare_streams


def shrink(ops, fails):
    """Greedy delta-debugging on the op list (keeps `new`/`alloc` prefix and the last op)."""
    cur = list(ops)
    i = 1
    while i < len(cur) - 1:
        if cur[i] == "alloc":
            i += 1
            continue
        cand = cur[:i] + cur[i + 1:]
        if fails(cand):
            cur = cand
        else:
            i += 1
    return cur


def oracle_fails(ops):
    """Does the real simulator, on this history, end in a state ≠ textbook unitary of its last op?"""
    lines = with_state(ops)
    impl, _rc, _ = simlib.run_lines(simlib.harness(), lines)
    if len(impl) != len(lines) or not impl[-2].startswith("ok"):
        return False
    pre = parse_state(impl[-3]) if len(impl) >= 3 and impl[-3].startswith("state") else None
    post = parse_state(impl[-1])
    if pre is None or post is None:
        return False
    exp = oracle_step(pre[1], ops[-1])
    return exp is not None and not vec_close(exp, post[1])


def run(chk):
    chk.rule = ("systematic: every n<=N, every preparation (all basis states + 3 entangled), every gate on every "
                "qubit / ordered (c,t) pair; random: seeded unitary histories with allocation after entanglement. "
                "A case is one (history, op index); distinct non-trivial = distinct (n, gate, operands, preparation) "
                "whose pre-state has >1 non-zero amplitude or is a non-|0..0> basis state.")
    chk.assumptions = ["IEEE rounding is modelled, not verified: theorems are over exact complex numbers; "
                       "impl/model/oracle amplitudes compared with absolute tolerance 1e-9",
                       "libm cos/sin/sqrt/exp as linked"]
    import translate_tables
    chk.prove(generated=[translate_tables.gate_matrices, translate_tables.builtins])
    nmax = 6 if chk.thorough else 4
    nrand = 1500 if chk.thorough else 150
    histories = [(n, p, ops) for (n, p, ops) in simlib.systematic_gate_cases(nmax, chk.rng)]
    n_sys = len(histories)
    for k in range(nrand):
        histories.append((0, "rand%d" % k, simlib.random_history(
            chk.rng, max_n=(8 if chk.thorough else 6), length=chk.rng.randrange(5, 50), p_measure=0, p_reset=0)))
    lines, spans = [], []
    for (_n, _p, ops) in histories:
        ls = with_state(ops)
        spans.append((len(lines), len(lines) + len(ls)))
        lines += ls
    impl, model, diag = simlib.run_pair(lines)
    stats = {}
    bad_idx, why = compare_streams(lines, impl, model, stats)
    chk.extra["correspondence"] = {"lines": len(lines), "histories": len(histories), "systematic": n_sys,
                                   "random": nrand, **stats, "first_disagreement": why, "nmax": nmax}
    gate_hist = {}
    # oracle on the real code, every unitary op of every history
    oracle_bad = None
    for hi, (a, b) in enumerate(spans):
        ops = histories[hi][2]
        prev = None
        li = a
        for oi, op in enumerate(ops):
            rep = impl[li] if li < len(impl) else ""
            li += 1
            if op.startswith("new"):
                prev = (0, [1 + 0j])
                continue
            st = parse_state(impl[li]) if li < len(impl) else None
            li += 1
            if rep == "ok" and prev is not None and st is not None:
                exp = oracle_step(prev[1], op)
                if exp is not None:
                    g = op.split()[0]
                    gate_hist[g] = gate_hist.get(g, 0) + 1
                    nz = sum(1 for z in prev[1] if abs(z) > 1e-12)
                    key = (st[0], op if g not in simlib.ROTS else " ".join(op.split()[:2]), histories[hi][1] if hi < n_sys else "r")
                    chk.count(key if (nz > 1 or abs(prev[1][0]) < 0.5) else None)
                    if not vec_close(exp, st[1]) and oracle_bad is None:
                        oracle_bad = (hi, oi)
            prev = st
    chk.extra["gate_histogram"] = gate_hist
    chk.exhaustive = False
    for h in histories[:2] + histories[n_sys:n_sys + 2]:
        chk.sample({"prep": h[1], "ops": h[2][:12]})
    if oracle_bad is not None:
        hi, oi = oracle_bad
        ops = histories[hi][2][:oi + 1]
        small = shrink(ops, oracle_fails) if oracle_fails(ops) else ops
        chk.violation("real simulator's post-state differs from the textbook unitary after '%s'" % small[-1],
                      {"ops": small, "kind": "sim-history", "match_key": None}, arm="oracle")
    elif bad_idx is not None:
        # locate history
        hi = next(i for i, (a, b) in enumerate(spans) if a <= bad_idx < b)
        ops = histories[hi][2]
        chk.violation("correspondence: Lean model and real simulator disagree (%s); textbook oracle did not fail on the "
                      "explored histories" % why, {"ops": ops, "kind": "sim-history", "stream": "sim",
                                                   "line": bad_idx - spans[hi][0], "diag": diag},
                      arm="correspondence:sim", found_input=False)


def replay(path):
    obj = json.load(open(path))
    ops = obj.get("ops")
    if not ops:
        print(json.dumps(obj, indent=1))
        return 1
    lines = with_state(ops)
    impl, model, _ = simlib.run_pair(lines)
    for l, a, b in zip(lines, impl, model):
        print(l, "\n   impl :", a[:160], "\n   model:", b[:160])
    bad = oracle_fails(ops)
    print("oracle (textbook unitary of the last op) fails on the real simulator:", bad)
    return 1 if bad else 0
