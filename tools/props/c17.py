"""C17 — @tracked/@shots reporting. Lean: Cli.Model (shot resolution, echo policy, aggregation, probabilities) + evaluator
recording (bump, trackedOutcome); Props/C17. Correspondence: the real command-line front end run on programs with a known
number of scope exits per shot; the resolved shot count and echo policy against the Lean `cli` function."""
import json
import os
import re
import shutil
import subprocess
import tempfile

import buildlib
from framework import load_corpus, driver
import trackgen

ANSI = re.compile(r"\x1b\[[0-9;]*m")


def run_cli(exe, workdir, src, args, draws=None, elsewhere=False):
    """run the real CLI on `src`; with `elsewhere` the working directory is not the source's directory (the source is named by
    its absolute path), which is how the tool is used from a project root"""
    p = os.path.join(workdir, "prog.bloch")
    with open(p, "w") as f:
        f.write(src)
    env = dict(os.environ, BLOCH_NO_UPDATE_CHECK="1", HOME=workdir)
    if draws:
        env["VERIF_DRAWS"] = draws
    cwd = workdir
    if elsewhere:
        cwd = os.path.join(workdir, "elsewhere")
        os.makedirs(cwd, exist_ok=True)
    r = subprocess.run([exe, p] + args, cwd=cwd, env=env, stdout=subprocess.PIPE, stderr=subprocess.PIPE, text=True, timeout=120)
    if elsewhere:
        for fn in os.listdir(cwd):      # nothing may be written into the directory the tool was started from
            os.remove(os.path.join(cwd, fn))
    qasm_file = ""
    qp = os.path.join(workdir, "prog.qasm")
    if os.path.exists(qp):
        qasm_file = open(qp).read()
        os.remove(qp)
    return r.returncode, ANSI.sub("", r.stdout), ANSI.sub("", r.stderr), qasm_file


def parse_tables(out):
    """stdout of a multi-shot run -> (shots, {header: [(outcome, count, probtext)]}, echo lines before 'Shots:')"""
    lines = out.split("\n")
    shots = None
    tables = {}
    pre = []
    i = 0
    while i < len(lines):
        ln = lines[i]
        if ln.startswith("Shots: "):
            shots = int(ln.split()[1])
        elif shots is None:
            pre.append(ln)
        elif ln.strip() and i + 2 < len(lines) and lines[i + 1].startswith("outcome") and "|" in lines[i + 1]:
            hdr = ln.strip()
            rows = []
            j = i + 3
            while j < len(lines) and "|" in lines[j]:
                a, b, c = [x.strip() for x in lines[j].split("|")]
                rows.append((a, int(b), c))
                j += 1
            tables[hdr] = rows
            i = j
            continue
        i += 1
    return shots, tables, pre


def run(chk):
    chk.rule = ("the real command-line front end (cli.cpp behind the harness main) on generated programs: every @tracked variable has a known "
                "number of scope exits per shot (main body, block, loop body x k, helper called m times, registers with per-element "
                "preparation, object fields dying at scope end or by destroy, multi-declarator declarations) and, unless prepared with h, a "
                "known outcome per exit; flag/annotation/echo-option combinations; checked: resolved shot count and echo-once-per-shot against "
                "the Lean cli function, counts = N x exits, outcome strings, probabilities = count / variable total in [0,1] summing to 1, "
                ".qasm file equals --emit-qasm output. distinct non-trivial = runs that print at least one table")
    chk.assumptions = ["draws are the process generator's (random variables are checked for their totals and outcome alphabet only)"]
    chk.prove()
    rng = chk.rng
    exe = buildlib.build_cli()
    work = tempfile.mkdtemp(prefix="c17_", dir=buildlib.BUILD)
    bad = None
    stats = {"runs": 0, "tables": 0, "random_vars": 0, "deterministic_vars": 0, "echo_on": 0, "echo_off": 0}
    try:
        cases = []
        for _ in range(1500 if chk.thorough else 60):
            ann = rng.choice([None, None, 1, 2, 3, 5])
            flag = rng.choice([None, None, 1, 2, 4])
            echo = rng.choice([None, None, "all", "none", "auto", ""])
            tp = trackgen.TrackProgram(rng, annotation=ann)
            cases.append((tp, ann, flag, echo))
        for _fn, o in load_corpus("C17"):
            if "expect" in o:
                cases.append((o, None, o.get("shots"), None))
        mlines = []
        for tp, ann, flag, echo in cases:
            mlines.append("cli %s %s %s" % (flag if flag else "-", ann if ann else "-", "-" if echo is None else ("<empty>" if echo == "" else echo)))
        model = driver(mlines)[0]
        for (tp, ann, flag, echo), m in zip(cases, model):
            src = tp["source"] if isinstance(tp, dict) else tp.text
            args = []
            if flag:
                args.append("--shots=%d" % flag)
            if echo is not None:
                args.append("--echo=" + echo)
            emit = rng.random() < 0.4
            if emit:
                args.append("--emit-qasm")
            rc, out, err, qfile = run_cli(exe, work, src, args)
            stats["runs"] += 1
            md = dict(kv.split("=") for kv in m.split())
            n, provided, echo_on = int(md["shots"]), md["provided"] == "1", md["echo"] == "1"
            why = None
            if rc != 0:
                why = "exit status %d: %s" % (rc, err[-300:])
            elif emit and not out.endswith(qfile):
                why = "the .qasm file written next to the source differs from what --emit-qasm prints"
            elif emit and not qfile.startswith("OPENQASM 2.0;"):
                why = "no .qasm file was written next to the source"
            elif isinstance(tp, dict):
                shots, tables, pre = parse_tables(out)
                for hdr, exp in tp["expect"].items():
                    got = {a: b for a, b, _c in tables.get(hdr, [])}
                    if got != exp:
                        why = "corpus program: table %s is %s, expected %s" % (hdr, got, exp)
            else:
                shots, tables, pre = parse_tables(out)
                echoed = out.count("E\n") if not provided else sum(1 for l in pre if l == "E")
                want_echo = tp.echo_per_shot * n if echo_on else 0
                stats["echo_on" if echo_on else "echo_off"] += 1
                if provided and shots != n:
                    why = "the run reports Shots: %s, the flag/annotation resolve to %d" % (shots, n)
                elif not provided and shots is not None:
                    why = "a run without --shots/@shots printed a multi-shot summary"
                elif echoed != want_echo:
                    why = "echo lines printed: %d, the policy prescribes %d (%d per shot x %d shots, echo %s)" % (echoed, want_echo, tp.echo_per_shot, n, "on" if echo_on else "off")
                elif provided:
                    chk.count((src, tuple(args)) if tables else None)
                    stats["tables"] += len(tables)
                    if set(tables) != set(tp.expected):
                        why = "tables printed for %s, tracked variables are %s" % (sorted(tables), sorted(tp.expected))
                    for hdr, rows in tables.items():
                        if why:
                            break
                        exp = tp.expected[hdr]
                        total = sum(c for _o, c, _p in rows)
                        if total != n * exp["exits"]:
                            why = "%s: counts sum to %d, expected %d shots x %d exits per shot" % (hdr, total, n, exp["exits"])
                        elif exp["outcome"] is not None:
                            stats["deterministic_vars"] += 1
                            if [(o, c) for o, c, _p in rows] != [(exp["outcome"], n * exp["exits"])]:
                                why = "%s: rows %s, expected outcome '%s' x %d" % (hdr, [(o, c) for o, c, _p in rows], exp["outcome"], n * exp["exits"])
                        else:
                            stats["random_vars"] += 1
                            if any(o not in ("0", "1") for o, _c, _p in rows):
                                why = "%s: outcome alphabet %s" % (hdr, [o for o, _c, _p in rows])
                        if not why:
                            ps = []
                            for o, c, p in rows:
                                if p != "%.3f" % (c / total):
                                    why = "%s: probability of '%s' printed as %s, count/total = %d/%d" % (hdr, o, p, c, total)
                                ps.append(float(p))
                            if not why and (any(x < 0 or x > 1 for x in ps) or abs(sum(ps) - 1) > 0.0006 * len(ps)):
                                why = "%s: probabilities %s do not form a distribution" % (hdr, ps)
                else:
                    chk.count(None)
            if why and bad is None:
                bad = (src, args, why, out[-1500:])
    finally:
        shutil.rmtree(work, ignore_errors=True)
    chk.extra["input_distribution"] = stats
    chk.sample({"args": cases[0][1:], "program": cases[0][0].text[:400] if not isinstance(cases[0][0], dict) else ""})
    if bad:
        src, args, why, out = bad
        chk.violation("%s (arguments %s)\n%s" % (why, " ".join(args), src[:600]), {"source": src, "args": args, "stdout": out, "kind": "cli"})


def replay(path):
    obj = json.load(open(path))
    exe = buildlib.build_cli()
    work = tempfile.mkdtemp(prefix="c17r_", dir=buildlib.BUILD)
    try:
        rc, out, err, _q = run_cli(exe, work, obj["source"], obj.get("args", []))
    finally:
        shutil.rmtree(work, ignore_errors=True)
    print(obj["source"]); print("args:", obj.get("args")); print(out); print(err[-500:])
    return 1
