"""C14 — the parser realises the documented grammar: render-then-parse round-trips."""
import json

import buildlib
import treegen as T
from framework import run_lines, driver, load_corpus
import re


def harness():
    return buildlib.build_harness("front_harness")


def hx(b):
    return b.hex() if b else "-"


STMT_KINDS = ["vardecl", "assign", "expr", "if", "ifelse", "while", "for", "return", "echo", "reset", "measure", "destroy", "ternary", "block"]


def gen_stmt(rng, depth):
    """(source text, expected S-expression as nested list)"""
    k = rng.choice(STMT_KINDS if depth > 0 else ["vardecl", "assign", "expr", "return", "echo", "reset", "measure"])
    e = lambda allow_measure=True: T.gen_expr(rng, rng.randrange(1, 4), allow_measure=allow_measure)
    red = rng.random() < 0.4

    def R(x, ctx=0):
        return T.render(x, ctx, red, rng if red else None)
    if k == "vardecl":
        ty = rng.choice([("prim", "int"), ("prim", "float"), ("prim", "string"), ("array", ("prim", "int"), -1, None),
                         ("array", ("prim", "bit"), 3, None), ("named", ["Foo"], [], False)])
        name = rng.choice(["v", "w", "zz"])
        fin = rng.random() < 0.2
        if rng.random() < 0.7:
            init = e()
            src = ("final " if fin else "") + "%s %s = %s;" % (T.render_ty(ty), name, R(init))
            return src, ["vardecl", name, T.sx_ty(ty), T.sx(init), ["LIST"], "1" if fin else "0", "0"]
        src = ("final " if fin else "") + "%s %s;" % (T.render_ty(ty), name)
        return src, ["vardecl", name, T.sx_ty(ty), "-", ["LIST"], "1" if fin else "0", "0"]
    if k == "assign":
        name = rng.choice(T.NAMES)
        v = e()
        return "%s = %s;" % (name, R(v)), ["assignstmt", name, T.sx(v)]
    if k == "expr":
        x = e()
        while x[0] in ("arrlit", "assign", "measure"):
            x = e()
        src = R(x) + ";"
        if src.lstrip().startswith("{"):
            x = ("var", "a"); src = "a;"
        return src, ["exprstmt", T.sx(x)]
    if k in ("if", "ifelse"):
        c = e()
        t_src, t_sx = gen_block(rng, depth - 1)
        if k == "if":
            return "if (%s) %s" % (R(c), t_src), ["if", T.sx(c), t_sx, "-"]
        e_src, e_sx = gen_block(rng, depth - 1)
        return "if (%s) %s else %s" % (R(c), t_src, e_src), ["if", T.sx(c), t_sx, e_sx]
    if k == "while":
        c = e()
        b_src, b_sx = gen_block(rng, depth - 1)
        return "while (%s) %s" % (R(c), b_src), ["while", T.sx(c), b_sx]
    if k == "for":
        init_e, c, inc = e(False), e(False), e(False)
        b_src, b_sx = gen_block(rng, depth - 1)
        if rng.random() < 0.5:
            # forInit = variableDeclaration: every primitive type, optionally final
            fty = rng.choice(["int", "long", "float", "char", "string", "bit", "boolean"])
            ffin = rng.random() < 0.2
            init_src = "%s%s i = %s;" % ("final " if ffin else "", fty, R(init_e))
            init_sx = ["vardecl", "i", ["prim", fty], T.sx(init_e), ["LIST"], "1" if ffin else "0", "0"]
        else:
            while init_e[0] in ("arrlit", "measure"):
                init_e = e(False)
            init_src = R(init_e) + ";"
            if init_src.lstrip().startswith("{"):
                init_e = ("var", "a"); init_src = "a;"
            init_sx = ["exprstmt", T.sx(init_e)]
        return "for (%s %s; %s) %s" % (init_src, R(c), R(inc), b_src), ["for", init_sx, T.sx(c), T.sx(inc), b_sx]
    if k == "return":
        if rng.random() < 0.2:
            return "return;", ["return", "-"]
        v = e()
        return "return %s;" % R(v), ["return", T.sx(v)]
    if k == "echo":
        v = e()
        return "echo(%s);" % R(v), ["echo", T.sx(v)]
    if k in ("reset", "measure", "destroy"):
        v = e(False)
        tag = {"reset": "reset", "measure": "measurestmt", "destroy": "destroy"}[k]
        return "%s %s;" % (k, R(v)), [tag, T.sx(v)]
    if k == "ternary":
        c = e(False)
        while c[0] in ("arrlit",):
            c = e(False)
        a_src, a_sx = gen_stmt(rng, 0)
        b_src, b_sx = gen_stmt(rng, 0)
        csrc = T.render(c, 2, red, rng if red else None)
        if csrc.lstrip().startswith("{") or re.match(r"\s*[A-Za-z_]\w*\s*=[^=]", csrc):
            csrc = "(" + csrc + ")"
        return "%s ? %s : %s" % (csrc, a_src, b_src), ["ternary", T.sx(c), a_sx, b_sx]
    return gen_block(rng, depth - 1)


def gen_block(rng, depth):
    n = rng.randrange(0, 3)
    items = [gen_stmt(rng, depth) for _ in range(n)]
    return "{ " + " ".join(s for s, _ in items) + " }", ["block", ["LIST"] + [x for _, x in items]]


def gen_function(rng):
    body_src, body_sx = gen_block(rng, 2)
    name = rng.choice(["f", "g", "main"])
    params = [(rng.choice(["int", "float", "qubit", "bit"]), "p%d" % i) for i in range(rng.randrange(0, 3))]
    ret = rng.choice(["void", "int", "bit"])
    quantum = rng.random() < 0.2
    src = ("@quantum " if quantum else "") + "function %s(%s) -> %s %s" % (name, ", ".join("%s %s" % p for p in params), ret, body_src)
    ex = ["function", name, ["LIST"] + [["param", n, ["prim", t]] for t, n in params], "void" if ret == "void" else ["prim", ret], body_sx,
          ["LIST"] + ([["ann", "quantum", "-", "1", "0"]] if quantum else []), "1" if quantum else "0", "0"]
    return src, ex


def gen_class(rng):
    name = rng.choice(["Foo", "Bar"])
    members_src, members_sx = [], []
    for i in range(rng.randrange(1, 4)):
        u = rng.random()
        vis = rng.choice(["public", "private", "protected"])
        if u < 0.35:
            tracked = rng.random() < 0.3
            ty = rng.choice(["int", "qubit", "float"])
            init = T.gen_expr(rng, 1, allow_measure=False) if rng.random() < 0.4 else None
            members_src.append(("@tracked " if tracked else "") + "%s %s fld%d%s;" % (vis, ty, i, (" = " + T.render(init)) if init else ""))
            members_sx.append(["field", vis, "fld%d" % i, ["prim", ty], T.sx(init) if init else "-",
                               ["LIST"] + ([["ann", "tracked", "-", "0", "1"]] if tracked else []), "0", "0", "1" if tracked else "0"])
        elif u < 0.75:
            quantum = rng.random() < 0.35
            virt = rng.random() < 0.25
            b_src, b_sx = gen_block(rng, 1)
            members_src.append(("@quantum " if quantum else "") + "%s %sfunction m%d() -> %s %s" % (
                vis, "virtual " if virt else "", i, "bit" if quantum else "void", b_src))
            members_sx.append(["method", vis, "m%d" % i, ["LIST"], ["prim", "bit"] if quantum else "void", b_sx,
                               ["LIST"] + ([["ann", "quantum", "-", "1", "0"]] if quantum else []), "1" if quantum else "0", "0",
                               "1" if virt else "0", "0"])
        else:
            members_src.append("%s constructor() -> %s = default;" % (vis, name))
            members_sx.append(["ctor", vis, ["LIST"], "-", "1"])
    src = "class %s { %s }" % (name, " ".join(members_src))
    return src, ["class", name, ["LIST"], "-", "-", "0", "0", ["LIST"] + members_sx]


def wrap_expr(src):
    return "function main() -> void { echo(%s); }" % src


def expected_program_for_expr(e):
    return ["program", "-", ["LIST"], ["LIST"],
            ["LIST", ["function", "main", ["LIST"], "void", ["block", ["LIST", ["echo", T.sx(e)]]], ["LIST"], "0", "0"]], ["LIST"]]


KNOWN_FALSE_TYPEAHEAD = "C14-generic-lookahead"


def run(chk):
    chk.rule = ("exhaustive expression trees with up to N operator nodes over all binary/unary/cast/postfix/call/index/member forms, "
                "rendered with the minimal parentheses docs/grammar.md requires; seeded random expressions, statements, functions and "
                "annotated class members, rendered minimally and with redundant parentheses. distinct non-trivial = distinct sources whose "
                "tree has >= 2 operator nodes")
    chk.assumptions = ["the documented precedence table is docs/grammar.md (cast and prefix operators at the unary level)",
                       "expressions of the shape  Identifier '<' ... '>' Identifier  at a statement start or after '(' are excluded from "
                       "generation: the parser's generic-type lookahead claims them (known finding " + KNOWN_FALSE_TYPEAHEAD + ")"]
    import translate_tables
    chk.prove(generated=[translate_tables.keywords, translate_tables.binding_table, translate_tables.parser_constants])
    rng = chk.rng
    cases = []        # (source bytes, expected nested list or None)
    leaves = [("var", "a"), ("lit", "1", "int")]
    size = 3 if chk.thorough else 2
    ops = T.BINOPS if chk.thorough else ["||", "&&", "|", "^", "&", "==", "<", "+", "-", "*", "%"]
    for n in range(0, size + 1):
        opsn = ops if n <= 2 else ["||", "&", "==", "<", "+", "*"]
        for e in T.all_exprs(n, leaves, opsn, ["-", "!"]):
            cases.append((wrap_expr(T.render(e)), expected_program_for_expr(e)))
    n_exh = len(cases)
    excluded = 0
    for _ in range(6000 if chk.thorough else 700):
        e = T.gen_expr(rng, rng.randrange(1, 5))
        red = rng.random() < 0.5
        src = wrap_expr(T.render(e, 0, red, rng if red else None))
        if T.FALSE_TYPEAHEAD.search(src):
            excluded += 1
            continue
        cases.append((src, expected_program_for_expr(e)))
    for _ in range(3000 if chk.thorough else 400):
        fs, fx = gen_function(rng)
        items = [(fs, fx)]
        cls = []
        if rng.random() < 0.4:
            cs, cx = gen_class(rng)
            cls = [(cs, cx)]
        src = " ".join(s for s, _ in cls + items)
        if T.FALSE_TYPEAHEAD.search(src):
            excluded += 1
            continue
        cases.append((src, ["program", "-", ["LIST"], ["LIST"] + [x for _, x in cls], ["LIST"] + [x for _, x in items], ["LIST"]]))
    corpus = []
    block_counts = {}     # corpus source -> number of statements the grammar puts into main's block
    for fn, o in load_corpus("C14"):
        if "source" in o:
            corpus.append((o["source"], None, o.get("known")))
            if "main_block_statements" in o:
                block_counts[o["source"]] = o["main_block_statements"]
    # multi-declarator declarations with annotations and modifiers: every declarator carries the declaration's type, annotations,
    # tracked and final flags (compared with the parser model's tree)
    for anns in ("", "@tracked ", "@tracked @tracked ", "final ", "@tracked final ", "final @tracked ", "final @tracked @tracked "):
        for ty in ("qubit", "qubit[2]", "int", "bit", "Foo"):
            for names in ("a, b", "a, b, c", "a"):
                for tail in ("", " measure a;", " int z = 1;"):
                    corpus.append(("function main() -> void { %s%s %s;%s }" % (anns, ty, names, tail), None, None))
                    corpus.append(("class K { public constructor() -> K = default; public function m() -> void { %s%s %s;%s } }" % (anns, ty, names, tail), None, None))
    # the same at the top level of the file (program = { classDecl | function | statement }): the extra declarators belong right
    # after their own statement, wherever it stands among functions and classes, and never inside a later function's body
    for anns in ("", "@tracked "):
        for names in ("a, b", "a, b, c"):
            decl = "%squbit %s;" % (anns, names)
            fn1 = "function helper() -> int { int b = 7; return b; }"
            fn2 = "function main() -> void { echo(helper()); int k = 1; echo(k); }"
            cls = "class K { public int n = 1; public constructor() -> K = default; public function f() -> int { int b = 2; return b + n; } }"
            for order in ([decl, fn1, fn2], [fn1, decl, fn2], [fn1, fn2, decl], [decl, cls, fn2], [cls, decl, fn1, fn2], [decl, "int top = 3;", fn2],
                          [decl, decl.replace("a", "p").replace("b", "r").replace("c", "s"), fn1, fn2], [decl, "echo(1);", fn2]):
                corpus.append(("\n".join(order), None, None))
    # assignment is right-associative in every expression position (array element, member, argument, initialiser, condition)
    for tgt in ("x", "a[0]", "p.v", "a[i = 1]"):
        for rhs in ("y = 1", "y = z = 2", "a[1] = y = 3", "p.w = y"):
            for ctx in ("%s = %s;", "echo(%s = %s);", "int q = (%s = %s);", "f(%s = %s, 1);", "if ((%s = %s) == 1) { }"):
                corpus.append(("function main() -> void { " + (ctx % (tgt, rhs)) + " }", None, None))
    lines = ["parse " + hx(s.encode("latin-1")) for s, _ in cases] + ["parse " + hx(c[0].encode("latin-1")) for c in corpus]
    impl, rc, err = run_lines(harness(), lines)
    model, _, _ = driver(lines)
    dis = bad = None
    for i, (src, exp) in enumerate(cases):
        a = impl[i] if i < len(impl) else "<missing rc=%s>" % rc
        b = model[i] if i < len(model) else "<missing>"
        if a != b and dis is None:
            dis = (src, a, b)
        ops_n = src.count("(") + sum(src.count(o) for o in (" + ", " * ", " && ", " == ", " < "))
        chk.count(src if ops_n >= 3 else None)
        why = None
        if not a.startswith("ok "):
            why = "a program that follows the documented grammar is rejected: " + a
        else:
            got = T.parse_sexpr(a[3:])
            if got != exp:
                why = "parsed tree differs from the tree that was rendered"
        if why and bad is None:
            bad = (src, why, a, exp)
    for j, (src, _e, known) in enumerate(corpus):
        a = impl[len(cases) + j] if len(cases) + j < len(impl) else ""
        b = model[len(cases) + j] if len(cases) + j < len(model) else ""
        if a != b and dis is None:
            dis = (src, a, b)
        if known and not a.startswith("ok "):
            chk.violation("known: " + src, {"match_key": known, "source": src})
        if src in block_counts and a.startswith("ok "):
            tree = T.parse_sexpr(a[3:])
            fns = [f for f in tree[4][1:] if f[1] == "main"]
            n = len(fns[0][4][1]) - 1 if fns else -1
            if n != block_counts[src]:
                chk.violation("main's block holds %d statements where the grammar puts %d (a declarator escaped its statement): %s"
                              % (n, block_counts[src], src), {"match_key": known, "source": src})
    chk.extra["correspondence"] = {"programs": len(cases), "exhaustive_expressions": n_exh, "excluded_false_typeahead": excluded,
                                   "first_disagreement": ("%r impl=%s model=%s" % (dis[0][:120], dis[1][:160], dis[2][:160])) if dis else ""}
    chk.sample({"source": cases[n_exh // 2][0]})
    chk.sample({"source": cases[-1][0][:400]})
    chk.sample({"source": cases[n_exh + 3][0][:300]})
    if bad:
        src, why, a, exp = bad
        chk.violation("parser: %s — source %r" % (why, src[:300]), {"source": src, "impl": a[:2000], "expected": json.dumps(exp)[:3000], "kind": "roundtrip"})
    elif dis:
        chk.violation("correspondence: parser model and real parser disagree on %r (impl=%s model=%s); the round-trip oracle did not fail "
                      "on the explored trees" % (dis[0][:200], dis[1][:200], dis[2][:200]),
                      {"source": dis[0], "stream": "tree"}, arm="correspondence:tree", found_input=False)


def replay(path):
    obj = json.load(open(path))
    src = obj.get("source", "")
    ln = "parse " + hx(src.encode("latin-1"))
    impl, _, _ = run_lines(harness(), [ln])
    model, _, _ = driver([ln])
    print(src, "\n impl :", impl[0][:1500] if impl else None, "\n model:", model[0][:1500] if model else None)
    return 1
