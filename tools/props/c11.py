"""C11 — garbage collection is unobservable under every schedule. Lean: Gc.Model + Props/C11 (the collector never clears an
object reachable from a root; the mutator's output is the same under every schedule). Correspondence: heap-shape programs
under forced collection schedules against the model; class programs under schedules against themselves (schedule none)."""
import json
import os
import subprocess

import buildlib
import classgen
import evallib
import heapgen
import scopegen
from framework import load_corpus, driver, run_guarded


def schedules(rng, k):
    out = ["none", "all"]
    for _ in range(k):
        kind = rng.random()
        if kind < 0.4:      # a single boundary
            b = rng.randrange(0, 400)
            out.append("%x" % (1 << b))
        elif kind < 0.7:    # sparse
            m = 0
            for _ in range(rng.randrange(2, 8)):
                m |= 1 << rng.randrange(0, 600)
            out.append("%x" % m)
        else:               # dense random
            out.append("".join(rng.choice("0123456789abcdef") for _ in range(rng.randrange(8, 160))))
    return out


def observable(line):
    if line.startswith("ok "):
        d = evallib.split_result(line)
        return ("ok", d.get("echo"), d.get("tracked"), d.get("outcomes"))
    return tuple(line.split()[:4])


def tsan_run(chk, sources):
    """the real timer thread (no forced schedule) under ThreadSanitizer"""
    buildlib.FLAVOURS.setdefault("tsan", ["-O1", "-g", "-fsanitize=thread"])
    exe = buildlib.build_harness("eval_harness", flavour="tsan")
    lines = ["run %s 1 -" % evallib.hx(s) for s in sources]
    env = dict(os.environ, TSAN_OPTIONS="halt_on_error=0 exitcode=66 report_signal_unsafe=0")
    r = subprocess.run([exe], input="\n".join(lines) + "\n", stdout=subprocess.PIPE, stderr=subprocess.PIPE, text=True, env=env, timeout=900)
    races = r.stderr.count("WARNING: ThreadSanitizer")
    chk.extra["tsan"] = {"programs": len(sources), "reports": races, "exit": r.returncode}
    if races or r.returncode not in (0,):
        chk.violation("ThreadSanitizer reports %d issue(s) with the background collector thread (exit %d): %s" % (races, r.returncode, r.stderr[:600]),
                      {"sources": sources[:3], "stderr": r.stderr[:3000], "kind": "tsan"})


def run(chk):
    chk.rule = ("programs x collection schedules forced at statement boundaries (never, every boundary, single boundaries, sparse and dense "
                "random subsets): heap-shape programs (shared/cyclic graphs, cyclic garbage, an object held only by a pending argument or a "
                "return value while the callee allocates; with and without destructors), class-hierarchy programs with destructors and "
                "allocation churn, scope programs; every schedule must give the result of schedule 'never'; heap-shape programs without "
                "destructors must also print the Lean heap machine's trace. distinct non-trivial = (program, schedule) pairs in which at "
                "least one collection ran. The real timer thread runs under ThreadSanitizer on long-running class programs")
    chk.assumptions = ["collections are forced through the BLOCH_VERIF schedule hook at statement boundaries — the points at which the timer "
                       "thread's request is honoured; the timer's own timing is not modelled",
                       "race freedom is observed with ThreadSanitizer (bounded), not proved"]
    chk.prove()
    rng = chk.rng
    progs = []      # (source, model_ops or None, kind)
    life_ops = {}   # program index -> operation list for the reference-counting model (destructor programs)
    for _ in range(260 if chk.thorough else 60):
        hp = heapgen.HeapProgram(rng, dtor=False)
        progs.append((hp.source(), hp.model_ops(), "heap"))
    for _ in range(160 if chk.thorough else 30):
        hp = heapgen.HeapProgram(rng, dtor=True)
        progs.append((hp.source(), None, "heap+dtor"))
        if not any(o[0] in ("hold", "pendq") for o in hp.ops):
            life_ops[len(progs) - 1] = hp.model_ops()
    for _ in range(200 if chk.thorough else 40):
        cp = classgen.ClassProgram(rng, depth=rng.choice([2, 3, 4]), churn=True)
        progs.append((cp.source(), None, "class"))
    for _ in range(40 if chk.thorough else 10):
        progs.append((scopegen.ScopeProgram(rng).reference(), None, "scope"))
    # an object that the collector never sweeps itself (its class has qubit or @tracked fields) whose last reference sits in a
    # garbage cycle: its destructor and its tracked record must not depend on when the cycle is wiped
    for _ in range(60 if chk.thorough else 12):
        fld = rng.choice(["@tracked public qubit q;", "public qubit q;", "@tracked public qubit[2] q;"])
        dt = rng.choice(["public destructor() -> void { echo(\"Res destroyed \" + this.id); }", ""])
        via = rng.choice(["a.r = new Res(1);", "a.rs = {new Res(1), new Res(2)};", "b.r = new Res(3); a.r = b.r;"])
        k = rng.randrange(2, 4)
        ring = " ".join("n%d.peer = n%d;" % (i, (i + 1) % k) for i in range(k))
        src = ("class Res { public int id; %s public constructor(int id) -> Res { this.id = id; return this; } %s }\n"
               "class Node { public Node peer; public Res r; public Res[] rs; public constructor() -> Node { this.peer = null; this.r = null; return this; } }\n"
               "function makeGarbage() -> void { %s %s Node a = n0; Node b = n1; %s }\n"
               "function main() -> void { makeGarbage(); echo(\"dropped\"); for (int i = 0; i < %d; i = i + 1) { Node t = new Node(); } echo(\"end\"); }"
               % (fld, dt, " ".join("Node n%d = new Node();" % i for i in range(k)), ring, via, rng.choice([3, 20])))
        progs.append((src, None, "cycle-owned-tracked"))
    # garbage cycles of objects that own qubits through a BASE class (the qubit field is inherited): whenever the cycle is wiped, the
    # qubits' indices, their resets and their tracked records must be those of a run that never collects
    for _ in range(60 if chk.thorough else 12):
        fld = rng.choice(["@tracked public qubit q;", "public qubit q;", "public qubit[2] q;", "@tracked public qubit[2] q;"])
        arr = "[2]" in fld
        q0 = "q[0]" if arr else "q"
        k = rng.randrange(2, 4)
        ring = " ".join("n%d.other = n%d;" % (i, (i + 1) % k) for i in range(k))
        prep = rng.choice(["x(n0.%s); measure n0.%s;" % (q0, q0), "x(n0.%s);" % q0, "h(n1.%s); measure n1.%s;" % (q0, q0), ""])
        mid = rng.choice(["", "public int pad = 3;"])
        src = ("class QBase { %s public constructor() -> QBase { } }\n"
               "class QNode extends QBase { %s public QNode other; public constructor() -> QNode { super(); this.other = null; } }\n"
               "class Plain { public Plain p; public constructor() -> Plain { this.p = null; } }\n"
               "function make() -> void { %s %s %s }\n"
               "function main() -> void { make(); echo(\"dropped\"); for (int i = 0; i < %d; i = i + 1) { Plain t = new Plain(); t.p = t; } "
               "qubit z; x(z); bit r = measure z; echo(r); qubit[2] zz; x(zz[1]); bit r2 = measure zz[1]; echo(r2); echo(\"end\"); }"
               % (fld, mid, " ".join("QNode n%d = new QNode();" % i for i in range(k)), ring, prep, rng.choice([3, 12])))
        progs.append((src, None, "cycle-inherited-qubit"))
    for _fn, o in load_corpus("C11"):
        progs.append((o["source"], None, "corpus"))
    nsched = 8 if chk.thorough else 4
    lines, meta = [], []
    for pi, (src, mops, kind) in enumerate(progs):
        for sc in schedules(rng, nsched):
            lines.append("gc %s 1 - %s" % (evallib.hx(src), sc))
            meta.append((pi, sc))
    impl, incident = run_guarded(evallib.harness(), lines, chunk_timeout=120)
    mlines = [("heap %s none" % p[1]) for p in progs if p[1]]
    mlines += [("heap %s %s" % (progs[pi][1], sc)) for (pi, sc) in meta if progs[pi][1] and sc not in ("none",)]
    model = driver(mlines)[0]
    n_heap = sum(1 for p in progs if p[1])
    model_none = {}
    k = 0
    for pi, p in enumerate(progs):
        if p[1]:
            model_none[pi] = model[k]
            k += 1
    # the model's own runs under the schedules (instances of the theorem)
    model_bad = None
    for (pi, sc) in meta:
        if progs[pi][1] and sc != "none":
            if model[k] != model_none[pi] and model_bad is None:
                model_bad = (progs[pi][1], sc, model_none[pi], model[k])
            k += 1
    base = {}
    bad = dis = None
    kinds = {}
    for (pi, sc), a in zip(meta, impl):
        src, mops, kind = progs[pi]
        kinds[kind] = kinds.get(kind, 0) + 1
        if sc == "none":
            base[pi] = a
            if mops:
                want = model_none[pi][len("trace "):].split("|") if model_none[pi] != "trace " else []
                got = evallib.split_result(a).get("echo_lines") if a.startswith("ok ") else None
                if got != want and dis is None:
                    dis = (src, mops, a, model_none[pi])
            continue
        chk.count((pi, sc))
        if observable(a) != observable(base[pi]) and bad is None:
            bad = (src, sc, base[pi], a, kind)
    # destructor programs under every schedule against the reference-counting + collector model, which
    # Props/C11.schedule_unobservable_with_destructors proves schedule-independent: body lines in order, then the deaths at the end of main in reverse order of declaration
    life_model = dict(zip(life_ops, driver(["life " + life_ops[pi] for pi in life_ops])[0])) if life_ops else {}
    life_sched = driver(["lifegc %s %s" % (life_ops[pi], sc) for (pi, sc) in meta if pi in life_ops])[0] if life_ops else []
    li = 0
    life_bad = None
    for (pi, sc), a in zip(meta, impl):
        if pi not in life_ops:
            continue
        m = life_model[pi]
        ms = life_sched[li]
        li += 1
        if ms != m and model_bad is None:
            model_bad = (life_ops[pi], sc, m, ms)
        got = evallib.split_result(a).get("echo_lines") if a.startswith("ok ") else [a[:80]]
        body, _, fin = m[len("trace "):].partition(" ## ")
        wb = body.split("|") if body else []
        wf = fin.split("|") if fin else []
        if not (got[:len(wb)] == wb and got[len(wb):] == wf) and life_bad is None:
            life_bad = (progs[pi][0], sc, got, wb, wf, life_ops[pi])
    kinds["heap+dtor vs refcount+collector model"] = len(life_ops)
    chk.extra["input_distribution"] = kinds
    chk.extra["harness_incident"] = str(incident)[:300] if incident else ""
    chk.sample({"schedule": meta[3][1][:40], "program": progs[0][0][-400:]})
    if chk.thorough or os.environ.get("VERIF_TSAN", "1") == "1":
        long_src = [classgen.ClassProgram(rng, depth=3, churn=True).source().replace("churn(20)", "churn(4000)").replace("churn(40)", "churn(6000)")
                    .replace("churn(30)", "churn(5000)") for _ in range(12 if chk.thorough else 4)]
        long_src += [heapgen.HeapProgram(rng, dtor=True).source().replace("churn(2);", "churn(3000);") for _ in range(6 if chk.thorough else 2)]
        tsan_run(chk, long_src)
    if bad:
        src, sc, a, b, kind = bad
        chk.violation("collection schedule %s changes the result of a %s program: never-collect gives %s, this schedule gives %s" % (sc[:60], kind, a[:200], b[:200]),
                      {"source": src, "schedule": sc, "kind": "program+schedule"})
    elif dis:
        src, mops, a, m = dis
        chk.violation("heap machine and real pipeline disagree: impl=%s model=%s" % (a[:200], m[:200]), {"source": src, "model_ops": mops, "schedule": "none", "kind": "program+schedule"})
    elif life_bad:
        src, sc, got, wb, wf, mops = life_bad
        chk.violation("destructor program under schedule %s prints %s; reference counting with the collector (any schedule) prescribes %s then, in any order, %s"
                      % (sc[:60], got, wb, wf), {"source": src, "schedule": sc, "model_line": "life " + mops, "kind": "program+schedule"})
    elif model_bad:
        chk.violation("the heap model itself is schedule-dependent on %s under %s: %s vs %s" % model_bad, {"model_ops": model_bad[0], "schedule": model_bad[1], "kind": "model"}, found_input=False)


def replay(path):
    obj = json.load(open(path))
    if "source" not in obj:
        print(json.dumps(obj, indent=1)[:3000])
        return 1
    lines = ["gc %s 1 - %s" % (evallib.hx(obj["source"]), sc) for sc in ("none", obj.get("schedule", "all"))]
    out, _ = run_guarded(evallib.harness(), lines)
    print(obj["source"])
    for sc, o in zip(("none", obj.get("schedule", "all")), out):
        print(sc[:40], "->", evallib.split_result(o).get("echo_lines", o[:300]))
    return 1 if observable(out[0]) != observable(out[1]) else 0
