"""C07 — classical evaluation agrees with the documented language semantics (class-free core)."""
import json

import evallib
import proggen
from framework import load_corpus


def matrix_programs():
    """exhaustive operator × operand-type matrix: every binary operator on every pair of scalar operand kinds,
    every unary operator and every cast on every scalar kind (the analyser filters the ill-typed ones)"""
    vals = {"int": ["7", "0", "2147483647"], "long": ["5L", "4294967296L"], "float": ["2.5f", "0.0f"], "bit": ["1b", "0b"],
            "boolean": ["true", "false"], "string": ["\"s\""], "char": ["'c'"]}
    ops = ["+", "-", "*", "/", "%", "<", ">", "<=", ">=", "==", "!=", "&&", "||", "&", "|", "^"]
    progs = []
    for lt, lvs in vals.items():
        for rt, rvs in vals.items():
            for op in ops:
                body = "".join("echo(%s %s %s); " % (a, op, b) for a in lvs for b in rvs)
                progs.append("function main() -> void { %s}" % body)
    for t, vs in vals.items():
        for u in ["-", "!", "~"]:
            progs.append("function main() -> void { %s}" % "".join("echo(%s%s); " % (u, v) for v in vs))
        for ct in ["int", "long", "float", "bit", "char", "boolean", "string"]:
            progs.append("function main() -> void { %s}" % "".join("echo((%s) %s); " % (ct, v) for v in vs))
        progs.append("function main() -> void { %s x = %s; x++; echo(x); x--; x--; echo(x); }" % (t, vs[0]))
    # evaluation order and single evaluation: side-effecting operands, arguments, array literal elements, indices, initialisers
    side = "function tick(string s, int v) -> int { echo(s); return v; }\n"
    progs += [side + "function main() -> void { int[] a = {tick(\"e0\", 1), tick(\"e1\", 2), tick(\"e2\", 3)}; echo(a[0] + a[1] + a[2]); }",
              side + "function main() -> void { int i = 0; int[] a = {i++, i++, i++}; echo(i); echo(a[0]); echo(a[2]); }",
              side + "function main() -> void { long[] a = {tick(\"x\", 1), 5L}; float[] f = {tick(\"y\", 2), 2.5f}; echo(a[0]); echo(f[0]); }",
              side + "function main() -> void { string[] s = {\"p\" + tick(\"z\", 1), \"q\"}; echo(s[0]); }",
              side + "function main() -> void { echo(tick(\"l\", 1) + tick(\"r\", 2) * tick(\"m\", 3)); }",
              side + "function first(int[] xs) -> int { return xs[0]; }\nfunction main() -> void { echo(first({tick(\"u0\", 4), tick(\"u1\", 5)})); }",
              side + "function mk() -> int[] { return {tick(\"r0\", 6), tick(\"r1\", 7)}; }\nfunction main() -> void { int[] a = mk(); echo(a[1]); }",
              side + "function firstS(string[] xs) -> string { return xs[0]; }\nfunction main() -> void { echo(firstS({\"k\" + tick(\"s0\", 1), \"m\"})); int[] b = {0, 0}; b = {tick(\"as0\", 8), 9}; echo(b[0]); }",
              side + "function main() -> void { int[] a = {10, 20, 30}; echo(a[tick(\"i\", 1)]); a[tick(\"j\", 2)] = tick(\"v\", 7); echo(a[2]); }",
              side + "function add(int x, int y) -> int { return x + y; }\nfunction main() -> void { echo(add(tick(\"a1\", 1), tick(\"a2\", 2))); }",
              side + "function main() -> void { boolean b = (tick(\"c1\", 1) > 0) && (tick(\"c2\", 0) > 0) || (tick(\"c3\", 1) > 0); echo(b); }",
              side + "function main() -> void { int i = 0; while (tick(\"w\", i) < 2) { i = i + 1; } for (int j = tick(\"fi\", 0); j < tick(\"fc\", 2); j = j + tick(\"fu\", 1)) { echo(j); } }",
              # return / early exit inside loops whose header clauses have side effects (the clauses must not run again after the return)
              side + "function sq(int n) -> int { for (int i = 0; i < 10; i = tick(\"inc\", i + 1)) { if (i == n) { return i * i; } } return 0 - 1; }\nfunction main() -> void { echo(sq(2)); echo(sq(3)); echo(sq(0)); echo(sq(20)); }",
              side + "function fw(int n) -> int { int i = 0; while (tick(\"cond\", i) < 10) { if (i == n) { return i + 100; } i = i + 1; } return 0; }\nfunction main() -> void { echo(fw(1)); echo(fw(0)); }",
              side + "function nest(int n) -> int { for (int i = 0; i < 3; i = tick(\"o\", i + 1)) { for (int j = 0; j < 3; j = tick(\"n\", j + 1)) { if (i * 3 + j == n) { return i * 10 + j; } } } return 99; }\nfunction main() -> void { echo(nest(4)); echo(nest(0)); echo(nest(8)); echo(nest(9)); }"]
    # "int values can widen to long in assignments and calls": every place a value lands — a long variable, a long parameter, the
    # result of a function declared '-> long' — and every use of that result without storing it first
    for retexpr, argt in (("d * 86400", "int d"), ("2000000000", "int d"), ("d", "int d"), ("d + 1", "int d"), ("-d * 70000", "int d")):
        f = "function f(%s) -> long { return %s; }\n" % (argt, retexpr)
        for use in ("echo(f(30000));", "echo(f(30000) * 1000);", "echo(f(30000) + f(30000));", "echo(f(2000000000) + 2000000000);",
                    "long v = f(30000); echo(v + v); echo(v * 100000);", "echo(f(30000) * 1000 * 1000);", "echo(f(1500000000) + f(1500000000) + 1L);",
                    "echo(f(2147483647) + 1);", "long w = 0L; w = f(2147483647); echo(w + 1);", "echo(-f(2147483647) - 2);"):
            progs.append(f + "function main() -> void { %s }" % use)
    progs.append("function g(long a) -> long { return a + a; }\nfunction main() -> void { int big = 2000000000; echo(g(big)); echo(g(big) + big); long l = big; echo(l + big); l = big; echo(l * 2); }")
    progs.append("function h(int a) -> long { if (a > 0) { return a; } return a * 2; }\nfunction main() -> void { echo(h(2000000000) + h(2000000000)); echo(h(-2000000000)); echo(h(-1500000000) * 2); }")
    return progs


def run(chk):
    chk.rule = ("exhaustive operator x operand-kind matrix (16 binary operators x 7x7 scalar kinds x edge values, unary operators, "
                "casts, postfix) + seeded type-directed programs (arithmetic with promotion, '/', '%', comparisons, logical/bitwise, "
                "casts, concatenation, arrays with bounds errors, if/else, ternary, while, for, postfix, functions, recursion). "
                "Observable: echoed lines, or the runtime error position. distinct non-trivial = distinct accepted programs that echo "
                ">= 2 lines or end in a runtime error")
    chk.assumptions = ["libm/IEEE double arithmetic as on this host (both sides use the host's doubles)",
                       "programs the analyser rejects are not part of C07 (counted as 'rejected')",
                       "where the docs are silent the model follows the code: eager && / ||, int/long wrap-around, long literal overflow -> 0"]
    import translate_tables
    chk.prove(generated=[translate_tables.keywords, translate_tables.binding_table])
    rng = chk.rng
    progs = [(o["source"], o.get("draws", [])) for _fn, o in load_corpus("C07") if "source" in o]
    known_src = {o["source"]: o["known"] for _fn, o in load_corpus("C07") if "source" in o and o.get("known")}
    progs += [(p, []) for p in matrix_programs()]
    n_matrix = len(progs)
    feats = {}
    for _ in range(25000 if chk.thorough else 600):
        g = proggen.Gen(rng, quantum=False, edge=rng.random() < 0.3)
        progs.append((g.program(), []))
        for f in g.features:
            feats[f] = feats.get(f, 0) + 1
    lines, impl, model, diag = evallib.run_programs(progs)
    verdicts = {"ok": 0, "runtime-error": 0, "rejected": 0, "other": 0, "unsupported": 0}
    dis = None
    for i, (src, _d) in enumerate(progs):
        a = impl[i] if i < len(impl) else "<missing %s>" % (diag,)
        b = model[i] if i < len(model) else "<missing>"
        if a.startswith("ok "):
            verdicts["ok"] += 1
        elif a.startswith("err Runtime"):
            verdicts["runtime-error"] += 1
        elif a.startswith("err "):
            verdicts["rejected"] += 1
        else:
            verdicts["other"] += 1
        if b.startswith("unsupported"):
            verdicts["unsupported"] += 1
            continue
        if a.startswith("err Semantic"):
            chk.count(None)
            continue
        nontriv = a.startswith("err Runtime") or a.count(",") >= 1
        chk.count(src if nontriv else None)
        if not evallib.same_result(a, b) and src in known_src:
            chk.violation("corpus program: implementation %s, reference %s" % (a[:160], b[:160]), {"match_key": known_src[src], "source": src, "kind": "program"})
        elif not evallib.same_result(a, b) and dis is None:
            dis = (src, a, b)
    chk.extra["verdicts"] = verdicts
    chk.extra["feature_histogram"] = feats
    chk.extra["correspondence"] = {"programs": len(progs), "matrix_programs": n_matrix,
                                   "first_disagreement": ("%s impl=%s model=%s" % (dis[0][:200], dis[1][:200], dis[2][:200])) if dis else ""}
    chk.sample({"program": progs[n_matrix + 1][0][:500], "result": impl[n_matrix + 1][:200] if len(impl) > n_matrix + 1 else ""})
    chk.sample({"program": progs[5][0][:300], "result": impl[5][:200] if len(impl) > 5 else ""})
    if dis:
        src, a, b = dis
        small = shrink_source(src, lambda s: differs(s))
        ia, ib = run_one(small)
        chk.violation("evaluation differs from the documented semantics (the Lean reference, whose operator rules are the theorems of "
                      "Props/C07): program %r gives %s, reference gives %s" % (small[:400], ia[:300], ib[:300]),
                      {"source": small, "impl": ia, "model": ib, "kind": "program"})


def run_one(src, draws=()):
    _l, impl, model, _ = evallib.run_programs([(src, list(draws))])
    return (impl[0] if impl else "<none>"), (model[0] if model else "<none>")


def differs(src):
    a, b = run_one(src)
    if a.startswith("err Semantic") or a.startswith("err Parse") or a.startswith("err Lexical") or b.startswith("unsupported"):
        return False
    return not evallib.same_result(a, b)


def shrink_source(src, fails, budget=120):
    """statement-level delta debugging: drop ';'-terminated chunks while the disagreement persists"""
    import re
    parts = re.split(r"(?<=[;}])\s+", src)
    n = 0
    i = 0
    while i < len(parts) and n < budget:
        cand = parts[:i] + parts[i + 1:]
        n += 1
        try:
            ok = fails(" ".join(cand))
        except Exception:
            ok = False
        if ok:
            parts = cand
        else:
            i += 1
    return " ".join(parts)


def replay(path):
    obj = json.load(open(path))
    a, b = run_one(obj.get("source", ""), obj.get("draws", []))
    print(obj.get("source"), "\n impl :", a[:600], "\n model:", b[:600])
    return 0 if evallib.same_result(a, b) else 1
