"""C02 — Born rule and collapse to the normalised projection (simulator level + evaluator agreement)."""
import math

import simlib
from framework import unhex64
from simlib import mass, vec_close


def check_measure(pre, op, rep, post):
    """None if fine, else a description. pre/post: (n, amps)."""
    p = op.split()
    q, r = int(p[1]), unhex64(p[2])
    if not rep.startswith("ok "):
        return None
    res = int(rep.split()[1])
    p1 = mass(pre[1], q, 1)
    tot = p1 + mass(pre[1], q, 0)
    if tot > 0 and abs(r - p1 / tot) > 1e-12 and res != (1 if r < p1 / tot else 0):
        return "outcome %d but draw %.17g vs P(1)=%.17g" % (res, r, p1 / tot)
    pb = p1 if res else mass(pre[1], q, 0)
    if pb <= 1e-300:
        return None   # float-only corner (draw below a denormal mass); modelled, not verified
    nrm = math.sqrt(pb)
    exp = [(z / nrm if ((i >> q) & 1) == res else 0j) for i, z in enumerate(pre[1])]
    if pb > 1e-18 and not vec_close(exp, post[1], 1e-7 if pb < 1e-9 else 1e-9):
        return "post-state is not the normalised projection onto outcome %d" % res
    return None


def oracle_fails(ops):
    rows = simlib.impl_rows(ops)
    for i, (op, rep, st) in enumerate(rows):
        if op.startswith("measure") and i > 0 and rows[i - 1][2] and st:
            if check_measure(rows[i - 1][2], op, rep, st):
                return True
    return False


def run(chk):
    chk.rule = ("seeded histories of gates/cx/alloc with measurements at forced draws (uniform, and adversarial: 0, 1-2^-53, "
                "0.5, tiny); a case is one measurement; distinct non-trivial = distinct (n, q, outcome, rounded P(1)) with 0<P(1)<1 "
                "or an entangled pre-state")
    chk.assumptions = ["uniformity of std::uniform_real_distribution over mt19937 (the draw is an input of the model)",
                       "IEEE rounding modelled, not verified; tolerance 1e-9"]
    chk.prove()
    nh = 1200 if chk.thorough else 160
    hs = []
    for k in range(nh):
        hs.append(("m%d" % k, simlib.random_history(chk.rng, max_n=(7 if chk.thorough else 5),
                                                    length=chk.rng.randrange(6, 40), p_measure=0.2, p_reset=0.05)))
    # re-read and correlation scenarios through reset-free sequences are refused by the flag; covered by theorems
    import framework
    hs = [("corpus:" + fn, o["ops"]) for fn, o in framework.load_corpus("C02") + framework.load_corpus("C03") if "ops" in o] + hs
    per, dis = simlib.run_histories(chk, hs)
    bad = None
    outcomes = {0: 0, 1: 0}
    for hi, rows in enumerate(per):
        for i, (op, rep, st) in enumerate(rows):
            if op.startswith("measure") and rep.startswith("ok") and i > 0 and rows[i - 1][2] and st:
                pre = rows[i - 1][2]
                q = int(op.split()[1])
                p1 = mass(pre[1], q, 1)
                res = int(rep.split()[1])
                outcomes[res] += 1
                nontriv = 1e-9 < p1 < 1 - 1e-9
                chk.count((pre[0], q, res, round(p1, 6)) if nontriv else None)
                why = check_measure(pre, op, rep, st)
                if why and bad is None:
                    bad = (hi, i, why)
    chk.extra["outcomes"] = outcomes
    for t, ops in hs[:3]:
        chk.sample({"history": ops[:14]})
    # evaluator level: the tracked outcome of a measured qubit/register equals the bits the measurement returned, whatever simulator indices the register occupies
    import qobjgen
    qprogs, qout, qinc = qobjgen.run_family(chk.rng, 600 if chk.thorough else 120)
    qbad = None
    for qp, ql in zip(qprogs, qout):
        chk.count(("qobj", qp.text) if ql.startswith("ok ") else None)
        w = qobjgen.judge(qp, ql, "tracked")
        if w and qbad is None:
            qbad = (qp, ql, w)
    chk.extra["evaluator_level_programs"] = len(qprogs)
    if qbad:
        qp, ql, w = qbad
        chk.violation("quantum object program (constant draw %.1f): %s\n%s" % (qp.draw, w, qp.text[-900:]),
                      {"source": qp.text, "draw": qp.draw, "kind": "qobj", "clause": "tracked"})
    if bad:
        hi, i, why = bad
        ops = hs[hi][1][:i + 1]
        small = simlib.shrink_ops(ops, oracle_fails) if oracle_fails(ops) else ops
        chk.violation("measurement on the real simulator: " + why, {"ops": small, "kind": "sim-history"})
    else:
        simlib.report_correspondence(chk, dis, "Born/collapse oracle did not fail on the explored histories")


def replay(path):
    import json as _json
    _o = _json.load(open(path))
    if _o.get("kind") == "qobj":
        import evallib, qobjgen
        from framework import run_guarded
        out, _ = run_guarded(evallib.harness(), ["run %s 1 %s" % (evallib.hx(_o["source"]), evallib.draws_arg([_o["draw"]] * 400))])
        print(_o["source"]); print(" ->", evallib.split_result(out[0]).get("echo_lines", out[0][:200]), evallib.split_result(out[0]).get("tracked"))
        return 1
    return simlib.generic_replay(path, "Born/collapse oracle", oracle_fails)
