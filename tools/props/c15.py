"""C15 — the lexer is lossless and token positions are exact."""
import json

import buildlib
import bytegen
from framework import run_lines, driver


def harness():
    return buildlib.build_harness("front_harness")


def hx(b):
    return b.hex() if b else "-"


def parse_tokens(reply):
    toks = []
    for t in reply.split()[1:]:
        ty, h, ln, col = t.split(":")
        toks.append((ty, b"" if h == "-" else bytes.fromhex(h), int(ln), int(col)))
    return toks


def is_trivia(gap):
    """whitespace and // comments only"""
    i = 0
    while i < len(gap):
        c = gap[i]
        if c in b" \t\n\r\x0b\x0c":
            i += 1
        elif gap[i:i + 2] == b"//":
            j = gap.find(b"\n", i)
            i = len(gap) if j < 0 else j
        else:
            return False
    return True


def skip_trivia(src, k):
    """index of the first byte at or after k that is neither whitespace nor inside a // comment"""
    i = k
    while i < len(src):
        if src[i] in b" \t\n\r\x0b\x0c":
            i += 1
        elif src[i:i + 2] == b"//":
            j = src.find(b"\n", i)
            i = len(src) if j < 0 else j
        else:
            break
    return i


def pos_of(src, k):
    """independent definition: 1-based line/column of byte k"""
    pre = src[:k]
    line = 1 + pre.count(b"\n")
    col = k - (pre.rfind(b"\n") + 1) + 1
    return line, col


def oracle(src, reply):
    """placing each token text at its reported position must reproduce the source up to trivia"""
    if not reply.startswith("ok"):
        return None
    try:
        toks = parse_tokens(reply)
    except Exception:
        return "unparsable reply " + reply[:80]
    if not toks or toks[-1][0] != "Eof":
        return "token list does not end with Eof"
    k = 0
    for (ty, text, ln, col) in toks:
        if ty == "Eof":
            if not is_trivia(src[k:]):
                return "non-trivia bytes %r dropped before Eof" % src[k:k + 20]
            if (ln, col) != pos_of(src, len(src)):
                return "Eof reported at %d:%d, end of input is %d:%d" % ((ln, col) + pos_of(src, len(src)))
            break
        g = skip_trivia(src, k)
        if not text or not src.startswith(text, g):
            return "token %s %r is not what follows the trivia at byte %d (source there: %r)" % (ty, text[:20], k, src[g:g + 20])
        # trivia must be maximal: token starts at first non-trivia byte
        if (ln, col) != pos_of(src, g):
            return "token %s %r reported at %d:%d but its first character is at %d:%d" % ((ty, text[:20], ln, col) + pos_of(src, g))
        k = g + len(text)
    return None


def first_nontrivia(src, k):
    return k


def run(chk):
    chk.rule = ("token-alphabet strings (adjacent tokens, strings/chars/comments with newlines, tabs, CR/VT/FF, quotes inside comments, "
                "NUL and bytes >= 0x80), every example/library source, byte-level mutations and truncations of them, random bytes. "
                "distinct non-trivial = distinct accepted inputs with >= 3 tokens, or containing a multi-line token")
    chk.assumptions = ["C-locale <cctype> classes (the binary never calls setlocale)"]
    import translate_tables
    chk.prove(generated=[translate_tables.keywords, translate_tables.operators])
    rng = chk.rng
    inputs = []
    for fn, o in __import__("framework").load_corpus("C15"):
        if "hex" in o:
            inputs.append(bytes.fromhex(o["hex"]))
    inputs += [b"", b"\n", b"\"a\nb\" x", b"'\n' y", b"// only comment", b"x//c\ny", b"1.5", b"12b", b"\"open", b"'", b"'a", b"a\r\nb",
               b"string s = \"first\r\nsecond\"; x", b"\"a\rb\" y", b"\"\r\n\" z", b"'\r' c", b"// c\r\nx = \"p\r\nq\r\n\";\r\ny",
               b"echo(\"l1\r\nl2\r\nl3\");\r\nint z;"]
    # whole sources converted to CRLF line endings (string literals spanning lines included)
    for _f, b in bytegen.corpus_sources()[:6]:
        inputs.append(b.replace(b"\n", b"\r\n"))
    corp = bytegen.corpus_sources()
    inputs += [b for _f, b in corp]
    inputs += bytegen.token_soup(rng, 40000 if chk.thorough else 900)
    for _f, b in corp[: (40 if chk.thorough else 8)]:
        inputs += bytegen.byte_mutations(rng, b, 120 if chk.thorough else 40)
    inputs += bytegen.random_bytes(rng, 30000 if chk.thorough else 400)
    lines = ["lex " + hx(b) for b in inputs]
    impl, rc, err = run_lines(harness(), lines)
    model, rc2, err2 = driver(lines)
    dis = None
    bad = None
    kinds = {"ok": 0, "err": 0}
    multi = 0
    for i, src in enumerate(inputs):
        a = impl[i] if i < len(impl) else "<missing rc=%s>" % rc
        b = model[i] if i < len(model) else "<missing>"
        if a != b and dis is None:
            dis = (src, a, b)
        kinds["ok" if a.startswith("ok") else "err"] += 1
        nt = a.count(":") // 3
        ml = a.startswith("ok") and any(b"\n" in t[1] for t in parse_tokens(a)) if a.startswith("ok") else False
        multi += 1 if ml else 0
        chk.count(src if (a.startswith("ok") and (nt >= 3 or ml)) else None)
        why = oracle(src, a)
        if why and bad is None:
            bad = (src, why)
    chk.extra["correspondence"] = {"inputs": len(inputs), "accepted": kinds["ok"], "lexical_errors": kinds["err"],
                                   "with_multiline_token": multi,
                                   "first_disagreement": (repr(dis[0][:80]) + " impl=" + dis[1][:200] + " model=" + dis[2][:200]) if dis else ""}
    chk.sample({"source": inputs[2].decode("latin-1"), "tokens": impl[2] if len(impl) > 2 else ""})
    chk.sample({"source": inputs[20].decode("latin-1")[:120]})
    if bad:
        src, why = bad
        src = shrink_bytes(src, lambda s: oracle_on_impl(s) is not None)
        chk.violation("lexer: " + (oracle_on_impl(src) or why), {"hex": src.hex(), "source": src.decode("latin-1"), "kind": "lex"})
    elif dis:
        src = shrink_bytes(dis[0], lambda s: disagree(s))
        chk.violation("correspondence: lexer model and real lexer disagree on %r; the lossless/position oracle did not fail on the "
                      "explored inputs" % src[:80], {"hex": src.hex(), "stream": "tokens"}, arm="correspondence:tokens", found_input=False)


def oracle_on_impl(src):
    impl, _, _ = run_lines(harness(), ["lex " + hx(src)])
    return oracle(src, impl[0]) if impl else "no reply"


def disagree(src):
    impl, _, _ = run_lines(harness(), ["lex " + hx(src)])
    model, _, _ = driver(["lex " + hx(src)])
    return impl != model


def shrink_bytes(src, fails, budget=300):
    cur = bytes(src)
    n = 0
    chunk = max(1, len(cur) // 2)
    while chunk >= 1 and n < budget:
        i = 0
        changed = False
        while i < len(cur) and n < budget:
            cand = cur[:i] + cur[i + chunk:]
            n += 1
            try:
                ok = fails(cand)
            except Exception:
                ok = False
            if ok:
                cur = cand
                changed = True
            else:
                i += chunk
        if not changed:
            chunk //= 2
    return cur


def replay(path):
    obj = json.load(open(path))
    src = bytes.fromhex(obj["hex"]) if obj.get("hex") else b""
    impl, _, _ = run_lines(harness(), ["lex " + hx(src)])
    model, _, _ = driver(["lex " + hx(src)])
    print("source:", repr(src), "\n impl :", impl, "\n model:", model)
    why = oracle(src, impl[0]) if impl else "no reply"
    print("lossless/position oracle:", why or "holds")
    return 1 if why else 0
