#!/usr/bin/env python3
"""Confirm a seeded change in a scratch worktree: it applies, builds, the 288 tests still pass, and the
demonstration behaves differently from the unchanged build.  Writes the findings into <dir>/confirm.json.
usage: confirm_seeded.py <dir> <scratch-worktree>"""
import json
import os
import re
import subprocess
import sys


def sh(cmd, cwd=None, timeout=1800):
    r = subprocess.run(cmd, shell=True, cwd=cwd, capture_output=True, text=True, timeout=timeout)
    return r.returncode, (r.stdout + r.stderr)


def run_demo(d, tree, meta):
    env = "BLOCH_NO_UPDATE_CHECK=1 "
    binp = os.path.join(tree, "_build/bin/bloch")
    if os.path.exists(os.path.join(d, "demo.sh")):
        txt = open(os.path.join(d, "demo.sh")).read()
        arg = tree if "project-root" in txt or "/src" in txt else binp
        return sh(env + "sh %s %s" % (os.path.join(d, "demo.sh"), arg), cwd=d)[1]
    m = re.search(r"--shots=(\d+)", meta.get("demo", ""))
    shots = (" --shots=" + m.group(1)) if m else ""
    extra = " --emit-qasm" if "--emit-qasm" in meta.get("demo", "") else ""
    return sh(env + "timeout 20 %s %s%s%s" % (binp, os.path.join(d, "demo.bloch"), shots, extra), cwd=d)[1]


def main():
    d, wt = os.path.abspath(sys.argv[1]), sys.argv[2]
    meta = json.load(open(os.path.join(d, "meta.json")))
    out = {"applies": False}
    sh("git checkout -- . && git clean -fdq -e _build", cwd=wt)
    sh("git -C %s fetch -q /repo HEAD 2>/dev/null; true" % wt)
    rc, o = sh("git apply %s" % os.path.join(d, "patch.diff"), cwd=wt)
    out["applies"] = rc == 0
    if rc != 0:
        out["error"] = o[:400]
    else:
        rc, o = sh("cmake -S . -B _build -G Ninja >/dev/null && cmake --build _build -j12 2>&1 | tail -2", cwd=wt)
        out["builds"] = rc == 0
        rc, o = sh("./_build/bin/bloch_tests | tail -1", cwd=wt)
        out["tests"] = o.strip().splitlines()[-1] if o.strip() else ""
        out["tests_pass"] = "288 tests passed, 0 failed" in o
        changed = run_demo(d, wt, meta)
        base = run_demo(d, "/repo", meta)
        strip = lambda t: re.sub(r"\x1b\[[0-9;]*m", "", t)
        out["demo_changed"] = strip(changed)[-600:]
        out["demo_unchanged"] = strip(base)[-600:]
        out["demo_differs"] = strip(changed) != strip(base)
    sh("git checkout -- .", cwd=wt)
    json.dump(out, open(os.path.join(d, "confirm.json"), "w"), indent=1)
    print(os.path.basename(d), {k: v for k, v in out.items() if k in ("applies", "builds", "tests_pass", "demo_differs")})


if __name__ == "__main__":
    main()
