"""Class programs for C09: one program shape, two renderings of its locals/parameters — names that collide with fields of the
class and with locals of callers/callees, and all-fresh names.  Units that mention a field by its bare name never get a local
of that name (that would be legitimate shadowing); collisions *across* units are the point."""

FIELDS = ["n", "t"]
POOL = ["n", "t", "k", "x", "v", "w"]


class ScopeProgram:
    def __init__(self, rng):
        r = rng
        self.c = [r.randrange(1, 20) for _ in range(6)]
        # units: name -> (number of locals/params, may use field names?)
        self.units = {"A": (2, True), "B": (2, False), "C": (1, False), "D": (2, True), "E": (3, True), "M": (3, True), "F": (2, True),
                      "H": (2, True), "J": (2, False), "N": (3, False)}
        # array-typed locals: in the colliding rendering they carry the name of P's array field
        self.arr_colliding = {"M": "d", "E": "d"}
        self.arr_fresh = {"M": "m_arr_z", "E": "e_arr_z"}
        self.colliding = {}
        for u, (k, fields_ok) in self.units.items():
            pool = [p for p in POOL if fields_ok or p not in FIELDS]
            r.shuffle(pool)
            # prefer field names where allowed, and names used by other units otherwise
            if fields_ok and r.random() < 0.8:
                pool.sort(key=lambda p: 0 if p in FIELDS else 1)
            self.colliding[u] = pool[:k]
        # N names further locals of main: the rest of the pool, so that they differ from main's other locals (unit M)
        self.colliding["N"] = [p for p in POOL if p not in self.colliding["M"]][:3]
        r.shuffle(self.colliding["N"])
        self.fresh = {u: ["%s_%d_z" % (u.lower(), i) for i in range(k)] for u, (k, _f) in self.units.items()}
        body = ["echo(early({M0}));", "echo(early({M1}) + {M0});", "{ SG<P> gq = new SG<P>(); echo(gq.get()); }", "echo(SN.get());", "{M2}.setn({M0} + 1);", "echo({M0}); echo({M1});", "echo({M2}.addt({M1}));", "echo(helper({M2}, {M0}));",
                "echo({M0} + {M1});", "echo({M2}.viaThis({M1}));", "{M0} = {M0} + 1;", "echo({M2}.n); echo({M2}.t);",
                "{ PD pd = new PD({M0}, {M1}); echo(pd.n); echo(pd.t); echo(pd.z); }", "{ PB pb = new PD({M1}, 3); echo(pb.n + pb.t); }",
                "{ P q = new P({M1}, {M0}); echo(q.addt(1)); }", "{ P dq = new P({M1}, {M0}); destroy dq; echo({M0}); }",
                "{M2} = new P({M0}, {M1}); echo({M2}.n);", "echo({M2}.at({M0})); echo({MA}[1]);", "echo({M2}.at(1) + {MA}[0]);", "{ P rq = new P({M0}, 2); rq = new P(3, {M1}); echo(rq.t); }",
                "echo({M2}.bump()); echo({M0}); echo({M1});", "echo(SN.inc()); echo({M0}); echo({M1}); echo(SN.get());",
                "{M2}.bump(); echo(helper({M2}, {M1})); echo({M2}.bump());"]
        r.shuffle(body)
        self.body = body[:r.randrange(4, len(body) + 1)] + ["echo({M0}); echo({M1}); echo({M2}.n); echo({M2}.t);"]

    def render(self, names):
        c = self.c
        m = {}
        for u, ns in names.items():
            for i, n in enumerate(ns):
                m["%s%d" % (u, i)] = n
        t = "\n".join([
            "class P {",
            "    public int n = %d;" % c[0],
            "    public int t = n * 2 + %d;" % c[1],
            "    public constructor(int {A0}, int {A1}) -> P { this.n = this.n + {A0}; this.t = this.t - {A1}; return this; }",
            "    public function setn(int {B0}) -> void { int {B1} = {B0} + 1; n = {B1}; }",
            "    public function addt(int {C0}) -> int { t = t + {C0}; return t + n; }",
            "    public function viaThis(int {D0}) -> int { int {D1} = {D0} * 3; this.n = this.n + {D1}; return this.n; }",
            "    public int[] d = {%d, %d, %d};" % (c[0] + 30, c[1] + 40, c[2] + 50),
            "    public function at(int {C0}) -> int { return d[{C0} % 3] + d[0]; }",
            "    public function bump() -> int { n++; t--; return n * 10 + t; }",
            "    public destructor() -> void { echo(n * 1000 + t); }",
            "}",
            "class PB { public int n = %d; public int t = %d; public constructor(int {J0}) -> PB { int {J1} = {J0} + 1; n = n + {J1}; t = t + n; return this; } }" % (c[3], c[4]),
            "class PD extends PB { public int z = 1; public constructor(int {H0}, int {H1}) -> PD { super({H0} + {H1}); z = z + {H0}; return this; } }",
            "class SG<T> { public static int k = %d; public static int w = k * 2 + 1; public static int v = w + k; public constructor() -> SG<T> = default; public function get() -> int { return w * 100 + v; } }" % c[4],
            "class SN { public static int x = %d; public static int k = x + 5; public constructor() -> SN = default; public static function get() -> int { return k * 3 + x; } public static function inc() -> int { x++; k--; return x * 7 + k; } }" % c[5],
            "function early(int {F0}) -> int { for (int {F1} = 0; {F1} < 4; {F1} = {F1} + 1) { if ({F1} == 2) { return {F0} + {F1}; } } return 0; }",
            "function helper(P {E0}, int {E1}) -> int { int[] {EA} = {7, 8, 9}; int {E2} = {E1} + 2 + {EA}[1] - 8; echo({E0}.at({E1})); {E0}.setn({E2}); { SG<SN> gs = new SG<SN>(); {E2} = {E2} + gs.get() - gs.get(); } return {E0}.addt({E1}) + {E2}; }",
            "function main() -> void {",
            "    int {M0} = %d; int {M1} = %d; int[] {MA} = {1, 2, 3};" % (c[2], c[3]),
            "    P {M2} = new P({M0}, {M1});",
            # three more objects with echoing destructors in the same scope: they die at the end of main in an order that must not depend
            # on what they are called
            "    P {N0} = new P(1, 1); P {N1} = new P(2, 2); P {N2} = new P(3, 3);"] + ["    " + b for b in self.body] + ["}"])
        coll = all(names.get(u) == self.colliding.get(u) for u in ("M", "E"))
        for u, key in (("M", "MA"), ("E", "EA")):
            use_coll = names.get(u) == self.colliding.get(u)
            t = t.replace("{" + key + "}", self.arr_colliding[u] if use_coll else self.arr_fresh[u])
        for k, v in m.items():
            t = t.replace("{" + k + "}", v)
        return t

    def variants(self):
        """(description, source): the all-colliding rendering and one rendering per unit where only that unit collides"""
        out = [("all units use colliding names", self.render(self.colliding))]
        for u in self.units:
            names = dict(self.fresh)
            names[u] = self.colliding[u]
            out.append(("unit %s uses %s" % (u, ",".join(self.colliding[u])), self.render(names)))
        return out

    def reference(self):
        return self.render(self.fresh)
