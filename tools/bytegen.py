"""Byte-string generators for the front end (C13, C15): token-alphabet strings, corpus mutations, random bytes."""
import glob
import os

import buildlib

PIECES = ["int", "long", "float", "bit", "boolean", "string", "char", "qubit", "void", "function", "return", "if", "else",
          "for", "while", "measure", "reset", "final", "echo", "class", "new", "null", "true", "false", "this", "super",
          "main", "x", "y1", "_a", "foo_bar", "q", "0", "1", "42", "007", "99999999999999999999", "2147483648", "9223372036854775808L", "[-", "3f", "1.5f", "2.f", "10L", "0b", "1b", "2b", "12b", "1.5",
          "\"str\"", "\"a b\"", "\"a\nb\"", "\"a\r\nb\"", "\"\r\"", "\"x\r\n\r\ny\"", "'\r'", "\"t\tb\"", "\"//\"", "\"\"", "'c'", "'\n'", "'''", "'ab'", "'", "\"unterminated",
          "=", "==", "!", "!=", "+", "++", "-", "--", "->", "*", "/", "%", ">", ">=", "<", "<=", "&", "&&", "|", "||", "^", "~",
          "?", ":", ".", ";", ",", "@", "(", ")", "{", "}", "[", "]", "#", "$", "\\", "`",
          " ", "  ", "\t", "\n", "\r\n", "\r", "\x0b", "\x0c", "// comment\n", "// c", "//\n", "/", "/ /", "\x00", "\x7f", "\x80", "\xff", "é"]


def token_soup(rng, n, maxlen=14):
    out = []
    for _ in range(n):
        k = rng.randrange(0, maxlen)
        out.append("".join(rng.choice(PIECES) for _ in range(k)).encode("latin-1", "replace"))
    return out


def corpus_files():
    pats = ["examples/*.bloch", "examples/**/*.bloch", "library/**/*.bloch", "demo/**/*.bloch"]
    seen = []
    for p in pats:
        for f in sorted(glob.glob(os.path.join(buildlib.REPO, p), recursive=True)):
            if f not in seen:
                seen.append(f)
    return seen


def corpus_sources(max_bytes=4000):
    out = []
    for f in corpus_files():
        b = open(f, "rb").read()
        if len(b) <= max_bytes:
            out.append((os.path.relpath(f, buildlib.REPO), b))
    return out


def random_bytes(rng, n, maxlen=40):
    return [bytes(rng.randrange(256) for _ in range(rng.randrange(0, maxlen))) for _ in range(n)]


def byte_mutations(rng, src, n):
    out = []
    for _ in range(n):
        b = bytearray(src)
        k = rng.randrange(4)
        if not b:
            k = 1
        if k == 0:
            i = rng.randrange(len(b)); del b[i:i + rng.randrange(1, 4)]
        elif k == 1:
            i = rng.randrange(len(b) + 1); b[i:i] = rng.choice(PIECES).encode("latin-1", "replace")
        elif k == 2:
            i = rng.randrange(len(b)); b[i] = rng.randrange(256)
        else:
            b = b[:rng.randrange(len(b) + 1)]          # truncation
        out.append(bytes(b))
    return out
