"""Quantum object programs for the evaluator-level clauses of C02, C03 and C04: objects owning qubits (own and inherited fields,
registers), dying by scope end or destroy, their simulator indices recycled by later declarations.  Every run uses one constant
draw d for all measurements and resets (0.1: a 50/50 qubit yields 1; 0.9: it yields 0), so every echoed bit and every tracked
outcome is known by construction:
  probes     fresh qubits (locals, registers, fields of new objects) start in |0>, get x on a known subset and are measured
             -> the echoed bits are that subset (C03: handles denote distinct, fresh qubits);
  entangled  an outside qubit Bell-paired with a qubit owned by an object that then dies: the release is a sampling reset, so
             the outside qubit collapses to the sampled branch -> echoes 1 under d=0.1 and 0 under d=0.9 (C04);
  tracked    @tracked probes: the recorded outcome string equals the echoed bits (C02: returned bit = stored value = outcome)."""

CLASSES = """class QB { public qubit bq; public qubit[2] br; public constructor() -> QB = default; }
class QD extends QB { public qubit dq; public constructor() -> QD = default; }
class QE extends QD { public qubit[2] er; public int tag = 3; public constructor() -> QE = default; }
class QR { @tracked public qubit[2] tr; public constructor() -> QR = default; }
class QT0 { @tracked public qubit tq; public constructor() -> QT0 = default; public destructor() -> void { bit b = measure tq; echo(b); } }
class QT1 { @tracked public qubit tq; public constructor() -> QT1 = default; public destructor() -> void { x(tq); bit b = measure tq; echo(b); } }
class QT2 { @tracked public qubit tq; public constructor() -> QT2 = default; public destructor() -> void { reset tq; x(tq); bit b = measure tq; echo(b); } }
"""
FIELDS = {"QB": ["bq", "br[0]", "br[1]"], "QD": ["bq", "br[0]", "br[1]", "dq"], "QE": ["bq", "br[0]", "br[1]", "dq", "er[0]", "er[1]"]}


class QObjProgram:
    def __init__(self, rng, draw):
        r = rng
        self.draw = draw
        one = 1 if draw < 0.5 else 0         # outcome of measuring a 50/50 qubit under this draw
        self.probe_bits, self.ent_bits, self.tracked = [], [], {}
        self.kinds = []                      # per echoed line: "probe" | "ent"
        L = []
        n = [0]

        def nm(p):
            n[0] += 1
            return "%s%d" % (p, n[0])

        for _ in range(r.randrange(2, 6)):
            ph = r.random()
            if ph < 0.4:
                # churn: an object lives and dies
                c = r.choice(["QB", "QD", "QE"])
                o = nm("o")
                body = []
                for f in r.sample(FIELDS[c], r.randrange(0, len(FIELDS[c]) + 1)):
                    g = r.choice(["x(%s.%s);", "h(%s.%s);", "x(%s.%s); measure %s.%s;", "h(%s.%s); measure %s.%s;"])
                    body.append(g % ((o, f) * g.count("%s.%s")))
                end = r.choice(["destroy %s;" % o, ""])
                L.append("{ %s %s = new %s(); %s %s }" % (c, o, c, " ".join(body), end))
            elif ph < 0.6:
                # entangled with an outside qubit, then the owner dies
                c = r.choice(["QB", "QD", "QE"])
                o, a, b = nm("o"), nm("a"), nm("ra")
                f = r.choice(FIELDS[c])
                end = r.choice(["destroy %s;" % o, ""])
                L.append("qubit %s; { %s %s = new %s(); h(%s); cx(%s, %s.%s); %s }" % (a, c, o, c, a, a, o, f, end))
                L.append("bit %s = measure %s; echo(%s);" % (b, a, b))
                self.ent_bits.append(one)
                self.kinds.append("ent")
            elif ph < 0.68 and getattr(self, "qt_left", None) is None or (ph < 0.68 and self.qt_left):
                # an object whose destructor performs the last measurement of its tracked field: the record must be that one
                if getattr(self, "qt_left", None) is None:
                    self.qt_left = ["QT0", "QT1", "QT2"]
                    r.shuffle(self.qt_left)
                c = self.qt_left.pop()
                o = nm("t")
                flip = r.random() < 0.5
                pre = r.choice(["", "measure %s.tq;" % o]) if c != "QT2" else r.choice(["", "measure %s.tq;" % o, "h(%s.tq); measure %s.tq;" % (o, o)])
                if c == "QT2":
                    bit = 1
                elif "measure" in pre:
                    bit = None          # measuring twice without reset is refused: leave that to C06; do not generate it
                    pre = ""
                if c != "QT2":
                    bit = (1 if flip else 0) ^ (1 if c == "QT1" else 0)
                end = r.choice(["destroy %s;" % o, ""])
                L.append("{ %s %s = new %s(); %s%s %s }" % (c, o, c, ("x(%s.tq); " % o) if (flip and c != "QT2") else "", pre, end))
                self.probe_bits.append(bit)
                self.kinds.append("probe")
                self.tracked["%s.tq" % c] = str(bit)
            elif ph < 0.72 and not getattr(self, "qr_done", False):
                # a tracked register field measured partly or wholly: '?' unless every element has an outcome
                self.qr_done = True
                o = nm("u")
                f0, f1 = r.random() < 0.5, r.random() < 0.5
                both = r.random() < 0.5
                st = []
                b0 = nm("rb")
                st.append("%sbit %s = measure %s.tr[0]; echo(%s);" % ("x(%s.tr[0]); " % o if f0 else "", b0, o, b0))
                self.probe_bits.append(1 if f0 else 0); self.kinds.append("probe")
                if both:
                    b1 = nm("rb")
                    st.append("%sbit %s = measure %s.tr[1]; echo(%s);" % ("x(%s.tr[1]); " % o if f1 else "", b1, o, b1))
                    self.probe_bits.append(1 if f1 else 0); self.kinds.append("probe")
                elif f1:
                    st.append("x(%s.tr[1]);" % o)
                L.append("{ QR %s = new QR(); %s %s }" % (o, " ".join(st), r.choice(["destroy %s;" % o, ""])))
                self.tracked["QR.tr"] = ("%d%d" % (1 if f0 else 0, 1 if f1 else 0)) if both else "?"
            elif ph < 0.8:
                # probe: fresh local qubits, optionally tracked
                k = r.randrange(1, 4)
                names = [nm("p") for _ in range(k)]
                tr = r.random() < 0.6
                L.append("%squbit %s;" % ("@tracked " if tr else "", ", ".join(names)))
                for q in names:
                    flip = r.random() < 0.5
                    b = nm("rb")
                    L.append("%sbit %s = measure %s; echo(%s);" % ("x(%s); " % q if flip else "", b, q, b))
                    self.probe_bits.append(1 if flip else 0)
                    self.kinds.append("probe")
                    if tr:
                        self.tracked["qubit " + q] = str(1 if flip else 0)
            else:
                # probe: a fresh register measured as a whole, optionally tracked; or the fields of a fresh object
                if r.random() < 0.5:
                    k = r.randrange(1, 4)
                    q = nm("g")
                    tr = r.random() < 0.7
                    flips = [r.random() < 0.5 for _ in range(k)]
                    L.append("%squbit[%d] %s; %s measure %s;" % ("@tracked " if tr else "", k, q,
                                                                " ".join("x(%s[%d]);" % (q, i) for i, fl in enumerate(flips) if fl), q))
                    if tr:
                        self.tracked["qubit[] " + q] = "".join("1" if fl else "0" for fl in flips)
                else:
                    c = r.choice(["QB", "QD", "QE"])
                    o = nm("o")
                    stmts = []
                    for f in FIELDS[c]:
                        flip = r.random() < 0.5
                        b = nm("rb")
                        stmts.append("%sbit %s = measure %s.%s; echo(%s);" % ("x(%s.%s); " % (o, f) if flip else "", b, o, f, b))
                        self.probe_bits.append(1 if flip else 0)
                        self.kinds.append("probe")
                    L.append("{ %s %s = new %s(); %s }" % (c, o, c, " ".join(stmts)))
        self.text = CLASSES + "function main() -> void {\n    " + "\n    ".join(L) + "\n}"

    def expected_echo(self):
        pi, ei = iter(self.probe_bits), iter(self.ent_bits)
        return [str(next(pi) if k == "probe" else next(ei)) for k in self.kinds]


def run_family(rng, count):
    """returns list of (program, result line) using the plain eval harness with a constant draw"""
    import evallib
    from framework import run_guarded
    progs = [QObjProgram(rng, rng.choice([0.1, 0.9])) for _ in range(count)]
    lines = ["run %s 1 %s" % (evallib.hx(p.text), evallib.draws_arg([p.draw] * 400)) for p in progs]
    out, incident = run_guarded(evallib.harness(), lines, chunk_timeout=240)
    return progs, out, incident


def judge(p, line, clause):
    """clause: 'probe' (C03), 'ent' (C04), 'tracked' (C02). Returns None or a description."""
    import evallib
    if not line.startswith("ok "):
        return "the run ends with %s" % line[:80] if clause == "probe" else None
    d = evallib.split_result(line)
    got = d.get("echo_lines", [])
    want = p.expected_echo()
    if len(got) != len(want):
        return "echoed %d lines, expected %d" % (len(got), len(want)) if clause == "probe" else None
    for i, (g, w, k) in enumerate(zip(got, want, p.kinds)):
        if g != w and k == clause:
            if k == "probe":
                return "fresh qubit #%d reads %s, its preparation gives %s (handles do not denote distinct fresh qubits)" % (i, g, w)
            return "outside qubit #%d reads %s after its entangled partner's owner died; a sampling reset under draw %.1f leaves %s" % (i, g, p.draw, w)
    if clause == "tracked":
        tr = {}
        for item in (d.get("tracked") or "").split(";"):
            if item:
                h, o, c = item.split(":")
                tr[bytes.fromhex(h).decode("latin-1")] = (o, int(c))
        for k, o in p.tracked.items():
            if tr.get(k, (None, 0))[0] != o:
                return "tracked outcome of '%s' is %s, the measured bits are %s" % (k, tr.get(k), o)
    return None
