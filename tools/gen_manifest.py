#!/usr/bin/env python3
"""Writes MANIFEST.json from the table below (kept in one place so it is always valid)."""
import json
import os

VERIF = os.path.dirname(os.path.dirname(os.path.abspath(__file__)))
ALL = ["C%02d" % i for i in range(1, 21)]

# id -> (technique, level text, level_note, design_ref)
CLAIMED = {
    "C01": ("Lean 4 theorems about a loop-for-loop model of applySingleQubitGate/cx (all n, q, states) + "
            "bit-exact differential correspondence of the executable model with the real simulator + translator tie: the seven gate matrices and the built-in gate signatures are regenerated from qasm_simulator.cpp / built_ins.cpp on every run and proved equal to the model's (model_matrices_are_the_source_matrices)",
            "Machine-checked proof on the model for every register size, index and state; model tied to the "
            "current source by running both on the same histories after every operation.",
            "Trusted: Lean kernel, axioms propext/Classical.choice/Quot.sound, harness+orchestrator; floating "
            "point rounding is modelled not verified (theorems over exact complex numbers).", "DESIGN.md §4 C01"),
    "C02": ("Lean 4 theorems about the model of QasmSimulator::measure with the draw explicit (outcome iff draw below the "
            "Born weight; post-state = normalised projection; re-read and correlated qubits agree) + bit-exact "
            "differential correspondence at forced/adversarial draws",
            "Proof on the model over exact complex amplitudes for every n, q, state and draw in [0,1); model tied to the "
            "source by differential runs after every operation.",
            "Trusted: Lean kernel, propext/Classical.choice/Quot.sound, harness+orchestrator; RNG uniformity assumed (the draw "
            "is an input); IEEE rounding modelled not verified. The evaluator-side agreement (returned bit = stored value = tracked "
            "outcome) is checked through the evaluator correspondence (C05/C17 harness).", "DESIGN.md §4 C02"),
    "C03": ("Lean 4 invariant proof by induction over arbitrary operation histories (size = 2^n, unit norm; allocation = psi ⊗ |0>) "
            "+ differential correspondence + norm/size oracle on the real simulator after every operation + whole-evaluator theorem by the induction principle of the evaluator model: every program leaves a 2^n state vector and never shrinks the register",
            "Proof for every finite history on the model; drift of the real floating-point state is monitored, not proved.",
            "Trusted: as C01. The qubit-handle half is a theorem about the evaluator's qubit book (free list + owners): after any history of "
            "declarations, constructions and destructions live handles are pairwise distinct and inside the register, and a new handle "
            "never aliases a live one; tied to the evaluator by programs whose OpenQASM text reveals the index behind every handle. "
            "Known finding: a handle copied out of a dying object (C03-copied-field-handle).",
            "DESIGN.md §4 C03"),
    "C04": ("Lean 4 theorems about the model of QasmSimulator::reset (target amplitudes zero, unit norm, reduced state of the other "
            "qubits preserved on average over the reset's own branch) + differential correspondence with both branches forced",
            "Proof over exact amplitudes for every n, target and (entangled) state; tied to the source by differential runs.",
            "Trusted: as C02. The pinned code post-selected (genuine defect, repaired by fix: fff04b3).", "DESIGN.md §4 C04"),
    "C20": ("Lean 4 theorems about a model of the updater's decision logic (numeric triple order, parse of [v]A.B.C for all "
            "A,B,C, install iff strictly newer, unparsable never acts, exact-name checksum line, notice window by induction over "
            "arbitrary invocation sequences) + differential correspondence with the real helpers compiled in-process + notice window and disabling environment switches regenerated from update_manager.cpp and proved equal to the model's",
            "Proof for every version string / checksums file / invocation sequence on the model; tied to update_manager.cpp by "
            "running the real parseSemVer/compareSemVer/decideUpdate/parseChecksum/maybePrintNotice/checkForUpdatesIfDue on the same inputs.",
            "Trusted: Lean kernel (core-only proofs: propext, Quot.sound, Classical.choice via omega/simp), harness+orchestrator. Network fetch "
            "result and wall clock are inputs; sub-second timestamp truncation and the download/extract/install path are not modelled.",
            "DESIGN.md §4 C20"),
    "C15": ("Lean 4 theorem about a scanner-for-scanner model of lexer.cpp: for every byte string and every keyword table, accepted "
            "source = trivia/token/.../trivia with each token stamped with the independently defined position of its first byte; keyword "
            "table regenerated from the source on every run; exact differential correspondence of token lists and lexical errors + operator switch regenerated from lexer.cpp and proved to be the model's scanOp for every character and continuation",
            "Proof for every input on the model (core-only); tied to lexer.cpp by running the real Lexer and the model on the same bytes "
            "and comparing (type, text, line, column) of every token and (kind, line, column) of every lexical error.",
            "Trusted: Lean kernel (propext, Quot.sound, Classical.choice from omega/simp), table translator, harness+orchestrator; C-locale "
            "character classes assumed.", "DESIGN.md §4 C15"),
    "C19": ("Lean 4 invariant proofs about a model of ModuleLoader over an explicit file system (load-once = Nodup merge order, "
            "dependencies strictly before importers, first-root resolution in the documented order, exactly one main, cycle / missing / "
            "package-mismatch are errors) + differential correspondence with the real loader on materialised directory trees",
            "Proof for every layout/entry/search-path list/cwd expressible in the model; tied to module_loader.cpp by running the real "
            "ModuleLoader::load on the same trees and comparing merged class/function order or the diagnostic kind; a third, doc-based "
            "reference resolver is the property oracle.",
            "Trusted: Lean kernel (core-only), harness+orchestrator. Not modelled: symlinks, '..', case folding, weakly_canonical; a source "
            "file is abstracted to package line, imports, class and function names.", "DESIGN.md §4 C19"),
    "C13": ("Lean 4 theorems about the lexer and parser models (total; the lexer loop provably terminates by consuming input; accepted "
            "token lists end in Eof) + exact differential correspondence of the whole front end on mutated/truncated/random byte strings "
            "with an ASan+UBSan build, a shared analyser instance vs a fresh one, and the import-loader stage",
            "Proof on the model for every byte string (lexer) and every token list (parser result shape); PARTIAL: parser fuel "
            "sufficiency, the analyser and loader stages and memory safety of the real C++ are observed (sanitizers, timeout, 0 "
            "OUT-OF-FUEL), not proved.",
            "Trusted: Lean kernel, translator for the keyword/binding tables, harness+orchestrator, ASan/UBSan.", "DESIGN.md §4 C13"),
    "C14": ("Lean 4: decide-checked theorem that the binding-power table regenerated from parser.cpp has the documented level order, "
            "left associativity and prefix/postfix placement + round-trip theorem for the Pratt core instantiated with that table + exact "
            "differential correspondence of the whole-grammar parser model (trees with positions) + render/parse round trip on the real parser + parser constants (nesting limit, primitive type keyword lists) regenerated from parser.hpp/.cpp and proved equal to the model's",
            "Proof obligations re-checked against the current source through the translator; the round-trip theorem covers the Pratt "
            "core: binary levels, prefix, postfix ++, indexing, member access, calls with at most one argument, parentheses (PARTIAL "
            "beyond it); casts, new, measure, array literals, argument lists, statements and class members are covered by "
            "exhaustive small trees and random larger ones, rendered minimally and with redundant parentheses.",
            "Trusted: Lean kernel, table translator, harness+orchestrator. Known finding: generic-type lookahead claims  Id < ... > Id.",
            "DESIGN.md §4 C14"),
    "C07": ("Lean 4 theorems stating the documented operator semantics (promotion int->long->float, '/' always float, integer '%', "
            "comparisons, logical/bitwise, string concatenation, casts, bounds-checked arrays) for ALL operand values about an evaluator "
            "model that mirrors runtime_evaluator.cpp + exact differential correspondence on an exhaustive operator x operand-kind matrix "
            "and seeded type-directed programs (functions, recursion, loops, arrays)",
            "Proof on the model for every operand value; the model is executed by the driver (Lean lexer+parser+evaluator on the source "
            "text) and compared with the real pipeline on echo output and runtime-error positions. PARTIAL: the statement layer is "
            "definitional in the model, floats are the host's IEEE doubles on both sides.",
            "Trusted: Lean kernel, harness+orchestrator+generator. Defects found and repaired: string+boolean concatenation, array "
            "literal double evaluation, cast binding (see known_findings.json).", "DESIGN.md §4 C07"),
    "C08": ("Lean 4 theorems about an object-model layer mirroring the class runtime (vtable built base-first, findMethod chain walk, "
            "method bodies run in the declaring class's context, constructor chain, destructor chain, per-class static slots, cost-based "
            "overload scan, per-argument generic specialisation) for every linear hierarchy / candidate list + exact correspondence: "
            "programs rendered from random (hierarchy, action list) descriptions must print the model's trace; object lifetime on arbitrary "
            "graphs: reference-count model (Life.Model) with a credit invariant proving counts exact and 'destructor has run iff unreferenced' "
            "in every reachable state, tied by heap programs with destructors",
            "Proof on the model for every hierarchy depth, override/super pattern and candidate list; tied to the evaluator and analyser by "
            "running rendered programs through the real pipeline and comparing every echo line with Obj.programTrace / Obj.pick / Obj.genRun. "
            "PARTIAL: linear hierarchies; generics modelled only as per-argument specialisation counters.",
            "Trusted: Lean kernel (core-only), renderer tools/classgen.py (cross-checked by an independent Python oracle), harness+orchestrator. "
            "Known finding: run-time overload re-resolution from the dynamic class (C08-dynamic-overload).", "DESIGN.md §4 C08"),
    "C10": ("Lean 4 theorems: the evaluator model consults its function table only by name, so execute is invariant under every "
            "permutation of the top-level functions (distinct names); class layout resolved by name is base-first under every permutation "
            "of the class declarations + differential runs of the real pipeline on seeded programs and their permutations (reverse, "
            "rotations, shuffles; class-free and class programs) with the Lean evaluator as reference on the class-free ones; acceptance: "
            "a model of the analyser's declaration pass (Sem/Decls.lean: duplicate names, bases by name, inheritance cycles, calls by "
            "name and arity, new by class name) proved invariant under every permutation (acceptance_order_independent) and compared with "
            "the real analyser on declaration graphs with seeded declaration errors in several orders",
            "Proof on the model for every program/permutation; acceptance proved on the declaration-pass model and tied by verdict "
            "equality on generated declaration graphs. PARTIAL: the analyser's body rules beyond calls/new and the class runtime are tied "
            "by comparing the real pipeline across permutations (bounded).",
            "Trusted: Lean kernel (core-only), generators, harness+orchestrator. Defects found and repaired: forward-call signature, "
            "class layout by declaration order, vtable pointers.", "DESIGN.md §4 C10"),
    "C11": ("Lean 4 theorems about a model of the evaluator's mark-sweep cycle collector and a register machine interruptible by a collection "
            "before every step: the depth-first mark (fuel = heap size) reaches everything reachable from the roots, a collection leaves every "
            "reachable object unchanged, and by a simulation argument the machine's output is the same under EVERY schedule Nat -> Bool + "
            "correspondence: heap-shape programs run in the real evaluator under forced schedules (never / every boundary / single / sparse / "
            "dense subsets) must print the model's trace; class and destructor programs must print the same under every schedule; the real "
            "timer thread runs under ThreadSanitizer",
            "Proof on the model for every operation list and every schedule (unbounded heap, arbitrary sharing and cycles); tied to "
            "runtime_evaluator.cpp by differential runs through the BLOCH_VERIF schedule hook. Destructors: reference counting and the collector "
            "are modelled together (Life/Gc.lean: a collection clears garbage fields without touching counts, as m_limbo does) and "
            "schedule_unobservable_with_destructors proves echo and destructor lines schedule-independent by a simulation with references "
            "in flight; destructor heap programs under forced schedules must print that model's trace. PARTIAL: tracked-qubit objects "
            "and class programs are compared implementation-vs-implementation across schedules, not modelled; race freedom "
            "and thread shutdown are observed with ThreadSanitizer (bounded), not proved.",
            "Trusted: Lean kernel (core-only), heap program renderer, harness hook (collect at statement boundary k iff schedule(k)), "
            "ThreadSanitizer. Defects found and repaired: temporaries not treated as roots, destructor runs depending on the schedule.",
            "DESIGN.md §4 C11"),
    "C12": ("Lean 4 theorems about the operator layer of the evaluator model (every refusal of the binary/unary operator cascades, "
            "array reads and array writes is a runtime diagnostic located at the operator, for all operand values; int/long wrap-around "
            "stays in range; modulo by zero / by -1 are defined) + the real pipeline built with ASan+UBSan run on an arithmetic edge matrix, "
            "type-directed edge programs, class/heap/scope programs, runtime errors injected at every depth while objects are alive, deep "
            "hierarchies with overloaded virtual methods",
            "Proof on the model for every operand value; PARTIAL: memory safety, teardown after an error and the absence of raw C++ "
            "exceptions are properties of the C++ that the model cannot exhibit: they are observed with sanitizers on generated programs "
            "(bounded), not proved.",
            "Trusted: Lean kernel (core-only), ASan/UBSan (signed-overflow and float-cast checks excluded: they do not crash and their "
            "results are modelled), generators, harness+orchestrator. Defects found and repaired: long % -1, vtable dangling pointers, "
            "teardown use-after-free, throwing destructors, endScope re-entrancy, out-of-range literals.", "DESIGN.md §4 C12"),
    "C18": ("Lean 4 theorems: the evaluator model builds a fresh state from (program, draws) for every execution, so an N-shot run of one "
            "program equals N independent runs with the same draws provided the tree is unchanged; the only write the evaluator makes into "
            "the shared tree (ArrayType::size) is modelled with the analyser's constant folding and shown inert on every analysed "
            "declaration; analysing twice is idempotent + differential: one parsed+analysed Program executed N times (echo on, and echo "
            "off as multi-shot mode does) against N fresh parse-analyse-run pipelines with the same forced draws + whole-evaluator theorem: a run consumes exactly one draw per recorded outcome, from the front of its own list",
            "Proof on the model; PARTIAL: per-shot evaluator state of the C++ (statics, objects, qubit indices, measured flags, tracked "
            "counts, generic specialisations) is compared shot-by-shot against fresh pipelines on generated programs (bounded), not proved.",
            "Trusted: Lean kernel (core-only), generators, harness+orchestrator; the process-global RNG is replaced by forced draws on both sides.",
            "DESIGN.md §4 C18"),
    "C05": ("Lean 4 theorems about the simulator model for every scalar instance and every history: a performed operation appends exactly its "
            "own log line, refused operations and allocations append nothing (log = performed operations, once, in execution order); every "
            "logged operand is in range of the final register and cx operands are distinct; the program text is the header for the final size "
            "plus one line per performed operation + exact correspondence of the emitted text (model vs simulator, after every operation) + an "
            "independent OpenQASM 2.0 parser/interpreter written from the documented mapping that replays the text with the recorded outcomes "
            "and compares the final state (global phase, 1e-6 angle precision); file written next to the source vs --emit-qasm output + translator tie: every log line and the preamble of getQasm are regenerated from qasm_simulator.cpp on every run and proved to be what the model renders",
            "Proof on the model for every history, including the replay clause over exact complex amplitudes "
            "(replay_reaches_the_same_state: declaring the register up front and performing the logged operations with the same draws gives "
            "exactly the state, flags and log of the interleaved run — allocation commutes with every performed gate, cx, measurement and "
            "reset). PARTIAL: the text level of the replay (six-decimal angles, parsing) is decided by the independent interpreter on "
            "generated programs.",
            "Trusted: Lean kernel, independent interpreter tools/qasmlib.py, generators, harness+orchestrator. Defect found and repaired: "
            "cx(q,q) emitted an ill-formed line.", "DESIGN.md §4 C05"),
    "C06": ("Lean 4 theorems about the evaluator's measured-flag machine for every operation history: the first refused operation touches a "
            "qubit whose last {declare, reset, measure} event was a measure, and if nothing is refused no touched qubit was in that state "
            "(measure-array marks every element); the evaluator model's guard is that machine's test + EXHAUSTIVE operation sequences up to "
            "length 4 (5 in the thorough tier) over two qubits rendered through every access path (array element, function parameter, "
            "qubit[] parameter, object field, method using the bare field / this.field) with the Lean machine as oracle and the Lean "
            "evaluator as reference for the class-free renderings; whole-evaluator invariant (Eval/FlagsAgree): in every state a class-free "
            "program reaches the evaluator's measured flags equal the simulator's, so the by-index guard refuses exactly the simulator's "
            "measured qubits whatever the access path",
            "Proof on the flag machine for every history and on the evaluator model for every class-free program; the access-path clause (aliasing in the evaluator) is tied by exhaustive small "
            "sequences through every path (bounded), PARTIAL for object fields (no Lean evaluator reference for classes).",
            "Trusted: Lean kernel (core-only), renderer, harness+orchestrator.", "DESIGN.md §4 C06"),
    "C09": ("Lean 4 theorems about the evaluator model's environment: a call starts a frame of one empty scope, lookup is a function of the "
            "current frame only (a callee never sees caller locals), an assignment leaves every scope below the current frame unchanged (never "
            "changes them) + differential renaming runs: seeded class-free programs x single-function renamings to fresh and to colliding "
            "names (real pipeline and Lean evaluator), class programs rendered with colliding vs all-fresh local/parameter names; "
            "whole-evaluator theorem by an induction principle over the evaluator model (Eval/Closed, Eval/Frame): any call of any function "
            "gives the same result and final state whatever the caller's environment, and hands that environment back untouched",
            "Proof on the model's scope discipline, for primitives and for every call/statement of the class-free evaluator model; PARTIAL: the renaming corollary for whole programs and the class fragment (fields, "
            "methods, constructors, field initialisers) are checked differentially (bounded), not by an alpha-equivalence theorem.",
            "Trusted: Lean kernel (core-only), generators, harness+orchestrator. Defect found and repaired: dynamic scoping through the "
            "caller's frames (fac25a0).", "DESIGN.md §4 C09"),
    "C17": ("Lean 4 theorems about a model of cli.cpp's reporting logic and the evaluator's recording: @shots wins over --shots for every "
            "flag value; echo policy as an iff; adding a shot's table adds its counts, so a variable's aggregate total is the sum of the "
            "per-shot totals in any order (N x exits for equal shots); probabilities = count / the variable's own total lie in [0,1] and sum "
            "to 1 (over Q); every recorded scope exit adds exactly one outcome and leaves other variables alone; outcome string of a qubit / "
            "register ('?' unless every element was measured, else the bits in index order) + the real command-line front end run on "
            "generated programs with a known number of exits per shot and known deterministic outcomes, shot/echo resolution compared with "
            "the Lean function",
            "Proof on the model for every flag/annotation/echo value, every list of shot tables and every recording history; tied to "
            "cli.cpp and the evaluator by running the real front end (bounded). PARTIAL: the class-field recording path (destroyObject) "
            "is judged by the exit-count oracle only.",
            "Trusted: Lean kernel, Mathlib (rational arithmetic: propext, Classical.choice, Quot.sound), generator, harness main that calls "
            "bloch::cli::run, orchestrator. Defects found and repaired: probabilities divided by the shot count, --echo=auto, extra "
            "declarators not tracked.", "DESIGN.md §4 C17"),
    "C16": ("Lean 4 theorems about a model of the five places where the analyser matches a value against a declared type (initialiser, "
            "variable assignment, field assignment, argument, return), mirrored guard by guard with their helper functions: for every pair of "
            "known types each position rejects exactly the incompatible pairs (same type, int->long, subclass, null for class references), "
            "hence all positions agree; and about a mirror of the analyser's symbol handling on a statement fragment (declarations, "
            "assignments, ++, blocks, if/while/for/ternary): the walk accepts exactly the programs derivable in an inductive rule system "
            "for use-before-declaration, redeclaration and final (soundness and completeness) + random statement trees with injected "
            "violations through the Lean walk and the real analyser + EXHAUSTIVE rule x position matrix on the real analyser: every violating program must be rejected "
            "and its repaired twin accepted; the type matrix also against the Lean model's verdicts",
            "Proof on the model for the declared-type rule over all primitives, linear class hierarchies and arrays, and for the "
            "declaration/final rules of local variables in every statement and expression position; PARTIAL: the other "
            "rules (fields' final rules, visibility, void, static/abstract, this/super, @quantum, @shots, null) are decided by the "
            "matrix oracle on the real analyser only (finite table of rules x positions), not by theorems.",
            "Trusted: Lean kernel (core-only), matrix generator tools/semgen.py, harness+orchestrator. Defects found and repaired: six "
            "position holes (see known_findings.json C16-*).", "DESIGN.md §4 C16"),
}
PENDING_REASON = "check not built yet in this revision of /verif (planned: Lean model + correspondence, see DESIGN.md §4)"


def main():
    checks = []
    for pid in ALL:
        if pid not in CLAIMED:
            continue
        tech, text, note, ref = CLAIMED[pid]
        checks.append({
            "property_id": pid,
            "quick_cmd": "python3 tools/check.py %s --tier quick" % pid,
            "thorough_cmd": "python3 tools/check.py %s --tier thorough" % pid,
            "evidence_file": "evidence/%s.json" % pid,
            "replay_cmd_template": "python3 tools/check.py %s --replay {path}" % pid,
            "engine": "lean-models+harness",
            "level_claimed": {"category": "proof", "text": text, "design_ref": ref},
            "level_note": note,
            "technique": tech,
        })
    m = {
        "version": 1,
        "setup_cmd": "python3 tools/setup.py",
        "hooks": {
            "guard": "BLOCH_VERIF",
            "enable": "harnesses compile /repo/src with -DBLOCH_VERIF (tools/buildlib.py); no other build is used by the checks",
            "baseline_off_cmd": "cmake -S /repo -B /repo/_build -G Ninja && cmake --build /repo/_build -j16 && ctest --test-dir /repo/_build -j8 --timeout 900",
            "source_commits": ["a21c4fc", "d4d8e45"],
            "add_only": True,
        },
        "engines": [
            {"name": "lean-models+harness", "path": "lean/ harness/ tools/",
             "serves_properties": sorted(CLAIMED),
             "kind_free_text": "Lean 4 models + theorems (lake project BlochVerif), Mathlib-free executable driver, "
                               "C++ in-process harnesses built from /repo, python orchestrator"},
        ],
        "checks": checks,
        "not_applicable": [{"property_id": p, "reason": PENDING_REASON} for p in ALL if p not in CLAIMED],
        "notes": "See DESIGN.md. Known findings: known_findings.json.",
    }
    with open(os.path.join(VERIF, "MANIFEST.json"), "w") as f:
        json.dump(m, f, indent=1)


if __name__ == "__main__":
    main()
