"""Syntax trees for C14: generator, renderer with the minimal parentheses the documented precedence
levels require (docs/grammar.md), renderer with redundant parentheses, and the canonical S-expression
(as nested Python lists) expected back from the parser, positions and Parenthesized nodes stripped."""
import re

# documented levels (docs/grammar.md): assignment < || < && < | < ^ < & < equality < relational < additive
# < multiplicative < unary (incl. cast) < postfix < primary
LEVEL = {"||": 2, "&&": 3, "|": 4, "^": 5, "&": 6, "==": 7, "!=": 7, ">": 8, "<": 8, ">=": 8, "<=": 8,
         "+": 9, "-": 9, "*": 10, "/": 10, "%": 10}
ASSIGN, UNARY, POSTFIX, PRIMARY = 1, 11, 12, 13
BINOPS = list(LEVEL)
UNOPS = ["-", "!", "~"]
CAST_TYPES = ["int", "float", "bit", "long", "boolean"]
NAMES = ["a", "b", "c", "x", "y", "foo", "q", "arr", "obj"]
LITS = [("1", "int"), ("0", "int"), ("42", "int"), ("7L", "long"), ("2.5f", "float"), ("3f", "float"), ("1b", "bit"), ("0b", "bit"),
        ("\"s\"", "string"), ("\"a b\"", "string"), ("'c'", "char"), ("true", "boolean"), ("false", "boolean")]


def level(e):
    k = e[0]
    if k == "bin":
        return LEVEL[e[1]]
    if k in ("assign", "massign", "aassign"):
        return ASSIGN
    if k in ("un", "cast"):
        return UNARY
    if k in ("postfix", "call", "index", "member"):
        return POSTFIX
    if k == "measure":
        return 0                      # `measure e` swallows everything to its right
    return PRIMARY


def render_ty(t):
    if t[0] == "prim":
        return t[1]
    if t[0] == "void":
        return "void"
    if t[0] == "named":
        s = ".".join(t[1])
        if t[3]:
            s += "<" + ", ".join(render_ty(a) for a in t[2]) + ">"
        return s
    if t[0] == "array":
        inner = render_ty(t[1])
        if t[3] is not None:
            return inner + "[" + render(t[3], ASSIGN, False) + "]"
        return inner + ("[%d]" % t[2] if t[2] >= 0 else "[]")
    raise ValueError(t)


def render(e, ctx=0, redundant=False, rng=None):
    """ctx = the lowest level allowed unparenthesised at this position"""
    s = _render(e, redundant, rng)
    need = level(e) < ctx
    if need or (redundant and rng is not None and rng.random() < 0.3 and e[0] != "measure_top"):
        return "(" + s + ")"
    return s


def _render(e, red, rng):
    k = e[0]
    r = lambda x, c: render(x, c, red, rng)
    if k == "lit":
        return e[1]
    if k == "var":
        return e[1]
    if k in ("null", "this", "super"):
        return k
    if k == "bin":
        L = LEVEL[e[1]]
        return r(e[2], L) + " " + e[1] + " " + r(e[3], L + 1)
    if k == "un":
        return e[1] + " " + r(e[2], UNARY)
    if k == "cast":
        return "(" + render_ty(e[1]) + ") " + r(e[2], UNARY)
    if k == "postfix":
        return r(e[2], POSTFIX) + " " + e[1]
    if k == "call":
        return r(e[1], POSTFIX) + "(" + ", ".join(r(a, ASSIGN) for a in e[2]) + ")"
    if k == "index":
        return r(e[1], POSTFIX) + "[" + r(e[2], ASSIGN) + "]"
    if k == "member":
        if e[1][0] == "lit" and e[1][2] in ("int", "long", "float", "bit"):
            return "(" + e[1][1] + ")." + e[2]       # "1.m" would lex as a malformed float
        return r(e[1], POSTFIX) + "." + e[2]
    if k == "new":
        return "new " + render_ty(e[1]) + "(" + ", ".join(r(a, ASSIGN) for a in e[2]) + ")"
    if k == "arrlit":
        return "{" + ", ".join(r(a, ASSIGN) for a in e[1]) + "}"
    if k == "paren":
        return "(" + r(e[1], 0) + ")"
    if k == "measure":
        return "measure " + r(e[1], 0)
    if k == "assign":
        return e[1] + " = " + r(e[2], ASSIGN)
    if k == "massign":
        if e[1][0] == "lit" and e[1][2] in ("int", "long", "float", "bit"):
            return "(" + e[1][1] + ")." + e[2] + " = " + r(e[3], ASSIGN)
        return r(e[1], POSTFIX) + "." + e[2] + " = " + r(e[3], ASSIGN)
    if k == "aassign":
        return r(e[1], POSTFIX) + "[" + r(e[2], ASSIGN) + "] = " + r(e[3], ASSIGN)
    raise ValueError(e)


# ------------------------------------------------------------------ expected S-expression (nested lists of strings)
def hx(s):
    b = s.encode("latin-1")
    return b.hex() if b else "-"


def sx_ty(t):
    if t[0] == "void":
        return "void"
    if t[0] == "prim":
        return ["prim", t[1]]
    if t[0] == "named":
        return ["named", ".".join(t[1]), ["LIST"] + [sx_ty(a) for a in t[2]], "1" if t[3] else "0"]
    if t[0] == "array":
        return ["array", sx_ty(t[1]), str(t[2] if t[3] is None else -1), sx(t[3]) if t[3] is not None else "-"]
    raise ValueError(t)


def sx(e):
    k = e[0]
    if k == "lit":
        return ["lit", hx(e[1]), e[2]]
    if k == "var":
        return ["var", e[1]]
    if k in ("null", "this", "super"):
        return [k]
    if k == "bin":
        return ["bin", hx(e[1]), sx(e[2]), sx(e[3])]
    if k == "un":
        return ["un", hx(e[1]), sx(e[2])]
    if k == "cast":
        return ["cast", sx_ty(e[1]), sx(e[2])]
    if k == "postfix":
        return ["postfix", hx(e[1]), sx(e[2])]
    if k == "call":
        return ["call", sx(e[1]), ["LIST"] + [sx(a) for a in e[2]]]
    if k == "index":
        return ["index", sx(e[1]), sx(e[2])]
    if k == "member":
        return ["member", sx(e[1]), e[2]]
    if k == "new":
        return ["new", sx_ty(e[1]), ["LIST"] + [sx(a) for a in e[2]]]
    if k == "arrlit":
        return ["arrlit", ["LIST"] + [sx(a) for a in e[1]]]
    if k == "paren":
        return sx(e[1])
    if k == "measure":
        return ["measure", sx(e[1])]
    if k == "assign":
        return ["assign", e[1], sx(e[2])]
    if k == "massign":
        return ["massign", sx(e[1]), e[2], sx(e[3])]
    if k == "aassign":
        return ["aassign", sx(e[1]), sx(e[2]), sx(e[3])]
    raise ValueError(e)


def parse_sexpr(text):
    """S-expression text -> nested lists; [..] lists become ['LIST', ...]; @L:C positions dropped;
    (paren X @..) collapsed to X."""
    toks = re.findall(r"[()\[\]]|[^\s()\[\]]+", text)
    pos = 0

    def rd():
        nonlocal pos
        t = toks[pos]
        pos += 1
        if t == "(":
            out = []
            while toks[pos] != ")":
                x = rd()
                if not (isinstance(x, str) and x.startswith("@")):
                    out.append(x)
            pos += 1
            if out and out[0] == "paren":
                return out[1]
            return out
        if t == "[":
            out = ["LIST"]
            while toks[pos] != "]":
                out.append(rd())
            pos += 1
            return out
        return t
    return rd()


# ------------------------------------------------------------------ generators
def gen_expr(rng, depth, allow_assign=True, allow_measure=True):
    if depth <= 0 or rng.random() < 0.18:
        u = rng.random()
        if u < 0.45:
            return ("var", rng.choice(NAMES))
        if u < 0.9:
            v, t = rng.choice(LITS)
            return ("lit", v, t)
        return (rng.choice(["null", "this"]),)
    k = rng.random()
    sub = lambda **kw: gen_expr(rng, depth - 1, **kw)
    if k < 0.40:
        return ("bin", rng.choice(BINOPS), sub(), sub())
    if k < 0.50:
        return ("un", rng.choice(UNOPS), sub(allow_assign=False))
    if k < 0.56:
        return ("cast", ("prim", rng.choice(CAST_TYPES)), sub(allow_assign=False))
    if k < 0.62:
        return ("postfix", rng.choice(["++", "--"]), sub(allow_assign=False))
    if k < 0.72:
        return ("call", sub(allow_assign=False), [sub() for _ in range(rng.randrange(0, 3))])
    if k < 0.79:
        idx = sub()
        if idx[0] == "lit" or (idx[0] == "un" and idx[1] == "-"):
            idx = ("var", "i")          # constant negative indices are rejected on purpose; keep indices symbolic
        return ("index", sub(allow_assign=False), idx)
    if k < 0.85:
        return ("member", sub(allow_assign=False), rng.choice(NAMES))
    if k < 0.88:
        return ("new", ("named", [rng.choice(["Foo", "Bar"])], [], False), [sub() for _ in range(rng.randrange(0, 3))])
    if k < 0.91:
        return ("arrlit", [sub() for _ in range(rng.randrange(0, 3))])
    if k < 0.94 and allow_measure:
        return ("measure", sub())
    if k < 0.97 and allow_assign:
        t = rng.random()
        if t < 0.5:
            return ("assign", rng.choice(NAMES), sub())
        if t < 0.75:
            return ("massign", sub(allow_assign=False), rng.choice(NAMES), sub())
        return ("aassign", sub(allow_assign=False), ("var", "i"), sub())
    return ("paren", sub())


def all_exprs(size, leaves, binops, unops):
    """every expression tree with exactly `size` operator nodes over the given leaves/operators
    (binary, prefix, cast, postfix ++, call with one arg, index, member)"""
    if size == 0:
        for l in leaves:
            yield l
        return
    for a in all_exprs(size - 1, leaves, binops, unops):
        for op in unops:
            yield ("un", op, a)
        yield ("cast", ("prim", "float"), a)
        yield ("postfix", "++", a)
        yield ("member", a, "m")
        yield ("call", a, [])
    for k in range(size):
        for a in all_exprs(k, leaves, binops, unops):
            for b in all_exprs(size - 1 - k, leaves, binops, unops):
                for op in binops:
                    yield ("bin", op, a, b)
                if size - 1 - k == 0:
                    yield ("index", a, ("var", "i"))


# after the lookahead repair only `Id < type-argument-like tokens > Id` is still claimed as a type (known finding C14-generic-lookahead)
FALSE_TYPEAHEAD = re.compile(r"(^|\(|;|\{|\}|:)\s*[A-Za-z_]\w*(\s*\.\s*[A-Za-z_]\w*)*\s*<[\w\s.,<>\[\]]*>\s*[A-Za-z_]")
