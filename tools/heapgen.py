"""Heap-shape programs for C11/C12: a `Node` class with two reference fields, four variables, and operations that build, share,
cut and walk object graphs (including cycles, cyclic garbage, objects held only by a pending argument or a return value).
`ops` is the description the Lean heap model (Driver `heap` command) executes; `source()` renders the same ops as Bloch."""

NV = 4


class HeapProgram:
    def __init__(self, rng, n_ops=None, dtor=False):
        r = rng
        self.dtor = dtor
        self.ops = []
        nid = 1
        n_ops = n_ops or r.randrange(6, 22)
        for _ in range(n_ops):
            k = r.random()
            v, w = r.randrange(NV), r.randrange(NV)
            if k < 0.22:
                self.ops.append(("new", v, nid)); nid += 1
            elif k < 0.36:
                self.ops.append((r.choice(["seta", "setb"]), v, w))
            elif k < 0.46:
                self.ops.append((r.choice(["geta", "getb"]), v, w))
            elif k < 0.54:
                self.ops.append(("null", v))
            elif k < 0.66:
                self.ops.append(("show", v))
            elif k < 0.74:
                self.ops.append(("showa", v))
            elif k < 0.82:
                self.ops.append(("churn", r.randrange(1, 4)))
            elif k < 0.92:
                self.ops.append(("link", v, nid, nid + 1)); nid += 2
            elif k < 0.96 or not dtor:
                self.ops.append(("walk", v, r.randrange(1, 5)))
            else:
                # destructor programs only (no Lean reference): an owner WITHOUT a destructor that holds a Node WITH one and is also
                # referenced from a dead cycle; an object with a qubit field held only as a pending argument while the callee churns
                self.ops.append(r.choice([("hold", v, nid), ("pendq", nid, nid + 1)])); nid += 2
        for v in range(NV):
            self.ops.append(("walk", v, 3))

    def model_ops(self):
        return ";".join(",".join(str(x) for x in op) for op in self.ops)

    def source(self):
        d = " public destructor() -> void { echo(\"d\" + id); }" if self.dtor else ""
        extra = []
        if any(op[0] in ("hold", "pendq") for op in self.ops):
            extra = ["class Hold { public Node h; public Hold link; public Hold keep; public constructor() -> Hold = default; }",
                     "class QNode { public qubit q; public Node child; public constructor() -> QNode = default; }",
                     "function mkq(int i) -> QNode { QNode t = new QNode(); t.child = new Node(i); return t; }",
                     "function useq(QNode x, Node y) -> int { return x.child.id * 1000 + y.id; }"]
        L = ["class Node { public int id; public Node a; public Node b; public constructor(int id) -> Node { this.id = id; return this; }%s }" % d,
             "function churn(int n) -> void { int i = 0; while (i < n) { Node p = new Node(0 - 1); Node q = new Node(0 - 2); p.a = q; q.a = p; i = i + 1; } }",
             "function mk(int i) -> Node { churn(2); Node r = new Node(i); return r; }",
             "function link(Node x, Node y) -> Node { x.a = y; y.b = x; return x; }"] + extra + [
             "function main() -> void {"]
        for v in range(NV):
            L.append("    Node v%d = null;" % v)
        for op in self.ops:
            k = op[0]
            if k == "new":
                L.append("    v%d = new Node(%d);" % (op[1], op[2]))
            elif k in ("seta", "setb"):
                L.append("    if (v%d != null) { v%d.%s = v%d; }" % (op[1], op[1], k[-1], op[2]))
            elif k in ("geta", "getb"):
                L.append("    if (v%d != null) { v%d = v%d.%s; }" % (op[1], op[2], op[1], k[-1]))
            elif k == "null":
                L.append("    v%d = null;" % op[1])
            elif k == "show":
                L.append("    if (v%d == null) { echo(\"null\"); } else { echo(v%d.id); }" % (op[1], op[1]))
            elif k == "showa":
                L.append("    if (v%d != null) { if (v%d.a == null) { echo(\"a-null\"); } else { echo(v%d.a.id); } } else { echo(\"null\"); }"
                         % (op[1], op[1], op[1]))
            elif k == "churn":
                L.append("    churn(%d);" % op[1])
            elif k == "link":
                L.append("    v%d = link(new Node(%d), mk(%d));" % (op[1], op[2], op[3]))
            elif k == "hold":
                # k owns a Node, a dead cycle keeps a reference to k, collections may run, then the last live reference goes
                L.append("    { Hold k = new Hold(); k.h = new Node(%d); { Hold g1 = new Hold(); Hold g2 = new Hold(); g1.link = g2; g2.link = g1; g1.keep = k; } "
                         "churn(1); if (v%d != null) { echo(v%d.id); } k = null; churn(1); echo(\"held\"); }" % (op[2], op[1], op[1]))
            elif k == "pendq":
                L.append("    echo(useq(mkq(%d), mk(%d)));" % (op[1], op[2]))
            elif k == "walk":
                L.append("    { Node c = v%d; int i = 0; while (i < %d) { if (c != null) { echo(c.id); c = c.a; } i = i + 1; } }" % (op[1], op[2]))
        L.append("}")
        text = "\n".join(L)
        # main's four variables get different names from program to program (never consuming the generator's randomness): the order in
        # which they die at the end of main must be the reverse of their declaration, whatever they are called
        sets = [["v0", "v1", "v2", "v3"], ["a", "b", "e", "d"], ["w", "u", "s", "z"], ["first", "b2", "k", "zz"], ["n1", "n2", "n3", "n4"]]
        names = sets[(len(self.ops) + sum(op[1] for op in self.ops if len(op) > 1 and isinstance(op[1], int))) % len(sets)]
        import re as _re
        return _re.sub(r"\bv([0-3])\b", lambda m: names[int(m.group(1))], text)
