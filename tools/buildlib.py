"""Build cache for the Lean project and the C++ harnesses.

Everything is rebuilt from /repo's *current working tree*: the cache key is the sha256 of the
source files a target compiles (plus flags and the harness source), so an edit to /repo gives
a new key and a fresh build.  Cache lives under /verif/.build (never /tmp); stale entries of
the same target are pruned.  All builds are serialised with flock so that several property
checks can run side by side.
"""
import fcntl
import hashlib
import os
import shutil
import subprocess
import sys
import time
from concurrent.futures import ThreadPoolExecutor

VERIF = os.path.dirname(os.path.dirname(os.path.abspath(__file__)))
REPO = os.environ.get("VERIF_REPO", "/repo")
BUILD = os.path.join(VERIF, ".build")
LEAN = os.path.join(VERIF, "lean")
GUARD = "BLOCH_VERIF"

CORE_SOURCES = [
    "src/bloch/compiler/import/module_loader.cpp",
    "src/bloch/compiler/lexer/lexer.cpp",
    "src/bloch/compiler/parser/parser.cpp",
    "src/bloch/compiler/semantics/built_ins.cpp",
    "src/bloch/compiler/semantics/semantic_analyser.cpp",
    "src/bloch/compiler/semantics/type_system.cpp",
    "src/bloch/runtime/qasm_simulator.cpp",
    "src/bloch/runtime/runtime_evaluator.cpp",
]

FLAVOURS = {
    "plain": ["-O1", "-g0"],
    # signed-integer-overflow and float-cast-overflow are excluded on purpose: wrap-around of int/long arithmetic and out-of-range
    # float->int casts do not crash the interpreter (the properties speak of signals, memory errors and raw exceptions); the values
    # they produce on this target are part of the evaluator model (wrap32/wrap64/floatToInt32). INT_MIN / -1 and % -1 still trap in
    # hardware (SIGFPE) and are reported as CRASH.
    "asan": ["-O1", "-g", "-fsanitize=address,undefined", "-fno-sanitize=signed-integer-overflow,float-cast-overflow",
             "-fno-sanitize-recover=all", "-fno-omit-frame-pointer"],
}


class BuildError(Exception):
    pass


def _lock(name):
    os.makedirs(BUILD, exist_ok=True)
    f = open(os.path.join(BUILD, name + ".lock"), "w")
    fcntl.flock(f, fcntl.LOCK_EX)
    return f


def _all_headers():
    out = []
    for root, _d, files in os.walk(os.path.join(REPO, "src")):
        for fn in files:
            if fn.endswith((".hpp", ".h")) and "third_party" not in root:
                out.append(os.path.join(root, fn))
    return sorted(out)


def hash_files(paths, extra=""):
    h = hashlib.sha256()
    h.update(extra.encode())
    for p in paths:
        h.update(p.encode())
        try:
            with open(p, "rb") as f:
                h.update(f.read())
        except OSError:
            h.update(b"<missing>")
    return h.hexdigest()[:16]


def _prune(prefix, keep):
    for d in os.listdir(BUILD):
        if d.startswith(prefix) and d != keep and os.path.isdir(os.path.join(BUILD, d)):
            shutil.rmtree(os.path.join(BUILD, d), ignore_errors=True)


def run(cmd, **kw):
    return subprocess.run(cmd, stdout=subprocess.PIPE, stderr=subprocess.STDOUT, text=True, **kw)


def build_core(flavour="plain"):
    """Compile the compiler+runtime sources of /repo (hooks on) into a static library."""
    flags = ["-std=c++20", "-D" + GUARD, "-I" + os.path.join(REPO, "src")] + FLAVOURS[flavour]
    srcs = [os.path.join(REPO, s) for s in CORE_SOURCES]
    key = hash_files(srcs + _all_headers(), " ".join(flags))
    name = "core-%s-%s" % (flavour, key)
    out = os.path.join(BUILD, name)
    lib = os.path.join(out, "libbloch_core.a")
    lk = _lock("core-" + flavour)
    try:
        if os.path.exists(lib):
            return lib, flags, key
        tmp = out + ".tmp"
        shutil.rmtree(tmp, ignore_errors=True)
        os.makedirs(tmp)

        def cc(src):
            obj = os.path.join(tmp, os.path.basename(src)[:-4] + ".o")
            r = run(["g++"] + flags + ["-c", src, "-o", obj])
            if r.returncode != 0:
                raise BuildError("compiling %s failed:\n%s" % (src, r.stdout[-4000:]))
            return obj

        with ThreadPoolExecutor(8) as ex:
            objs = list(ex.map(cc, srcs))
        r = run(["ar", "rcs", os.path.join(tmp, "libbloch_core.a")] + objs)
        if r.returncode != 0:
            raise BuildError(r.stdout)
        shutil.rmtree(out, ignore_errors=True)
        os.rename(tmp, out)
        _prune("core-%s-" % flavour, name)
        return lib, flags, key
    finally:
        lk.close()


def build_harness(name, flavour="plain", needs_core=True, extra_srcs=(), extra_flags=(), libs=(), compile_extra=False):
    """Compile /verif/harness/<name>.cpp against the current /repo sources."""
    hsrc = os.path.join(VERIF, "harness", name + ".cpp")
    common = os.path.join(VERIF, "harness", "common.hpp")
    if needs_core:
        lib, flags, ckey = build_core(flavour)
    else:
        lib, ckey = None, ""
        flags = ["-std=c++20", "-D" + GUARD, "-I" + os.path.join(REPO, "src")] + FLAVOURS[flavour]
    extra = [os.path.join(REPO, s) for s in extra_srcs]
    import glob as _glob
    hdrs = sorted(_glob.glob(os.path.join(VERIF, "harness", "*.hpp")))
    key = hash_files([hsrc] + hdrs + extra + ([] if needs_core else _all_headers()),
                     ckey + " ".join(flags) + " ".join(extra_flags) + " ".join(libs))
    dname = "h-%s-%s-%s" % (name, flavour, key)
    out = os.path.join(BUILD, dname)
    exe = os.path.join(out, name)
    lk = _lock("h-" + name + "-" + flavour)
    try:
        if os.path.exists(exe):
            return exe
        tmp = out + ".tmp"
        shutil.rmtree(tmp, ignore_errors=True)
        os.makedirs(tmp)
        cmd = ["g++"] + flags + list(extra_flags) + ["-I" + os.path.join(VERIF, "harness"),
                                                   hsrc] + (extra if compile_extra else []) + ["-o", os.path.join(tmp, name)]
        if lib:
            cmd += [lib]
        cmd += list(libs) + ["-lpthread"]
        r = run(cmd)
        if r.returncode != 0:
            raise BuildError("building harness %s failed:\n%s" % (name, r.stdout[-6000:]))
        shutil.rmtree(out, ignore_errors=True)
        os.rename(tmp, out)
        _prune("h-%s-%s-" % (name, flavour), dname)
        return exe
    finally:
        lk.close()


def build_cli(flavour="plain"):
    """The real CLI (cli.cpp + update manager + core) behind harness/cli_harness.cpp's main."""
    return build_harness("cli_harness", flavour=flavour,
                         extra_srcs=["src/bloch/cli/cli.cpp", "src/bloch/update/update_manager.cpp"],
                         extra_flags=["-DCPPHTTPLIB_OPENSSL_SUPPORT"], libs=["-lssl", "-lcrypto"], compile_extra=True)


def lake_build(targets=("BlochVerif", "driver")):
    """`lake build` (serialised). Returns (ok, log)."""
    lk = _lock("lake")
    try:
        t0 = time.time()
        r = run(["lake", "build"] + list(targets), cwd=LEAN)
        return r.returncode == 0, r.stdout, time.time() - t0
    finally:
        lk.close()


def driver_path():
    return os.path.join(LEAN, ".lake", "build", "bin", "driver")


if __name__ == "__main__":
    what = sys.argv[1] if len(sys.argv) > 1 else "all"
    if what in ("all", "lean"):
        ok, log, dt = lake_build()
        print("lake build: %s in %.1fs" % ("ok" if ok else "FAILED", dt))
        if not ok:
            print(log[-5000:])
            sys.exit(1)
    if what in ("all", "core"):
        t0 = time.time()
        print(build_core("plain")[0], "%.1fs" % (time.time() - t0))
