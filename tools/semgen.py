"""Rule x position matrix for C16: every case is a pair (violating program, the same program without the violation).
`cases()` yields dicts {rule, position, bad, good}.  Positions are the syntactic places a statement or expression can be written:
main body, nested block, if/else branch, while body, for body and header, ternary statement branch, function body, method body,
constructor body, static method body, destructor body; expressions additionally as call argument, binary operand, echo argument,
condition and array index."""

PRELUDE = """class Base { public int pub = 1; private int priv = 2; protected int prot = 3; public static int sp = 4; private static int ssec = 5;
    public constructor() -> Base = default;
    private function hidden() -> int { return 1; }
    protected function guarded() -> int { return 2; }
    public function open() -> int { return this.priv + hidden(); }
    private static function shid() -> int { return 7; } }
class Derived extends Base { public constructor() -> Derived = default; public function viaProt() -> int { return this.prot + guarded(); } }
class Other { public constructor() -> Other = default; }
static class Util { public static int n = 0; public static function twice(int a) -> int { return a * 2; } }
abstract class Shape { public constructor() -> Shape = default; public virtual function area() -> int; }
class Square extends Shape { public constructor() -> Square = default; public override function area() -> int { return 4; } }
function takesArr(int[] a) -> int { return 1; }
function takesInt(int a) -> int { return a; }
function takesLong(long a) -> long { return a; }
function takesString(string a) -> string { return a; }
function takesBase(Base a) -> int { return a.pub; }
function takesFloat(float a) -> float { return a; }
function nothing() -> void { }
function mkArr() -> int[] { int[] a = {1, 2}; return a; }
class Vm { public constructor() -> Vm = default; public function go() -> void { } public function arr(int[] a) -> int { return 2; } }
"""

# statement contexts: %s is replaced by a statement sequence; every context is a complete program (after PRELUDE)
STMT_CONTEXTS = {
    "main": "function main() -> void { %s }",
    "block": "function main() -> void { { { %s } } }",
    "if": "function main() -> void { int c0 = 1; if (c0 == 1) { %s } }",
    "else": "function main() -> void { int c0 = 1; if (c0 == 2) { echo(0); } else { %s } }",
    "while": "function main() -> void { int c0 = 0; while (c0 < 1) { %s c0 = c0 + 1; } }",
    "for": "function main() -> void { for (int c0 = 0; c0 < 1; c0 = c0 + 1) { %s } }",
    "ternary-stmt": None,     # only for single simple statements, built separately
    "function": "function helper() -> void { %s }\nfunction main() -> void { helper(); }",
    "method": "class Host { public constructor() -> Host = default; public function m() -> void { %s } }\nfunction main() -> void { Host h = new Host(); h.m(); }",
    "constructor": "class Host { public constructor() -> Host { %s return this; } }\nfunction main() -> void { Host h = new Host(); }",
    "static-method": "class Host { public constructor() -> Host = default; public static function sm() -> void { %s } }\nfunction main() -> void { Host.sm(); }",
    "destructor": "class Host { public constructor() -> Host = default; public destructor() -> void { %s } }\nfunction main() -> void { Host h = new Host(); destroy h; }",
}

# expression contexts: {E} is the expression of type {T}; each is a statement using it
EXPR_CONTEXTS = {
    "initialiser": "{T} t0 = {E};",
    "echo-arg": "echo({E});",
    "paren": "{T} t0 = ({E});",
}

VALUES = {"int": "5", "long": "5L", "float": "2.5f", "string": "\"s\"", "bit": "1b", "boolean": "true", "char": "'c'",
          "Base": "new Base()", "Derived": "new Derived()", "Other": "new Other()", "null": "null",
          "int[]": "mkArr()", "string[]": "{\"a\"}"}
TAKES = {"int": "takesInt", "long": "takesLong", "string": "takesString", "Base": "takesBase", "float": "takesFloat"}

# (expected, actual, compatible?)
TYPE_PAIRS = [("int", "string", False), ("int", "float", False), ("int", "Base", False), ("int", "long", False), ("int", "null", False),
              ("int", "boolean", False), ("int", "int[]", False),
              ("string", "int", False), ("string", "Base", False), ("string", "null", False), ("string", "char", False),
              ("long", "int", True), ("long", "float", False), ("long", "string", False),
              ("float", "string", False), ("float", "Base", False),
              ("Base", "Derived", True), ("Base", "Other", False), ("Base", "null", True), ("Base", "int", False), ("Base", "string", False),
              ("Derived", "Base", False), ("int", "int", True), ("string", "string", True), ("Base", "Base", True)]


def typed_positions(expected, actual):
    """the value `actual` written where `expected` is declared: initialiser, assignment, argument, return, field initialiser,
    field assignment (this.f and bare), method argument, constructor argument, array element"""
    v = VALUES[actual]
    ok = VALUES[expected] if expected in VALUES else None
    P = {}
    P["initialiser"] = ("%s t0 = %s;" % (expected, v), "")
    P["assignment"] = ("%s t0 = %s; t0 = %s;" % (expected, ok, v), "")
    if expected in TAKES:
        P["argument"] = ("%s(%s);" % (TAKES[expected], v), "")
        P["nested-argument"] = ("echo(%s(%s));" % (TAKES[expected], v), "")
    P["return"] = ("echo(1);", "function produce() -> %s { return %s; }\n" % (expected, v))
    P["field-initialiser"] = ("echo(1);", "class Holder { public %s f = %s; public constructor() -> Holder = default; }\n" % (expected, v))
    P["field-assignment-this"] = ("echo(1);", "class Holder { public %s f = %s; public constructor() -> Holder = default; public function set() -> void { this.f = %s; } }\n" % (expected, ok, v))
    P["field-assignment-bare"] = ("echo(1);", "class Holder { public %s f = %s; public constructor() -> Holder = default; public function set() -> void { f = %s; } }\n" % (expected, ok, v))
    P["field-assignment-object"] = ("Holder hh = new Holder(); hh.f = %s;" % v, "class Holder { public %s f = %s; public constructor() -> Holder = default; }\n" % (expected, ok))
    P["method-argument"] = ("Holder hh = new Holder(); hh.take(%s);" % v, "class Holder { public constructor() -> Holder = default; public function take(%s a) -> void { } }\n" % expected)
    P["constructor-argument"] = ("Holder hh = new Holder(%s);" % v, "class Holder { public constructor(%s a) -> Holder { return this; } }\n" % expected)
    P["static-field-assignment"] = ("Holder.sf = %s;" % v, "class Holder { public static %s sf = %s; public constructor() -> Holder = default; }\n" % (expected, ok))
    return P


MODEL_TY = {"int": "int", "long": "long", "float": "float", "string": "string", "bit": "bit", "boolean": "boolean", "char": "char",
            "Base": "C0", "Derived": "C1", "null": "null", "int[]": "int[]"}
MODEL_POS = {"initialiser": "init", "field-initialiser": "init", "assignment": "assign", "argument": "arg", "nested-argument": "arg",
             "method-argument": "arg", "constructor-argument": "arg", "return": "ret", "field-assignment-this": "field",
             "field-assignment-bare": "field", "field-assignment-object": "field", "static-field-assignment": "field"}


def cases():
    out = []

    def add(rule, position, bad, good):
        out.append({"rule": rule, "position": position, "bad": PRELUDE + bad, "good": PRELUDE + good})

    # ---- declared-type compatibility: every pair x every typed position x a few statement contexts
    for expected, actual, compat in TYPE_PAIRS:
        for pos, (stmt, decl) in typed_positions(expected, actual).items():
            for ctx in ("main", "while", "method", "constructor"):
                prog = decl + (STMT_CONTEXTS[ctx] % stmt)
                model = None
                if expected in MODEL_TY and actual in MODEL_TY:
                    model = "sem %s %s %s" % (MODEL_POS[pos], MODEL_TY[expected], MODEL_TY[actual])
                if compat:
                    out.append({"rule": "type-accept %s<-%s" % (expected, actual), "position": pos + "@" + ctx, "bad": None, "good": PRELUDE + prog,
                                "model": model, "typed": prog})
                else:
                    gstmt, gdecl = typed_positions(expected, expected)[pos]
                    add("type %s<-%s" % (expected, actual), pos + "@" + ctx, prog, gdecl + (STMT_CONTEXTS[ctx] % gstmt))
                    out[-1]["model"] = model

    # ---- statements that violate a rule, with their repaired twin, in every statement context
    STMTS = [
        ("final-assign", "final int k = 1; k = 2;", "int k = 1; k = 2;"),
        ("final-increment", "final int k = 1; k++;", "int k = 1; k++;"),
        ("final-decrement", "final long k = 1L; k--;", "long k = 1L; k--;"),
        ("final-assign-nested", "final int k = 1; { if (k == 1) { k = 3; } }", "int k = 1; { if (k == 1) { k = 3; } }"),
        ("final-assign-for-header", "final int k = 0; for (k = 0; k < 1; k = k + 1) { echo(k); }", "int k = 0; for (k = 0; k < 1; k = k + 1) { echo(k); }"),
        ("use-before-declaration", "echo(late); int late = 1;", "int late = 1; echo(late);"),
        ("use-before-declaration-in-cast", "float fc = (float) late2; int late2 = 1;", "int late2 = 1; float fc = (float) late2;"),
        ("final-assign-in-cast-operand", "final int k = 1; float fc = (float) (k = 2);", "int k = 1; float fc = (float) (k = 2);"),
        ("final-assign-in-argument", "final int k = 1; takesInt(k = 2);", "int k = 1; takesInt(k = 2);"),
        ("final-assign-in-index", "final int k = 0; int[] fa = {1, 2}; echo(fa[k = 1]);", "int k = 0; int[] fa = {1, 2}; echo(fa[k = 1]);"),
        ("final-increment-in-operand", "final int k = 1; int r = k++ + 1;", "int k = 1; int r = k++ + 1;"),
        ("undeclared-in-cast", "float fc = (float) ghost2;", "int ghost2 = 1; float fc = (float) ghost2;"),
        ("private-field-in-cast", "Base pb = new Base(); float fc = (float) pb.priv;", "Base pb = new Base(); float fc = (float) pb.pub;"),
        ("use-in-own-initialiser", "int selfy = selfy + 1;", "int selfy = 1 + 1;"),
        ("undeclared", "ghost = 1;", "int ghost = 1;"),
        ("redeclaration", "int twice = 1; int twice = 2;", "int twice = 1; int once = 2;"),
        ("redeclaration-inner", "int twice = 1; { int twice = 2; }", "int twice = 1; { int once = 2; }"),
        ("void-assigned", "int r = nothing();", "nothing(); int r = 1;"),
        ("void-argument", "takesInt(nothing());", "nothing(); takesInt(1);"),
        ("void-operand", "int r = nothing() + 1;", "nothing(); int r = 1 + 1;"),
        ("void-echo", "echo(nothing());", "nothing(); echo(1);"),
        ("void-concat-operand", "echo(\"a\" + nothing());", "nothing(); echo(\"a\" + 1);"),
        ("void-concat-initialiser", "string vs = \"a\" + nothing();", "nothing(); string vs = \"a\" + 1;"),
        ("void-left-operand", "int r = nothing() * 2;", "nothing(); int r = 1 * 2;"),
        ("void-comparison-operand", "boolean r = nothing() == 1;", "nothing(); boolean r = 1 == 1;"),
        ("void-unary-operand", "int r = -nothing();", "nothing(); int r = -1;"),
        ("void-condition", "if (nothing()) { echo(1); }", "nothing(); if (true) { echo(1); }"),
        ("void-index", "int[] va = {1, 2}; echo(va[nothing()]);", "nothing(); int[] va = {1, 2}; echo(va[0]);"),
        ("void-array-element", "int[] va = {nothing()};", "nothing(); int[] va = {1};"),
        ("void-method-result-assigned", "Vm vm = new Vm(); int r = vm.go();", "Vm vm = new Vm(); vm.go(); int r = 1;"),
        ("void-method-result-operand", "Vm vm = new Vm(); echo(\"a\" + vm.go());", "Vm vm = new Vm(); vm.go(); echo(\"a\" + 1);"),
        ("void-cast-operand", "int r = (int) nothing();", "nothing(); int r = (int) 1.5f;"),
        ("void-variable", "void nv;", "int nv;"),
        ("private-field-read", "Base pb = new Base(); echo(pb.priv);", "Base pb = new Base(); echo(pb.pub);"),
        ("private-field-write", "Base pb = new Base(); pb.priv = 9;", "Base pb = new Base(); pb.pub = 9;"),
        ("private-method-call", "Base pb = new Base(); echo(pb.hidden());", "Base pb = new Base(); echo(pb.open());"),
        ("protected-field-read", "Base pb = new Base(); echo(pb.prot);", "Base pb = new Base(); echo(pb.pub);"),
        ("protected-method-call", "Derived pd = new Derived(); echo(pd.guarded());", "Derived pd = new Derived(); echo(pd.viaProt());"),
        ("private-static-read", "echo(Base.ssec);", "echo(Base.sp);"),
        ("private-static-call", "echo(Base.shid());", "echo(Util.twice(2));"),
        ("instantiate-static", "Util u = new Util();", "echo(Util.twice(1));"),
        ("instantiate-abstract", "Shape sh = new Shape();", "Shape sh = new Square();"),
        ("null-primitive-init", "int z = null;", "Base z = null;"),
        ("null-primitive-assign", "int z = 1; z = null;", "Base z = new Base(); z = null;"),
        ("null-primitive-argument", "takesInt(null);", "takesBase(null);"),
        ("null-array-init", "int[] za = null;", "int[] za = {1};"),
        ("null-index-read", "int[] za = {1, 2}; echo(za[null]);", "int[] za = {1, 2}; echo(za[0]);"),
        ("null-index-write", "int[] za = {1, 2}; za[null] = 3;", "int[] za = {1, 2}; za[0] = 3;"),
        ("null-indexed", "echo(null[0]);", "int[] za = {1}; echo(za[0]);"),
        ("class-reference-into-int-array-element", "int[] za = {1, 2}; za[0] = new Vm();", "int[] za = {1, 2}; za[0] = 3;"),
        ("array-into-int-array-element", "int[] za = {1, 2}; int[] zb = {3}; za[0] = zb;", "int[] za = {1, 2}; int[] zb = {3}; za[0] = zb[0];"),
        ("int-into-class-array-element", "Vm[] zv = {new Vm()}; zv[0] = 5;", "Vm[] zv = {new Vm()}; zv[0] = new Vm();"),
        ("string-into-float-array-element", "float[] zf = {1.5f}; zf[0] = \"s\";", "float[] zf = {1.5f}; zf[0] = 2.5f;"),
        ("assignment-value-wrong-type-initialiser", "float zf = 0.5f; int zx = (zf = 1.5f); echo(zx);", "float zf = 0.5f; float zy = (zf = 1.5f); echo(zy);"),
        ("assignment-value-wrong-type-argument", "float zf = 0.5f; takesInt(zf = 1.5f);", "int zi = 1; takesInt(zi = 2);"),
        ("assignment-value-long-into-int", "long zl = 1L; int zx = (zl = 5); echo(zx);", "long zl = 1L; long zy = (zl = 5); echo(zy);"),
        ("element-assignment-value-as-int", "int[] za = {1, 2}; int zx = (za[0] = 5); echo(zx);", "int[] za = {1, 2}; int[] zc = (za[0] = 5); echo(zc[0]);"),
        ("final-array-element-assigned", "final int[] zq = {1, 2}; zq[0] = 5; echo(zq[0]);", "int[] zq = {1, 2}; zq[0] = 5; echo(zq[0]);"),
        ("final-array-element-assigned-nested", "final int[] zq = {1, 2}; echo((zq[1] = 7)[1]);", "int[] zq = {1, 2}; echo((zq[1] = 7)[1]);"),
        ("null-array-argument", "echo(takesArr(null));", "int[] za = {1}; echo(takesArr(za));"),
        ("null-array-argument-method", "Vm vm = new Vm(); echo(vm.arr(null));", "Vm vm = new Vm(); int[] za = {1}; echo(vm.arr(za));"),
        ("null-array-assign", "int[] za = {1}; za = null;", "int[] za = {1}; za = {2};"),
        ("null-in-primitive-array-literal", "int[] za = {null};", "int[] za = {1};"),
        ("null-compare-primitive", "int z = 1; if (z == null) { echo(1); }", "Base z = null; if (z == null) { echo(1); }"),
        ("condition-not-boolean", "int z = 1; if (z) { echo(1); }", "int z = 1; if (z == 1) { echo(1); }"),
        ("measure-non-qubit", "int z = 1; measure z;", "qubit z; measure z;"),
        ("destroy-non-class", "int z = 1; destroy z;", "Base z = new Base(); destroy z;"),
    ]
    for rule, bad, good in STMTS:
        for ctx, tmpl in STMT_CONTEXTS.items():
            if tmpl is None:
                continue
            if ctx in ("constructor", "destructor", "static-method", "method") and rule.startswith(("private", "protected")) and False:
                continue
            add(rule, ctx, tmpl % bad, tmpl % good)

    # ---- single simple statements inside a ternary statement branch
    TERN = [("final-assign", "final int k = 1; int c0 = 1; c0 == 1 ? k = 2; : k = 3;", "int k = 1; int c0 = 1; c0 == 1 ? k = 2; : k = 3;"),
            ("type int<-string", "int t0 = 1; int c0 = 1; c0 == 1 ? t0 = \"s\"; : t0 = 2;", "int t0 = 1; int c0 = 1; c0 == 1 ? t0 = 3; : t0 = 2;"),
            ("undeclared", "int c0 = 1; c0 == 1 ? ghost = 2; : c0 = 3;", "int c0 = 1; int ghost = 0; c0 == 1 ? ghost = 2; : c0 = 3;")]
    for rule, bad, good in TERN:
        for ctx in ("main", "method", "constructor"):
            add(rule, "ternary-stmt@" + ctx, STMT_CONTEXTS[ctx] % bad, STMT_CONTEXTS[ctx] % good)

    # ---- return rules
    RET = [("return-value-in-void", "function rv() -> void { return 5; }", "function rv() -> void { return; }"),
           ("bare-return-in-non-void", "function rv() -> int { return; }", "function rv() -> int { return 5; }"),
           ("missing-return", "function rv() -> int { int a = 1; }", "function rv() -> int { int a = 1; return a; }"),
           ("return-value-in-void-method", "class RH { public constructor() -> RH = default; public function rv() -> void { return 5; } }",
            "class RH { public constructor() -> RH = default; public function rv() -> void { return; } }"),
           ("bare-return-in-non-void-method", "class RH { public constructor() -> RH = default; public function rv() -> int { return; } }",
            "class RH { public constructor() -> RH = default; public function rv() -> int { return 5; } }"),
           ("return-value-in-destructor", "class RH { public constructor() -> RH = default; public destructor() -> void { return 5; } }",
            "class RH { public constructor() -> RH = default; public destructor() -> void { return; } }"),
           ("return-value-in-void-nested", "function rv() -> void { int a = 1; if (a == 1) { while (a < 2) { return 5; } } }",
            "function rv() -> void { int a = 1; if (a == 1) { while (a < 2) { return; } } }"),
           ("void-parameter-function", "function vp(void a) -> int { return 1; }", "function vp(int a) -> int { return 1; }"),
           ("void-parameter-method", "class RH { public constructor() -> RH = default; public function vp(void a) -> int { return 1; } }",
            "class RH { public constructor() -> RH = default; public function vp(int a) -> int { return 1; } }"),
           ("void-parameter-constructor", "class RH { public constructor(void a) -> RH { return this; } }", "class RH { public constructor(int a) -> RH { return this; } }"),
           ("void-field", "class RH { public void vf; public constructor() -> RH = default; }", "class RH { public int vf; public constructor() -> RH = default; }"),
           ("quantum-return-int", "@quantum function qf() -> int { return 1; }", "@quantum function qf() -> bit { return 1b; }"),
           ("quantum-return-string", "@quantum function qf() -> string { return \"s\"; }", "@quantum function qf() -> void { }"),
           ("quantum-method-return-int", "class RH { public constructor() -> RH = default; @quantum public function qf() -> int { return 1; } }",
            "class RH { public constructor() -> RH = default; @quantum public function qf() -> bit { return 1b; } }"),
           ("shots-on-function", "@shots(3) function sf() -> void { }", "function sf() -> void { }"),
           ("shots-on-method", "class RH { public constructor() -> RH = default; @shots(3) public function sf() -> void { } }",
            "class RH { public constructor() -> RH = default; public function sf() -> void { } }"),
           ("this-in-static-method", "class RH { public int f = 1; public constructor() -> RH = default; public static function sm() -> int { return this.f; } }",
            "class RH { public int f = 1; public constructor() -> RH = default; public function sm() -> int { return this.f; } }"),
           ("this-in-static-nested", "class RH { public int f = 1; public constructor() -> RH = default; public static function sm() -> int { int a = 1; if (a == 1) { return takesInt(this.f + 1); } return 0; } }",
            "class RH { public int f = 1; public constructor() -> RH = default; public function sm() -> int { int a = 1; if (a == 1) { return takesInt(this.f + 1); } return 0; } }"),
           ("super-in-static-method", "class RD extends Base { public constructor() -> RD = default; public static function sm() -> int { return super.open(); } }",
            "class RD extends Base { public constructor() -> RD = default; public function sm() -> int { return super.open(); } }"),
           ("super-field-in-static-method", "class RD extends Base { public constructor() -> RD = default; public static function sm() -> int { return super.pub; } }",
            "class RD extends Base { public constructor() -> RD = default; public function sm() -> int { return super.pub; } }"),
           ("super-field-write-in-static-method", "class RD extends Base { public constructor() -> RD = default; public static function sm() -> void { super.pub = 3; } }",
            "class RD extends Base { public constructor() -> RD = default; public function sm() -> void { super.pub = 3; } }"),
           ("instance-field-in-static-method", "class RH { public int f = 1; public constructor() -> RH = default; public static function sm() -> int { return f; } }",
            "class RH { public static int f = 1; public constructor() -> RH = default; public static function sm() -> int { return f; } }"),
           ("static-field-initialiser-this", "class RH { public int f = 1; public static int g = this.f; public constructor() -> RH = default; }",
            "class RH { public int f = 1; public static int g = 2; public constructor() -> RH = default; }"),
           ("private-via-subclass-this", "class RD extends Base { public constructor() -> RD = default; public function peek() -> int { return this.priv; } }",
            "class RD extends Base { public constructor() -> RD = default; public function peek() -> int { return this.prot; } }"),
           ("private-via-subclass-bare", "class RD extends Base { public constructor() -> RD = default; public function peek() -> int { return priv; } }",
            "class RD extends Base { public constructor() -> RD = default; public function peek() -> int { return prot; } }"),
           ("private-method-via-super", "class RD extends Base { public constructor() -> RD = default; public function peek() -> int { return super.hidden(); } }",
            "class RD extends Base { public constructor() -> RD = default; public function peek() -> int { return super.guarded(); } }"),
           ("private-method-via-subclass-bare", "class RD extends Base { public constructor() -> RD = default; public function peek() -> int { return hidden(); } }",
            "class RD extends Base { public constructor() -> RD = default; public function peek() -> int { return guarded(); } }"),
           ("private-constructor", "class PC { private constructor() -> PC = default; }\nfunction mk() -> void { PC p = new PC(); }",
            "class PC { public constructor() -> PC = default; }\nfunction mk() -> void { PC p = new PC(); }"),
           ("private-base-constructor-implicit-super", "class PB { private constructor() -> PB { return this; } public constructor(int a) -> PB { return this; } }\nclass PD extends PB { public constructor() -> PD { return this; } }",
            "class PB { protected constructor() -> PB { return this; } public constructor(int a) -> PB { return this; } }\nclass PD extends PB { public constructor() -> PD { return this; } }"),
           ("private-base-constructor-explicit-super", "class PB { private constructor() -> PB { return this; } public constructor(int a) -> PB { return this; } }\nclass PD extends PB { public constructor() -> PD { super(); return this; } }",
            "class PB { public constructor() -> PB { return this; } public constructor(int a) -> PB { return this; } }\nclass PD extends PB { public constructor() -> PD { super(); return this; } }"),
           ("private-base-constructor-explicit-super-args", "class PB { public constructor() -> PB { return this; } private constructor(int a) -> PB { return this; } }\nclass PD extends PB { public constructor() -> PD { super(1); return this; } }",
            "class PB { public constructor() -> PB { return this; } protected constructor(int a) -> PB { return this; } }\nclass PD extends PB { public constructor() -> PD { super(1); return this; } }"),
           ("no-parameterless-base-constructor-implicit-super", "class PB { public constructor(int a) -> PB { return this; } }\nclass PD extends PB { public constructor() -> PD { return this; } }",
            "class PB { public constructor(int a) -> PB { return this; } }\nclass PD extends PB { public constructor() -> PD { super(1); return this; } }"),
           ("private-base-constructor-implicit-super-defaulted", "class PB { private constructor() -> PB { return this; } public constructor(int a) -> PB { return this; } }\nclass PD extends PB { public constructor() -> PD = default; }",
            "class PB { protected constructor() -> PB { return this; } public constructor(int a) -> PB { return this; } }\nclass PD extends PB { public constructor() -> PD = default; }"),
           ("private-base-constructor-implicit-super-defaulted-with-params", "class PB { private constructor() -> PB { return this; } public constructor(int a) -> PB { return this; } }\nclass PD extends PB { public int w; public constructor(int w) -> PD = default; }",
            "class PB { public constructor() -> PB { return this; } private constructor(int a) -> PB { return this; } }\nclass PD extends PB { public int w; public constructor(int w) -> PD = default; }"),
           ("no-parameterless-base-constructor-implicit-super-defaulted", "class PB { public constructor(int a) -> PB { return this; } }\nclass PD extends PB { public constructor() -> PD = default; }",
            "class PB { public constructor(int a) -> PB { return this; } public constructor() -> PB { return this; } }\nclass PD extends PB { public constructor() -> PD = default; }"),
           ("null-returned-for-array", "function ra() -> int[] { return null; }\nfunction ura() -> void { int[] z = ra(); }",
            "function ra() -> int[] { int[] z = {1}; return z; }\nfunction ura() -> void { int[] z = ra(); }"),
           ("null-returned-for-array-from-method", "class RN { public constructor() -> RN = default; public function ra() -> float[] { return null; } }",
            "class RN { public constructor() -> RN = default; public function ra() -> float[] { float[] z = {1.5f}; return z; } }"),
           ("null-returned-for-primitive", "function rp() -> int { return null; }", "function rp() -> int { return 1; }"),
           ("protected-constructor-from-outside", "class PP { protected constructor() -> PP = default; }\nfunction mk() -> void { PP p = new PP(); }",
            "class PP { protected constructor() -> PP = default; }\nclass PQ extends PP { public constructor() -> PQ { super(); return this; } }\nfunction mk() -> void { PQ p = new PQ(); }"),
           ("unrelated-class-with-colliding-name-concatenation",
            "class Box { public constructor() -> Box = default; }\nclass ItemList extends Box { public constructor() -> ItemList = default; }\nclass Item { public constructor() -> Item = default; }\nclass ListBox { public constructor() -> ListBox = default; }\nfunction cc() -> void { Box b = new ItemList(); ListBox lb = new Item(); }",
            "class Box { public constructor() -> Box = default; }\nclass ItemList extends Box { public constructor() -> ItemList = default; }\nclass Item { public constructor() -> Item = default; }\nclass ListBox { public constructor() -> ListBox = default; }\nfunction cc() -> void { Box b = new ItemList(); ListBox lb = new ListBox(); }"),
           ("unrelated-class-with-colliding-name-concatenation-2",
            "class AB { public constructor() -> AB = default; }\nclass C extends AB { public constructor() -> C = default; }\nclass A { public constructor() -> A = default; }\nclass BC { public constructor() -> BC = default; }\nfunction cc() -> void { AB p = new C(); A q = new BC(); BC r = new A(); }",
            "class AB { public constructor() -> AB = default; }\nclass C extends AB { public constructor() -> C = default; }\nclass A { public constructor() -> A = default; }\nclass BC { public constructor() -> BC = default; }\nfunction cc() -> void { AB p = new C(); A q = new A(); BC r = new BC(); }"),
           ("subclass-relation-is-not-symmetric",
            "class Up { public constructor() -> Up = default; }\nclass Down extends Up { public constructor() -> Down = default; }\nfunction cc() -> void { Up u = new Down(); Down d = new Up(); }",
            "class Up { public constructor() -> Up = default; }\nclass Down extends Up { public constructor() -> Down = default; }\nfunction cc() -> void { Up u = new Down(); Down d = new Down(); }"),
           ("final-field-assigned-in-method", "class RH { public final int ff = 1; public constructor() -> RH = default; public function set() -> void { this.ff = 2; } }",
            "class RH { public int ff = 1; public constructor() -> RH = default; public function set() -> void { this.ff = 2; } }"),
           ("final-field-assigned-bare-in-method", "class RH { public final int ff = 1; public constructor() -> RH = default; public function set() -> void { ff = 2; } }",
            "class RH { public int ff = 1; public constructor() -> RH = default; public function set() -> void { ff = 2; } }"),
           ("final-field-incremented", "class RH { public final int ff = 1; public constructor() -> RH = default; public function set() -> void { ff++; } }",
            "class RH { public int ff = 1; public constructor() -> RH = default; public function set() -> void { ff++; } }"),
           ("final-array-field-element-assigned-in-method", "class RH { public final int[] fa = {1, 2}; public constructor() -> RH = default; public function set() -> void { fa[0] = 2; } }",
            "class RH { public int[] fa = {1, 2}; public constructor() -> RH = default; public function set() -> void { fa[0] = 2; } }"),
           ("final-array-field-element-after-assignment-in-constructor", "class RH { public final int[] fa; public constructor() -> RH { fa = {1, 2}; fa[0] = 3; return this; } }",
            "class RH { public final int[] fa; public constructor() -> RH { fa = {3, 2}; return this; } }"),
           ("final-field-assigned-from-outside", "class RH { public final int ff = 1; public constructor() -> RH = default; }\nfunction poke() -> void { RH r = new RH(); r.ff = 3; }",
            "class RH { public int ff = 1; public constructor() -> RH = default; }\nfunction poke() -> void { RH r = new RH(); r.ff = 3; }"),
           ("final-field-twice-in-constructor", "class RH { public final int ff; public constructor() -> RH { this.ff = 1; this.ff = 2; return this; } }",
            "class RH { public final int ff; public constructor() -> RH { this.ff = 1; return this; } }"),
           ("final-field-conditional-in-constructor", "class RH { public final int ff; public constructor(int a) -> RH { if (a == 1) { this.ff = 1; } return this; } }",
            "class RH { public final int ff; public constructor(int a) -> RH { this.ff = 1; return this; } }"),
           ("final-field-ternary-in-constructor", "class RH { public final int ff; public constructor(int a) -> RH { a == 1 ? this.ff = 1; : this.ff = 2; return this; } }",
            "class RH { public final int ff; public constructor(int a) -> RH { this.ff = 1; return this; } }"),
           ("final-field-one-ternary-branch-in-constructor", "class RH { public final int ff; public constructor(int a) -> RH { a == 1 ? this.ff = 1; : echo(0); return this; } }",
            "class RH { public final int ff; public constructor(int a) -> RH { this.ff = 1; return this; } }"),
           ("final-field-in-else-in-constructor", "class RH { public final int ff; public constructor(int a) -> RH { if (a == 1) { echo(0); } else { this.ff = 1; } return this; } }",
            "class RH { public final int ff; public constructor(int a) -> RH { this.ff = 1; return this; } }"),
           ("final-field-in-block-in-constructor", "class RH { public final int ff; public constructor(int a) -> RH { { this.ff = 1; } return this; } }",
            "class RH { public final int ff; public constructor(int a) -> RH { this.ff = 1; return this; } }"),
           ("final-field-in-for-in-constructor", "class RH { public final int ff; public constructor(int a) -> RH { for (int i = 0; i < 1; i = i + 1) { this.ff = 1; } return this; } }",
            "class RH { public final int ff; public constructor(int a) -> RH { this.ff = 1; return this; } }"),
           ("final-field-in-for-increment-in-constructor", "class RH { public final int ff; public constructor(int a) -> RH { for (int i = 0; i < 3; ff = i) { i = i + 1; } return this; } }",
            "class RH { public final int ff; public constructor(int a) -> RH { int k = 0; for (int i = 0; i < 3; k = i) { i = i + 1; } ff = k; return this; } }"),
           ("final-field-in-for-increment-via-this-in-constructor", "class RH { public final int ff; public constructor(int a) -> RH { for (int i = 0; i < 3; this.ff = i) { i = i + 1; } return this; } }",
            "class RH { public final int ff; public constructor(int a) -> RH { int k = 0; for (int i = 0; i < 3; k = i) { i = i + 1; } this.ff = k; return this; } }"),
           ("final-field-in-loop-in-constructor", "class RH { public final int ff; public constructor(int a) -> RH { while (a < 1) { this.ff = 1; a = a + 1; } return this; } }",
            "class RH { public final int ff; public constructor(int a) -> RH { this.ff = 1; return this; } }"),
           ("final-field-never-initialised", "class RH { public final int ff; public constructor() -> RH { return this; } }",
            "class RH { public final int ff; public constructor() -> RH { this.ff = 1; return this; } }"),
           ("final-static-assigned", "class RH { public static final int sf = 1; public constructor() -> RH = default; public function set() -> void { RH.sf = 2; } }",
            "class RH { public static int sf = 1; public constructor() -> RH = default; public function set() -> void { RH.sf = 2; } }"),
           ("final-parameter-like-local-in-for", "function fl() -> void { final int lim = 2; for (int i = 0; i < lim; lim = lim + 1) { echo(i); i = i + 5; } }",
            "function fl() -> void { int lim = 2; for (int i = 0; i < lim; lim = lim + 1) { echo(i); i = i + 5; } }"),
           ]
    for rule, bad, good in RET:
        add(rule, "declaration", bad + "\nfunction main() -> void { echo(1); }", good + "\nfunction main() -> void { echo(1); }")
    return out
