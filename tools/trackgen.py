"""Programs for C17 with a known number of scope exits per shot for every @tracked variable and, for the deterministic ones, a
known outcome per exit.  Places: main body, nested block, loop body (k exits), helper function called m times, qubit registers with
per-element preparation and partial measurement, object fields (one exit per object that dies), multi-declarator declarations."""


class TrackProgram:
    def __init__(self, rng, annotation=None):
        r = rng
        self.expected = {}        # table header -> {"exits": e, "outcome": str or None (random)}
        self.echo_per_shot = 0
        fns, body, classes = [], [], []
        n = [0]

        def name(p):
            n[0] += 1
            return "%s%d" % (p, n[0])

        def prep(q, kind):
            """statements for one qubit and its outcome; kind: zero, one, unmeasured, reset, random"""
            if kind == "zero":
                return ["measure %s;" % q], "0"
            if kind == "one":
                return ["x(%s);" % q, "measure %s;" % q], "1"
            if kind == "unmeasured":
                return ["x(%s);" % q], "?"
            if kind == "reset":
                return ["x(%s);" % q, "measure %s;" % q, "reset %s;" % q], "?"
            if kind == "remeasured":
                return ["x(%s);" % q, "measure %s;" % q, "reset %s;" % q, "measure %s;" % q], "0"
            return ["h(%s);" % q, "measure %s;" % q], None

        kinds = ["zero", "one", "unmeasured", "reset", "remeasured", "random"]
        for _ in range(r.randrange(2, 6)):
            place = r.choice(["main", "block", "loop", "func", "reg", "field", "multi", "method", "smethod", "ctor", "ret", "dtorfield", "regfield"])
            kind = r.choice(kinds)
            if place == "main":
                q = name("a")
                st, out = prep(q, kind)
                # an ordinary assignment to the variable (here: of itself) leaves it tracked
                body += ["@tracked qubit %s;" % q] + (["%s = %s;" % (q, q)] if r.random() < 0.4 else []) + st
                self.expected["qubit " + q] = {"exits": 1, "outcome": out}
            elif place == "block":
                q = name("b")
                st, out = prep(q, kind)
                body += ["{ @tracked qubit %s; %s }" % (q, " ".join(st))]
                self.expected["qubit " + q] = {"exits": 1, "outcome": out}
            elif place == "loop":
                q, i, k = name("l"), name("i"), r.randrange(1, 5)
                st, out = prep(q, kind)
                body += ["int %s = 0; while (%s < %d) { @tracked qubit %s; %s %s = %s + 1; }" % (i, i, k, q, " ".join(st), i, i)]
                self.expected["qubit " + q] = {"exits": k, "outcome": out}
            elif place == "func":
                q, f, m = name("f"), name("fn"), r.randrange(1, 4)
                st, out = prep(q, kind)
                fns.append("function %s() -> void { @tracked qubit %s; %s }" % (f, q, " ".join(st)))
                body += ["%s();" % f] * m
                self.expected["qubit " + q] = {"exits": m, "outcome": out}
            elif place == "reg":
                q, size = name("r"), r.randrange(1, 4)
                st, bits = [], []
                for e in range(size):
                    s, o = prep("%s[%d]" % (q, e), r.choice(["zero", "one", "unmeasured", "remeasured"]))
                    st += s
                    bits.append(o)
                out = "?" if "?" in bits else "".join(bits)
                if r.random() < 0.5:
                    # the statement form on the whole register (every element prepared with x only, measured together)
                    flips = [r.random() < 0.5 for _ in range(size)]
                    st = ["x(%s[%d]);" % (q, e) for e, fl in enumerate(flips) if fl] + ["measure %s;" % q]
                    out = "".join("1" if fl else "0" for fl in flips)
                body += ["@tracked qubit[%d] %s;" % (size, q)] + (["%s = %s;" % (q, q)] if r.random() < 0.4 else []) + st
                self.expected["qubit[] " + q] = {"exits": 1, "outcome": out}
            elif place == "field":
                c, fq, cnt = name("H"), name("hq"), r.randrange(1, 4)
                st, out = prep("o.%s" % fq, kind)
                if r.random() < 0.4:
                    # the tracked qubit is inherited: the dying object's class declares no qubit of its own
                    cb = name("HB")
                    classes.append("class %s { @tracked public qubit %s; public constructor() -> %s { } }" % (cb, fq, cb))
                    classes.append("class %s extends %s { public int pad = 1; public constructor() -> %s { super(); } }" % (c, cb, c))
                else:
                    classes.append("class %s { @tracked public qubit %s; public constructor() -> %s = default; }" % (c, fq, c))
                how = r.choice(["scope", "destroy"])
                for _ in range(cnt):
                    body += ["{ %s o = new %s(); %s %s }" % (c, c, " ".join(st), "destroy o;" if how == "destroy" else "")]
                self.expected["%s.%s" % (c, fq)] = {"exits": cnt, "outcome": out}
            elif place == "regfield":
                # a tracked register field: '?' unless every element was measured, whatever order and however many were
                c, fr, size, cnt = name("G"), name("gr"), r.randrange(2, 4), r.randrange(1, 3)
                st, bits = [], []
                for e in range(size):
                    sx, o = prep("o.%s[%d]" % (fr, e), r.choice(["zero", "one", "unmeasured", "unmeasured", "remeasured"]))
                    st += sx
                    bits.append(o)
                out = "?" if "?" in bits else "".join(bits)
                classes.append("class %s { @tracked public qubit[%d] %s; public constructor() -> %s = default; }" % (c, size, fr, c))
                how = r.choice(["scope", "destroy"])
                for _ in range(cnt):
                    body += ["{ %s o = new %s(); %s %s }" % (c, c, " ".join(st), "destroy o;" if how == "destroy" else "")]
                self.expected["%s.%s" % (c, fr)] = {"exits": cnt, "outcome": out}
            elif place == "dtorfield":
                # the object's destructor performs the last operations on its tracked field: the record is taken after it
                c, fq, cnt = name("D"), name("dq"), r.randrange(1, 4)
                flip = r.random() < 0.5
                dt = r.choice(["measure", "xmeasure", "resetx"])
                dbody = {"measure": "measure %s;" % fq, "xmeasure": "x(%s); measure %s;" % (fq, fq),
                         "resetx": "reset %s; x(%s); measure %s;" % (fq, fq, fq)}[dt]
                out = {"measure": "1" if flip else "0", "xmeasure": "0" if flip else "1", "resetx": "1"}[dt]
                classes.append("class %s { @tracked public qubit %s; public constructor() -> %s = default; public destructor() -> void { %s } }"
                               % (c, fq, c, dbody))
                how = r.choice(["scope", "destroy"])
                for _ in range(cnt):
                    body += ["{ %s o = new %s(); %s %s }" % (c, c, ("x(o.%s);" % fq) if flip else "", "destroy o;" if how == "destroy" else "")]
                self.expected["%s.%s" % (c, fq)] = {"exits": cnt, "outcome": out}
            elif place in ("method", "smethod"):
                # a tracked local directly in a method body (instance or static), the method called m times
                q, c, m = name("t"), name("M"), r.randrange(1, 4)
                st, out = prep(q, kind)
                if place == "method":
                    classes.append("class %s { public constructor() -> %s = default; public function go() -> void { @tracked qubit %s; %s } }"
                                   % (c, c, q, " ".join(st)))
                    body += ["%s o%s = new %s();" % (c, q, c)] + ["o%s.go();" % q] * m
                else:
                    classes.append("static class %s { public static function go() -> void { @tracked qubit %s; %s } }" % (c, q, " ".join(st)))
                    body += ["%s.go();" % c] * m
                self.expected["qubit " + q] = {"exits": m, "outcome": out}
            elif place == "ctor":
                q, c, m = name("k"), name("K"), r.randrange(1, 4)
                st, out = prep(q, kind)
                classes.append("class %s { public int v = 0; public constructor() -> %s { @tracked qubit %s; %s this.v = 1; return this; } }"
                               % (c, c, q, " ".join(st)))
                for j in range(m):
                    body += ["%s o%s_%d = new %s();" % (c, q, j, c)]
                self.expected["qubit " + q] = {"exits": m, "outcome": out}
            elif place == "ret":
                # leaves through a return inside a while inside an if: the function scope and both inner scopes end at once
                q, q2, f, m = name("e"), name("e"), name("fr"), r.randrange(1, 4)
                st, out = prep(q, kind)
                st2, out2 = prep(q2, r.choice(kinds))
                fns.append("function %s(int n) -> int { @tracked qubit %s; %s if (n > 0) { int i = 0; while (i < 3) { @tracked qubit %s; %s "
                           "if (i == 1) { return i; } i = i + 1; } } return 0; }" % (f, q, " ".join(st), q2, " ".join(st2)))
                body += ["%s(1);" % f] * m
                self.expected["qubit " + q] = {"exits": m, "outcome": out}
                self.expected["qubit " + q2] = {"exits": 2 * m, "outcome": out2}
            else:
                q1, q2 = name("m"), name("m")
                s1, o1 = prep(q1, kind)
                s2, o2 = prep(q2, r.choice(kinds))
                body += ["@tracked qubit %s, %s;" % (q1, q2)] + s1 + s2
                self.expected["qubit " + q1] = {"exits": 1, "outcome": o1}
                self.expected["qubit " + q2] = {"exits": 1, "outcome": o2}
            if r.random() < 0.5:
                body.append("echo(\"E\");")
                self.echo_per_shot += 1
        ann = "@shots(%d)\n" % annotation if annotation else ""
        self.text = "\n".join(classes + fns + [ann + "function main() -> void {"] + ["    " + b for b in body] + ["}"])
