"""Shared helpers for the evaluator-level checks: run programs through the real pipeline (eval_harness) and the
Lean front end + evaluator model (driver), compare the canonical result lines."""
import buildlib
from framework import run_lines, run_guarded, driver, hex64
import simlib


def harness(flavour="plain"):
    return buildlib.build_harness("eval_harness", flavour=flavour)


def hx(s):
    b = s.encode("latin-1") if isinstance(s, str) else s
    return b.hex() if b else "-"


def draws_arg(ds):
    return ",".join(hex64(d) for d in ds) if ds else "-"


def gen_draws(rng, n=12):
    out = []
    for _ in range(n):
        out.append(rng.choice([0.0, 1 - 2 ** -53, 0.5]) if rng.random() < 0.2 else rng.random())
    return out


def split_result(line):
    """canonical run line -> dict (status, echo list, tracked, outcomes, qasm text, warn, state)"""
    d = {"raw": line, "status": line.split(" echo=")[0] if " echo=" in line else line}
    if not line.startswith("ok "):
        return d
    head, _, state = line.partition(" state ")
    d["state"] = simlib.parse_state("state " + state)
    for part in head.split()[1:]:
        k, _, v = part.partition("=")
        d[k] = v
    d["echo_lines"] = [bytes.fromhex(x).decode("latin-1") if x != "-" else "" for x in d.get("echo", "").split(",")] if d.get("echo") else []
    d["qasm_text"] = bytes.fromhex(d["qasm"]).decode("latin-1") if d.get("qasm") else ""
    return d


def same_result(a, b):
    """exact on everything except amplitudes (1e-9)"""
    if a == b:
        return True
    if not (a.startswith("ok ") and b.startswith("ok ")):
        return False
    ha, _, sa = a.partition(" state ")
    hb, _, sb = b.partition(" state ")
    return ha == hb and simlib.states_close(simlib.parse_state("state " + sa), simlib.parse_state("state " + sb))


def run_programs(programs, echo=True, flavour="plain", with_model=True):
    """programs: list of (source, draws). Returns (impl lines, model lines)."""
    lines = ["run %s %s %s" % (hx(src), "1" if echo else "0", draws_arg(ds)) for src, ds in programs]
    impl, incident = run_guarded(harness(flavour), lines, chunk_timeout=60)
    if with_model:
        model, _ = run_guarded(buildlib.driver_path(), lines, chunk_timeout=120)
    else:
        model = ["unsupported not-run"] * len(lines)
    return lines, impl, model, incident
