"""Common machinery of every property check.

A check = (1) proof obligations: the theorems of lean/BlochVerif/Props/<id>.lean are rebuilt
(after the tables they mention have been regenerated from /repo), their axioms audited and
the sources grepped for escape hatches; (2) the correspondence: the executable Lean model and
the real C++ are run on the same inputs and compared; (3) the property oracle on the real
code.  The outcome logic (violation / known finding / no-failing-input-found) lives here.
"""
import hashlib
import json
import os
import random
import re
import subprocess
import sys
import time

sys.path.insert(0, os.path.dirname(os.path.abspath(__file__)))
import buildlib  # noqa: E402

VERIF = buildlib.VERIF
REPO = buildlib.REPO
LEAN = buildlib.LEAN
ALLOWED_AXIOMS = {"propext", "Classical.choice", "Quot.sound"}
FORBIDDEN = re.compile(r"\b(sorry|admit|native_decide|bv_decide|implemented_by|unsafe|extern)\b|^\s*axiom\s|maxHeartbeats\s+0\b", re.M)


def strip_lean_comments(src):
    # nested block comments /- ... -/ and line comments --
    out = []
    i, depth, n = 0, 0, len(src)
    while i < n:
        if src.startswith("/-", i):
            depth += 1
            i += 2
        elif depth and src.startswith("-/", i):
            depth -= 1
            i += 2
        elif depth:
            if src[i] == "\n":
                out.append("\n")
            i += 1
        elif src.startswith("--", i):
            while i < n and src[i] != "\n":
                i += 1
        elif src[i] == '"':
            j = i + 1
            while j < n and src[j] != '"':
                j += 2 if src[j] == "\\" else 1
            out.append('""')
            i = j + 1
        else:
            out.append(src[i])
            i += 1
    return "".join(out)


def local_import_closure(module):
    """Files of this project transitively imported by `module` (dotted name)."""
    seen, todo = {}, [module]
    while todo:
        m = todo.pop()
        if m in seen:
            continue
        p = os.path.join(LEAN, m.replace(".", "/") + ".lean")
        if not os.path.exists(p):
            continue
        src = open(p).read()
        seen[m] = p
        for mm in re.findall(r"^import\s+(\S+)", src, re.M):
            if mm.startswith("BlochVerif") or mm.startswith("Driver"):
                todo.append(mm)
    return seen


class Check:
    def __init__(self, pid, design_ref=""):
        self.pid = pid
        self.tier = os.environ.get("VERIF_TIER", "quick")
        if "--tier" in sys.argv:
            self.tier = sys.argv[sys.argv.index("--tier") + 1]
        if self.tier not in ("quick", "thorough"):
            self.tier = "quick"
        try:
            self.seed = int(os.environ.get("VERIF_SEED", "1"))
        except ValueError:
            self.seed = 1
        self.rng = random.Random(self.seed * 1000003 + int(pid[1:]))
        self.t0 = time.time()
        self.obligations = []       # (name, ok, detail)
        self.samples = []
        self.evaluations = 0
        self.nontrivial = set()
        self.rule = ""
        self.violations = []        # dicts
        self.known_hits = []
        self.extra = {}
        self.assumptions = []
        self.trusted = []
        self.checker_cmd = ""
        self.exhaustive = False
        self.notes = []
        self.known = [k for k in load_known() if k.get("property") == pid]

    thorough = property(lambda self: self.tier == "thorough")

    # ---------------------------------------------------------------- proof side
    def prove(self, module=None, generated=()):
        """Build the property module, audit axioms and escape hatches.
        `generated`: callables that (re)write Generated/*.lean from /repo first."""
        module = module or "BlochVerif.Props." + self.pid
        gen_notes = []
        gen_failed = []
        for g in generated:
            try:
                gen_notes.append(g())
            except Exception as e:   # the translator no longer understands the source: the tie is broken
                gen_failed.append("%s: %s" % (getattr(g, "__name__", "table"), e))
                gen_notes.append("FAILED " + gen_failed[-1])
        self.extra["generated_tables"] = gen_notes
        if gen_failed:
            for t in gen_failed:
                self.obligations.append(("translator " + t.split(":")[0], False, t))
            buildlib.lake_build(["driver"])
            self.extra["lake_errors"] = gen_failed
            self.build_log = "\n".join(gen_failed)
            return False
        path = os.path.join(LEAN, module.replace(".", "/") + ".lean")
        thms = []
        if os.path.exists(path):
            src = strip_lean_comments(open(path).read())
            thms = re.findall(r"^theorem\s+([A-Za-z0-9_'.]+)", src, re.M)
            ns = re.findall(r"^namespace\s+(\S+)", src, re.M)
            prefix = (ns[0] + ".") if ns else ""
        ok, log, dt = buildlib.lake_build([module, "driver"])
        self.checker_cmd = "cd lean && lake build %s && lake env lean <audit: #print axioms of every theorem in %s>" % (module, module)
        self.extra["lake_build_s"] = round(dt, 1)
        if not ok:
            # the executable driver must exist even when a property module no longer checks
            buildlib.lake_build(["driver"])
            errs = [l for l in log.splitlines() if "error" in l][:20]
            for t in thms or ["<module %s>" % module]:
                self.obligations.append((t, False, "lake build failed"))
            self.extra["lake_errors"] = errs
            self.build_log = log
            return False
        # grep the closure for escape hatches
        bad = []
        for m, p in local_import_closure(module).items():
            s = strip_lean_comments(open(p).read())
            for mt in FORBIDDEN.finditer(s):
                bad.append("%s: %s" % (m, mt.group(0).strip()))
        # axioms
        audit = os.path.join(buildlib.BUILD, "audit_%s.lean" % self.pid)
        os.makedirs(buildlib.BUILD, exist_ok=True)
        with open(audit, "w") as f:
            f.write("import %s\n" % module)
            for t in thms:
                f.write("#print axioms %s%s\n" % (prefix, t))
        r = subprocess.run(["lake", "env", "lean", audit], cwd=LEAN, stdout=subprocess.PIPE,
                           stderr=subprocess.STDOUT, text=True)
        text = r.stdout.replace("\n  ", " ")
        axioms_of = {}
        for mt in re.finditer(r"'([^']+)' (depends on axioms: \[([^\]]*)\]|does not depend on any axioms)", text):
            axs = [a.strip() for a in (mt.group(3) or "").split(",") if a.strip()]
            axioms_of[mt.group(1)] = axs
        all_ok = True
        used = set()
        for t in thms:
            full = prefix + t
            if full not in axioms_of:
                self.obligations.append((t, False, "no #print axioms output: " + r.stdout[-300:]))
                all_ok = False
                continue
            extra_ax = [a for a in axioms_of[full] if a not in ALLOWED_AXIOMS]
            used.update(axioms_of[full])
            if extra_ax:
                self.obligations.append((t, False, "unexpected axioms " + ",".join(extra_ax)))
                all_ok = False
            else:
                self.obligations.append((t, True, "axioms: " + (",".join(axioms_of[full]) or "none")))
        if bad:
            self.obligations.append(("<escape-hatch grep>", False, "; ".join(bad[:10])))
            all_ok = False
        else:
            self.obligations.append(("<escape-hatch grep: no sorry/admit/axiom/native_decide/bv_decide/implemented_by/unsafe in the import closure>", True, "%d files" % len(local_import_closure(module))))
        if self.thorough:
            r = subprocess.run(["lake", "env", "leanchecker", module], cwd=LEAN,
                               stdout=subprocess.PIPE, stderr=subprocess.STDOUT, text=True)
            okc = r.returncode == 0
            self.obligations.append(("<leanchecker %s>" % module, okc, r.stdout[-300:].strip()))
            all_ok = all_ok and okc
        self.trusted = ["Lean 4.33.0 kernel" + (" + leanchecker re-check" if self.thorough else ""),
                        "axioms used: " + (", ".join(sorted(used)) or "none"),
                        "hand-written Lean model tied to /repo by the correspondence run below (differential, bounded)",
                        "C++ harness + generators + this orchestrator"]
        return all_ok

    # ---------------------------------------------------------------- run side
    def count(self, key=None, n=1):
        self.evaluations += n
        if key is not None:
            self.nontrivial.add(key)

    def sample(self, s, limit=6):
        if len(self.samples) < limit:
            self.samples.append(s)

    def violation(self, what, replay_obj, arm="oracle", found_input=True):
        """Report unless it matches a listed known finding."""
        key = replay_obj.get("match_key")
        for k in self.known:
            if k.get("status") == "known" and key is not None and k.get("match", {}).get("value") == key:
                if k["id"] not in [h["id"] for h in self.known_hits]:
                    self.known_hits.append(k)
                return False
        d = os.path.join(VERIF, "replays", self.pid)
        os.makedirs(d, exist_ok=True)
        blob = json.dumps(replay_obj, sort_keys=True, default=str)
        path = os.path.join(d, hashlib.sha256(blob.encode()).hexdigest()[:12] + ".json")
        obj = dict(replay_obj)
        obj.update({"property": self.pid, "seed": self.seed, "tier": self.tier, "arm": arm,
                    "what": what, "failing_input_found": found_input})
        with open(path, "w") as f:
            json.dump(obj, f, indent=1, default=str)
        self.violations.append({"what": what, "replay": path, "found_input": found_input, "arm": arm})
        return True

    def finish(self):
        obligations = len(self.obligations)
        discharged = sum(1 for o in self.obligations if o[1])
        wall = time.time() - self.t0
        # an undischarged obligation with no concrete failing input is still a violation
        if discharged < obligations and not any(v["found_input"] for v in self.violations):
            names = [o[0] + " (" + o[2] + ")" for o in self.obligations if not o[1]]
            self.violation("proof obligation(s) no longer check: " + "; ".join(names)[:1500],
                           {"theorems": names, "lake_errors": self.extra.get("lake_errors", [])},
                           arm="theorem", found_input=False)
        cov = {
            "obligations": max(obligations, 1),
            "discharged": discharged,
            "checker_cmd": self.checker_cmd or "n/a",
            "trusted_base": self.trusted,
            "obligation_list": [{"name": o[0], "discharged": o[1], "detail": o[2]} for o in self.obligations],
            "evaluations": self.evaluations,
            "distinct_nontrivial": len(self.nontrivial),
            "rule": self.rule,
            "samples": self.samples or ["<none>"],
            "exhaustive": self.exhaustive,
            "traces_validated_against_impl": self.evaluations,
        }
        cov.update(self.extra)
        ev = {"property_id": self.pid, "tier": self.tier, "seed": self.seed, "level": "proof",
              "coverage": cov, "assumptions": self.assumptions, "wall_s": round(wall, 2),
              "violations": len(self.violations),
              "known_findings_hit": [k["id"] for k in self.known_hits], "notes": self.notes}
        os.makedirs(os.path.join(VERIF, "evidence"), exist_ok=True)
        with open(os.path.join(VERIF, "evidence", self.pid + ".json"), "w") as f:
            json.dump(ev, f, indent=1, default=str)
        for k in self.known_hits:
            print("KNOWN-FINDING: property=%s %s" % (self.pid, k["what"]))
        seen = set()
        for v in self.violations:
            if v["replay"] in seen:
                continue
            seen.add(v["replay"])
            line = "VIOLATION property=%s replay=%s" % (self.pid, v["replay"])
            if not v["found_input"]:
                line += " no-failing-input-found"
            print(line)
            print("  " + v["what"][:600])
        print("%s %s: obligations %d/%d, %d cases (%d distinct non-trivial), %d violation(s), %.1fs" % (
            self.pid, self.tier, discharged, obligations, self.evaluations, len(self.nontrivial),
            len(self.violations), wall))
        sys.exit(1 if self.violations else 0)


def load_corpus(pid):
    """Minimised past failures / witnesses kept under corpus/<id>/ (run first)."""
    d = os.path.join(VERIF, "corpus", pid)
    out = []
    if os.path.isdir(d):
        for fn in sorted(os.listdir(d)):
            if fn.endswith(".json"):
                try:
                    out.append((fn, json.load(open(os.path.join(d, fn)))))
                except ValueError:
                    pass
    return out


def load_known():
    p = os.path.join(VERIF, "known_findings.json")
    if not os.path.exists(p):
        return []
    return json.load(open(p)).get("findings", [])


def run_lines(exe, lines, timeout=600, env=None, cwd=None):
    """Feed `lines` to a line-protocol process; return list of reply lines (or raise)."""
    if isinstance(exe, str):
        exe = [exe]
    data = "\n".join(lines) + "\n"
    r = subprocess.run(exe, input=data, stdout=subprocess.PIPE, stderr=subprocess.PIPE, text=True,
                       timeout=timeout, env=env, cwd=cwd)
    out = r.stdout.split("\n")
    if out and out[-1] == "":
        out.pop()
    return out, r.returncode, r.stderr


def run_guarded(exe, lines, chunk_timeout=120, env=None):
    """Run a line-protocol process over many inputs; when it dies or hangs, record CRASH/HANG for the input it was
    processing and continue with the rest.  Returns (replies, first_incident or None)."""
    if isinstance(exe, str):
        exe = [exe]
    replies = []
    i = 0
    incident = None
    while i < len(lines):
        chunk = lines[i:]
        try:
            r = subprocess.run(exe, input="\n".join(chunk) + "\n", stdout=subprocess.PIPE, stderr=subprocess.PIPE, text=True,
                               timeout=chunk_timeout + len(chunk) // 20, env=env)
            out = r.stdout.split("\n")
            if out and out[-1] == "":
                out.pop()
            replies += out[:len(chunk)]
            if len(out) >= len(chunk):
                break
            k = i + len(out)
            incident = incident or (k, "exit %s: %s" % (r.returncode, r.stderr[-1500:]))
            replies.append("CRASH exit=%s" % r.returncode)
            i = k + 1
        except subprocess.TimeoutExpired as e:
            raw = e.stdout or ""
            if isinstance(raw, bytes):
                raw = raw.decode("latin-1")
            out = raw.split("\n")
            if out and out[-1] == "":
                out.pop()
            replies += out[:len(chunk)]
            k = i + len(out)
            incident = incident or (k, "timeout (hang)")
            replies.append("HANG")
            i = k + 1
    return replies, incident


class LineProc:
    """Interactive line-protocol process (one request line → one reply line)."""

    def __init__(self, cmd, env=None, cwd=None):
        if isinstance(cmd, str):
            cmd = [cmd]
        self.p = subprocess.Popen(cmd, stdin=subprocess.PIPE, stdout=subprocess.PIPE, stderr=subprocess.DEVNULL,
                                  text=True, bufsize=1, env=env, cwd=cwd)

    def ask(self, line):
        self.p.stdin.write(line + "\n")
        self.p.stdin.flush()
        return self.p.stdout.readline().rstrip("\n")

    def close(self):
        try:
            self.p.stdin.close()
            self.p.wait(timeout=10)
        except Exception:
            self.p.kill()


def driver(lines, timeout=600):
    return run_lines(buildlib.driver_path(), lines, timeout)


def hex64(x):
    import struct
    return "%016x" % struct.unpack("<Q", struct.pack("<d", x))[0]


def unhex64(s):
    import struct
    return struct.unpack("<d", struct.pack("<Q", int(s, 16)))[0]
