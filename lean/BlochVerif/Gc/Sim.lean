import BlochVerif.Gc.Proofs
/-! The mutator cannot tell a collected heap from an uncollected one: a simulation between a run with
collections at arbitrary boundaries and the run with none. -/
namespace BlochVerif.Gc

theorem reach_mono_roots {h : Heap} {roots roots' : List Nat} (hsub : ∀ r ∈ roots', Reach h roots r) :
    ∀ i, Reach h roots' i → Reach h roots i := by
  intro i hi
  induction hi with
  | root hr => exact hsub _ hr
  | step _ hs ih => exact Reach.step ih hs

theorem succs_congr {h1 h2 : Heap} {x : Nat} (he : h1[x]? = h2[x]?) : succs h1 x = succs h2 x := by
  unfold succs; rw [he]

theorem reach_transfer {h1 h2 : Heap} {roots : List Nat}
    (hag : ∀ i, Reach h2 roots i → h1[i]? = h2[i]?) : ∀ i, Reach h2 roots i → Reach h1 roots i := by
  intro i hi
  induction hi with
  | root hr => exact Reach.root hr
  | step hx hs ih => exact Reach.step ih (by rw [succs_congr (hag _ hx)]; exact hs)

theorem reach_lt {h : Heap} {roots : List Nat} (hwf : WFHeap h) (hr : ∀ r ∈ roots, r < h.length) :
    ∀ i, Reach h roots i → i < h.length := by
  intro i hi
  induction hi with
  | root hr' => exact hr _ hr'
  | step _ hs _ => exact hwf _ _ hs

/-! ### slots and roots -/

theorem getSlot_mem_roots {s : St} {d x : Nat} (h : getSlot s d = some x) : x ∈ s.roots := by
  unfold getSlot at h
  unfold St.roots
  cases hd : s.slots[d]? with
  | none => simp [hd] at h
  | some v =>
    simp [hd] at h
    subst h
    exact List.mem_filterMap.mpr ⟨some x, List.mem_of_getElem? hd, rfl⟩

theorem mem_roots_setSlot {s : St} {d : Nat} {v : Option Nat} {r : Nat} (h : r ∈ (setSlot s d v).roots) :
    r ∈ s.roots ∨ v = some r := by
  unfold St.roots setSlot at h
  obtain ⟨a, ha, hr⟩ := List.mem_filterMap.mp h
  simp only at ha
  rcases List.mem_or_eq_of_mem_set ha with h1 | h1
  · left; exact List.mem_filterMap.mpr ⟨a, h1, hr⟩
  · right; subst h1; simpa using hr

/-! ### the simulation relation: `s1` runs with collections, `s2` without -/

structure Sim (s1 s2 : St) : Prop where
  slots : s1.slots = s2.slots
  out : s1.out = s2.out
  len : s1.heap.length = s2.heap.length
  agree : ∀ i, Reach s2.heap s2.roots i → s1.heap[i]? = s2.heap[i]?
  wf1 : WFHeap s1.heap
  wf2 : WFHeap s2.heap
  rootsValid : ∀ r ∈ s2.roots, r < s2.heap.length

theorem Sim.roots {s1 s2 : St} (h : Sim s1 s2) : s1.roots = s2.roots := by
  unfold St.roots; rw [h.slots]

theorem Sim.getSlot {s1 s2 : St} (h : Sim s1 s2) (d : Nat) : getSlot s1 d = getSlot s2 d := by
  unfold Gc.getSlot; rw [h.slots]

theorem Sim.refl_init : Sim initSt initSt :=
  ⟨rfl, rfl, rfl, fun _ _ => rfl, fun x y hy => by simp [succs, initSt] at hy,
   fun x y hy => by simp [succs, initSt] at hy, fun r hr => by simp [St.roots, initSt] at hr⟩

/-- A collection on the left side preserves the relation: nothing the roots reach is touched. -/
theorem collect_sim {s1 s2 : St} (h : Sim s1 s2) :
    Sim { s1 with heap := collect s1.heap s1.roots } s2 := by
  have hroots := h.roots
  refine ⟨h.slots, h.out, by simp [collect, sweep_length, h.len], ?_, sweep_wf _ _ h.wf1, h.wf2, h.rootsValid⟩
  intro i hi
  have h1 : Reach s1.heap s1.roots i := by
    rw [hroots]; exact reach_transfer h.agree i hi
  have hm : i ∈ markRoots s1.heap s1.roots :=
    mark_complete s1.heap h.wf1 s1.roots (by rw [hroots, h.len]; exact h.rootsValid) i h1
  show (sweep s1.heap (markRoots s1.heap s1.roots))[i]? = s2.heap[i]?
  rw [sweep_get_marked _ _ _ hm]
  exact h.agree i hi

theorem gcPoint_sim {s1 s2 : St} (sched : Nat → Bool) (k : Nat) (h : Sim s1 s2) : Sim (gcPoint sched k s1) s2 := by
  unfold gcPoint
  split
  · exact collect_sim h
  · exact h

/-! ### primitives -/

theorem sim_setSlot {s1 s2 : St} (h : Sim s1 s2) (d : Nat) (v : Option Nat)
    (hv : ∀ y, v = some y → Reach s2.heap s2.roots y) : Sim (setSlot s1 d v) (setSlot s2 d v) := by
  have hsub : ∀ r ∈ (setSlot s2 d v).roots, Reach s2.heap s2.roots r := by
    intro r hr
    rcases mem_roots_setSlot hr with h1 | h1
    · exact Reach.root h1
    · exact hv r h1
  refine ⟨by simp [setSlot, h.slots], h.out, h.len, ?_, h.wf1, h.wf2, ?_⟩
  · intro i hi
    exact h.agree i (reach_mono_roots hsub i hi)
  · intro r hr
    exact reach_lt h.wf2 h.rootsValid r (hsub r hr)

theorem sim_out {s1 s2 : St} (h : Sim s1 s2) (l : List String) :
    Sim { s1 with out := s1.out ++ l } { s2 with out := s2.out ++ l } :=
  ⟨h.slots, by simp [h.out], h.len, h.agree, h.wf1, h.wf2, h.rootsValid⟩

theorem succs_put_sub (o : Obj) (f : Fld) (v : Option Nat) (y : Nat)
    (hy : y ∈ (o.put f v).a.toList ++ (o.put f v).b.toList) :
    y ∈ o.a.toList ++ o.b.toList ∨ v = some y := by
  cases f <;> simp only [Obj.put, List.mem_append, Option.mem_toList] at hy ⊢
  · rcases hy with h1 | h1
    · right; exact h1
    · left; right; exact h1
  · rcases hy with h1 | h1
    · left; left; exact h1
    · right; exact h1

theorem succs_set_other (h : Heap) (x x' : Nat) (o : Obj) (hne : x' ≠ x) : succs (h.set x o) x' = succs h x' := by
  unfold succs; rw [List.getElem?_set_ne (Ne.symm hne)]

theorem succs_set_self (h : Heap) (x : Nat) (o : Obj) (hx : x < h.length) :
    succs (h.set x o) x = o.a.toList ++ o.b.toList := by
  unfold succs; rw [List.getElem?_set_self hx]

/-- writing a root (or null) into a field of a reachable object makes nothing new reachable -/
theorem reach_set {h : Heap} {roots : List Nat} {x : Nat} {o : Obj} {f : Fld} {v : Option Nat}
    (hx : h[x]? = some o) (hv : ∀ y, v = some y → Reach h roots y) :
    ∀ i, Reach (h.set x (o.put f v)) roots i → Reach h roots i := by
  have hxl : x < h.length := (List.getElem?_eq_some_iff.mp hx).1
  intro i hi
  induction hi with
  | root hr => exact Reach.root hr
  | @step x' y _ hs ih =>
    by_cases hxx : x' = x
    · subst hxx
      rw [succs_set_self _ _ _ hxl] at hs
      rcases succs_put_sub o f v y hs with h1 | h1
      · exact Reach.step ih (by unfold succs; rw [hx]; exact h1)
      · exact hv y h1
    · rw [succs_set_other _ _ _ _ hxx] at hs
      exact Reach.step ih hs

theorem wf_set {h : Heap} {x : Nat} {o : Obj} {f : Fld} {v : Option Nat} (hwf : WFHeap h)
    (hx : h[x]? = some o) (hv : ∀ y, v = some y → y < h.length) : WFHeap (h.set x (o.put f v)) := by
  have hxl : x < h.length := (List.getElem?_eq_some_iff.mp hx).1
  intro x' y hy
  rw [List.length_set]
  by_cases hxx : x' = x
  · subst hxx
    rw [succs_set_self _ _ _ hxl] at hy
    rcases succs_put_sub o f v y hy with h1 | h1
    · exact hwf x' y (by unfold succs; rw [hx]; exact h1)
    · exact hv y h1
  · rw [succs_set_other _ _ _ _ hxx] at hy
    exact hwf x' y hy

theorem succs_append_old (h : Heap) (o : Obj) (x : Nat) (hx : x < h.length) : succs (h ++ [o]) x = succs h x := by
  unfold succs; rw [List.getElem?_append_left hx]

theorem succs_append_new (h : Heap) (id : Int) : succs (h ++ [({ id := id } : Obj)]) h.length = [] := by
  unfold succs; simp

theorem wf_append (h : Heap) (id : Int) (hwf : WFHeap h) : WFHeap (h ++ [({ id := id } : Obj)]) := by
  intro x y hy
  simp only [List.length_append, List.length_singleton]
  by_cases hx : x < h.length
  · rw [succs_append_old _ _ _ hx] at hy
    have := hwf x y hy; omega
  · by_cases hx2 : x = h.length
    · subst hx2; rw [succs_append_new] at hy; cases hy
    · unfold succs at hy
      rw [List.getElem?_eq_none (by simp; omega)] at hy
      cases hy

theorem sim_new {s1 s2 : St} (h : Sim s1 s2) (d : Nat) (id : Int) :
    Sim (prim s1 (.new d id)) (prim s2 (.new d id)) := by
  simp only [prim]
  -- first the allocation, then the slot update
  have hroots2 : ∀ r ∈ (setSlot { s2 with heap := s2.heap ++ [({ id := id } : Obj)] } d (some s2.heap.length)).roots,
      r ∈ s2.roots ∨ r = s2.heap.length := by
    intro r hr
    rcases mem_roots_setSlot hr with h1 | h1
    · left; exact h1
    · right; exact (Option.some.inj h1).symm
  have hreach : ∀ i, Reach (s2.heap ++ [({ id := id } : Obj)])
      (setSlot { s2 with heap := s2.heap ++ [({ id := id } : Obj)] } d (some s2.heap.length)).roots i →
      i = s2.heap.length ∨ Reach s2.heap s2.roots i := by
    intro i hi
    induction hi with
    | root hr =>
      rcases hroots2 _ hr with h1 | h1
      · right; exact Reach.root h1
      · left; exact h1
    | @step x y _ hs ih =>
      rcases ih with h1 | h1
      · subst h1; rw [succs_append_new] at hs; cases hs
      · have hx := reach_lt h.wf2 h.rootsValid x h1
        rw [succs_append_old _ _ _ hx] at hs
        right; exact Reach.step h1 hs
  refine ⟨?_, h.out, ?_, ?_, wf_append _ _ h.wf1, wf_append _ _ h.wf2, ?_⟩
  · simp [setSlot, h.slots, h.len]
  · simp [setSlot, h.len]
  · intro i hi
    show (s1.heap ++ [({ id := id } : Obj)])[i]? = (s2.heap ++ [({ id := id } : Obj)])[i]?
    rcases hreach i hi with h1 | h1
    · subst h1
      rw [← h.len]; simp [h.len]
    · have hx := reach_lt h.wf2 h.rootsValid i h1
      rw [List.getElem?_append_left hx, List.getElem?_append_left (by rw [h.len]; exact hx)]
      exact h.agree i h1
  · intro r hr
    show r < (s2.heap ++ [({ id := id } : Obj)]).length
    simp only [List.length_append, List.length_singleton]
    rcases hroots2 r hr with h1 | h1
    · have := h.rootsValid r h1; omega
    · omega

theorem sim_set {s1 s2 : St} (h : Sim s1 s2) (f : Fld) (d src : Nat) :
    Sim (prim s1 (.set f d src)) (prim s2 (.set f d src)) := by
  simp only [prim]
  rw [h.getSlot d, h.getSlot src]
  cases hd : getSlot s2 d with
  | none => exact h
  | some x =>
    have hxr : Reach s2.heap s2.roots x := Reach.root (getSlot_mem_roots hd)
    simp only
    rw [h.agree x hxr]
    cases hx : s2.heap[x]? with
    | none => exact h
    | some o =>
      simp only
      have hv : ∀ y, getSlot s2 src = some y → Reach s2.heap s2.roots y :=
        fun y hy => Reach.root (getSlot_mem_roots hy)
      have hvl : ∀ y, getSlot s2 src = some y → y < s2.heap.length :=
        fun y hy => h.rootsValid y (getSlot_mem_roots hy)
      have hx1 : s1.heap[x]? = some o := by rw [h.agree x hxr]; exact hx
      refine ⟨h.slots, h.out, by simp [h.len], ?_, wf_set h.wf1 hx1 (by rw [h.len]; exact hvl),
        wf_set h.wf2 hx hvl, ?_⟩
      · intro i hi
        have hi' : Reach s2.heap s2.roots i := reach_set hx hv i hi
        show (s1.heap.set x (o.put f (getSlot s2 src)))[i]? = (s2.heap.set x (o.put f (getSlot s2 src)))[i]?
        by_cases hix : i = x
        · subst hix
          have hl2 := (List.getElem?_eq_some_iff.mp hx).1
          rw [List.getElem?_set_self hl2, List.getElem?_set_self (by rw [h.len]; exact hl2)]
        · rw [List.getElem?_set_ne (Ne.symm hix), List.getElem?_set_ne (Ne.symm hix)]
          exact h.agree i hi'
      · intro r hr
        show r < (s2.heap.set x (o.put f (getSlot s2 src))).length
        rw [List.length_set]; exact h.rootsValid r hr

theorem sim_load {s1 s2 : St} (h : Sim s1 s2) (f : Fld) (d src : Nat) :
    Sim (prim s1 (.load f d src)) (prim s2 (.load f d src)) := by
  simp only [prim]
  rw [h.getSlot src]
  cases hs : getSlot s2 src with
  | none => exact h
  | some x =>
    have hxr : Reach s2.heap s2.roots x := Reach.root (getSlot_mem_roots hs)
    simp only
    rw [h.agree x hxr]
    cases hx : s2.heap[x]? with
    | none => exact h
    | some o =>
      simp only
      apply sim_setSlot h
      intro y hy
      refine Reach.step hxr ?_
      unfold succs; rw [hx]
      cases f <;> simp only [Obj.get] at hy <;> simp [hy]

theorem heap_str_eq {s1 s2 : St} (h : Sim s1 s2) (x : Nat) (hx : Reach s2.heap s2.roots x) :
    idStr s1.heap x = idStr s2.heap x := by
  unfold idStr; rw [h.agree x hx]

theorem prim_sim {s1 s2 : St} (h : Sim s1 s2) (p : Prim) : Sim (prim s1 p) (prim s2 p) := by
  cases p with
  | new d id => exact sim_new h d id
  | set f d src => exact sim_set h f d src
  | load f d src => exact sim_load h f d src
  | mov d src =>
    simp only [prim]; rw [h.getSlot src]
    exact sim_setSlot h d _ (fun y hy => Reach.root (getSlot_mem_roots hy))
  | clr d =>
    simp only [prim]
    exact sim_setSlot h d none (fun y hy => by cases hy)
  | «show» d =>
    simp only [prim]; rw [h.getSlot d]
    cases hd : getSlot s2 d with
    | none => exact sim_out h _
    | some x =>
      simp only
      rw [heap_str_eq h x (Reach.root (getSlot_mem_roots hd))]
      exact sim_out h _
  | showNN d =>
    simp only [prim]; rw [h.getSlot d]
    cases hd : getSlot s2 d with
    | none => exact h
    | some x =>
      simp only
      rw [heap_str_eq h x (Reach.root (getSlot_mem_roots hd))]
      exact sim_out h _
  | showA d =>
    simp only [prim]; rw [h.getSlot d]
    cases hd : getSlot s2 d with
    | none => exact sim_out h _
    | some x =>
      have hxr : Reach s2.heap s2.roots x := Reach.root (getSlot_mem_roots hd)
      simp only
      rw [h.agree x hxr]
      cases hx : s2.heap[x]? with
      | none => exact sim_out h _
      | some o =>
        simp only
        cases ha : o.a with
        | none => exact sim_out h _
        | some y =>
          simp only
          have hyr : Reach s2.heap s2.roots y := Reach.step hxr (by unfold succs; rw [hx]; simp [ha])
          rw [heap_str_eq h y hyr]
          exact sim_out h _

theorem exec_sim (sched : Nat → Bool) : ∀ (ps : List Prim) (k k' : Nat) (s1 s2 : St), Sim s1 s2 →
    Sim (exec sched k ps s1) (exec (fun _ => false) k' ps s2) := by
  intro ps
  induction ps with
  | nil => intro k k' s1 s2 h; exact h
  | cons p ps ih =>
    intro k k' s1 s2 h
    simp only [exec]
    apply ih
    have h2 : gcPoint (fun _ => false) k' s2 = s2 := by simp [gcPoint]
    rw [h2]
    exact prim_sim (gcPoint_sim sched k h) p

end BlochVerif.Gc
