/-!
# Cycle collector model (C11)

A register machine over a heap of `Node` objects (two reference fields) with the evaluator's mark-sweep
collector (`runCycleCollector`) runnable before every primitive step according to an arbitrary schedule.

* roots are the slots: program variables, the locals of the running callee, and interpreter temporaries
  (a pending argument, the object under construction, a return value) — the implementation finds the latter
  through `use_count` (every strong reference that is not a field of a heap object);
* `mark` is `markObject`: depth-first, an already marked object stops the descent;
* sweep clears the fields of every unmarked object (the implementation then drops them);
* objects are never removed from the model heap: reference counting only frees what no root reaches, which
  no primitive can observe.

`tools/heapgen.py` renders the same operation lists as Bloch programs.
-/
namespace BlochVerif.Gc

structure Obj where
  id : Int
  a : Option Nat := none
  b : Option Nat := none
deriving Repr, DecidableEq, Inhabited

abbrev Heap := List Obj

def succs (h : Heap) (x : Nat) : List Nat :=
  match h[x]? with
  | some o => o.a.toList ++ o.b.toList
  | none => []

/-- `markObject`: `if (!obj || obj->marked) return; obj->marked = true; for (f : fields) markValue(f);`
(`fuel` bounds the recursion depth; `heap.length` always suffices, see `Gc.Proofs`) -/
def markObj : Nat → Heap → List Nat → Nat → List Nat
  | 0, _, m, _ => m
  | f + 1, h, m, x =>
    if x ∈ m then m else (succs h x).foldl (fun acc c => markObj f h acc c) (x :: m)

def markRoots (h : Heap) (roots : List Nat) : List Nat :=
  roots.foldl (fun acc r => markObj h.length h acc r) []

/-- sweep: unmarked objects get their fields cleared -/
def sweep (h : Heap) (marked : List Nat) : Heap :=
  h.zipIdx.map (fun (o, i) => if i ∈ marked then o else { o with a := none, b := none })

def collect (h : Heap) (roots : List Nat) : Heap := sweep h (markRoots h roots)

/-! ## the mutator -/

inductive Fld where | a | b
deriving Repr, DecidableEq

inductive Prim where
  /-- slot d := new Node(id) -/
  | new (d : Nat) (id : Int)
  /-- if slot d ≠ null: d.f := slot s -/
  | set (f : Fld) (d s : Nat)
  /-- if slot s ≠ null: slot d := s.f -/
  | load (f : Fld) (d s : Nat)
  | mov (d s : Nat)
  | clr (d : Nat)
  /-- echo the id, or "null" -/
  | show (d : Nat)
  /-- echo d.a.id, "a-null" or "null" -/
  | showA (d : Nat)
  /-- echo the id when non-null, nothing otherwise -/
  | showNN (d : Nat)
deriving Repr, DecidableEq

structure St where
  heap : Heap := []
  slots : List (Option Nat) := []
  out : List String := []
deriving Repr

def St.roots (s : St) : List Nat := s.slots.filterMap id

def getSlot (s : St) (d : Nat) : Option Nat := (s.slots[d]?).join

def setSlot (s : St) (d : Nat) (v : Option Nat) : St :=
  { s with slots := s.slots.set d v }

def Obj.get (o : Obj) : Fld → Option Nat
  | .a => o.a
  | .b => o.b

def Obj.put (o : Obj) (f : Fld) (v : Option Nat) : Obj :=
  match f with
  | .a => { o with a := v }
  | .b => { o with b := v }

def idStr (h : Heap) (x : Nat) : String :=
  match h[x]? with
  | some o => toString o.id
  | none => "?"

def prim (s : St) : Prim → St
  | .new d id => setSlot { s with heap := s.heap ++ [{ id := id }] } d (some s.heap.length)
  | .set f d src =>
    match getSlot s d with
    | some x =>
      match s.heap[x]? with
      | some o => { s with heap := s.heap.set x (o.put f (getSlot s src)) }
      | none => s
    | none => s
  | .load f d src =>
    match getSlot s src with
    | some x =>
      match s.heap[x]? with
      | some o => setSlot s d (o.get f)
      | none => s
    | none => s
  | .mov d src => setSlot s d (getSlot s src)
  | .clr d => setSlot s d none
  | .show d =>
    match getSlot s d with
    | some x => { s with out := s.out ++ [idStr s.heap x] }
    | none => { s with out := s.out ++ ["null"] }
  | .showA d =>
    match getSlot s d with
    | some x =>
      match s.heap[x]? with
      | some o =>
        match o.a with
        | some y => { s with out := s.out ++ [idStr s.heap y] }
        | none => { s with out := s.out ++ ["a-null"] }
      | none => { s with out := s.out ++ ["?"] }
    | none => { s with out := s.out ++ ["null"] }
  | .showNN d =>
    match getSlot s d with
    | some x => { s with out := s.out ++ [idStr s.heap x] }
    | none => s

/-- the collector may run before every primitive step; `k` numbers the boundaries -/
def gcPoint (sched : Nat → Bool) (k : Nat) (s : St) : St :=
  if sched k then { s with heap := collect s.heap s.roots } else s

def exec (sched : Nat → Bool) : Nat → List Prim → St → St
  | _, [], s => s
  | k, p :: ps, s => exec sched (k + 1) ps (prim (gcPoint sched k s) p)

/-! ## operations of `tools/heapgen.py`, compiled to primitives

slots 0-3: program variables; 4: walk cursor; 5, 6: pending argument / callee local / return value;
7, 8: locals of `churn` -/

inductive Op where
  | new (v : Nat) (id : Int)
  | seta (v w : Nat) | setb (v w : Nat)
  | geta (v w : Nat) | getb (v w : Nat)
  | null (v : Nat)
  | show (v : Nat) | showa (v : Nat)
  | churn (n : Nat)
  | link (v : Nat) (id1 id2 : Int)
  | walk (v k : Nat)
deriving Repr

def churnPrims : Nat → List Prim
  | 0 => []
  | n + 1 => [.new 7 (-1), .new 8 (-2), .set .a 7 8, .set .a 8 7, .clr 7, .clr 8] ++ churnPrims n

def walkPrims : Nat → List Prim
  | 0 => []
  | k + 1 => [.showNN 4, .load .a 4 4] ++ walkPrims k

def compile : Op → List Prim
  | .new v id => [.new v id]
  | .seta v w => [.set .a v w]
  | .setb v w => [.set .b v w]
  | .geta v w => [.load .a w v]
  | .getb v w => [.load .b w v]
  | .null v => [.clr v]
  | .show v => [.show v]
  | .showa v => [.showA v]
  | .churn n => churnPrims n
  -- v = link(new Node(id1), mk(id2)):  x held only as a pending argument while mk churns and allocates
  | .link v id1 id2 => [.new 5 id1] ++ churnPrims 2 ++ [.new 6 id2, .set .a 5 6, .set .b 6 5, .mov v 5, .clr 5, .clr 6]
  | .walk v k => [.mov 4 v] ++ walkPrims k ++ [.clr 4]

def initSt : St := { slots := List.replicate 9 none }

def runOps (sched : Nat → Bool) (ops : List Op) : List String :=
  (exec sched 0 (ops.flatMap compile) initSt).out

end BlochVerif.Gc
