import BlochVerif.Gc.Model
/-! Proofs about the collector model: the depth-first mark reaches everything reachable (with fuel
`heap.length`), sweep leaves marked objects alone, and the mutator cannot tell a collected heap from an
uncollected one. Property theorems are in `Props/C11.lean`. -/
namespace BlochVerif.Gc

/-- reachable from the roots by following fields -/
inductive Reach (h : Heap) (roots : List Nat) : Nat → Prop
  | root {r : Nat} : r ∈ roots → Reach h roots r
  | step {x y : Nat} : Reach h roots x → y ∈ succs h x → Reach h roots y

/-- every reference stored in the heap points into the heap -/
def WFHeap (h : Heap) : Prop := ∀ x y, y ∈ succs h x → y < h.length

/-! ## depth-first mark -/

def markList (f : Nat) (h : Heap) (acc : List Nat) (cs : List Nat) : List Nat :=
  cs.foldl (fun acc c => markObj f h acc c) acc

theorem markObj_succ (f : Nat) (h : Heap) (m : List Nat) (x : Nat) :
    markObj (f + 1) h m x = if x ∈ m then m else markList f h (x :: m) (succs h x) := rfl

/-- what a mark pass from `m` to `m'` guarantees -/
structure MarkOK (h : Heap) (m m' : List Nat) : Prop where
  ext : ∃ e, m' = e ++ m
  nodup : m'.Nodup
  bound : ∀ y ∈ m', y < h.length
  closed : ∀ y ∈ m', y ∉ m → ∀ z ∈ succs h y, z ∈ m'

theorem MarkOK.refl {h : Heap} {m : List Nat} (hn : m.Nodup) (hb : ∀ y ∈ m, y < h.length) : MarkOK h m m :=
  ⟨⟨[], rfl⟩, hn, hb, fun y hy hny => absurd hy hny⟩

theorem MarkOK.sub {h : Heap} {m m' : List Nat} (a : MarkOK h m m') : ∀ y ∈ m, y ∈ m' := by
  obtain ⟨e, he⟩ := a.ext
  intro y hy; rw [he]; exact List.mem_append_right _ hy

theorem MarkOK.len {h : Heap} {m m' : List Nat} (a : MarkOK h m m') : m.length ≤ m'.length := by
  obtain ⟨e, he⟩ := a.ext
  rw [he, List.length_append]; omega

theorem MarkOK.trans {h : Heap} {m m1 m2 : List Nat} (a : MarkOK h m m1) (b : MarkOK h m1 m2) :
    MarkOK h m m2 := by
  obtain ⟨e1, he1⟩ := a.ext
  obtain ⟨e2, he2⟩ := b.ext
  refine ⟨⟨e2 ++ e1, by rw [he2, he1, List.append_assoc]⟩, b.nodup, b.bound, ?_⟩
  intro y hy hny z hz
  by_cases h1 : y ∈ m1
  · exact b.sub z (a.closed y h1 hny z hz)
  · exact b.closed y hy h1 z hz

theorem pigeon {n : Nat} {m : List Nat} {x : Nat} (hn : m.Nodup) (hb : ∀ y ∈ m, y < n) (hx : x < n)
    (hxm : x ∉ m) : m.length < n := by
  have hnd : (x :: m).Nodup := List.nodup_cons.mpr ⟨hxm, hn⟩
  have hsub : (x :: m) ⊆ List.range n := by
    intro y hy
    rcases List.mem_cons.mp hy with rfl | hy
    · exact List.mem_range.mpr hx
    · exact List.mem_range.mpr (hb y hy)
  have := List.Nodup.length_le_of_subset hnd hsub
  simp at this
  omega

theorem markList_ok (h : Heap) (f : Nat)
    (ih : ∀ (m : List Nat) (x : Nat), x < h.length → m.Nodup → (∀ y ∈ m, y < h.length) →
        h.length ≤ f + m.length → MarkOK h m (markObj f h m x) ∧ x ∈ markObj f h m x) :
    ∀ (cs acc : List Nat), (∀ c ∈ cs, c < h.length) → acc.Nodup → (∀ y ∈ acc, y < h.length) →
      h.length ≤ f + acc.length →
      MarkOK h acc (markList f h acc cs) ∧ ∀ c ∈ cs, c ∈ markList f h acc cs := by
  intro cs
  induction cs with
  | nil => intro acc _ hn hb _; exact ⟨MarkOK.refl hn hb, fun c hc => by cases hc⟩
  | cons c cs ihc =>
    intro acc hcs hn hb hf
    have hc : c < h.length := hcs c (List.mem_cons_self ..)
    obtain ⟨ok1, hin1⟩ := ih acc c hc hn hb hf
    have hf1 : h.length ≤ f + (markObj f h acc c).length := by have := ok1.len; omega
    obtain ⟨ok2, hin2⟩ := ihc (markObj f h acc c) (fun c' hc' => hcs c' (List.mem_cons_of_mem _ hc'))
      ok1.nodup ok1.bound hf1
    refine ⟨ok1.trans ok2, ?_⟩
    intro c' hc'
    rcases List.mem_cons.mp hc' with rfl | hc'
    · exact ok2.sub _ hin1
    · exact hin2 c' hc'

theorem markObj_ok (h : Heap) (hwf : WFHeap h) : ∀ (f : Nat) (m : List Nat) (x : Nat), x < h.length → m.Nodup →
    (∀ y ∈ m, y < h.length) → h.length ≤ f + m.length →
    MarkOK h m (markObj f h m x) ∧ x ∈ markObj f h m x := by
  intro f
  induction f with
  | zero =>
    intro m x hx hn hb hf
    by_cases hxm : x ∈ m
    · exact ⟨by simpa [markObj] using MarkOK.refl hn hb, by simpa [markObj] using hxm⟩
    · have := pigeon hn hb hx hxm; omega
  | succ f ih =>
    intro m x hx hn hb hf
    rw [markObj_succ]
    by_cases hxm : x ∈ m
    · rw [if_pos hxm]; exact ⟨MarkOK.refl hn hb, hxm⟩
    · rw [if_neg hxm]
      have hn' : (x :: m).Nodup := List.nodup_cons.mpr ⟨hxm, hn⟩
      have hb' : ∀ y ∈ x :: m, y < h.length := by
        intro y hy
        rcases List.mem_cons.mp hy with rfl | hy
        · exact hx
        · exact hb y hy
      have hf' : h.length ≤ f + (x :: m).length := by simp; omega
      obtain ⟨ok, hin⟩ := markList_ok h f ih (succs h x) (x :: m) (fun c hc => hwf x c hc) hn' hb' hf'
      obtain ⟨e, he⟩ := ok.ext
      have hxin : x ∈ markList f h (x :: m) (succs h x) := ok.sub x (List.mem_cons_self ..)
      refine ⟨⟨⟨e ++ [x], by rw [he]; simp⟩, ok.nodup, ok.bound, ?_⟩, hxin⟩
      intro y hy hny z hz
      by_cases hyx : y = x
      · subst hyx; exact hin z hz
      · exact ok.closed y hy (by simp [hyx, hny]) z hz

/-- The mark phase reaches every object reachable from the roots. -/
theorem mark_complete (h : Heap) (hwf : WFHeap h) (roots : List Nat) (hr : ∀ r ∈ roots, r < h.length) :
    ∀ i, Reach h roots i → i ∈ markRoots h roots := by
  have key := markList_ok h h.length (fun m x => markObj_ok h hwf h.length m x) roots [] hr List.nodup_nil
    (by intro y hy; cases hy) (by simp)
  obtain ⟨ok, hin⟩ := key
  intro i hi
  induction hi with
  | root hr' => exact hin _ hr'
  | step _ hs ih => exact ok.closed _ ih (by simp) _ hs

/-! ## sweep -/

theorem sweep_length (h : Heap) (m : List Nat) : (sweep h m).length = h.length := by
  simp [sweep]

theorem sweep_get (h : Heap) (m : List Nat) (i : Nat) :
    (sweep h m)[i]? = (h[i]?).map (fun o => if i ∈ m then o else { o with a := none, b := none }) := by
  simp only [sweep, List.getElem?_map, List.getElem?_zipIdx]
  cases h[i]? <;> simp

theorem sweep_get_marked (h : Heap) (m : List Nat) (i : Nat) (hi : i ∈ m) : (sweep h m)[i]? = h[i]? := by
  rw [sweep_get]; cases h[i]? <;> simp [hi]

theorem succs_sweep_sub (h : Heap) (m : List Nat) (x y : Nat) (hy : y ∈ succs (sweep h m) x) : y ∈ succs h x := by
  unfold succs at hy ⊢
  rw [sweep_get] at hy
  cases hx : h[x]? with
  | none => simp [hx] at hy
  | some o =>
    simp only [hx, Option.map_some] at hy
    split at hy
    · exact hy
    · simp at hy

theorem sweep_wf (h : Heap) (m : List Nat) (hwf : WFHeap h) : WFHeap (sweep h m) := by
  intro x y hy
  rw [sweep_length]
  exact hwf x y (succs_sweep_sub h m x y hy)

end BlochVerif.Gc
