import BlochVerif.Sim.Model
/-!
# The OpenQASM text: `getQasm` (render) and an independent strict reader (parse)

`render` mirrors the string building in `qasm_simulator.cpp`; `parseQasm` is written from the
OpenQASM 2.0 shape documented in `docs/reference/qasm-mapping.md`, not from the printer.
Angles are carried as the printed decimal string (`fmt`), so `parse (render s)` is exact.
-/
namespace BlochVerif.Sim

/-- an operation as it appears in the text: angles are decimal strings -/
inductive TOp where
  | g1 (name : String) (q : Nat)
  | rot (name : String) (angle : String) (q : Nat)
  | cx (c t : Nat)
  | reset (q : Nat)
  | measure (q c : Nat)
deriving Repr, DecidableEq, BEq

def QOp.toText {R : Type} (fmt : R → String) : QOp R → TOp
  | .h q => .g1 "h" q | .x q => .g1 "x" q | .y q => .g1 "y" q | .z q => .g1 "z" q
  | .rx q t => .rot "rx" (fmt t) q | .ry q t => .rot "ry" (fmt t) q | .rz q t => .rot "rz" (fmt t) q
  | .cx c t => .cx c t
  | .reset q => .reset q
  | .measure q => .measure q q

def TOp.render : TOp → String
  | .g1 name q => name ++ " q[" ++ toString q ++ "];\n"
  | .rot name a q => name ++ "(" ++ a ++ ") q[" ++ toString q ++ "];\n"
  | .cx c t => "cx q[" ++ toString c ++ "],q[" ++ toString t ++ "];\n"
  | .reset q => "reset q[" ++ toString q ++ "];\n"
  | .measure q c => "measure q[" ++ toString q ++ "] -> c[" ++ toString c ++ "];\n"

def header : String := "OPENQASM 2.0;\ninclude \"qelib1.inc\";\n"

def renderProgram (n : Nat) (ops : List TOp) : String :=
  header ++ "qreg q[" ++ toString n ++ "];\n" ++ "creg c[" ++ toString n ++ "];\n" ++
    String.join (ops.map TOp.render)

/-- `QasmSimulator::getQasm` -/
def getQasm {K R : Type} (fmt : R → String) (st : State K R) : String :=
  renderProgram st.n (st.ops.map (QOp.toText fmt))

/-! ## strict reader -/

def stripPrefix? (s pre : String) : Option String :=
  if s.startsWith pre then some (s.drop pre.length).toString else none

def stripSuffix? (s suf : String) : Option String :=
  if s.endsWith suf then some (s.dropEnd suf.length).toString else none

/-- `q[12]` → 12 -/
def parseReg (reg : String) (s : String) : Option Nat := do
  let r ← stripPrefix? s (reg ++ "[")
  let r ← stripSuffix? r "]"
  if r.isEmpty || !(r.all Char.isDigit) then none else r.toNat?

def isAngle (s : String) : Bool :=
  let s := if s.startsWith "-" then (s.drop 1).toString else s
  match s.splitOn "." with
  | [a, b] => !a.isEmpty && !b.isEmpty && a.all Char.isDigit && b.all Char.isDigit
  | [a] => !a.isEmpty && a.all Char.isDigit
  | _ => false

def parseLine (line : String) : Option TOp := do
  let body ← stripSuffix? line ";"
  match body.splitOn " " with
  | ["measure", qa, "->", ca] => do
      let q ← parseReg "q" qa; let c ← parseReg "c" ca; pure (.measure q c)
  | ["reset", qa] => do let q ← parseReg "q" qa; pure (.reset q)
  | ["cx", args] =>
      match args.splitOn "," with
      | [a, b] => do let c ← parseReg "q" a; let t ← parseReg "q" b; pure (.cx c t)
      | _ => none
  | [g, qa] =>
      if g == "h" || g == "x" || g == "y" || g == "z" then do
        let q ← parseReg "q" qa; pure (.g1 g q)
      else do
        let r ← stripSuffix? g ")"
        match r.splitOn "(" with
        | [name, ang] =>
          if (name == "rx" || name == "ry" || name == "rz") && isAngle ang then do
            let q ← parseReg "q" qa; pure (.rot name ang q)
          else none
        | _ => none
  | _ => none

structure QProgram where
  n : Nat
  ops : List TOp
deriving Repr

def TOp.operands : TOp → List Nat
  | .g1 _ q => [q] | .rot _ _ q => [q] | .cx c t => [c, t] | .reset q => [q] | .measure q c => [q, c]

/-- well-formedness demanded by C05: operands in range, `cx` on distinct qubits,
    `measure q[i] -> c[i]` -/
def QProgram.wellFormed (p : QProgram) : Bool :=
  p.ops.all (fun op => op.operands.all (· < p.n) &&
    (match op with | .cx c t => c != t | _ => true))

def parseQasm (text : String) : Option QProgram := do
  let lines := text.splitOn "\n"
  match lines with
  | l1 :: l2 :: l3 :: l4 :: rest =>
    if l1 != "OPENQASM 2.0;" || l2 != "include \"qelib1.inc\";" then none else
    let n ← (stripPrefix? l3 "qreg " >>= (stripSuffix? · ";")) >>= parseReg "q"
    let m ← (stripPrefix? l4 "creg " >>= (stripSuffix? · ";")) >>= parseReg "c"
    if n != m then none else
    -- text ends with "\n": the last split piece must be empty
    match rest.reverse with
    | last :: body =>
      if last != "" then none else do
        let ops ← body.reverse.mapM parseLine
        pure { n := n, ops := ops }
    | [] => none
  | _ => none

end BlochVerif.Sim
