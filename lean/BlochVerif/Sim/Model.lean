import BlochVerif.Util.Loops
/-!
# Model of `src/bloch/runtime/qasm_simulator.cpp`

One Lean definition per C++ member function, with the same loops (`forStep`) and the same
index arithmetic.  The model is generic in the amplitude type `K` and the real type `R`:

* instantiated with `CF`/`Float` (file `Sim/FloatInst.lean`) it is *executed* by the driver and
  compared with the real simulator after every operation (the correspondence check);
* instantiated with Mathlib's `ℂ`/`ℝ` (file `Sim/Proofs*.lean`) it is what the theorems of
  C01–C05 are about.  The same definitions are run and reasoned about.

Core-only: nothing here imports Mathlib.
-/

namespace BlochVerif.Sim

structure Mat2 (K : Type) where
  a : K
  b : K
  c : K
  d : K

/-- Real/complex operations the simulator uses, passed explicitly (no type-class diamonds
    with Mathlib's instances on `ℂ`). `K` additionally needs `+` and `*`. -/
structure ROps (K R : Type) where
  cplx    : R → R → K          -- std::complex<double>(re, im)
  kzero   : K
  normSq  : K → R              -- std::norm
  divR    : K → R → K          -- z /= r
  mulR    : K → R → K          -- z *= r
  zero    : R
  one     : R
  add     : R → R → R
  sub     : R → R → R
  mul     : R → R → R
  div     : R → R → R
  neg     : R → R
  sqrt    : R → R
  invSqrt2 : R                  -- 1 / std::sqrt(2.0)
  cosHalf : R → R              -- std::cos(t / 2)
  sinHalf : R → R              -- std::sin(t / 2)
  lt      : R → R → Bool
  isZero  : R → Bool           -- x == 0.0

/-- One line of the operation log (`m_ops`), kept structured; `Qasm.render` prints it. -/
inductive QOp (R : Type) where
  | h (q : Nat) | x (q : Nat) | y (q : Nat) | z (q : Nat)
  | rx (q : Nat) (t : R) | ry (q : Nat) (t : R) | rz (q : Nat) (t : R)
  | cx (c t : Nat)
  | reset (q : Nat)
  | measure (q : Nat)
deriving Repr

inductive SimErr where
  | outOfRange (q : Int)
  | measured (q : Nat)
  | sameOperand (q : Nat)
deriving Repr, DecidableEq

structure State (K R : Type) where
  n        : Nat := 0                 -- m_qubits
  amps     : Array K                  -- m_state
  measured : Array Bool := #[]        -- m_measured
  ops      : List (QOp R) := []       -- m_ops (structured)
  logOps   : Bool := true

section
variable {K R : Type} [Inhabited K]

def State.init (o : ROps K R) (logOps : Bool := true) : State K R :=
  { n := 0, amps := #[o.cplx o.one o.zero], measured := #[], ops := [], logOps := logOps }

def State.log (st : State K R) (op : QOp R) : State K R :=
  if st.logOps then { st with ops := st.ops ++ [op] } else st

/-- `QasmSimulator::allocateQubit` -/
def allocate (o : ROps K R) (st : State K R) : State K R × Nat :=
  let index := st.n
  let measured :=
    if index ≥ st.measured.size then st.measured ++ Array.replicate (index + 1 - st.measured.size) false
    else st.measured.setIfInBounds index false
  let sz := st.amps.size
  let newState : Array K := Array.replicate (sz * 2) o.kzero
  let newState := forRange sz (fun i ns =>
      (ns.setIfInBounds i st.amps[i]!).setIfInBounds (i + sz) o.kzero) newState
  ({ st with n := st.n + 1, measured := measured, amps := newState }, index)

/-- `QasmSimulator::ensureQubitActive` (the C++ takes an `int`; negative indices are
    represented by `q : Int` at the driver boundary and rejected there with `outOfRange`). -/
def ensureActive (st : State K R) (q : Nat) : Except SimErr Unit :=
  if q ≥ st.n then .error (.outOfRange q)
  else if q < st.measured.size && st.measured[q]! then .error (.measured q)
  else .ok ()

variable [Add K] [Mul K]

def pairUpdate (m : Mat2 K) (step i j : Nat) (st : Array K) : Array K :=
  let idx0 := i + j
  let idx1 := idx0 + step
  let a0 := st[idx0]!
  let a1 := st[idx1]!
  (st.setIfInBounds idx0 (m.a * a0 + m.b * a1)).setIfInBounds idx1 (m.c * a0 + m.d * a1)

/-- The two nested loops of `applySingleQubitGate`. -/
def applySingle (arr : Array K) (q : Nat) (m : Mat2 K) : Array K :=
  let step := 2 ^ q
  forStep arr.size (2 * step)
    (fun i st => forStep step 1 (fun j st => pairUpdate m step i j st) 0 st) 0 arr

def swapCells (st : Array K) (i j : Nat) : Array K :=
  let a := st[i]!
  let b := st[j]!
  (st.setIfInBounds i b).setIfInBounds j a

/-- The three nested loops of `QasmSimulator::cx` (without the activity checks). -/
def cxLoop (arr : Array K) (control target : Nat) : Array K :=
  let low := min control target
  let high := max control target
  let lowBit := 1 <<< low
  let highBit := 1 <<< high
  let blockSize := 1 <<< (high + 1)
  let lowSpan := lowBit
  let betweenSpan := if high > low + 1 then 1 <<< (high - low - 1) else 1
  let controlIsLow := control == low
  forStep arr.size blockSize (fun block st =>
    forStep betweenSpan 1 (fun between st =>
      let mid := between <<< (low + 1)
      forStep lowSpan 1 (fun lowOffset st =>
        let base := block ||| mid ||| lowOffset
        let idx0 := if controlIsLow then base ||| lowBit else base ||| highBit
        let idx1 := if controlIsLow then idx0 ||| highBit else idx0 ||| lowBit
        swapCells st idx0 idx1) 0 st) 0 st) 0 arr

def gateMat (o : ROps K R) : QOp R → Option (Nat × Mat2 K)
  | .h q => some (q, ⟨o.cplx o.invSqrt2 o.zero, o.cplx o.invSqrt2 o.zero,
                      o.cplx o.invSqrt2 o.zero, o.cplx (o.neg o.invSqrt2) o.zero⟩)
  | .x q => some (q, ⟨o.cplx o.zero o.zero, o.cplx o.one o.zero, o.cplx o.one o.zero, o.cplx o.zero o.zero⟩)
  | .y q => some (q, ⟨o.cplx o.zero o.zero, o.cplx o.zero (o.neg o.one),
                      o.cplx o.zero o.one, o.cplx o.zero o.zero⟩)
  | .z q => some (q, ⟨o.cplx o.one o.zero, o.cplx o.zero o.zero,
                      o.cplx o.zero o.zero, o.cplx (o.neg o.one) o.zero⟩)
  | .rx q t => let c := o.cosHalf t; let s := o.sinHalf t
      some (q, ⟨o.cplx c o.zero, o.cplx o.zero (o.neg s), o.cplx o.zero (o.neg s), o.cplx c o.zero⟩)
  | .ry q t => let c := o.cosHalf t; let s := o.sinHalf t
      some (q, ⟨o.cplx c o.zero, o.cplx (o.neg s) o.zero, o.cplx s o.zero, o.cplx c o.zero⟩)
  | .rz q t => let c := o.cosHalf t; let s := o.sinHalf t
      some (q, ⟨o.cplx c (o.neg s), o.cplx o.zero o.zero, o.cplx o.zero o.zero, o.cplx c s⟩)
  | _ => none

/-- `h`, `x`, `y`, `z`, `rx`, `ry`, `rz`: check, apply, then log. -/
def gate1 (o : ROps K R) (st : State K R) (op : QOp R) : Except SimErr (State K R) :=
  match gateMat o op with
  | none => .ok st
  | some (q, m) => do
    ensureActive st q
    pure (({ st with amps := applySingle st.amps q m }).log op)

/-- `QasmSimulator::cx` -/
def cx (st : State K R) (c t : Nat) : Except SimErr (State K R) := do
  ensureActive st c
  ensureActive st t
  if c = t then throw (.sameOperand c)
  pure (({ st with amps := cxLoop st.amps c t }).log (.cx c t))

/-- probability mass of the `bit q = b` half, accumulated left to right as the C++ does -/
def mass (o : ROps K R) (arr : Array K) (q : Nat) (b : Bool) : R :=
  forRange arr.size (fun i acc => if i.testBit q == b then o.add acc (o.normSq arr[i]!) else acc) o.zero

/-- zero the `bit q ≠ res` half and divide the other half by `norm` -/
def collapse (o : ROps K R) (arr : Array K) (q : Nat) (res : Bool) (norm : R) : Array K :=
  forRange arr.size (fun i st =>
    if i.testBit q != res then st.setIfInBounds i o.kzero
    else st.setIfInBounds i (o.divR st[i]! norm)) arr

/-- the body of `QasmSimulator::measure` after the activity check; `r` is the uniform draw -/
def measureCore (o : ROps K R) (st : State K R) (q : Nat) (r : R) : State K R × Bool :=
  let p0 := mass o st.amps q false
  let p1 := mass o st.amps q true
  let res := o.lt (o.mul r (o.add p0 p1)) p1
  let norm := o.sqrt (if res then p1 else p0)
  let st1 := ({ st with amps := collapse o st.amps q res norm }).log (.measure q)
  ({ st1 with measured := st1.measured.setIfInBounds q true }, res)

/-- `QasmSimulator::measure`, with the random draw `r` an explicit input. -/
def measure (o : ROps K R) (st : State K R) (q : Nat) (r : R) : Except SimErr (State K R × Nat) := do
  ensureActive st q
  let (st', res) := measureCore o st q r
  pure (st', if res then 1 else 0)

/-- move the `bit q = 1` half into the `bit q = 0` half and zero it -/
def swapDown (o : ROps K R) (arr : Array K) (q : Nat) : Array K :=
  forRange arr.size (fun i st =>
    if i.testBit q then (st.setIfInBounds (i ^^^ (1 <<< q)) st[i]!).setIfInBounds i o.kzero
    else st) arr

/-- the body of `QasmSimulator::reset` after the range check (C04 repair): sample the target
    like a measurement with the explicit draw `r`, collapse, and if the outcome was 1 move the
    amplitude into the `|0>` half.  The flag is cleared and the log line is `reset q[i];`. -/
def resetCore (o : ROps K R) (st : State K R) (q : Nat) (r : R) : State K R × Bool :=
  let st0 := { st with measured := st.measured.setIfInBounds q false }
  let p0 := mass o st0.amps q false
  let p1 := mass o st0.amps q true
  let res := o.lt (o.mul r (o.add p0 p1)) p1
  let norm := o.sqrt (if res then p1 else p0)
  let amps := collapse o st0.amps q res norm
  let amps := if res then swapDown o amps q else amps
  (({ st0 with amps := amps }).log (.reset q), res)

/-- `QasmSimulator::reset` -/
def reset (o : ROps K R) (st : State K R) (q : Nat) (r : R) : Except SimErr (State K R × Nat) := do
  if q ≥ st.n then throw (.outOfRange q)
  let (st', res) := resetCore o st q r
  pure (st', if res then 1 else 0)

end
end BlochVerif.Sim

namespace BlochVerif.Sim
section
variable {K R : Type} [Inhabited K] [Add K] [Mul K]

/-- one operation of a simulator history; measurement and reset carry their uniform draw -/
inductive HOp (R : Type) where
  | alloc
  | gate (op : QOp R)
  | cx (c t : Nat)
  | measure (q : Nat) (r : R)
  | reset (q : Nat) (r : R)

/-- run one operation; an operation the simulator refuses (out of range, measured qubit,
    `cx q q`) throws before mutating anything, so the state is unchanged -/
def stepOp (o : ROps K R) (st : State K R) : HOp R → State K R
  | .alloc => (allocate o st).1
  | .gate op => match gate1 o st op with | .ok s => s | .error _ => st
  | .cx c t => match cx st c t with | .ok s => s | .error _ => st
  | .measure q r => match measure o st q r with | .ok (s, _) => s | .error _ => st
  | .reset q r => match reset o st q r with | .ok (s, _) => s | .error _ => st

def runOps (o : ROps K R) (st : State K R) (h : List (HOp R)) : State K R := h.foldl (stepOp o) st

end
end BlochVerif.Sim
