import BlochVerif.Sim.Model
import BlochVerif.Util.FloatFmt
/-!
# The executable instance: `std::complex<double>` / `double`

Lean's `Float` is the platform `double`, `Float.cos/sin/sqrt` call the same libm.  Complex
multiplication is the textbook formula GCC emits for finite operands.
-/
namespace BlochVerif.Sim

structure CF where
  re : Float
  im : Float
deriving Inhabited

instance : Add CF := ⟨fun a b => ⟨a.re + b.re, a.im + b.im⟩⟩
instance : Mul CF := ⟨fun a b => ⟨a.re * b.re - a.im * b.im, a.re * b.im + a.im * b.re⟩⟩

def floatOps : ROps CF Float where
  cplx := fun a b => ⟨a, b⟩
  kzero := ⟨0.0, 0.0⟩
  normSq := fun z => z.re * z.re + z.im * z.im
  divR := fun z r => ⟨z.re / r, z.im / r⟩
  mulR := fun z r => ⟨z.re * r, z.im * r⟩
  zero := 0.0
  one := 1.0
  add := (· + ·)
  sub := (· - ·)
  mul := (· * ·)
  div := (· / ·)
  neg := fun x => -x
  sqrt := Float.sqrt
  invSqrt2 := 1.0 / Float.sqrt 2.0
  cosHalf := fun t => Float.cos (t / 2.0)
  sinHalf := fun t => Float.sin (t / 2.0)
  lt := fun a b => a < b
  isZero := fun x => x == 0.0

end BlochVerif.Sim
