import BlochVerif.Sim.Measure
/-!
# C03 (first half): the state stays a unit `2^n` vector along every history
-/
namespace BlochVerif.Sim
open Finset

theorem nrm2_congr (f g : ℕ → ℂ) (N : ℕ) (h : ∀ k, k < N → f k = g k) : nrm2 f N = nrm2 g N := by
  unfold nrm2
  apply Finset.sum_congr rfl
  intro k hk; rw [h k (mem_range.mp hk)]

theorem WF_init : WF (State.init complexOps true) := by
  refine ⟨rfl, ?_, rfl⟩
  show nrm2 _ (2 ^ 0) = 1
  simp [nrm2, absArr, State.init, complexOps]

theorem WF_init' (l : Bool) : WF (State.init complexOps l) := by
  refine ⟨rfl, ?_, rfl⟩
  show nrm2 _ (2 ^ 0) = 1
  simp [nrm2, absArr, State.init, complexOps]

theorem WF_allocate (st : State ℂ ℝ) (hw : WF st) : WF (allocate complexOps st).1 := by
  obtain ⟨h1, h2⟩ := allocate_amps complexOps st
  refine ⟨?_, ?_, ?_⟩
  · rw [h1, allocate_n, hw.size, Nat.pow_succ]; omega
  · rw [allocate_n, Nat.pow_succ, Nat.mul_comm, Nat.two_mul]
    unfold nrm2
    rw [Finset.sum_range_add]
    have e1 : ∑ k ∈ range (2 ^ st.n), Complex.normSq (absArr (allocate complexOps st).1.amps k) =
        ∑ k ∈ range (2 ^ st.n), Complex.normSq (absArr st.amps k) := by
      apply Finset.sum_congr rfl
      intro k hk
      have hk' := mem_range.mp hk
      unfold absArr
      rw [h2 k (by rw [hw.size]; omega), if_pos (by rw [hw.size]; exact hk')]
    have e2 : ∑ k ∈ range (2 ^ st.n),
        Complex.normSq (absArr (allocate complexOps st).1.amps (2 ^ st.n + k)) = 0 := by
      apply Finset.sum_eq_zero
      intro k hk
      have hk' := mem_range.mp hk
      unfold absArr
      rw [h2 _ (by rw [hw.size]; omega), if_neg (by rw [hw.size]; omega)]
      simp [complexOps]
    rw [e1, e2, add_zero]
    exact hw.norm
  · unfold allocate
    simp only
    rw [if_pos (by rw [hw.flags])]
    simp [hw.flags]

theorem WF_gate (st : State ℂ ℝ) (hw : WF st) (op : QOp ℝ) (s : State ℂ ℝ)
    (h : gate1 complexOps st op = .ok s) : WF s := by
  unfold gate1 at h
  cases hg : gateMat complexOps op with
  | none => rw [hg] at h; cases h; exact hw
  | some qm =>
    obtain ⟨q, m⟩ := qm
    rw [hg] at h
    simp only [bind, Except.bind] at h
    cases he : ensureActive st q with
    | error e => rw [he] at h; cases h
    | ok u =>
      rw [he] at h
      simp only [pure, Except.pure] at h
      cases h
      have hq : q < st.n := by
        unfold ensureActive at he
        by_cases c : q ≥ st.n
        · rw [if_pos c] at he; cases he
        · omega
      obtain ⟨a1, a2⟩ := applySingle_eq_gateSpec st.amps st.n q m hw.size hq
      refine ⟨?_, ?_, ?_⟩
      · simp [a1, hw.size]
      · simp only [log_amps, log_n]
        rw [← hw.norm, ← gate_norm (absArr st.amps) st.n q hq m (gateMat_unitary op q m hg)]
        apply nrm2_congr
        intro k hk
        unfold absArr
        rw [a2 k (by rw [hw.size]; exact hk), gateSpec_eq_gateSpecX]
        rfl
      · simp [hw.flags]

theorem WF_cx (st : State ℂ ℝ) (hw : WF st) (c t : ℕ) (s : State ℂ ℝ)
    (h : cx st c t = .ok s) : WF s := by
  unfold cx at h
  simp only [bind, Except.bind] at h
  cases hc : ensureActive st c with
  | error e => rw [hc] at h; cases h
  | ok u =>
    rw [hc] at h
    cases ht : ensureActive st t with
    | error e => rw [ht] at h; cases h
    | ok u' =>
      rw [ht] at h
      simp only at h
      by_cases hct : c = t
      · rw [if_pos hct] at h; cases h
      · rw [if_neg hct] at h
        simp only [pure, Except.pure] at h
        cases h
        have hcn : c < st.n := by
          unfold ensureActive at hc
          by_cases cc : c ≥ st.n
          · rw [if_pos cc] at hc; cases hc
          · omega
        have htn : t < st.n := by
          unfold ensureActive at ht
          by_cases cc : t ≥ st.n
          · rw [if_pos cc] at ht; cases ht
          · omega
        obtain ⟨a1, a2⟩ := cxLoop_eq_cxSpec st.amps st.n c t hw.size hcn htn hct
        refine ⟨?_, ?_, ?_⟩
        · simp [a1, hw.size]
        · simp only [log_amps, log_n]
          rw [← hw.norm, ← cx_norm (absArr st.amps) st.n c t htn hct]
          apply nrm2_congr
          intro k hk
          unfold absArr
          rw [a2 k (by rw [hw.size]; exact hk)]
          rfl
        · simp [hw.flags]

theorem WF_measureCore (st : State ℂ ℝ) (hw : WF st) (q : ℕ) (r : ℝ) (hr0 : 0 ≤ r) (hr1 : r < 1) :
    WF (measureCore complexOps st q r).1 := by
  obtain ⟨_, h2, h3, h4, h5, _, _⟩ := measureCore_spec st hw q r
  refine ⟨by rw [h3, h2], ?_, by rw [h5, h2]; simp [hw.flags]⟩
  rw [h2, ← nrm2_collapse (absArr st.amps) (2 ^ st.n) q _
    (branch_pos (absArr st.amps) (2 ^ st.n) q hw.norm r hr0 hr1)]
  apply nrm2_congr
  intro k hk
  exact h4 k hk

theorem WF_resetCore (st : State ℂ ℝ) (hw : WF st) (q : ℕ) (hq : q < st.n) (r : ℝ)
    (hr0 : 0 ≤ r) (hr1 : r < 1) : WF (resetCore complexOps st q r).1 := by
  obtain ⟨_, h2, h3, h4, h5, _, _⟩ := resetCore_spec st hw q hq r
  refine ⟨by rw [h3, h2], ?_, by rw [h5, h2]; simp [hw.flags]⟩
  rw [h2, ← nrm2_reset (absArr st.amps) st.n q hq _
    (branch_pos (absArr st.amps) (2 ^ st.n) q hw.norm r hr0 hr1)]
  apply nrm2_congr
  intro k hk
  exact h4 k hk

def DrawOK : HOp ℝ → Prop
  | .measure _ r => 0 ≤ r ∧ r < 1
  | .reset _ r => 0 ≤ r ∧ r < 1
  | _ => True

theorem WF_step (st : State ℂ ℝ) (hw : WF st) (op : HOp ℝ) (hd : DrawOK op) :
    WF (stepOp complexOps st op) := by
  cases op with
  | alloc => exact WF_allocate st hw
  | gate g =>
    simp only [stepOp]
    cases h : gate1 complexOps st g with
    | ok s => exact WF_gate st hw g s h
    | error e => exact hw
  | cx c t =>
    simp only [stepOp]
    cases h : cx st c t with
    | ok s => exact WF_cx st hw c t s h
    | error e => exact hw
  | measure q r =>
    simp only [stepOp]
    cases h : measure complexOps st q r with
    | error e => exact hw
    | ok p =>
      obtain ⟨s, b⟩ := p
      unfold measure at h
      simp only [bind, Except.bind] at h
      cases he : ensureActive st q with
      | error e => rw [he] at h; cases h
      | ok u =>
        rw [he] at h
        simp only [pure, Except.pure] at h
        cases h
        exact WF_measureCore st hw q r hd.1 hd.2
  | reset q r =>
    simp only [stepOp]
    cases h : reset complexOps st q r with
    | error e => exact hw
    | ok p =>
      obtain ⟨s, b⟩ := p
      unfold reset at h
      by_cases hq : q ≥ st.n
      · simp only [hq, if_true, bind, Except.bind, throw, throwThe, MonadExceptOf.throw] at h
        cases h
      · simp only [hq, if_false, bind, Except.bind, pure, Except.pure] at h
        cases h
        exact WF_resetCore st hw q (by omega) r hd.1 hd.2

/-- **C03, first half.** After any finite history of allocations, gates, `cx`, measurements and
    resets (with draws in `[0,1)`), the state has exactly `2^n` amplitudes and unit norm. -/
theorem WF_run (h : List (HOp ℝ)) (st : State ℂ ℝ) (hw : WF st) (hd : ∀ op ∈ h, DrawOK op) :
    WF (runOps complexOps st h) := by
  induction h generalizing st with
  | nil => exact hw
  | cons op rest ih =>
    unfold runOps
    rw [List.foldl_cons]
    exact ih _ (WF_step st hw op (hd op (by simp))) (fun o ho => hd o (by simp [ho]))

end BlochVerif.Sim
