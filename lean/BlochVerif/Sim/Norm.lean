import BlochVerif.Sim.Complex
/-!
# Gates preserve the norm (C03), via the pairing `k ↔ k xor 2^q`
-/
namespace BlochVerif.Sim
open Finset

theorem xor_two_pow_lt {n q k : ℕ} (hq : q < n) (hk : k < 2 ^ n) : k ^^^ 2 ^ q < 2 ^ n :=
  Nat.xor_lt_two_pow hk (Nat.pow_lt_pow_right (by omega) hq)

/-- reindexing a sum over `range (2^n)` by the involution `k ↦ k xor 2^q` -/
theorem sum_xor_reindex (f : ℕ → ℝ) (n q : ℕ) (hq : q < n) :
    ∑ k ∈ range (2 ^ n), f (k ^^^ 2 ^ q) = ∑ k ∈ range (2 ^ n), f k := by
  apply Finset.sum_nbij' (fun k => k ^^^ 2 ^ q) (fun k => k ^^^ 2 ^ q)
  · intro k hk; rw [mem_range] at *; exact xor_two_pow_lt hq hk
  · intro k hk; rw [mem_range] at *; exact xor_two_pow_lt hq hk
  · intro k _; exact xor_two_pow_cancel k q
  · intro k _; exact xor_two_pow_cancel k q
  · intro k _; rfl

theorem gate_pair_norm (ψ : ℕ → ℂ) (q : ℕ) (m : Mat2 ℂ) (hu : IsUnitary2 m) (k : ℕ) :
    Complex.normSq (gateSpecX ψ q m k) + Complex.normSq (gateSpecX ψ q m (k ^^^ 2 ^ q)) =
      Complex.normSq (ψ k) + Complex.normSq (ψ (k ^^^ 2 ^ q)) := by
  unfold gateSpecX
  rw [testBit_xor_two_pow_self, xor_two_pow_cancel]
  cases h : k.testBit q
  · simp only [Bool.false_eq_true, if_false, Bool.not_false, if_true]
    exact normSq_pair m hu (ψ k) (ψ (k ^^^ 2 ^ q))
  · simp only [if_true, Bool.not_true, Bool.false_eq_true, if_false]
    have := normSq_pair m hu (ψ (k ^^^ 2 ^ q)) (ψ k)
    linarith

/-- **A one-qubit unitary on any tensor factor preserves the norm**, for every `n`, `q < n`, `ψ`. -/
theorem gate_norm (ψ : ℕ → ℂ) (n q : ℕ) (hq : q < n) (m : Mat2 ℂ) (hu : IsUnitary2 m) :
    nrm2 (gateSpecX ψ q m) (2 ^ n) = nrm2 ψ (2 ^ n) := by
  unfold nrm2
  have h1 := sum_xor_reindex (fun k => Complex.normSq (gateSpecX ψ q m k)) n q hq
  have h2 := sum_xor_reindex (fun k => Complex.normSq (ψ k)) n q hq
  have h3 : ∑ k ∈ range (2 ^ n), (Complex.normSq (gateSpecX ψ q m k) +
      Complex.normSq (gateSpecX ψ q m (k ^^^ 2 ^ q))) =
      ∑ k ∈ range (2 ^ n), (Complex.normSq (ψ k) + Complex.normSq (ψ (k ^^^ 2 ^ q))) :=
    Finset.sum_congr rfl (fun k _ => gate_pair_norm ψ q m hu k)
  rw [Finset.sum_add_distrib, Finset.sum_add_distrib] at h3
  linarith

/-- the controlled-NOT index map is an involution of `range (2^n)` -/
def cxMap (c t k : ℕ) : ℕ := if k.testBit c then k ^^^ 2 ^ t else k

theorem cxMap_invol (c t k : ℕ) (hct : c ≠ t) : cxMap c t (cxMap c t k) = k := by
  unfold cxMap
  cases h : k.testBit c
  · simp [h]
  · have : (k ^^^ 2 ^ t).testBit c = true := by
      rw [Nat.testBit_xor, h, Nat.testBit_two_pow]; simp [Ne.symm hct]
    simp [this, xor_two_pow_cancel]

theorem cxMap_lt {n c t k : ℕ} (ht : t < n) (hk : k < 2 ^ n) : cxMap c t k < 2 ^ n := by
  unfold cxMap; split
  · exact xor_two_pow_lt ht hk
  · exact hk

theorem cx_norm (ψ : ℕ → ℂ) (n c t : ℕ) (ht : t < n) (hct : c ≠ t) :
    nrm2 (cxSpec ψ c t) (2 ^ n) = nrm2 ψ (2 ^ n) := by
  unfold nrm2 cxSpec
  apply Finset.sum_nbij' (cxMap c t) (cxMap c t)
  · intro k hk; rw [mem_range] at *; exact cxMap_lt ht hk
  · intro k hk; rw [mem_range] at *; exact cxMap_lt ht hk
  · intro k _; exact cxMap_invol c t k hct
  · intro k _; exact cxMap_invol c t k hct
  · intro k _; rfl

end BlochVerif.Sim
