import BlochVerif.Sim.SpecCore
/-!
# What the remaining loops of the simulator compute (core-only, any scalar type)

`allocateQubit` (copy into the lower half, zero the upper half), the collapse loop shared by
`measure` and `reset`, and the move-down loop of `reset`.
-/
namespace BlochVerif.Sim

section
variable {K R : Type} [Inhabited K]

@[simp] theorem log_amps (st : State K R) (op : QOp R) : (st.log op).amps = st.amps := by
  unfold State.log; split <;> rfl
@[simp] theorem log_n (st : State K R) (op : QOp R) : (st.log op).n = st.n := by
  unfold State.log; split <;> rfl
@[simp] theorem log_measured (st : State K R) (op : QOp R) : (st.log op).measured = st.measured := by
  unfold State.log; split <;> rfl
@[simp] theorem log_logOps (st : State K R) (op : QOp R) : (st.log op).logOps = st.logOps := by
  unfold State.log; split <;> rfl
theorem log_ops (st : State K R) (op : QOp R) :
    (st.log op).ops = if st.logOps then st.ops ++ [op] else st.ops := by
  unfold State.log; split <;> rfl

theorem rd_replicate (n : Nat) (v : K) (k : Nat) (hk : k < n) : (Array.replicate n v)[k]! = v := by
  simp [hk]

/-- `allocateQubit`: the new vector is `ψ ⊗ |0⟩` — old amplitudes in the lower half, zeros above. -/
theorem allocate_amps (o : ROps K R) (st : State K R) :
    (allocate o st).1.amps.size = 2 * st.amps.size ∧
    ∀ k, k < 2 * st.amps.size →
      (allocate o st).1.amps[k]! = if k < st.amps.size then st.amps[k]! else o.kzero := by
  unfold allocate
  simp only
  have inv := forRange_inv st.amps.size
    (fun i ns => (ns.setIfInBounds i st.amps[i]!).setIfInBounds (i + st.amps.size) o.kzero)
    (fun t ns => ns.size = 2 * st.amps.size ∧ ∀ k, k < 2 * st.amps.size →
      ns[k]! = if k < t then st.amps[k]! else o.kzero)
    (by
      intro t ns ht ⟨hs, hv⟩
      refine ⟨by simp [hs], ?_⟩
      intro k hk
      simp only [rd_set, Array.size_setIfInBounds, hs]
      by_cases e1 : t + st.amps.size = k
      · rw [if_pos ⟨e1, by omega⟩, if_neg (by omega)]
      · rw [if_neg (by intro h; exact e1 h.1)]
        by_cases e0 : t = k
        · subst e0; rw [if_pos ⟨rfl, by omega⟩, if_pos (by omega)]
        · rw [if_neg (by intro h; exact e0 h.1), hv k hk]
          by_cases c : k < t
          · rw [if_pos c, if_pos (by omega)]
          · rw [if_neg c, if_neg (by omega)])
    (Array.replicate (st.amps.size * 2) o.kzero)
    (by
      refine ⟨by simp [Nat.mul_comm], ?_⟩
      intro k hk
      rw [if_neg (by omega)]
      exact rd_replicate _ _ _ (by omega))
  exact inv

theorem allocate_n (o : ROps K R) (st : State K R) : (allocate o st).1.n = st.n + 1 := rfl
theorem allocate_ops (o : ROps K R) (st : State K R) : (allocate o st).1.ops = st.ops := rfl
theorem allocate_index (o : ROps K R) (st : State K R) : (allocate o st).2 = st.n := rfl

/-- the collapse loop: zero the half that disagrees with `res`, divide the other half -/
theorem collapse_spec (o : ROps K R) (arr : Array K) (q : Nat) (res : Bool) (norm : R) :
    (collapse o arr q res norm).size = arr.size ∧
    ∀ k, k < arr.size →
      (collapse o arr q res norm)[k]! =
        if k.testBit q != res then o.kzero else o.divR arr[k]! norm := by
  unfold collapse
  have inv := forRange_inv arr.size
    (fun i st => if i.testBit q != res then st.setIfInBounds i o.kzero
                 else st.setIfInBounds i (o.divR st[i]! norm))
    (fun t st => st.size = arr.size ∧ ∀ k, k < arr.size →
      st[k]! = if k < t then (if k.testBit q != res then o.kzero else o.divR arr[k]! norm)
               else arr[k]!)
    (by
      intro t st ht ⟨hs, hv⟩
      have hcur : st[t]! = arr[t]! := by rw [hv t ht, if_neg (by omega)]
      have hw : ∀ v : K, (st.setIfInBounds t v).size = arr.size ∧ ∀ k, k < arr.size →
          (st.setIfInBounds t v)[k]! = if k < t + 1 then (if k = t then v else
            (if k.testBit q != res then o.kzero else o.divR arr[k]! norm)) else arr[k]! := by
        intro v
        refine ⟨by simp [hs], ?_⟩
        intro k hk
        rw [rd_set, hs]
        by_cases e : t = k
        · subst e; rw [if_pos ⟨rfl, ht⟩, if_pos (by omega), if_pos rfl]
        · rw [if_neg (by intro h; exact e h.1), hv k hk]
          have hkt : ¬ k = t := fun h => e h.symm
          by_cases c : k < t
          · have c' : k < t + 1 := by omega
            simp only [c, c', hkt, if_true, if_false]
          · have c' : ¬ k < t + 1 := by omega
            simp only [c, c', if_false]
      cases hb : (t.testBit q != res)
      · simp only [Bool.false_eq_true, if_false]
        obtain ⟨h1, h2⟩ := hw (o.divR st[t]! norm)
        refine ⟨h1, ?_⟩
        intro k hk
        rw [h2 k hk]
        by_cases c : k < t + 1
        · rw [if_pos c, if_pos c]
          by_cases e : k = t
          · subst e; rw [if_pos rfl, hb, hcur]; simp
          · rw [if_neg e]
        · rw [if_neg c, if_neg c]
      · simp only [if_true]
        obtain ⟨h1, h2⟩ := hw o.kzero
        refine ⟨h1, ?_⟩
        intro k hk
        rw [h2 k hk]
        by_cases c : k < t + 1
        · rw [if_pos c, if_pos c]
          by_cases e : k = t
          · subst e; rw [if_pos rfl, hb]; simp
          · rw [if_neg e]
        · rw [if_neg c, if_neg c])
    arr ⟨rfl, by intro k hk; rw [if_neg (by omega)]⟩
  obtain ⟨hs, hv⟩ := inv
  refine ⟨hs, ?_⟩
  intro k hk
  rw [hv k hk, if_pos hk]

theorem xor_two_pow_ne (k q : Nat) : k ^^^ 2 ^ q ≠ k := by
  intro h
  have := congrArg (fun x => x.testBit q) h
  simp [Nat.testBit_xor] at this

theorem xor_two_pow_cancel (k q : Nat) : (k ^^^ 2 ^ q) ^^^ 2 ^ q = k := by
  rw [Nat.xor_assoc, Nat.xor_self, Nat.xor_zero]

theorem testBit_xor_two_pow_self (k q : Nat) : (k ^^^ 2 ^ q).testBit q = !k.testBit q := by
  rw [Nat.testBit_xor, Nat.testBit_two_pow]; simp

/-- the move-down loop of `reset`: the `bit q = 1` half lands in the `bit q = 0` half, and is zeroed -/
theorem swapDown_spec (o : ROps K R) (arr : Array K) (n q : Nat) (hsize : arr.size = 2 ^ n)
    (hq : q < n) :
    (swapDown o arr q).size = arr.size ∧
    ∀ k, k < arr.size →
      (swapDown o arr q)[k]! = if k.testBit q then o.kzero else arr[k ^^^ 2 ^ q]! := by
  unfold swapDown
  have hx : ∀ k, k < arr.size → k ^^^ 2 ^ q < arr.size := by
    intro k hk; rw [hsize] at *
    exact Nat.xor_lt_two_pow hk (Nat.pow_lt_pow_right (by omega) hq)
  have inv := forRange_inv arr.size
    (fun i st => if i.testBit q then
        (st.setIfInBounds (i ^^^ (1 <<< q)) st[i]!).setIfInBounds i o.kzero else st)
    (fun t st => st.size = arr.size ∧ ∀ k, k < arr.size →
      st[k]! = if k.testBit q then (if k < t then o.kzero else arr[k]!)
               else (if k ^^^ 2 ^ q < t then arr[k ^^^ 2 ^ q]! else arr[k]!))
    (by
      intro t st ht ⟨hs, hv⟩
      rw [Nat.one_shiftLeft]
      cases hb : t.testBit q
      · -- nothing written
        refine ⟨by simpa using hs, ?_⟩
        intro k hk
        simp only [Bool.false_eq_true, if_false]
        rw [hv k hk]
        cases hk' : k.testBit q
        · simp only [Bool.false_eq_true, if_false]
          have hne : k ^^^ 2 ^ q ≠ t := by
            intro e; rw [← e, testBit_xor_two_pow_self, hk'] at hb; simp at hb
          by_cases c : k ^^^ 2 ^ q < t
          · rw [if_pos c, if_pos (by omega)]
          · rw [if_neg c, if_neg (by omega)]
        · simp only [if_true]
          have hne : k ≠ t := by intro e; rw [e, hb] at hk'; simp at hk'
          by_cases c : k < t
          · rw [if_pos c, if_pos (by omega)]
          · rw [if_neg c, if_neg (by omega)]
      · simp only [if_true]
        have hcur : st[t]! = arr[t]! := by
          rw [hv t ht, hb]; simp
        refine ⟨by simp [hs], ?_⟩
        intro k hk
        simp only [rd_set, Array.size_setIfInBounds, hs, hcur]
        by_cases e0 : t = k
        · subst e0
          rw [if_pos ⟨rfl, ht⟩, hb]; simp
        · rw [if_neg (by intro h; exact e0 h.1)]
          by_cases e1 : t ^^^ 2 ^ q = k
          · rw [if_pos ⟨e1, hx t ht⟩]
            have hkb : k.testBit q = false := by rw [← e1, testBit_xor_two_pow_self, hb]; rfl
            have hkx : k ^^^ 2 ^ q = t := by rw [← e1, xor_two_pow_cancel]
            rw [hkb]; simp [hkx]
          · rw [if_neg (by intro h; exact e1 h.1), hv k hk]
            cases hk' : k.testBit q
            · simp only [Bool.false_eq_true, if_false]
              have hne : k ^^^ 2 ^ q ≠ t := by
                intro e; apply e1; rw [← e, xor_two_pow_cancel]
              by_cases c : k ^^^ 2 ^ q < t
              · rw [if_pos c, if_pos (by omega)]
              · rw [if_neg c, if_neg (by omega)]
            · simp only [if_true]
              by_cases c : k < t
              · rw [if_pos c, if_pos (by omega)]
              · rw [if_neg c, if_neg (by omega)])
    arr ⟨rfl, by intro k hk; simp⟩
  obtain ⟨hs, hv⟩ := inv
  refine ⟨hs, ?_⟩
  intro k hk
  rw [hv k hk]
  cases hk' : k.testBit q
  · simp [hx k hk]
  · simp [hk]

/-- `mass` is a left fold over the indices in increasing order (the C++ accumulation order) -/
theorem mass_eq_foldl (o : ROps K R) (arr : Array K) (q : Nat) (b : Bool) :
    mass o arr q b = (List.range arr.size).foldl
      (fun acc i => if i.testBit q == b then o.add acc (o.normSq arr[i]!) else acc) o.zero := by
  unfold mass; rw [forRange_eq_foldl]

end
end BlochVerif.Sim
