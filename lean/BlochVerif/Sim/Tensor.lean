import BlochVerif.Sim.History
/-!
# `gateSpecX` is `M` on tensor factor `q` and the identity on every other factor

Matrix elements of `I ⊗ … ⊗ M ⊗ … ⊗ I` in the computational basis (qubit `q` = bit `q`):
`⟨k| U |j⟩ = M[k_q, j_q] · ∏_{i ≠ q} δ(k_i, j_i)`.
-/
namespace BlochVerif.Sim
open Finset

def Mat2.entry {K : Type} (m : Mat2 K) (r c : Bool) : K :=
  match r, c with
  | false, false => m.a
  | false, true => m.b
  | true, false => m.c
  | true, true => m.d

/-- `k` and `j` agree on every bit except possibly bit `q` -/
def agreeOff (q k j : ℕ) : Prop := ∀ i, i ≠ q → k.testBit i = j.testBit i

theorem agreeOff_iff (q k j : ℕ) : agreeOff q k j ↔ (j = k ∨ j = k ^^^ 2 ^ q) := by
  constructor
  · intro h
    by_cases hq : k.testBit q = j.testBit q
    · left; apply Nat.eq_of_testBit_eq; intro i
      by_cases e : i = q
      · subst e; exact hq.symm
      · exact (h i e).symm
    · right; apply Nat.eq_of_testBit_eq; intro i
      rw [Nat.testBit_xor, Nat.testBit_two_pow]
      by_cases e : i = q
      · subst e
        cases h1 : k.testBit i <;> cases h2 : j.testBit i <;> simp_all
      · have : ¬ q = i := fun h => e h.symm
        simp [this, h i e]
  · rintro (h | h) i hi
    · rw [h]
    · rw [h, Nat.testBit_xor, Nat.testBit_two_pow]
      have : ¬ q = i := fun h => hi h.symm
      simp [this]

noncomputable instance (q k j : ℕ) : Decidable (agreeOff q k j) :=
  decidable_of_iff _ (agreeOff_iff q k j).symm

/-- matrix element of `M` on factor `q`, identity elsewhere -/
noncomputable def tensorEntry (q : ℕ) (m : Mat2 ℂ) (k j : ℕ) : ℂ :=
  if agreeOff q k j then m.entry (k.testBit q) (j.testBit q) else 0

/-- **`gateSpecX ψ q M` is the matrix–vector product with `I ⊗ … ⊗ M_q ⊗ … ⊗ I`.** -/
theorem gateSpecX_eq_tensor (ψ : ℕ → ℂ) (n q : ℕ) (hq : q < n) (m : Mat2 ℂ) (k : ℕ)
    (hk : k < 2 ^ n) :
    gateSpecX ψ q m k = ∑ j ∈ range (2 ^ n), tensorEntry q m k j * ψ j := by
  have hne : k ≠ k ^^^ 2 ^ q := fun h => xor_two_pow_ne k q h.symm
  rw [Finset.sum_eq_add k (k ^^^ 2 ^ q) hne]
  · unfold tensorEntry gateSpecX
    rw [if_pos ((agreeOff_iff q k k).mpr (Or.inl rfl)),
      if_pos ((agreeOff_iff q k _).mpr (Or.inr rfl)), testBit_xor_two_pow_self]
    cases h : k.testBit q <;> simp [Mat2.entry] <;> ring
  · intro c _ ⟨h1, h2⟩
    unfold tensorEntry
    rw [if_neg, zero_mul]
    rw [agreeOff_iff]; exact fun h => h.elim h1 h2
  · intro h; exact absurd (mem_range.mpr hk) h
  · intro h; exact absurd (mem_range.mpr (xor_two_pow_lt hq hk)) h

/-- on a computational basis state `|x⟩` the result is `M[0,x_q]|x with q:=0⟩ + M[1,x_q]|x with q:=1⟩`:
    column `x_q` of `M` on factor `q`, all other qubits untouched -/
theorem gateSpecX_basis (q : ℕ) (m : Mat2 ℂ) (x k : ℕ) :
    gateSpecX (fun j => if j = x then (1 : ℂ) else 0) q m k =
      if agreeOff q k x then m.entry (k.testBit q) (x.testBit q) else 0 := by
  unfold gateSpecX
  by_cases h : agreeOff q k x
  · rw [if_pos h]
    rcases (agreeOff_iff q k x).mp h with e | e
    · subst e
      have : x ^^^ 2 ^ q ≠ x := xor_two_pow_ne x q
      cases hb : x.testBit q <;> simp [Mat2.entry, this]
    · have hx : k = x ^^^ 2 ^ q := by rw [e, xor_two_pow_cancel]
      have hkx : k ≠ x := by rw [hx]; exact xor_two_pow_ne x q
      have e' : k ^^^ 2 ^ q = x := e.symm
      have hbit : x.testBit q = !k.testBit q := by rw [← e', testBit_xor_two_pow_self]
      cases hb : k.testBit q <;> simp [Mat2.entry, hkx, e', hbit, hb]
  · rw [if_neg h]
    have h1 : k ≠ x := fun e => h ((agreeOff_iff q k x).mpr (Or.inl e.symm))
    have h2 : k ^^^ 2 ^ q ≠ x := fun e => h ((agreeOff_iff q k x).mpr (Or.inr e.symm))
    cases hb : k.testBit q <;> simp [h1, h2]

end BlochVerif.Sim
