import BlochVerif.Sim.SpecCore
/-!
# The triple loop of `QasmSimulator::cx` is the controlled-NOT permutation

For every register size `n`, every ordered pair `c ≠ t` below `n` and every amplitude vector,
`cxLoop arr c t` moves the amplitude of `|x⟩` to `|x xor (x_c·2^t)⟩`: each pair with control bit 1
is swapped exactly once, everything else is untouched.  The proof is bitwise: the index
`block | mid | lowOffset` is characterised bit by bit, and the loop invariant says that the cells
whose (block, between, lowOffset) triple is lexicographically before the loop position already
hold the specified value.
-/
namespace BlochVerif.Sim

def cxBase (low high tb bb l : Nat) : Nat := tb <<< (high + 1) ||| bb <<< (low + 1) ||| l

theorem testBit_false_of_lt_of_le {x m i : Nat} (h : x < 2 ^ m) (hi : m ≤ i) :
    x.testBit i = false :=
  Nat.testBit_lt_two_pow (Nat.lt_of_lt_of_le h (Nat.pow_le_pow_right (by omega) hi))

theorem testBit_cxBase (low high tb bb l i : Nat) (hlh : low < high)
    (hbb : bb < 2 ^ (high - low - 1)) (hl : l < 2 ^ low) :
    (cxBase low high tb bb l).testBit i =
      if high < i then tb.testBit (i - (high + 1))
      else if i = high then false
      else if low < i then bb.testBit (i - (low + 1))
      else if i = low then false
      else l.testBit i := by
  unfold cxBase
  simp only [Nat.testBit_or, Nat.testBit_shiftLeft]
  by_cases h1 : high < i
  · have e1 : bb.testBit (i - (low + 1)) = false := testBit_false_of_lt_of_le hbb (by omega)
    have e2 : l.testBit i = false := testBit_false_of_lt_of_le hl (by omega)
    have d1 : i ≥ high + 1 := by omega
    simp [h1, e1, e2, d1]
  · by_cases h2 : i = high
    · subst h2
      have e1 : bb.testBit (i - (low + 1)) = false := testBit_false_of_lt_of_le hbb (by omega)
      have e2 : l.testBit i = false := testBit_false_of_lt_of_le hl (by omega)
      simp [e1, e2]
      intro h; omega
    · by_cases h3 : low < i
      · have e2 : l.testBit i = false := testBit_false_of_lt_of_le hl (by omega)
        have d1 : ¬ i ≥ high + 1 := by omega
        have d2 : i ≥ low + 1 := by omega
        simp [h1, h2, h3, e2, d1, d2]
      · by_cases h4 : i = low
        · subst h4
          have d1 : ¬ i ≥ high + 1 := by omega
          have e2 : l.testBit i = false := testBit_false_of_lt_of_le hl (by omega)
          simp [h1, h2, d1, e2]
          intro h; omega
        · have d1 : ¬ i ≥ high + 1 := by omega
          have d2 : ¬ i ≥ low + 1 := by omega
          simp [h1, h2, h3, h4, d1, d2]

/-- the three coordinates of an index: bits above `high`, strictly between, below `low` -/
def cA (high k : Nat) : Nat := k >>> (high + 1)
def cB (low high k : Nat) : Nat := (k >>> (low + 1)) % 2 ^ (high - low - 1)
def cL (low k : Nat) : Nat := k % 2 ^ low

section
variable (low high tb bb l : Nat) (hlh : low < high)
  (hbb : bb < 2 ^ (high - low - 1)) (hl : l < 2 ^ low)
include hlh hbb hl

/-- an index that agrees with `cxBase` outside bits `low`, `high` has coordinates `(tb, bb, l)` -/
theorem coords_of_bits (k : Nat)
    (hk : ∀ i, i ≠ low → i ≠ high → k.testBit i = (cxBase low high tb bb l).testBit i) :
    cA high k = tb ∧ cB low high k = bb ∧ cL low k = l := by
  refine ⟨?_, ?_, ?_⟩
  · apply Nat.eq_of_testBit_eq; intro j
    unfold cA
    rw [Nat.testBit_shiftRight, hk _ (by omega) (by omega),
      testBit_cxBase low high tb bb l _ hlh hbb hl, if_pos (by omega)]
    congr 1; omega
  · apply Nat.eq_of_testBit_eq; intro j
    unfold cB
    rw [Nat.testBit_mod_two_pow, Nat.testBit_shiftRight]
    by_cases hj : j < high - low - 1
    · rw [hk _ (by omega) (by omega), testBit_cxBase low high tb bb l _ hlh hbb hl,
        if_neg (by omega), if_neg (by omega), if_pos (by omega)]
      simp only [hj, decide_true, Bool.true_and]
      congr 1; omega
    · simp only [hj, decide_false, Bool.false_and]
      exact (testBit_false_of_lt_of_le hbb (by omega)).symm
  · apply Nat.eq_of_testBit_eq; intro j
    unfold cL
    rw [Nat.testBit_mod_two_pow]
    by_cases hj : j < low
    · rw [hk _ (by omega) (by omega), testBit_cxBase low high tb bb l _ hlh hbb hl,
        if_neg (by omega), if_neg (by omega), if_neg (by omega), if_neg (by omega)]
      simp [hj]
    · simp only [hj, decide_false, Bool.false_and]
      exact (testBit_false_of_lt_of_le hl (by omega)).symm

/-- conversely the coordinates determine all bits outside `low`, `high` -/
theorem bits_of_coords (k : Nat) (h : cA high k = tb ∧ cB low high k = bb ∧ cL low k = l)
    (i : Nat) (hi1 : i ≠ low) (hi2 : i ≠ high) :
    k.testBit i = (cxBase low high tb bb l).testBit i := by
  obtain ⟨h1, h2, h3⟩ := h
  rw [testBit_cxBase low high tb bb l _ hlh hbb hl]
  by_cases c1 : high < i
  · rw [if_pos c1, ← h1]; unfold cA; rw [Nat.testBit_shiftRight]; congr 1; omega
  · rw [if_neg c1, if_neg hi2]
    by_cases c3 : low < i
    · rw [if_pos c3, ← h2]; unfold cB
      rw [Nat.testBit_mod_two_pow, Nat.testBit_shiftRight]
      have : i - (low + 1) < high - low - 1 := by omega
      simp only [this, decide_true, Bool.true_and]
      congr 1; omega
    · rw [if_neg c3, if_neg hi1, ← h3]; unfold cL
      rw [Nat.testBit_mod_two_pow]
      have : i < low := by omega
      simp [this]

end

section loop
variable {K : Type} [Inhabited K]

theorem rd_swap (a : Array K) (i j k : Nat) (hi : i < a.size) (hj : j < a.size) (hij : i ≠ j) :
    (swapCells a i j)[k]! = if k = i then a[j]! else if k = j then a[i]! else a[k]! := by
  unfold swapCells
  simp only [rd_set, Array.size_setIfInBounds]
  by_cases h1 : k = j
  · subst h1
    simp [hj, Ne.symm hij]
  · by_cases h2 : k = i
    · subst h2; simp [hi, Ne.symm h1]
    · simp [h1, h2, Ne.symm h1, Ne.symm h2]

/-- lexicographic "strictly before" on coordinate triples -/
def lexLt (a b l a' b' l' : Nat) : Prop :=
  a < a' ∨ (a = a' ∧ b < b') ∨ (a = a' ∧ b = b' ∧ l < l')

instance (a b l a' b' l' : Nat) : Decidable (lexLt a b l a' b' l') := by
  unfold lexLt; exact inferInstance

/-- loop invariant at position `(tb, bb, l)` -/
def CxInv (arr : Array K) (c t low high : Nat) (tb bb l : Nat) (st : Array K) : Prop :=
  st.size = arr.size ∧ ∀ k, k < arr.size →
    st[k]! = if lexLt (cA high k) (cB low high k) (cL low k) tb bb l
             then cxSpec (absArr arr) c t k else arr[k]!

theorem cB_lt (low high k : Nat) : cB low high k < 2 ^ (high - low - 1) :=
  Nat.mod_lt _ (Nat.two_pow_pos _)

theorem cL_lt (low k : Nat) : cL low k < 2 ^ low := Nat.mod_lt _ (Nat.two_pow_pos _)

theorem cx_inner_step (arr : Array K) (n c t low high : Nat) (hsize : arr.size = 2 ^ n)
    (hlh : low < high) (hhn : high < n)
    (hc : c = low ∨ c = high) (ht : t = low ∨ t = high) (hct : c ≠ t)
    (tb bb l : Nat) (htb : tb < 2 ^ (n - high - 1)) (hbb : bb < 2 ^ (high - low - 1))
    (hl : l < 2 ^ low) (st : Array K)
    (h : CxInv arr c t low high tb bb l st) :
    CxInv arr c t low high tb bb (l + 1)
      (swapCells st (cxBase low high tb bb l ||| 2 ^ c) (cxBase low high tb bb l ||| 2 ^ c ||| 2 ^ t)) := by
  obtain ⟨hsz, hval⟩ := h
  generalize hi0 : cxBase low high tb bb l ||| 2 ^ c = i0
  generalize hi1 : i0 ||| 2 ^ t = i1
  have tb0 : ∀ i, i0.testBit i = ((cxBase low high tb bb l).testBit i || decide (c = i)) := by
    intro i; rw [← hi0, Nat.testBit_or, Nat.testBit_two_pow]
  have tb1 : ∀ i, i1.testBit i = (i0.testBit i || decide (t = i)) := by
    intro i; rw [← hi1, Nat.testBit_or, Nat.testBit_two_pow]
  have base_low : (cxBase low high tb bb l).testBit low = false := by
    rw [testBit_cxBase low high tb bb l _ hlh hbb hl]; simp; omega
  have base_high : (cxBase low high tb bb l).testBit high = false := by
    rw [testBit_cxBase low high tb bb l _ hlh hbb hl]; simp
  have i0c : i0.testBit c = true := by rw [tb0]; simp
  have i0t : i0.testBit t = false := by
    rw [tb0]
    rcases ht with ht | ht <;> rcases hc with hc | hc <;> subst ht <;> subst hc <;>
      first | exact absurd rfl hct | simp [base_low, base_high, hct]
  have i1c : i1.testBit c = true := by rw [tb1, i0c]; rfl
  have i1t : i1.testBit t = true := by rw [tb1]; simp
  have hne : i0 ≠ i1 := by intro e; rw [e] at i0t; rw [i0t] at i1t; exact Bool.noConfusion i1t
  -- both indices are inside the vector
  have bound : ∀ x : Nat, (∀ i, i ≠ low → i ≠ high → x.testBit i = (cxBase low high tb bb l).testBit i) →
      x < arr.size := by
    intro x hx
    rw [hsize]
    apply Nat.lt_pow_two_of_testBit
    intro i hi
    rw [hx i (by omega) (by omega), testBit_cxBase low high tb bb l _ hlh hbb hl, if_pos (by omega)]
    exact testBit_false_of_lt_of_le htb (by omega)
  have agree0 : ∀ i, i ≠ low → i ≠ high → i0.testBit i = (cxBase low high tb bb l).testBit i := by
    intro i h1 h2; rw [tb0]
    have : ¬ c = i := by rcases hc with hc | hc <;> omega
    simp [this]
  have agree1 : ∀ i, i ≠ low → i ≠ high → i1.testBit i = (cxBase low high tb bb l).testBit i := by
    intro i h1 h2; rw [tb1, agree0 i h1 h2]
    have : ¬ t = i := by rcases ht with ht | ht <;> omega
    simp [this]
  have hb0 : i0 < arr.size := bound i0 agree0
  have hb1 : i1 < arr.size := bound i1 agree1
  have co0 := coords_of_bits low high tb bb l hlh hbb hl i0 agree0
  have co1 := coords_of_bits low high tb bb l hlh hbb hl i1 agree1
  -- xor relations
  have x01 : i0 ^^^ 2 ^ t = i1 := by
    apply Nat.eq_of_testBit_eq; intro i
    rw [Nat.testBit_xor, Nat.testBit_two_pow, tb1]
    by_cases e : t = i
    · subst e; simp [i0t]
    · simp [e]
  have x10 : i1 ^^^ 2 ^ t = i0 := by
    rw [← x01, Nat.xor_assoc, Nat.xor_self, Nat.xor_zero]
  refine ⟨by simp [swapCells, hsz], ?_⟩
  intro k hk
  rw [rd_swap st i0 i1 k (by omega) (by omega) hne]
  have notlt : ∀ x, cA high x = tb ∧ cB low high x = bb ∧ cL low x = l →
      ¬ lexLt (cA high x) (cB low high x) (cL low x) tb bb l := by
    intro x ⟨e1, e2, e3⟩; rw [e1, e2, e3]; unfold lexLt; omega
  have nowlt : ∀ x, cA high x = tb ∧ cB low high x = bb ∧ cL low x = l →
      lexLt (cA high x) (cB low high x) (cL low x) tb bb (l + 1) := by
    intro x ⟨e1, e2, e3⟩; rw [e1, e2, e3]; unfold lexLt; omega
  by_cases k0 : k = i0
  · subst k0
    rw [if_pos rfl, hval i1 hb1, if_neg (notlt i1 co1), if_pos (nowlt k co0)]
    unfold cxSpec absArr
    rw [i0c, if_pos rfl, x01]
  · rw [if_neg k0]
    by_cases k1 : k = i1
    · subst k1
      rw [if_pos rfl, hval i0 hb0, if_neg (notlt i0 co0), if_pos (nowlt k co1)]
      unfold cxSpec absArr
      rw [i1c, if_pos rfl, x10]
    · rw [if_neg k1, hval k hk]
      by_cases same : cA high k = tb ∧ cB low high k = bb ∧ cL low k = l
      · rw [if_neg (notlt k same), if_pos (nowlt k same)]
        -- k has the coordinates of this iteration but is neither index: its control bit is 0
        have hbits := bits_of_coords low high tb bb l hlh hbb hl k same
        have kc : k.testBit c = false := by
          cases hkc : k.testBit c with
          | false => rfl
          | true =>
            exfalso
            cases hkt : k.testBit t with
            | false =>
              apply k0; apply Nat.eq_of_testBit_eq; intro i
              by_cases e1 : i = low
              · rcases hc with hc | hc <;> rcases ht with ht | ht <;>
                  first | omega | (subst e1; subst hc; first | rw [hkc, i0c] | skip) | skip
                all_goals first
                  | (subst hc; rw [hkc, i0c])
                  | (subst ht; rw [hkt, i0t])
              · by_cases e2 : i = high
                · rcases hc with hc | hc <;> rcases ht with ht | ht <;> first | omega | skip
                  all_goals first
                    | (subst e2; subst hc; rw [hkc, i0c])
                    | (subst e2; subst ht; rw [hkt, i0t])
                · rw [hbits i e1 e2, agree0 i e1 e2]
            | true =>
              apply k1; apply Nat.eq_of_testBit_eq; intro i
              by_cases e1 : i = low
              · rcases hc with hc | hc <;> rcases ht with ht | ht <;> first | omega | skip
                all_goals first
                  | (subst e1; subst hc; rw [hkc, i1c])
                  | (subst e1; subst ht; rw [hkt, i1t])
              · by_cases e2 : i = high
                · rcases hc with hc | hc <;> rcases ht with ht | ht <;> first | omega | skip
                  all_goals first
                    | (subst e2; subst hc; rw [hkc, i1c])
                    | (subst e2; subst ht; rw [hkt, i1t])
                · rw [hbits i e1 e2, agree1 i e1 e2]
        unfold cxSpec absArr
        rw [kc]; simp
      · have : lexLt (cA high k) (cB low high k) (cL low k) tb bb (l + 1) ↔
            lexLt (cA high k) (cB low high k) (cL low k) tb bb l := by
          unfold lexLt; omega
        by_cases hd : lexLt (cA high k) (cB low high k) (cL low k) tb bb l
        · rw [if_pos hd, if_pos (this.mpr hd)]
        · rw [if_neg hd, if_neg (fun h => hd (this.mp h))]

end loop
end BlochVerif.Sim

namespace BlochVerif.Sim
section main
variable {K : Type} [Inhabited K]

theorem CxInv_congr (arr : Array K) (c t low high : Nat) (tb bb l tb' bb' l' : Nat) (st : Array K)
    (hiff : ∀ x y z, y < 2 ^ (high - low - 1) → z < 2 ^ low →
      (lexLt x y z tb bb l ↔ lexLt x y z tb' bb' l'))
    (h : CxInv arr c t low high tb bb l st) : CxInv arr c t low high tb' bb' l' st := by
  obtain ⟨hsz, hv⟩ := h
  refine ⟨hsz, ?_⟩
  intro k hk
  rw [hv k hk]
  have := hiff (cA high k) (cB low high k) (cL low k) (cB_lt _ _ _) (cL_lt _ _)
  by_cases hd : lexLt (cA high k) (cB low high k) (cL low k) tb bb l
  · rw [if_pos hd, if_pos (this.mp hd)]
  · rw [if_neg hd, if_neg (fun h => hd (this.mpr h))]

/-- **The triple loop of `QasmSimulator::cx` is the controlled-NOT permutation**, for every
    register size `n`, every ordered pair of distinct qubits below `n`, every amplitude vector. -/
theorem cxLoop_eq_cxSpec (arr : Array K) (n c t : Nat) (hsize : arr.size = 2 ^ n)
    (hc : c < n) (ht : t < n) (hct : c ≠ t) :
    (cxLoop arr c t).size = arr.size ∧
    ∀ k, k < arr.size → (cxLoop arr c t)[k]! = cxSpec (absArr arr) c t k := by
  unfold cxLoop
  generalize hlow : min c t = low
  generalize hhigh : max c t = high
  have hlh : low < high := by omega
  have hhn : high < n := by omega
  have hcl : c = low ∨ c = high := by omega
  have htl : t = low ∨ t = high := by omega
  simp only [Nat.one_shiftLeft]
  have hbs : (if high > low + 1 then 2 ^ (high - low - 1) else 1) = 2 ^ (high - low - 1) := by
    split
    · rfl
    · have : high - low - 1 = 0 := by omega
      rw [this]
  rw [hbs]
  have hcnt : arr.size = 2 ^ (n - high - 1) * 2 ^ (high + 1) := by
    rw [hsize, ← Nat.pow_add]; congr 1; omega
  generalize hcn : 2 ^ (n - high - 1) = cnt at hcnt
  -- the body of the innermost loop in `cxBase` form
  have body_eq : ∀ (tb bb l : Nat) (st : Array K),
      swapCells st
        (if (c == low) = true then tb * 2 ^ (high + 1) ||| bb <<< (low + 1) ||| l ||| 2 ^ low
          else tb * 2 ^ (high + 1) ||| bb <<< (low + 1) ||| l ||| 2 ^ high)
        (if (c == low) = true then
            (if (c == low) = true then tb * 2 ^ (high + 1) ||| bb <<< (low + 1) ||| l ||| 2 ^ low
              else tb * 2 ^ (high + 1) ||| bb <<< (low + 1) ||| l ||| 2 ^ high) ||| 2 ^ high
          else
            (if (c == low) = true then tb * 2 ^ (high + 1) ||| bb <<< (low + 1) ||| l ||| 2 ^ low
              else tb * 2 ^ (high + 1) ||| bb <<< (low + 1) ||| l ||| 2 ^ high) ||| 2 ^ low) =
      swapCells st (cxBase low high tb bb l ||| 2 ^ c) (cxBase low high tb bb l ||| 2 ^ c ||| 2 ^ t) := by
    intro tb bb l st
    unfold cxBase
    rw [Nat.shiftLeft_eq tb]
    rcases hcl with h | h
    · have ht' : t = high := by omega
      subst h; subst ht'; simp
    · have ht' : t = low := by omega
      have : (c == low) = false := by simp; omega
      subst h; subst ht'; simp [this]
  have outer := forStep_mul_inv (2 ^ (high + 1)) cnt (Nat.two_pow_pos _)
    (fun block st =>
      forStep (2 ^ (high - low - 1)) 1 (fun between st =>
        forStep (2 ^ low) 1 (fun lowOffset st =>
          swapCells st
            (if (c == low) = true then block ||| between <<< (low + 1) ||| lowOffset ||| 2 ^ low
              else block ||| between <<< (low + 1) ||| lowOffset ||| 2 ^ high)
            (if (c == low) = true then
                (if (c == low) = true then block ||| between <<< (low + 1) ||| lowOffset ||| 2 ^ low
                  else block ||| between <<< (low + 1) ||| lowOffset ||| 2 ^ high) ||| 2 ^ high
              else
                (if (c == low) = true then block ||| between <<< (low + 1) ||| lowOffset ||| 2 ^ low
                  else block ||| between <<< (low + 1) ||| lowOffset ||| 2 ^ high) ||| 2 ^ low))
          0 st) 0 st)
    (fun tb st => CxInv arr c t low high tb 0 0 st)
    (by
      intro tb st htb hI
      have mid := forStep_mul_inv 1 (2 ^ (high - low - 1)) (by omega)
        (fun between st =>
          forStep (2 ^ low) 1 (fun lowOffset st =>
            swapCells st
              (if (c == low) = true then tb * 2 ^ (high + 1) ||| between <<< (low + 1) ||| lowOffset ||| 2 ^ low
                else tb * 2 ^ (high + 1) ||| between <<< (low + 1) ||| lowOffset ||| 2 ^ high)
              (if (c == low) = true then
                  (if (c == low) = true then tb * 2 ^ (high + 1) ||| between <<< (low + 1) ||| lowOffset ||| 2 ^ low
                    else tb * 2 ^ (high + 1) ||| between <<< (low + 1) ||| lowOffset ||| 2 ^ high) ||| 2 ^ high
                else
                  (if (c == low) = true then tb * 2 ^ (high + 1) ||| between <<< (low + 1) ||| lowOffset ||| 2 ^ low
                    else tb * 2 ^ (high + 1) ||| between <<< (low + 1) ||| lowOffset ||| 2 ^ high) ||| 2 ^ low))
            0 st)
        (fun bb st => CxInv arr c t low high tb bb 0 st)
        (by
          intro bb st' hbb hI'
          have inner := forStep_mul_inv 1 (2 ^ low) (by omega)
            (fun lowOffset st => swapCells st (cxBase low high tb bb lowOffset ||| 2 ^ c)
              (cxBase low high tb bb lowOffset ||| 2 ^ c ||| 2 ^ t))
            (fun l st => CxInv arr c t low high tb bb l st)
            (by
              intro l st'' hl hI''
              have := cx_inner_step arr n c t low high hsize hlh hhn hcl htl hct tb bb l
                (by rw [hcn]; exact htb) hbb hl st'' hI''
              simpa using this)
            0 st' (Nat.zero_le _) hI'
          simp only [Nat.mul_one] at inner
          simp only [Nat.mul_one, body_eq]
          refine CxInv_congr arr c t low high tb bb (2 ^ low) tb (bb + 1) 0 _ ?_ inner
          intro x y z _ hz; unfold lexLt; omega)
        0 st (Nat.zero_le _) hI
      simp only [Nat.mul_one] at mid
      refine CxInv_congr arr c t low high tb (2 ^ (high - low - 1)) 0 (tb + 1) 0 0 _ ?_ mid
      intro x y z hy _; unfold lexLt; omega)
    0 arr (Nat.zero_le _)
    (by
      refine ⟨rfl, ?_⟩
      intro k _; rw [if_neg]; unfold lexLt; omega)
  simp only [Nat.zero_mul] at outer
  rw [← hcnt] at outer
  obtain ⟨hsz, hv⟩ := outer
  refine ⟨hsz, ?_⟩
  intro k hk
  rw [hv k hk, if_pos]
  unfold lexLt; left
  unfold cA
  rw [Nat.shiftRight_eq_div_pow, Nat.div_lt_iff_lt_mul (Nat.two_pow_pos _), ← hcnt]
  exact hk

end main
end BlochVerif.Sim
