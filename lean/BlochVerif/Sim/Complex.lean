import BlochVerif.Sim.LoopLemmas
import BlochVerif.Sim.CxProof
import Mathlib.Data.Complex.Basic
import Mathlib.Analysis.SpecialFunctions.Trigonometric.Basic
import Mathlib.Analysis.SpecialFunctions.Sqrt
import Mathlib.Algebra.BigOperators.Group.Finset.Basic
import Mathlib.Tactic.Ring
import Mathlib.Tactic.Linarith
import Mathlib.Tactic.FieldSimp
/-!
# The proof instance: exact complex amplitudes

`complexOps` instantiates the simulator model (`Sim/Model.lean`, the same definitions the driver
executes with `Float`) at Mathlib's `ℂ`/`ℝ`.  Everything in C01–C05 that needs algebra is proved
here.  Floating-point rounding is *not* modelled by these theorems (see DESIGN.md §5).
-/
namespace BlochVerif.Sim
open Finset

noncomputable def complexOps : ROps ℂ ℝ where
  cplx := fun a b => ⟨a, b⟩
  kzero := 0
  normSq := fun z => Complex.normSq z
  divR := fun z r => z / (r : ℂ)
  mulR := fun z r => z * (r : ℂ)
  zero := 0
  one := 1
  add := (· + ·)
  sub := (· - ·)
  mul := (· * ·)
  div := (· / ·)
  neg := fun x => -x
  sqrt := Real.sqrt
  invSqrt2 := 1 / Real.sqrt 2
  cosHalf := fun t => Real.cos (t / 2)
  sinHalf := fun t => Real.sin (t / 2)
  lt := fun a b => decide (a < b)
  isZero := fun x => decide (x = 0)

noncomputable instance : Inhabited ℂ := ⟨0⟩

/-- squared norm of the first `N` amplitudes -/
noncomputable def nrm2 (ψ : ℕ → ℂ) (N : ℕ) : ℝ := ∑ k ∈ range N, Complex.normSq (ψ k)

/-- squared norm of the component with `bit q = b` -/
noncomputable def massSpec (ψ : ℕ → ℂ) (N q : ℕ) (b : Bool) : ℝ :=
  ∑ k ∈ range N, if k.testBit q = b then Complex.normSq (ψ k) else 0

theorem foldl_cond_sum (p : ℕ → Bool) (f : ℕ → ℝ) (n : ℕ) :
    (List.range n).foldl (fun acc i => if p i then acc + f i else acc) 0 =
      ∑ k ∈ range n, if p k then f k else 0 := by
  induction n with
  | zero => simp
  | succ n ih =>
    rw [List.range_succ, List.foldl_append, ih, Finset.sum_range_succ]
    by_cases h : p n <;> simp [h]

theorem mass_eq_massSpec (arr : Array ℂ) (q : ℕ) (b : Bool) :
    mass complexOps arr q b = massSpec (absArr arr) arr.size q b := by
  rw [mass_eq_foldl]
  unfold massSpec absArr
  have := foldl_cond_sum (fun i => i.testBit q == b) (fun i => Complex.normSq arr[i]!) arr.size
  simp only [complexOps] at *
  rw [this]
  apply Finset.sum_congr rfl
  intro k _
  by_cases h : k.testBit q = b <;> simp [h]

theorem massSpec_add (ψ : ℕ → ℂ) (N q : ℕ) :
    massSpec ψ N q true + massSpec ψ N q false = nrm2 ψ N := by
  unfold massSpec nrm2
  rw [← Finset.sum_add_distrib]
  apply Finset.sum_congr rfl
  intro k _
  cases k.testBit q <;> simp

theorem massSpec_nonneg (ψ : ℕ → ℂ) (N q : ℕ) (b : Bool) : 0 ≤ massSpec ψ N q b := by
  unfold massSpec
  apply Finset.sum_nonneg
  intro k _
  split
  · exact Complex.normSq_nonneg _
  · exact le_refl _

/-! ## 2×2 unitaries -/

/-- `M† M = 1` for a 2×2 complex matrix -/
structure IsUnitary2 (m : Mat2 ℂ) : Prop where
  col0 : Complex.normSq m.a + Complex.normSq m.c = 1
  col1 : Complex.normSq m.b + Complex.normSq m.d = 1
  orth : (starRingEnd ℂ) m.a * m.b + (starRingEnd ℂ) m.c * m.d = 0

theorem normSq_pair (m : Mat2 ℂ) (hu : IsUnitary2 m) (x y : ℂ) :
    Complex.normSq (m.a * x + m.b * y) + Complex.normSq (m.c * x + m.d * y) =
      Complex.normSq x + Complex.normSq y := by
  have key : ∀ z : ℂ, (Complex.normSq z : ℂ) = (starRingEnd ℂ) z * z := fun z =>
    (Complex.normSq_eq_conj_mul_self).trans rfl
  have h0 : ((Complex.normSq m.a + Complex.normSq m.c : ℝ) : ℂ) = 1 := by rw [hu.col0]; simp
  have h1 : ((Complex.normSq m.b + Complex.normSq m.d : ℝ) : ℂ) = 1 := by rw [hu.col1]; simp
  have h2 := hu.orth
  have h2' : m.a * (starRingEnd ℂ) m.b + m.c * (starRingEnd ℂ) m.d = 0 := by
    have := congrArg (starRingEnd ℂ) h2
    simpa [mul_comm] using this
  apply Complex.ofReal_injective
  push_cast
  push_cast at h0 h1
  rw [key, key, key, key]
  rw [key, key] at h0 h1
  simp only [map_add, map_mul]
  have e : (starRingEnd ℂ m.a * starRingEnd ℂ x + starRingEnd ℂ m.b * starRingEnd ℂ y) * (m.a * x + m.b * y) +
      (starRingEnd ℂ m.c * starRingEnd ℂ x + starRingEnd ℂ m.d * starRingEnd ℂ y) * (m.c * x + m.d * y) =
      (starRingEnd ℂ m.a * m.a + starRingEnd ℂ m.c * m.c) * (starRingEnd ℂ x * x) +
      (starRingEnd ℂ m.b * m.b + starRingEnd ℂ m.d * m.d) * (starRingEnd ℂ y * y) +
      (starRingEnd ℂ m.a * m.b + starRingEnd ℂ m.c * m.d) * (starRingEnd ℂ x * y) +
      (m.a * starRingEnd ℂ m.b + m.c * starRingEnd ℂ m.d) * (x * starRingEnd ℂ y) := by ring
  rw [e, h0, h1, h2, h2']; ring

end BlochVerif.Sim
