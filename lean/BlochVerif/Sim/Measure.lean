import BlochVerif.Sim.Gates
import Mathlib.Algebra.BigOperators.Field
/-!
# Measurement and reset over exact amplitudes (C02, C04), and the state invariant (C03)
-/
namespace BlochVerif.Sim
open Finset

/-- well-formed simulator state: `2^n` amplitudes of unit norm, one flag per qubit -/
structure WF (st : State ℂ ℝ) : Prop where
  size : st.amps.size = 2 ^ st.n
  norm : nrm2 (absArr st.amps) (2 ^ st.n) = 1
  flags : st.measured.size = st.n

/-- the normalised projection of `ψ` onto `bit q = b` -/
noncomputable def collapseSpec (ψ : ℕ → ℂ) (N q : ℕ) (b : Bool) (k : ℕ) : ℂ :=
  if k.testBit q = b then ψ k / ((Real.sqrt (massSpec ψ N q b) : ℝ) : ℂ) else 0

/-- the post-state of `reset` on branch `b`: target in `|0⟩`, rest = the normalised `b`-branch -/
noncomputable def resetSpec (ψ : ℕ → ℂ) (N q : ℕ) (b : Bool) (k : ℕ) : ℂ :=
  if k.testBit q then 0
  else (if b then ψ (k ^^^ 2 ^ q) else ψ k) / ((Real.sqrt (massSpec ψ N q b) : ℝ) : ℂ)

theorem normSq_div_sqrt (z : ℂ) (p : ℝ) (hp : 0 ≤ p) :
    Complex.normSq (z / ((Real.sqrt p : ℝ) : ℂ)) = Complex.normSq z / p := by
  rw [map_div₀, Complex.normSq_ofReal, Real.mul_self_sqrt hp]

theorem massSpec_collapse (ψ : ℕ → ℂ) (N q : ℕ) (b b' : Bool) (hp : 0 < massSpec ψ N q b) :
    massSpec (collapseSpec ψ N q b) N q b' = if b' = b then 1 else 0 := by
  unfold massSpec collapseSpec
  by_cases e : b' = b
  · subst e
    rw [if_pos rfl]
    have : ∀ k ∈ range N, (if k.testBit q = b' then Complex.normSq
        (if k.testBit q = b' then ψ k / ((Real.sqrt (massSpec ψ N q b') : ℝ) : ℂ) else 0) else 0) =
        (if k.testBit q = b' then Complex.normSq (ψ k) else 0) / massSpec ψ N q b' := by
      intro k _
      by_cases h : k.testBit q = b'
      · simp only [h, if_true]; exact normSq_div_sqrt _ _ (le_of_lt hp)
      · simp [h]
    rw [Finset.sum_congr rfl this, ← Finset.sum_div]
    exact div_self (ne_of_gt hp)
  · rw [if_neg e]
    apply Finset.sum_eq_zero
    intro k _
    by_cases h : k.testBit q = b'
    · have : ¬ k.testBit q = b := fun h' => e (h ▸ h')
      rw [if_pos h, if_neg this]; simp
    · simp [h]

theorem nrm2_collapse (ψ : ℕ → ℂ) (N q : ℕ) (b : Bool) (hp : 0 < massSpec ψ N q b) :
    nrm2 (collapseSpec ψ N q b) N = 1 := by
  rw [← massSpec_add _ N q, massSpec_collapse ψ N q b true hp, massSpec_collapse ψ N q b false hp]
  cases b <;> simp

theorem massSpec_flip (ψ : ℕ → ℂ) (n q : ℕ) (hq : q < n) :
    (∑ k ∈ range (2 ^ n), if k.testBit q = false then Complex.normSq (ψ (k ^^^ 2 ^ q)) else 0) =
      massSpec ψ (2 ^ n) q true := by
  unfold massSpec
  rw [← sum_xor_reindex (fun k => if k.testBit q = true then Complex.normSq (ψ k) else 0) n q hq]
  apply Finset.sum_congr rfl
  intro k _
  simp only [testBit_xor_two_pow_self]
  cases k.testBit q <;> simp

theorem nrm2_reset (ψ : ℕ → ℂ) (n q : ℕ) (hq : q < n) (b : Bool)
    (hp : 0 < massSpec ψ (2 ^ n) q b) : nrm2 (resetSpec ψ (2 ^ n) q b) (2 ^ n) = 1 := by
  unfold nrm2 resetSpec
  have : ∀ k ∈ range (2 ^ n), Complex.normSq (if k.testBit q then 0
      else (if b then ψ (k ^^^ 2 ^ q) else ψ k) / ((Real.sqrt (massSpec ψ (2 ^ n) q b) : ℝ) : ℂ)) =
      (if k.testBit q = false then Complex.normSq (if b then ψ (k ^^^ 2 ^ q) else ψ k) else 0) /
        massSpec ψ (2 ^ n) q b := by
    intro k _
    cases h : k.testBit q
    · simp only [Bool.false_eq_true, if_false, if_true]; exact normSq_div_sqrt _ _ (le_of_lt hp)
    · simp
  rw [Finset.sum_congr rfl this, ← Finset.sum_div]
  cases b
  · have e : (∑ k ∈ range (2 ^ n), if k.testBit q = false then
        Complex.normSq (if false = true then ψ (k ^^^ 2 ^ q) else ψ k) else 0) =
        massSpec ψ (2 ^ n) q false := by
      unfold massSpec; apply Finset.sum_congr rfl; intro k _; simp
    rw [e]; exact div_self (ne_of_gt hp)
  · have e : (∑ k ∈ range (2 ^ n), if k.testBit q = false then
        Complex.normSq (if true = true then ψ (k ^^^ 2 ^ q) else ψ k) else 0) =
        massSpec ψ (2 ^ n) q true := by
      rw [← massSpec_flip ψ n q hq]; apply Finset.sum_congr rfl; intro k _; simp
    rw [e]; exact div_self (ne_of_gt hp)

end BlochVerif.Sim

namespace BlochVerif.Sim
open Finset

theorem ensureActive_ok {K R : Type} (st : State K R) (q : ℕ) (hq : q < st.n)
    (hm : st.measured[q]! = false) : ensureActive st q = .ok () := by
  unfold ensureActive
  rw [if_neg (by omega)]
  simp [hm]

/-- positivity of the branch that the draw selects: this is where `r ∈ [0,1)` and `‖ψ‖ = 1` are used -/
theorem branch_pos (ψ : ℕ → ℂ) (N q : ℕ) (hn : nrm2 ψ N = 1) (r : ℝ) (hr0 : 0 ≤ r) (hr1 : r < 1) :
    0 < massSpec ψ N q (decide (r < massSpec ψ N q true)) := by
  by_cases h : r < massSpec ψ N q true
  · simp only [h, decide_true]; linarith
  · simp only [h, decide_false]
    have := massSpec_add ψ N q
    linarith

theorem branch_norm (ψ : ℕ → ℂ) (N q : ℕ) (hn : nrm2 ψ N = 1) (b : Bool) :
    (if b then massSpec ψ N q true else 1 - massSpec ψ N q true) = massSpec ψ N q b := by
  have := massSpec_add ψ N q
  cases b
  · simp only [Bool.false_eq_true, if_false]; linarith
  · simp

/-- **`measure` on exact amplitudes**: the outcome is 1 iff the draw is below the squared norm of
    the `q = 1` component, and the post-state is the normalised projection onto the outcome. -/
theorem measureCore_spec (st : State ℂ ℝ) (hw : WF st) (q : ℕ) (r : ℝ) :
    (measureCore complexOps st q r).2 = decide (r < massSpec (absArr st.amps) (2 ^ st.n) q true) ∧
    (measureCore complexOps st q r).1.n = st.n ∧
    (measureCore complexOps st q r).1.amps.size = 2 ^ st.n ∧
    (∀ k, k < 2 ^ st.n → (measureCore complexOps st q r).1.amps[k]! =
      collapseSpec (absArr st.amps) (2 ^ st.n) q
        (decide (r < massSpec (absArr st.amps) (2 ^ st.n) q true)) k) ∧
    (measureCore complexOps st q r).1.measured = st.measured.setIfInBounds q true ∧
    (measureCore complexOps st q r).1.ops =
      (if st.logOps then st.ops ++ [QOp.measure q] else st.ops) ∧
    (measureCore complexOps st q r).1.logOps = st.logOps := by
  have hp1 : mass complexOps st.amps q true = massSpec (absArr st.amps) (2 ^ st.n) q true := by
    rw [mass_eq_massSpec, hw.size]
  generalize hb : decide (r < massSpec (absArr st.amps) (2 ^ st.n) q true) = b
  have hp0 : mass complexOps st.amps q false = massSpec (absArr st.amps) (2 ^ st.n) q false := by
    rw [mass_eq_massSpec, hw.size]
  have htot : massSpec (absArr st.amps) (2 ^ st.n) q false +
      massSpec (absArr st.amps) (2 ^ st.n) q true = 1 := by
    rw [add_comm, massSpec_add]; exact hw.norm
  have hlt : complexOps.lt (complexOps.mul r (complexOps.add (mass complexOps st.amps q false)
      (mass complexOps st.amps q true))) (mass complexOps st.amps q true) = b := by
    rw [hp1, hp0, ← hb]
    show decide (r * (_ + _) < _) = _
    rw [htot, mul_one]
  have hnorm : complexOps.sqrt (if b then mass complexOps st.amps q true
      else mass complexOps st.amps q false) =
      Real.sqrt (massSpec (absArr st.amps) (2 ^ st.n) q b) := by
    rw [hp1, hp0]
    show Real.sqrt (if b then _ else _) = _
    cases b <;> rfl
  obtain ⟨cs1, cs2⟩ := collapse_spec complexOps st.amps q b
    (Real.sqrt (massSpec (absArr st.amps) (2 ^ st.n) q b))
  unfold measureCore
  simp only [hlt, hnorm]
  refine ⟨trivial, ?_, ?_, ?_, ?_, ?_, ?_⟩
  · simp
  · simp [cs1, hw.size]
  · intro k hk
    simp only [log_amps]
    rw [cs2 k (by rw [hw.size]; exact hk)]
    unfold collapseSpec absArr
    cases hk' : k.testBit q <;> cases b <;> simp [complexOps]
  · simp
  · simp [log_ops]
  · simp

theorem measure_eq_core (st : State ℂ ℝ) (q : ℕ) (r : ℝ) (hq : q < st.n)
    (hm : st.measured[q]! = false) :
    measure complexOps st q r = .ok ((measureCore complexOps st q r).1,
      if (measureCore complexOps st q r).2 then 1 else 0) := by
  unfold measure
  rw [ensureActive_ok st q hq hm]
  rfl

end BlochVerif.Sim

namespace BlochVerif.Sim
open Finset

/-- **`reset` on exact amplitudes**: the target ends in `|0⟩` and the rest of the register is the
    normalised branch selected by the draw. -/
theorem resetCore_spec (st : State ℂ ℝ) (hw : WF st) (q : ℕ) (hq : q < st.n) (r : ℝ) :
    (resetCore complexOps st q r).2 = decide (r < massSpec (absArr st.amps) (2 ^ st.n) q true) ∧
    (resetCore complexOps st q r).1.n = st.n ∧
    (resetCore complexOps st q r).1.amps.size = 2 ^ st.n ∧
    (∀ k, k < 2 ^ st.n → (resetCore complexOps st q r).1.amps[k]! =
      resetSpec (absArr st.amps) (2 ^ st.n) q
        (decide (r < massSpec (absArr st.amps) (2 ^ st.n) q true)) k) ∧
    (resetCore complexOps st q r).1.measured = st.measured.setIfInBounds q false ∧
    (resetCore complexOps st q r).1.ops =
      (if st.logOps then st.ops ++ [QOp.reset q] else st.ops) ∧
    (resetCore complexOps st q r).1.logOps = st.logOps := by
  have hp1 : mass complexOps st.amps q true = massSpec (absArr st.amps) (2 ^ st.n) q true := by
    rw [mass_eq_massSpec, hw.size]
  generalize hb : decide (r < massSpec (absArr st.amps) (2 ^ st.n) q true) = b
  have hp0 : mass complexOps st.amps q false = massSpec (absArr st.amps) (2 ^ st.n) q false := by
    rw [mass_eq_massSpec, hw.size]
  have htot : massSpec (absArr st.amps) (2 ^ st.n) q false +
      massSpec (absArr st.amps) (2 ^ st.n) q true = 1 := by
    rw [add_comm, massSpec_add]; exact hw.norm
  have hlt : complexOps.lt (complexOps.mul r (complexOps.add (mass complexOps st.amps q false)
      (mass complexOps st.amps q true))) (mass complexOps st.amps q true) = b := by
    rw [hp1, hp0, ← hb]
    show decide (r * (_ + _) < _) = _
    rw [htot, mul_one]
  have hnorm : complexOps.sqrt (if b then mass complexOps st.amps q true
      else mass complexOps st.amps q false) =
      Real.sqrt (massSpec (absArr st.amps) (2 ^ st.n) q b) := by
    rw [hp1, hp0]
    show Real.sqrt (if b then _ else _) = _
    cases b <;> rfl
  obtain ⟨cs1, cs2⟩ := collapse_spec complexOps st.amps q b
    (Real.sqrt (massSpec (absArr st.amps) (2 ^ st.n) q b))
  have csz : (collapse complexOps st.amps q b
      (Real.sqrt (massSpec (absArr st.amps) (2 ^ st.n) q b))).size = 2 ^ st.n := by
    rw [cs1, hw.size]
  obtain ⟨sd1, sd2⟩ := swapDown_spec complexOps (collapse complexOps st.amps q b
      (Real.sqrt (massSpec (absArr st.amps) (2 ^ st.n) q b))) st.n q csz hq
  unfold resetCore
  simp only [hlt, hnorm]
  refine ⟨trivial, ?_, ?_, ?_, ?_, ?_, ?_⟩
  · simp
  · simp only [log_amps]
    cases b
    · simpa using csz
    · simp only [if_true]; rw [sd1, csz]
  · intro k hk
    simp only [log_amps]
    have hkx : k ^^^ 2 ^ q < st.amps.size := by rw [hw.size]; exact xor_two_pow_lt hq hk
    cases b
    · simp only [Bool.false_eq_true, if_false]
      rw [cs2 k (by rw [hw.size]; exact hk)]
      unfold resetSpec absArr
      cases hk' : k.testBit q <;> simp [complexOps]
    · simp only [if_true]
      rw [sd2 k (by rw [csz]; exact hk)]
      cases hk' : k.testBit q
      · simp only [Bool.false_eq_true, if_false]
        rw [cs2 _ hkx, testBit_xor_two_pow_self, hk']
        unfold resetSpec absArr
        simp [complexOps, hk']
      · unfold resetSpec
        simp [complexOps, hk']
  · simp
  · simp [log_ops]
  · simp

theorem reset_eq_core (st : State ℂ ℝ) (q : ℕ) (r : ℝ) (hq : q < st.n) :
    reset complexOps st q r = .ok ((resetCore complexOps st q r).1,
      if (resetCore complexOps st q r).2 then 1 else 0) := by
  unfold reset
  simp only [ge_iff_le, Nat.not_le.mpr hq, if_false]
  rfl

end BlochVerif.Sim
