import BlochVerif.Sim.History
/-!
# Allocation commutes with every performed operation (towards the replay clause of C05)

The simulator allocates qubits when the program declares them, interleaved with gates; an OpenQASM program
declares the whole register up front.  Over exact complex amplitudes the two are the same: allocating a qubit
(`ψ ↦ ψ ⊗ |0⟩`) before or after an operation on lower qubits gives the same state.
-/
namespace BlochVerif.Sim
open Finset

theorem arr_ext_bang {K : Type} [Inhabited K] (a b : Array K) (hs : a.size = b.size)
    (h : ∀ k, k < a.size → a[k]! = b[k]!) : a = b := by
  apply Array.ext hs
  intro i h1 h2
  have := h i h1
  simpa [getElem!_pos, h1, h2] using this

theorem State.ext5 {K R : Type} (a b : State K R) (h1 : a.n = b.n) (h2 : a.amps = b.amps) (h3 : a.measured = b.measured)
    (h4 : a.ops = b.ops) (h5 : a.logOps = b.logOps) : a = b := by
  cases a; cases b; simp_all

theorem allocate_measured (st : State ℂ ℝ) (hw : WF st) :
    (allocate complexOps st).1.measured = st.measured.push false := by
  unfold allocate
  simp only
  rw [if_pos (show st.n ≥ st.measured.size by rw [hw.flags]), hw.flags]
  simp

theorem allocate_logOps (st : State ℂ ℝ) : (allocate complexOps st).1.logOps = st.logOps := rfl

theorem ensureActive_allocate (st : State ℂ ℝ) (hw : WF st) (q : ℕ) (h : ensureActive st q = .ok ()) :
    ensureActive (allocate complexOps st).1 q = .ok () ∧ q < st.n := by
  unfold ensureActive at h
  have hq : q < st.n := by
    by_contra hc
    rw [if_pos (by omega)] at h
    cases h
  rw [if_neg (by omega)] at h
  refine ⟨?_, hq⟩
  unfold ensureActive
  rw [allocate_n, if_neg (by omega), allocate_measured st hw]
  have hqs : q < st.measured.size := by rw [hw.flags]; exact hq
  by_cases hm : (decide (q < st.measured.size) && st.measured[q]!) = true
  · rw [if_pos hm] at h; cases h
  · simp only [hqs, decide_true, Bool.true_and] at hm
    have : (st.measured.push false)[q]! = st.measured[q]! := by
      rw [getElem!_pos _ q (by simp; omega), getElem!_pos _ q hqs, Array.getElem_push_lt hqs]
    rw [if_neg]
    rw [this]
    simp [hm]

/-! ### index arithmetic across the new top bit -/

theorem lt_two_pow_iff_top_clear (n j : ℕ) (hj : j < 2 ^ (n + 1)) : j < 2 ^ n ↔ j.testBit n = false := by
  constructor
  · intro h; exact Nat.testBit_lt_two_pow h
  · intro h
    by_contra hc
    have hge : 2 ^ n ≤ j := Nat.le_of_not_lt hc
    have : j.testBit n = true := by
      rw [Nat.testBit_eq_decide_div_mod_eq]
      have h1 : j / 2 ^ n = 1 := by
        apply Nat.div_eq_of_lt_le
        · omega
        · rw [Nat.pow_succ] at hj; omega
      simp [h1]
    rw [this] at h; cases h

theorem flip_lt (n q j : ℕ) (hq : q < n) (hj : j < 2 ^ n) : j ^^^ 2 ^ q < 2 ^ n :=
  Nat.xor_lt_two_pow hj (Nat.pow_lt_pow_right (by omega) hq)

theorem flip_top (n q j : ℕ) (hq : q < n) : (j ^^^ 2 ^ q).testBit n = j.testBit n := by
  rw [Nat.testBit_xor, Nat.testBit_two_pow]
  have : ¬ q = n := by omega
  simp [this]

/-- the amplitudes after an allocation, as a function -/
theorem allocate_abs (st : State ℂ ℝ) (hw : WF st) (k : ℕ) (hk : k < 2 ^ (st.n + 1)) :
    absArr (allocate complexOps st).1.amps k = if k < 2 ^ st.n then absArr st.amps k else 0 := by
  obtain ⟨_, h2⟩ := allocate_amps complexOps st
  have := h2 k (by rw [hw.size]; rw [Nat.pow_succ] at hk; omega)
  unfold absArr
  rw [this, hw.size]
  rfl

/-- `gateSpec` on the doubled array: the old half is transformed as before, the new half stays zero -/
theorem gateSpec_allocate (st : State ℂ ℝ) (hw : WF st) (q : ℕ) (hq : q < st.n) (m : Mat2 ℂ) (k : ℕ)
    (hk : k < 2 ^ (st.n + 1)) :
    gateSpec (absArr (allocate complexOps st).1.amps) q m k =
      if k < 2 ^ st.n then gateSpec (absArr st.amps) q m k else 0 := by
  unfold gateSpec
  by_cases hb : k.testBit q = true
  · simp only [hb, if_true]
    have hx : k - 2 ^ q = k ^^^ 2 ^ q := sub_two_pow_eq_xor k q hb
    have hx2 : k ^^^ 2 ^ q < 2 ^ (st.n + 1) := flip_lt (st.n + 1) q k (by omega) hk
    rw [hx, allocate_abs st hw _ hx2, allocate_abs st hw k hk]
    by_cases hlt : k < 2 ^ st.n
    · rw [if_pos hlt, if_pos (flip_lt st.n q k hq hlt), if_pos hlt]
    · have hx3 : ¬ k ^^^ 2 ^ q < 2 ^ st.n := by
        rw [lt_two_pow_iff_top_clear st.n _ hx2, flip_top st.n q k hq]
        rw [lt_two_pow_iff_top_clear st.n k hk] at hlt
        exact hlt
      rw [if_neg hlt, if_neg hx3, if_neg hlt]; simp
  · have hb' : k.testBit q = false := by simpa using hb
    simp only [hb', Bool.false_eq_true, if_false]
    have hx : k + 2 ^ q = k ^^^ 2 ^ q := add_two_pow_eq_xor k q hb'
    have hx2 : k ^^^ 2 ^ q < 2 ^ (st.n + 1) := flip_lt (st.n + 1) q k (by omega) hk
    rw [hx, allocate_abs st hw _ hx2, allocate_abs st hw k hk]
    by_cases hlt : k < 2 ^ st.n
    · rw [if_pos hlt, if_pos (flip_lt st.n q k hq hlt), if_pos hlt]
    · have hx3 : ¬ k ^^^ 2 ^ q < 2 ^ st.n := by
        rw [lt_two_pow_iff_top_clear st.n _ hx2, flip_top st.n q k hq]
        rw [lt_two_pow_iff_top_clear st.n k hk] at hlt
        exact hlt
      rw [if_neg hlt, if_neg hx3, if_neg hlt]; simp

theorem log_fields (st : State ℂ ℝ) (op : QOp ℝ) :
    (st.log op).n = st.n ∧ (st.log op).amps = st.amps ∧ (st.log op).measured = st.measured ∧
    (st.log op).logOps = st.logOps ∧ (st.log op).ops = (if st.logOps then st.ops ++ [op] else st.ops) := by
  unfold State.log
  cases h : st.logOps <;> simp [h]

/-- a gate on an existing qubit and the allocation of a new one commute -/
theorem gate_commutes_allocate (st : State ℂ ℝ) (hw : WF st) (op : QOp ℝ) (s : State ℂ ℝ)
    (h : gate1 complexOps st op = .ok s) :
    gate1 complexOps (allocate complexOps st).1 op = .ok (allocate complexOps s).1 := by
  have hws : WF s := WF_gate st hw op s h
  unfold gate1 at h ⊢
  cases hg : gateMat complexOps op with
  | none => rw [hg] at h; simp only at h ⊢; cases h; rfl
  | some qm =>
    obtain ⟨q, m⟩ := qm
    rw [hg] at h
    simp only at h ⊢
    cases he : ensureActive st q with
    | error e => rw [he] at h; cases h
    | ok u =>
      rw [he] at h
      obtain ⟨hea, hq⟩ := ensureActive_allocate st hw q he
      rw [hea]
      simp only [bind, Except.bind, pure, Except.pure, Except.ok.injEq] at h ⊢
      subst h
      -- abbreviations
      obtain ⟨hs1, hp1⟩ := applySingle_eq_gateSpec st.amps st.n q m hw.size hq
      have hwa := WF_allocate st hw
      obtain ⟨hs2, hp2⟩ := applySingle_eq_gateSpec (allocate complexOps st).1.amps (st.n + 1) q m
        (by rw [hwa.size, allocate_n]) (by omega)
      obtain ⟨l1, l2, l3, l4, l5⟩ := log_fields { st with amps := applySingle st.amps q m } op
      obtain ⟨a1, a2, a3, a4, a5⟩ := log_fields { (allocate complexOps st).1 with amps := applySingle (allocate complexOps st).1.amps q m } op
      apply State.ext5
      · rw [a1, allocate_n, allocate_n, l1]
      · rw [a2]
        obtain ⟨b1, b2⟩ := allocate_amps complexOps (({ st with amps := applySingle st.amps q m } : State ℂ ℝ).log op)
        rw [l2] at b1 b2
        simp only at b1 b2
        apply arr_ext_bang
        · simp only
          rw [hs2, b1, hs1, hwa.size, allocate_n, hw.size, Nat.pow_succ]; omega
        · intro k hk
          simp only at hk ⊢
          rw [hs2, hwa.size, allocate_n] at hk
          rw [hp2 k (by rw [hwa.size, allocate_n]; exact hk)]
          rw [gateSpec_allocate st hw q hq m k hk]
          rw [b2 k (by rw [hs1, hw.size]; rw [Nat.pow_succ] at hk; omega), hs1, hw.size]
          by_cases hlt : k < 2 ^ st.n
          · rw [if_pos hlt, if_pos hlt, hp1 k (by rw [hw.size]; exact hlt)]
          · rw [if_neg hlt, if_neg hlt]; rfl
      · rw [a3, allocate_measured st hw, allocate_measured _ hws, l3]
      · rw [a5, allocate_ops, allocate_ops, l5]; rfl
      · rw [a4]
        show st.logOps = (({ st with amps := applySingle st.amps q m } : State ℂ ℝ).log op).logOps
        rw [l4]

theorem cxSpec_allocate (st : State ℂ ℝ) (hw : WF st) (c t : ℕ) (ht : t < st.n) (k : ℕ) (hk : k < 2 ^ (st.n + 1)) :
    cxSpec (absArr (allocate complexOps st).1.amps) c t k =
      if k < 2 ^ st.n then cxSpec (absArr st.amps) c t k else 0 := by
  unfold cxSpec
  by_cases hb : k.testBit c = true
  · simp only [hb, if_true]
    have hx2 : k ^^^ 2 ^ t < 2 ^ (st.n + 1) := flip_lt (st.n + 1) t k (by omega) hk
    rw [allocate_abs st hw _ hx2]
    by_cases hlt : k < 2 ^ st.n
    · rw [if_pos (flip_lt st.n t k ht hlt), if_pos hlt]
    · have hx3 : ¬ k ^^^ 2 ^ t < 2 ^ st.n := by
        rw [lt_two_pow_iff_top_clear st.n _ hx2, flip_top st.n t k ht]
        rw [lt_two_pow_iff_top_clear st.n k hk] at hlt
        exact hlt
      rw [if_neg hx3, if_neg hlt]
  · have hb' : k.testBit c = false := by simpa using hb
    simp only [hb', Bool.false_eq_true, if_false]
    rw [allocate_abs st hw k hk]

/-- `cx` on existing qubits and the allocation of a new one commute -/
theorem cx_commutes_allocate (st : State ℂ ℝ) (hw : WF st) (c t : ℕ) (s : State ℂ ℝ)
    (h : cx st c t = .ok s) :
    cx (allocate complexOps st).1 c t = .ok (allocate complexOps s).1 := by
  have hws : WF s := WF_cx st hw c t s h
  unfold cx at h ⊢
  cases hc : ensureActive st c with
  | error e => rw [hc] at h; cases h
  | ok u =>
    rw [hc] at h
    cases ht : ensureActive st t with
    | error e => simp only [bind, Except.bind] at h; rw [ht] at h; cases h
    | ok u' =>
      simp only [bind, Except.bind] at h
      rw [ht] at h
      obtain ⟨hca, hcn⟩ := ensureActive_allocate st hw c hc
      obtain ⟨hta, htn⟩ := ensureActive_allocate st hw t ht
      rw [hca]
      simp only [bind, Except.bind]
      rw [hta]
      by_cases hct : c = t
      · simp [hct, throw, throwThe, MonadExceptOf.throw] at h
      · simp only [hct, if_false, pure, Except.pure, Except.ok.injEq] at h ⊢
        subst h
        obtain ⟨hs1, hp1⟩ := cxLoop_eq_cxSpec st.amps st.n c t hw.size hcn htn hct
        have hwa := WF_allocate st hw
        obtain ⟨hs2, hp2⟩ := cxLoop_eq_cxSpec (allocate complexOps st).1.amps (st.n + 1) c t
          (by rw [hwa.size, allocate_n]) (by omega) (by omega) hct
        obtain ⟨l1, l2, l3, l4, l5⟩ := log_fields { st with amps := cxLoop st.amps c t } (.cx c t)
        obtain ⟨a1, a2, a3, a4, a5⟩ := log_fields { (allocate complexOps st).1 with amps := cxLoop (allocate complexOps st).1.amps c t } (.cx c t)
        apply State.ext5
        · rw [a1, allocate_n, allocate_n, l1]
        · rw [a2]
          obtain ⟨b1, b2⟩ := allocate_amps complexOps (({ st with amps := cxLoop st.amps c t } : State ℂ ℝ).log (.cx c t))
          rw [l2] at b1 b2
          simp only at b1 b2
          apply arr_ext_bang
          · simp only
            rw [hs2, b1, hs1, hwa.size, allocate_n, hw.size, Nat.pow_succ]; omega
          · intro k hk
            simp only at hk ⊢
            rw [hs2, hwa.size, allocate_n] at hk
            rw [hp2 k (by rw [hwa.size, allocate_n]; exact hk)]
            rw [cxSpec_allocate st hw c t htn k hk]
            rw [b2 k (by rw [hs1, hw.size]; rw [Nat.pow_succ] at hk; omega), hs1, hw.size]
            by_cases hlt : k < 2 ^ st.n
            · rw [if_pos hlt, if_pos hlt, hp1 k (by rw [hw.size]; exact hlt)]
            · rw [if_neg hlt, if_neg hlt]; rfl
        · rw [a3, allocate_measured st hw, allocate_measured _ hws, l3]
        · rw [a5, allocate_ops, allocate_ops, l5]; rfl
        · rw [a4]
          show st.logOps = (({ st with amps := cxLoop st.amps c t } : State ℂ ℝ).log (.cx c t)).logOps
          rw [l4]

/-- the weight of a branch does not change when a qubit in `|0⟩` is appended -/
theorem massSpec_allocate (st : State ℂ ℝ) (hw : WF st) (q : ℕ) (b : Bool) :
    massSpec (absArr (allocate complexOps st).1.amps) (2 ^ (st.n + 1)) q b =
      massSpec (absArr st.amps) (2 ^ st.n) q b := by
  unfold massSpec
  rw [Nat.pow_succ, Nat.mul_comm, Nat.two_mul, Finset.sum_range_add]
  have e1 : ∑ k ∈ range (2 ^ st.n), (if k.testBit q = b then Complex.normSq (absArr (allocate complexOps st).1.amps k) else 0) =
      ∑ k ∈ range (2 ^ st.n), (if k.testBit q = b then Complex.normSq (absArr st.amps k) else 0) := by
    apply Finset.sum_congr rfl
    intro k hk
    have hk' := mem_range.mp hk
    rw [allocate_abs st hw k (by rw [Nat.pow_succ]; omega), if_pos hk']
  have e2 : ∑ k ∈ range (2 ^ st.n),
      (if (2 ^ st.n + k).testBit q = b then Complex.normSq (absArr (allocate complexOps st).1.amps (2 ^ st.n + k)) else 0) = 0 := by
    apply Finset.sum_eq_zero
    intro k hk
    have hk' := mem_range.mp hk
    have hlt : 2 ^ st.n + k < 2 ^ (st.n + 1) := by rw [Nat.pow_succ]; omega
    have hnl : ¬ (2 ^ st.n + k < 2 ^ st.n) := by omega
    rw [allocate_abs st hw _ hlt, if_neg hnl]
    simp
  rw [e1, e2, add_zero]

theorem push_setIfInBounds (a : Array Bool) (q : ℕ) (v : Bool) (hq : q < a.size) :
    (a.push false).setIfInBounds q v = (a.setIfInBounds q v).push false := by
  apply Array.ext_getElem?
  intro i
  simp only [Array.getElem?_setIfInBounds, Array.getElem?_push, Array.size_push, Array.size_setIfInBounds]
  by_cases hi : q = i
  · subst hi
    have h1 : q < a.size + 1 := by omega
    have h2 : ¬ q = a.size := by omega
    simp [h1, h2, hq]
  · by_cases hs : i = a.size
    · subst hs; simp [hi]
    · simp [hi, hs]

/-- the same with only the flag-array size as hypothesis -/
theorem allocate_measured' (st : State ℂ ℝ) (hf : st.measured.size = st.n) :
    (allocate complexOps st).1.measured = st.measured.push false := by
  unfold allocate
  simp only
  rw [if_pos (show st.n ≥ st.measured.size by rw [hf]), hf]
  simp

/-- a measurement of an existing qubit and the allocation of a new one commute: same outcome for the same
draw, same post-state -/
theorem measure_commutes_allocate (st : State ℂ ℝ) (hw : WF st) (q : ℕ) (r : ℝ) (s : State ℂ ℝ) (res : ℕ)
    (h : measure complexOps st q r = .ok (s, res)) :
    measure complexOps (allocate complexOps st).1 q r = .ok ((allocate complexOps s).1, res) := by
  unfold measure at h
  cases he : ensureActive st q with
  | error e => rw [he] at h; cases h
  | ok u =>
    rw [he] at h
    obtain ⟨hea, hq⟩ := ensureActive_allocate st hw q he
    simp only [bind, Except.bind, pure, Except.pure, Except.ok.injEq, Prod.mk.injEq] at h
    obtain ⟨hs, hr⟩ := h
    unfold measure
    rw [hea]
    simp only [bind, Except.bind, pure, Except.pure, Except.ok.injEq, Prod.mk.injEq]
    have hwa := WF_allocate st hw
    obtain ⟨m1, m2, m3, m4, m5, m6, m7⟩ := measureCore_spec st hw q r
    obtain ⟨a1, a2, a3, a4, a5, a6, a7⟩ := measureCore_spec (allocate complexOps st).1 hwa q r
    rw [allocate_n] at a1 a2 a3 a4
    rw [massSpec_allocate st hw q true] at a1 a4
    have hres : (measureCore complexOps (allocate complexOps st).1 q r).2 = (measureCore complexOps st q r).2 := by
      rw [a1, m1]
    refine ⟨?_, by rw [hres]; exact hr⟩
    rw [← hs]
    apply State.ext5
    · rw [a2, allocate_n, m2]
    · obtain ⟨b1, b2⟩ := allocate_amps complexOps (measureCore complexOps st q r).1
      apply arr_ext_bang
      · rw [a3, b1, m3, Nat.pow_succ]; omega
      · intro k hk
        rw [a3] at hk
        rw [a4 k hk, b2 k (by rw [m3]; rw [Nat.pow_succ] at hk; omega), m3]
        unfold collapseSpec
        rw [allocate_abs st hw k hk]
        by_cases hlt : k < 2 ^ st.n
        · rw [if_pos hlt, if_pos hlt, m4 k hlt]
          unfold collapseSpec
          by_cases hb : k.testBit q = decide (r < massSpec (absArr st.amps) (2 ^ st.n) q true)
          · rw [if_pos hb, if_pos hb]
            congr 3
            exact massSpec_allocate st hw q _
          · rw [if_neg hb, if_neg hb]
        · rw [if_neg hlt, if_neg hlt]
          split <;> simp [complexOps]
    · rw [a5, allocate_measured st hw, allocate_measured' _ (by rw [m5, Array.size_setIfInBounds, hw.flags, m2]), m5]
      exact push_setIfInBounds st.measured q true (by rw [hw.flags]; exact hq)
    · rw [a6, allocate_ops, allocate_ops, m6]; rfl
    · rw [a7, allocate_logOps, allocate_logOps, m7]

/-- a reset of an existing qubit and the allocation of a new one commute -/
theorem reset_commutes_allocate (st : State ℂ ℝ) (hw : WF st) (q : ℕ) (r : ℝ) (s : State ℂ ℝ) (res : ℕ)
    (h : reset complexOps st q r = .ok (s, res)) :
    reset complexOps (allocate complexOps st).1 q r = .ok ((allocate complexOps s).1, res) := by
  have hq : q < st.n := by
    unfold reset at h
    by_contra hc
    simp [Nat.le_of_not_lt hc, throw, throwThe, MonadExceptOf.throw, bind, Except.bind] at h
  rw [reset_eq_core st q r hq] at h
  simp only [Except.ok.injEq, Prod.mk.injEq] at h
  obtain ⟨hs, hr⟩ := h
  rw [reset_eq_core (allocate complexOps st).1 q r (by rw [allocate_n]; omega)]
  simp only [Except.ok.injEq, Prod.mk.injEq]
  have hwa := WF_allocate st hw
  obtain ⟨m1, m2, m3, m4, m5, m6, m7⟩ := resetCore_spec st hw q hq r
  obtain ⟨a1, a2, a3, a4, a5, a6, a7⟩ := resetCore_spec (allocate complexOps st).1 hwa q (by rw [allocate_n]; omega) r
  rw [allocate_n] at a1 a2 a3 a4
  rw [massSpec_allocate st hw q true] at a1 a4
  have hres : (resetCore complexOps (allocate complexOps st).1 q r).2 = (resetCore complexOps st q r).2 := by
    rw [a1, m1]
  refine ⟨?_, by rw [hres]; exact hr⟩
  rw [← hs]
  apply State.ext5
  · rw [a2, allocate_n, m2]
  · obtain ⟨b1, b2⟩ := allocate_amps complexOps (resetCore complexOps st q r).1
    apply arr_ext_bang
    · rw [a3, b1, m3, Nat.pow_succ]; omega
    · intro k hk
      rw [a3] at hk
      rw [a4 k hk, b2 k (by rw [m3]; rw [Nat.pow_succ] at hk; omega), m3]
      unfold resetSpec
      have hx2 : k ^^^ 2 ^ q < 2 ^ (st.n + 1) := flip_lt (st.n + 1) q k (by omega) hk
      rw [allocate_abs st hw k hk, allocate_abs st hw _ hx2, massSpec_allocate st hw q _]
      by_cases hlt : k < 2 ^ st.n
      · rw [if_pos hlt, if_pos hlt, if_pos (flip_lt st.n q k hq hlt), m4 k hlt]
        unfold resetSpec
        rfl
      · have hx3 : ¬ k ^^^ 2 ^ q < 2 ^ st.n := by
          rw [lt_two_pow_iff_top_clear st.n _ hx2, flip_top st.n q k hq]
          rw [lt_two_pow_iff_top_clear st.n k hk] at hlt
          exact hlt
        rw [if_neg hlt, if_neg hlt, if_neg hx3]
        split <;> simp [complexOps]
  · rw [a5, allocate_measured st hw, allocate_measured' _ (by rw [m5, Array.size_setIfInBounds, hw.flags, m2]), m5]
    exact push_setIfInBounds st.measured q false (by rw [hw.flags]; exact hq)
  · rw [a6, allocate_ops, allocate_ops, m6]; rfl
  · rw [a7, allocate_logOps, allocate_logOps, m7]

/-! ### histories -/

/-- the operation is accepted (performed, logged) in this state -/
def Performed (st : State ℂ ℝ) : HOp ℝ → Prop
  | .alloc => True
  | .gate g => ∃ s, gate1 complexOps st g = .ok s
  | .cx c t => ∃ s, cx st c t = .ok s
  | .measure q r => ∃ s res, measure complexOps st q r = .ok (s, res)
  | .reset q r => ∃ s res, reset complexOps st q r = .ok (s, res)

def AllPerformed : State ℂ ℝ → List (HOp ℝ) → Prop
  | _, [] => True
  | st, op :: rest => Performed st op ∧ AllPerformed (stepOp complexOps st op) rest

def isAlloc : HOp ℝ → Bool
  | .alloc => true
  | _ => false

/-- declare `k` qubits at once -/
noncomputable def allocN : ℕ → State ℂ ℝ → State ℂ ℝ
  | 0, st => st
  | k + 1, st => allocN k (allocate complexOps st).1

theorem WF_allocN (k : ℕ) (st : State ℂ ℝ) (hw : WF st) : WF (allocN k st) := by
  induction k generalizing st with
  | zero => exact hw
  | succ k ih => exact ih _ (WF_allocate st hw)

/-- one allocation moved past one performed operation -/
theorem step_commutes_allocate (st : State ℂ ℝ) (hw : WF st) (op : HOp ℝ) (hna : isAlloc op = false)
    (hp : Performed st op) :
    stepOp complexOps (allocate complexOps st).1 op = (allocate complexOps (stepOp complexOps st op)).1 ∧
    Performed (allocate complexOps st).1 op := by
  cases op with
  | alloc => simp [isAlloc] at hna
  | gate g =>
    obtain ⟨s, hs⟩ := hp
    have := gate_commutes_allocate st hw g s hs
    exact ⟨by simp only [stepOp, this, hs], ⟨_, this⟩⟩
  | cx c t =>
    obtain ⟨s, hs⟩ := hp
    have := cx_commutes_allocate st hw c t s hs
    exact ⟨by simp only [stepOp, this, hs], ⟨_, this⟩⟩
  | measure q r =>
    obtain ⟨s, res, hs⟩ := hp
    have := measure_commutes_allocate st hw q r s res hs
    exact ⟨by simp only [stepOp, this, hs], ⟨_, _, this⟩⟩
  | reset q r =>
    obtain ⟨s, res, hs⟩ := hp
    have := reset_commutes_allocate st hw q r s res hs
    exact ⟨by simp only [stepOp, this, hs], ⟨_, _, this⟩⟩

theorem step_commutes_allocN (k : ℕ) : ∀ (st : State ℂ ℝ), WF st → ∀ (op : HOp ℝ), isAlloc op = false →
    Performed st op → stepOp complexOps (allocN k st) op = allocN k (stepOp complexOps st op) := by
  induction k with
  | zero => intro st _ op _ _; rfl
  | succ k ih =>
    intro st hw op hna hp
    obtain ⟨h1, h2⟩ := step_commutes_allocate st hw op hna hp
    simp only [allocN]
    rw [ih _ (WF_allocate st hw) op hna h2, h1]

def nAllocs (h : List (HOp ℝ)) : ℕ := h.countP isAlloc
def opsOnly (h : List (HOp ℝ)) : List (HOp ℝ) := h.filter (fun op => !isAlloc op)

/-- **Allocating the whole register up front gives the same run.**  For every history whose operations are all
performed, running it with its allocations interleaved equals declaring that many qubits first and then
running the operations — same amplitudes, same flags, same log. -/
theorem interleaved_allocation_equals_upfront : ∀ (h : List (HOp ℝ)) (st : State ℂ ℝ), WF st →
    (∀ op ∈ h, DrawOK op) → AllPerformed st h →
    runOps complexOps st h = runOps complexOps (allocN (nAllocs h) st) (opsOnly h) := by
  intro h
  induction h with
  | nil => intro st _ _ _; rfl
  | cons op rest ih =>
    intro st hw hd hp
    obtain ⟨hp1, hp2⟩ := hp
    have hdr : ∀ o ∈ rest, DrawOK o := fun o ho => hd o (List.mem_cons_of_mem _ ho)
    have hws : WF (stepOp complexOps st op) := WF_step st hw op (hd op (List.mem_cons_self ..))
    have := ih (stepOp complexOps st op) hws hdr hp2
    by_cases ha : isAlloc op = true
    · cases op <;> simp [isAlloc] at ha
      simp only [runOps, List.foldl_cons, nAllocs, opsOnly, List.countP_cons, isAlloc, if_true, List.filter_cons,
        Bool.not_true, Bool.false_eq_true, if_false] at this ⊢
      simp only [stepOp] at this ⊢
      exact this
    · have ha' : isAlloc op = false := by simpa using ha
      simp only [runOps, List.foldl_cons] at this ⊢
      rw [this]
      simp only [nAllocs, opsOnly, List.countP_cons, ha', Bool.false_eq_true, if_false, Nat.add_zero, List.filter_cons,
        Bool.not_false, if_true, List.foldl_cons]
      rw [step_commutes_allocN _ st hw op ha' hp1]

end BlochVerif.Sim
