import BlochVerif.Sim.Norm
/-!
# The seven matrices of `qasm_simulator.cpp` are the standard ones, and unitary
-/
namespace BlochVerif.Sim

def QOp.isGate1 {R : Type} : QOp R → Bool
  | .h _ | .x _ | .y _ | .z _ | .rx _ _ | .ry _ _ | .rz _ _ => true
  | _ => false

theorem normSq_mk (a b : ℝ) : Complex.normSq ⟨a, b⟩ = a * a + b * b := by
  simp [Complex.normSq_apply]

theorem inv_sqrt2_sq : (1 / Real.sqrt 2) * (1 / Real.sqrt 2) = 1 / 2 := by
  rw [div_mul_div_comm, Real.mul_self_sqrt (by norm_num)]; norm_num

theorem cs (t : ℝ) : Real.cos t * Real.cos t + Real.sin t * Real.sin t = 1 := by
  have := Real.cos_sq_add_sin_sq t; nlinarith [this]

/-- every matrix the simulator applies is unitary -/
theorem gateMat_unitary (op : QOp ℝ) (q : ℕ) (m : Mat2 ℂ)
    (h : gateMat complexOps op = some (q, m)) : IsUnitary2 m := by
  cases op <;> simp only [gateMat, complexOps, Option.some.injEq, Prod.mk.injEq, reduceCtorEq] at h
  case h =>
    obtain ⟨_, rfl⟩ := h
    have e := inv_sqrt2_sq
    refine ⟨?_, ?_, ?_⟩
    · simp only [normSq_mk]; nlinarith [e]
    · simp only [normSq_mk]; nlinarith [e]
    · apply Complex.ext <;> simp
  case x =>
    obtain ⟨_, rfl⟩ := h
    refine ⟨?_, ?_, ?_⟩
    · simp
    · simp
    · apply Complex.ext <;> simp
  case y =>
    obtain ⟨_, rfl⟩ := h
    refine ⟨?_, ?_, ?_⟩
    · simp
    · simp
    · apply Complex.ext <;> simp
  case z =>
    obtain ⟨_, rfl⟩ := h
    refine ⟨?_, ?_, ?_⟩
    · simp
    · simp
    · apply Complex.ext <;> simp
  case rx q' t =>
    obtain ⟨_, rfl⟩ := h
    have e := cs (t / 2)
    refine ⟨?_, ?_, ?_⟩
    · simp only [normSq_mk]; nlinarith [e]
    · simp only [normSq_mk]; nlinarith [e]
    · apply Complex.ext <;> simp <;> ring
  case ry q' t =>
    obtain ⟨_, rfl⟩ := h
    have e := cs (t / 2)
    refine ⟨?_, ?_, ?_⟩
    · simp only [normSq_mk]; nlinarith [e]
    · simp only [normSq_mk]; nlinarith [e]
    · apply Complex.ext <;> simp <;> ring
  case rz q' t =>
    obtain ⟨_, rfl⟩ := h
    have e := cs (t / 2)
    refine ⟨?_, ?_, ?_⟩
    · simp only [normSq_mk]; nlinarith [e]
    · simp only [normSq_mk]; nlinarith [e]
    · apply Complex.ext <;> simp

/-! ## The matrices are the textbook ones

Pauli matrices and Hadamard literally; rotations as `cos(t/2)·1 − i·sin(t/2)·P`, which is the
closed form of `exp(−i t P / 2)` because `P² = 1` (`pauli_sq`), together with the one-parameter
group law `R_P(s) R_P(t) = R_P(s+t)` and `R_P(0) = 1` that characterise the exponential. -/

def matMul (m₁ m₂ : Mat2 ℂ) : Mat2 ℂ :=
  ⟨m₁.a * m₂.a + m₁.b * m₂.c, m₁.a * m₂.b + m₁.b * m₂.d,
   m₁.c * m₂.a + m₁.d * m₂.c, m₁.c * m₂.b + m₁.d * m₂.d⟩

def pauliX : Mat2 ℂ := ⟨0, 1, 1, 0⟩
def pauliY : Mat2 ℂ := ⟨0, -Complex.I, Complex.I, 0⟩
def pauliZ : Mat2 ℂ := ⟨1, 0, 0, -1⟩
def ident : Mat2 ℂ := ⟨1, 0, 0, 1⟩

/-- `cos(t/2)·1 − i·sin(t/2)·P` -/
noncomputable def rotOf (p : Mat2 ℂ) (t : ℝ) : Mat2 ℂ :=
  let c : ℂ := (Real.cos (t / 2) : ℝ)
  let s : ℂ := (Real.sin (t / 2) : ℝ)
  ⟨c * 1 - Complex.I * s * p.a, c * 0 - Complex.I * s * p.b,
   c * 0 - Complex.I * s * p.c, c * 1 - Complex.I * s * p.d⟩

theorem Mat2.ext' {m₁ m₂ : Mat2 ℂ} (ha : m₁.a = m₂.a) (hb : m₁.b = m₂.b) (hc : m₁.c = m₂.c)
    (hd : m₁.d = m₂.d) : m₁ = m₂ := by
  cases m₁; cases m₂; simp_all

theorem pauli_sq : matMul pauliX pauliX = ident ∧ matMul pauliY pauliY = ident ∧
    matMul pauliZ pauliZ = ident := by
  refine ⟨?_, ?_, ?_⟩ <;> apply Mat2.ext' <;> simp [matMul, pauliX, pauliY, pauliZ, ident]

theorem gate_x (q : ℕ) : gateMat complexOps (.x q) = some (q, pauliX) := by
  simp only [gateMat, complexOps, pauliX, Option.some.injEq, Prod.mk.injEq, true_and]
  apply Mat2.ext' <;> apply Complex.ext <;> simp

theorem gate_y (q : ℕ) : gateMat complexOps (.y q) = some (q, pauliY) := by
  simp only [gateMat, complexOps, pauliY, Option.some.injEq, Prod.mk.injEq, true_and]
  apply Mat2.ext' <;> apply Complex.ext <;> simp

theorem gate_z (q : ℕ) : gateMat complexOps (.z q) = some (q, pauliZ) := by
  simp only [gateMat, complexOps, pauliZ, Option.some.injEq, Prod.mk.injEq, true_and]
  apply Mat2.ext' <;> apply Complex.ext <;> simp

/-- Hadamard: `(X + Z)/√2` -/
noncomputable def hadamard : Mat2 ℂ :=
  let s : ℂ := ((1 / Real.sqrt 2 : ℝ) : ℂ)
  ⟨s * (pauliX.a + pauliZ.a), s * (pauliX.b + pauliZ.b), s * (pauliX.c + pauliZ.c),
   s * (pauliX.d + pauliZ.d)⟩

theorem gate_h (q : ℕ) : gateMat complexOps (.h q) = some (q, hadamard) := by
  simp only [gateMat, complexOps, hadamard, pauliX, pauliZ, Option.some.injEq, Prod.mk.injEq, true_and]
  apply Mat2.ext' <;> apply Complex.ext <;> simp [-one_div]

theorem gate_rx (q : ℕ) (t : ℝ) : gateMat complexOps (.rx q t) = some (q, rotOf pauliX t) := by
  simp only [gateMat, complexOps, rotOf, pauliX, Option.some.injEq, Prod.mk.injEq, true_and]
  apply Mat2.ext' <;> apply Complex.ext <;> simp [-Complex.ofReal_cos, -Complex.ofReal_sin]

theorem gate_ry (q : ℕ) (t : ℝ) : gateMat complexOps (.ry q t) = some (q, rotOf pauliY t) := by
  simp only [gateMat, complexOps, rotOf, pauliY, Option.some.injEq, Prod.mk.injEq, true_and]
  apply Mat2.ext' <;> apply Complex.ext <;> simp [-Complex.ofReal_cos, -Complex.ofReal_sin]

theorem gate_rz (q : ℕ) (t : ℝ) : gateMat complexOps (.rz q t) = some (q, rotOf pauliZ t) := by
  simp only [gateMat, complexOps, rotOf, pauliZ, Option.some.injEq, Prod.mk.injEq, true_and]
  apply Mat2.ext' <;> apply Complex.ext <;> simp [-Complex.ofReal_cos, -Complex.ofReal_sin]

/-- `R_P(0) = 1` and `R_P(s) R_P(t) = R_P(s + t)` whenever `P² = 1`: the rotation family is the
    one-parameter group generated by `−iP/2`. -/
theorem rotOf_zero (p : Mat2 ℂ) : rotOf p 0 = ident := by
  apply Mat2.ext' <;> simp [rotOf, ident]

theorem rotOf_add (p : Mat2 ℂ) (hp : matMul p p = ident) (s t : ℝ) :
    matMul (rotOf p s) (rotOf p t) = rotOf p (s + t) := by
  have ha : p.a * p.a + p.b * p.c = 1 := by have := congrArg Mat2.a hp; simpa [matMul, ident] using this
  have hb : p.a * p.b + p.b * p.d = 0 := by have := congrArg Mat2.b hp; simpa [matMul, ident] using this
  have hc : p.c * p.a + p.d * p.c = 0 := by have := congrArg Mat2.c hp; simpa [matMul, ident] using this
  have hd : p.c * p.b + p.d * p.d = 1 := by have := congrArg Mat2.d hp; simpa [matMul, ident] using this
  have e : (s + t) / 2 = s / 2 + t / 2 := by ring
  have I2 : Complex.I * Complex.I = -1 := Complex.I_mul_I
  apply Mat2.ext' <;>
    simp only [matMul, rotOf, e, Real.cos_add, Real.sin_add, Complex.ofReal_add, Complex.ofReal_sub,
      Complex.ofReal_mul, mul_one, mul_zero, zero_sub]
  · generalize (Real.cos (s / 2) : ℂ) = cs; generalize (Real.sin (s / 2) : ℂ) = ss
    generalize (Real.cos (t / 2) : ℂ) = ct; generalize (Real.sin (t / 2) : ℂ) = st
    have : (cs - Complex.I * ss * p.a) * (ct - Complex.I * st * p.a) +
        -(Complex.I * ss * p.b) * -(Complex.I * st * p.c) =
        cs * ct - Complex.I * (ss * ct + cs * st) * p.a +
          (Complex.I * Complex.I) * ss * st * (p.a * p.a + p.b * p.c) := by ring
    rw [this, ha, I2]; ring
  · generalize (Real.cos (s / 2) : ℂ) = cs; generalize (Real.sin (s / 2) : ℂ) = ss
    generalize (Real.cos (t / 2) : ℂ) = ct; generalize (Real.sin (t / 2) : ℂ) = st
    have : (cs - Complex.I * ss * p.a) * -(Complex.I * st * p.b) +
        -(Complex.I * ss * p.b) * (ct - Complex.I * st * p.d) =
        - Complex.I * (ss * ct + cs * st) * p.b +
          (Complex.I * Complex.I) * ss * st * (p.a * p.b + p.b * p.d) := by ring
    rw [this, hb]; ring
  · generalize (Real.cos (s / 2) : ℂ) = cs; generalize (Real.sin (s / 2) : ℂ) = ss
    generalize (Real.cos (t / 2) : ℂ) = ct; generalize (Real.sin (t / 2) : ℂ) = st
    have : -(Complex.I * ss * p.c) * (ct - Complex.I * st * p.a) +
        (cs - Complex.I * ss * p.d) * -(Complex.I * st * p.c) =
        - Complex.I * (ss * ct + cs * st) * p.c +
          (Complex.I * Complex.I) * ss * st * (p.c * p.a + p.d * p.c) := by ring
    rw [this, hc]; ring
  · generalize (Real.cos (s / 2) : ℂ) = cs; generalize (Real.sin (s / 2) : ℂ) = ss
    generalize (Real.cos (t / 2) : ℂ) = ct; generalize (Real.sin (t / 2) : ℂ) = st
    have : -(Complex.I * ss * p.c) * -(Complex.I * st * p.b) +
        (cs - Complex.I * ss * p.d) * (ct - Complex.I * st * p.d) =
        cs * ct - Complex.I * (ss * ct + cs * st) * p.d +
          (Complex.I * Complex.I) * ss * st * (p.c * p.b + p.d * p.d) := by ring
    rw [this, hd, I2]; ring

end BlochVerif.Sim
