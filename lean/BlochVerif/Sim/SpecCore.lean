import BlochVerif.Sim.Model
/-!
# The index-level specification of the gates, and the loop proofs (core-only, any scalar type)

`gateSpec ψ q M k` — the `k`-th amplitude of `(I ⊗ … ⊗ M ⊗ … ⊗ I) ψ` with `M` on tensor factor
`q` (little-endian: qubit `q` is bit `q` of the basis index): row `bit q of k` of `M` applied to
the pair `(ψ (k with bit q cleared), ψ (k with bit q set))`.

`cxSpec ψ c t k` — the permutation `|x⟩ ↦ |x xor (x_c · 2^t)⟩`.

The theorems say the *loops* of `qasm_simulator.cpp` compute exactly these, for every register
size, every index and every amplitude vector, over any type with `+` and `*` (no ring law is
used: the statements are about which cell receives which expression).
-/
namespace BlochVerif.Sim

section
variable {K : Type} [Add K] [Mul K]

def gateSpec (ψ : Nat → K) (q : Nat) (m : Mat2 K) (k : Nat) : K :=
  if k.testBit q then m.c * ψ (k - 2 ^ q) + m.d * ψ k
  else m.a * ψ k + m.b * ψ (k + 2 ^ q)

def cxSpec (ψ : Nat → K) (c t : Nat) (k : Nat) : K :=
  ψ (if k.testBit c then k ^^^ 2 ^ t else k)

end

/-- array as a function on indices -/
def absArr {K : Type} [Inhabited K] (a : Array K) : Nat → K := fun k => a[k]!

theorem blk (s t : Nat) : t * (2 * s) = (2 * t) * s := by
  rw [Nat.mul_comm 2 s, ← Nat.mul_assoc, Nat.mul_comm t s, Nat.mul_assoc, Nat.mul_comm s (t*2),
    Nat.mul_comm t 2]

theorem div_block_lo (s t j : Nat) (hj : j < s) : (t * (2 * s) + j) / s = 2 * t := by
  rw [blk]; generalize 2 * t = u
  apply Nat.div_eq_of_lt_le
  · exact Nat.le_add_right _ _
  · rw [Nat.succ_mul]; omega

theorem div_block_hi (s t j : Nat) (hj : j < s) : (t * (2 * s) + j + s) / s = 2 * t + 1 := by
  rw [blk]; generalize 2 * t = u
  apply Nat.div_eq_of_lt_le
  · rw [Nat.succ_mul]; omega
  · rw [Nat.succ_mul, Nat.succ_mul]; omega

section
variable {K : Type} [Inhabited K]

theorem rd_set (a : Array K) (i k : Nat) (v : K) :
    (a.setIfInBounds i v)[k]! = if i = k ∧ i < a.size then v else a[k]! := by
  by_cases h : i = k
  · subst h
    by_cases hb : i < a.size
    · simp [hb]
    · simp [hb, Array.setIfInBounds]
  · simp only [h, false_and, if_false]
    rw [getElem!_def, getElem!_def, Array.getElem?_setIfInBounds_ne h]

variable [Add K] [Mul K]

/-- cells already rewritten while working on block `t` after `j` inner iterations -/
def doneCells (s t j k : Nat) : Prop :=
  k < t * (2 * s) ∨ (t * (2 * s) ≤ k ∧ k < t * (2 * s) + j) ∨
    (t * (2 * s) + s ≤ k ∧ k < t * (2 * s) + s + j)

instance (s t j k : Nat) : Decidable (doneCells s t j k) := by unfold doneCells; exact inferInstance

def LoopInv (arr : Array K) (q : Nat) (m : Mat2 K) (t j : Nat) (st : Array K) : Prop :=
  st.size = arr.size ∧ ∀ k, k < arr.size →
    st[k]! = if doneCells (2 ^ q) t j k then gateSpec (absArr arr) q m k else arr[k]!

theorem inner_step (arr : Array K) (q : Nat) (m : Mat2 K) (t j : Nat) (st : Array K)
    (hj : j < 2 ^ q) (hblk : t * (2 * 2 ^ q) + 2 * 2 ^ q ≤ arr.size)
    (h : LoopInv arr q m t j st) :
    LoopInv arr q m t (j + 1) (pairUpdate m (2 ^ q) (t * (2 * 2 ^ q)) j st) := by
  obtain ⟨hsz, hval⟩ := h
  have hspos : 0 < 2 ^ q := Nat.two_pow_pos q
  refine ⟨by simp [pairUpdate, hsz], ?_⟩
  intro k hk
  have h0 : st[t * (2 * 2 ^ q) + j]! = arr[t * (2 * 2 ^ q) + j]! := by
    rw [hval _ (by omega), if_neg]; unfold doneCells; omega
  have h1 : st[t * (2 * 2 ^ q) + j + 2 ^ q]! = arr[t * (2 * 2 ^ q) + j + 2 ^ q]! := by
    rw [hval _ (by omega), if_neg]; unfold doneCells; omega
  simp only [pairUpdate]
  rw [rd_set, rd_set, h0, h1, Array.size_setIfInBounds, hsz]
  by_cases e1 : t * (2 * 2 ^ q) + j + 2 ^ q = k
  · rw [if_pos ⟨e1, by omega⟩, if_pos (by unfold doneCells; omega)]
    unfold gateSpec absArr
    rw [← e1, Nat.testBit_eq_decide_div_mod_eq, div_block_hi (2 ^ q) t j hj]
    rw [if_pos (by simp)]
    have : t * (2 * 2 ^ q) + j + 2 ^ q - 2 ^ q = t * (2 * 2 ^ q) + j := by omega
    rw [this]
  · rw [if_neg (by intro h; exact e1 h.1)]
    by_cases e0 : t * (2 * 2 ^ q) + j = k
    · rw [if_pos ⟨e0, by omega⟩, if_pos (by unfold doneCells; omega)]
      unfold gateSpec absArr
      rw [← e0, Nat.testBit_eq_decide_div_mod_eq, div_block_lo (2 ^ q) t j hj]
      rw [if_neg (by simp)]
    · rw [if_neg (by intro h; exact e0 h.1), hval k hk]
      have : doneCells (2 ^ q) t (j + 1) k ↔ doneCells (2 ^ q) t j k := by unfold doneCells; omega
      by_cases hd : doneCells (2 ^ q) t j k
      · rw [if_pos hd, if_pos (this.mpr hd)]
      · rw [if_neg hd, if_neg (fun h => hd (this.mp h))]

/-- **The blocked loop of `applySingleQubitGate` computes `M` on tensor factor `q`.**
    Every register size `n`, every `q < n`, every amplitude vector, every matrix. -/
theorem applySingle_eq_gateSpec (arr : Array K) (n q : Nat) (m : Mat2 K)
    (hsize : arr.size = 2 ^ n) (hq : q < n) :
    (applySingle arr q m).size = arr.size ∧
    ∀ k, k < arr.size → (applySingle arr q m)[k]! = gateSpec (absArr arr) q m k := by
  have hcnt : arr.size = 2 ^ (n - q - 1) * (2 * 2 ^ q) := by
    rw [hsize, ← Nat.pow_succ', ← Nat.pow_add]; congr 1; omega
  generalize hc : 2 ^ (n - q - 1) = cnt at hcnt
  have hspos : 0 < 2 ^ q := Nat.two_pow_pos q
  unfold applySingle
  have outer := forStep_mul_inv (2 * 2 ^ q) cnt (by omega)
    (fun i st => forStep (2 ^ q) 1 (fun j st => pairUpdate m (2 ^ q) i j st) 0 st)
    (fun t st => LoopInv arr q m t 0 st)
    (by
      intro t st ht hI
      have inner := forStep_mul_inv 1 (2 ^ q) (by omega)
        (fun j st => pairUpdate m (2 ^ q) (t * (2 * 2 ^ q)) j st)
        (fun j st => LoopInv arr q m t j st)
        (by
          intro j st' hj hI'
          have hb : t * (2 * 2 ^ q) + 2 * 2 ^ q ≤ arr.size := by
            rw [hcnt]
            have : (t + 1) * (2 * 2 ^ q) ≤ cnt * (2 * 2 ^ q) := Nat.mul_le_mul_right _ (by omega)
            rw [Nat.succ_mul] at this; exact this
          simpa using inner_step arr q m t j st' hj hb hI')
        0 st (by omega) hI
      simp only [Nat.mul_one] at inner
      obtain ⟨hsz, hv⟩ := inner
      refine ⟨hsz, ?_⟩
      intro k hk
      rw [hv k hk]
      have : doneCells (2 ^ q) t (2 ^ q) k ↔ doneCells (2 ^ q) (t + 1) 0 k := by
        have e : (t + 1) * (2 * 2 ^ q) = t * (2 * 2 ^ q) + 2 * 2 ^ q := Nat.succ_mul _ _
        unfold doneCells; rw [e]; omega
      by_cases hd : doneCells (2 ^ q) t (2 ^ q) k
      · rw [if_pos hd, if_pos (this.mp hd)]
      · rw [if_neg hd, if_neg (fun h => hd (this.mpr h))])
    0 arr (by omega)
    (by
      refine ⟨rfl, ?_⟩
      intro k hk; rw [if_neg]; unfold doneCells; omega)
  simp only [Nat.zero_mul] at outer
  rw [← hcnt] at outer
  obtain ⟨hsz, hv⟩ := outer
  refine ⟨hsz, ?_⟩
  intro k hk
  rw [hv k hk, if_pos]
  unfold doneCells; left; rw [← hcnt]; exact hk

end
end BlochVerif.Sim
