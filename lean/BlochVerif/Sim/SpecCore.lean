import BlochVerif.Sim.Model
/-!
# The index-level specification of the gates, and the loop proofs (core-only, any scalar type)

`gateSpec ψ q M k` — the `k`-th amplitude of `(I ⊗ … ⊗ M ⊗ … ⊗ I) ψ` with `M` on tensor factor
`q` (little-endian: qubit `q` is bit `q` of the basis index): row `bit q of k` of `M` applied to
the pair `(ψ (k with bit q cleared), ψ (k with bit q set))`.

`cxSpec ψ c t k` — the permutation `|x⟩ ↦ |x xor (x_c · 2^t)⟩`.

The theorems say the *loops* of `qasm_simulator.cpp` compute exactly these, for every register
size, every index and every amplitude vector, over any type with `+` and `*` (no ring law is
used: the statements are about which cell receives which expression).
-/
namespace BlochVerif.Sim

section
variable {K : Type} [Add K] [Mul K]

def gateSpec (ψ : Nat → K) (q : Nat) (m : Mat2 K) (k : Nat) : K :=
  if k.testBit q then m.c * ψ (k - 2 ^ q) + m.d * ψ k
  else m.a * ψ k + m.b * ψ (k + 2 ^ q)

def cxSpec (ψ : Nat → K) (c t : Nat) (k : Nat) : K :=
  ψ (if k.testBit c then k ^^^ 2 ^ t else k)

end

/-- array as a function on indices -/
def absArr {K : Type} [Inhabited K] (a : Array K) : Nat → K := fun k => a[k]!

theorem blk (s t : Nat) : t * (2 * s) = (2 * t) * s := by
  rw [Nat.mul_comm 2 s, ← Nat.mul_assoc, Nat.mul_comm t s, Nat.mul_assoc, Nat.mul_comm s (t*2),
    Nat.mul_comm t 2]

theorem div_block_lo (s t j : Nat) (hj : j < s) : (t * (2 * s) + j) / s = 2 * t := by
  rw [blk]; generalize 2 * t = u
  apply Nat.div_eq_of_lt_le
  · exact Nat.le_add_right _ _
  · rw [Nat.succ_mul]; omega

theorem div_block_hi (s t j : Nat) (hj : j < s) : (t * (2 * s) + j + s) / s = 2 * t + 1 := by
  rw [blk]; generalize 2 * t = u
  apply Nat.div_eq_of_lt_le
  · rw [Nat.succ_mul]; omega
  · rw [Nat.succ_mul, Nat.succ_mul]; omega

section
variable {K : Type} [Inhabited K]

theorem rd_set (a : Array K) (i k : Nat) (v : K) :
    (a.setIfInBounds i v)[k]! = if i = k ∧ i < a.size then v else a[k]! := by
  by_cases h : i = k
  · subst h
    by_cases hb : i < a.size
    · simp [hb]
    · simp [hb, Array.setIfInBounds]
  · simp only [h, false_and, if_false]
    rw [getElem!_def, getElem!_def, Array.getElem?_setIfInBounds_ne h]

variable [Add K] [Mul K]

/-- cells already rewritten while working on block `t` after `j` inner iterations -/
def doneCells (s t j k : Nat) : Prop :=
  k < t * (2 * s) ∨ (t * (2 * s) ≤ k ∧ k < t * (2 * s) + j) ∨
    (t * (2 * s) + s ≤ k ∧ k < t * (2 * s) + s + j)

instance (s t j k : Nat) : Decidable (doneCells s t j k) := by unfold doneCells; exact inferInstance

def LoopInv (arr : Array K) (q : Nat) (m : Mat2 K) (t j : Nat) (st : Array K) : Prop :=
  st.size = arr.size ∧ ∀ k, k < arr.size →
    st[k]! = if doneCells (2 ^ q) t j k then gateSpec (absArr arr) q m k else arr[k]!

theorem inner_step (arr : Array K) (q : Nat) (m : Mat2 K) (t j : Nat) (st : Array K)
    (hj : j < 2 ^ q) (hblk : t * (2 * 2 ^ q) + 2 * 2 ^ q ≤ arr.size)
    (h : LoopInv arr q m t j st) :
    LoopInv arr q m t (j + 1) (pairUpdate m (2 ^ q) (t * (2 * 2 ^ q)) j st) := by
  obtain ⟨hsz, hval⟩ := h
  have hspos : 0 < 2 ^ q := Nat.two_pow_pos q
  refine ⟨by simp [pairUpdate, hsz], ?_⟩
  intro k hk
  have h0 : st[t * (2 * 2 ^ q) + j]! = arr[t * (2 * 2 ^ q) + j]! := by
    rw [hval _ (by omega), if_neg]; unfold doneCells; omega
  have h1 : st[t * (2 * 2 ^ q) + j + 2 ^ q]! = arr[t * (2 * 2 ^ q) + j + 2 ^ q]! := by
    rw [hval _ (by omega), if_neg]; unfold doneCells; omega
  simp only [pairUpdate]
  rw [rd_set, rd_set, h0, h1, Array.size_setIfInBounds, hsz]
  by_cases e1 : t * (2 * 2 ^ q) + j + 2 ^ q = k
  · rw [if_pos ⟨e1, by omega⟩, if_pos (by unfold doneCells; omega)]
    unfold gateSpec absArr
    rw [← e1, Nat.testBit_eq_decide_div_mod_eq, div_block_hi (2 ^ q) t j hj]
    rw [if_pos (by simp)]
    have : t * (2 * 2 ^ q) + j + 2 ^ q - 2 ^ q = t * (2 * 2 ^ q) + j := by omega
    rw [this]
  · rw [if_neg (by intro h; exact e1 h.1)]
    by_cases e0 : t * (2 * 2 ^ q) + j = k
    · rw [if_pos ⟨e0, by omega⟩, if_pos (by unfold doneCells; omega)]
      unfold gateSpec absArr
      rw [← e0, Nat.testBit_eq_decide_div_mod_eq, div_block_lo (2 ^ q) t j hj]
      rw [if_neg (by simp)]
    · rw [if_neg (by intro h; exact e0 h.1), hval k hk]
      have : doneCells (2 ^ q) t (j + 1) k ↔ doneCells (2 ^ q) t j k := by unfold doneCells; omega
      by_cases hd : doneCells (2 ^ q) t j k
      · rw [if_pos hd, if_pos (this.mpr hd)]
      · rw [if_neg hd, if_neg (fun h => hd (this.mp h))]

/-- **The blocked loop of `applySingleQubitGate` computes `M` on tensor factor `q`.**
    Every register size `n`, every `q < n`, every amplitude vector, every matrix. -/
theorem applySingle_eq_gateSpec (arr : Array K) (n q : Nat) (m : Mat2 K)
    (hsize : arr.size = 2 ^ n) (hq : q < n) :
    (applySingle arr q m).size = arr.size ∧
    ∀ k, k < arr.size → (applySingle arr q m)[k]! = gateSpec (absArr arr) q m k := by
  have hcnt : arr.size = 2 ^ (n - q - 1) * (2 * 2 ^ q) := by
    rw [hsize, ← Nat.pow_succ', ← Nat.pow_add]; congr 1; omega
  generalize hc : 2 ^ (n - q - 1) = cnt at hcnt
  have hspos : 0 < 2 ^ q := Nat.two_pow_pos q
  unfold applySingle
  have outer := forStep_mul_inv (2 * 2 ^ q) cnt (by omega)
    (fun i st => forStep (2 ^ q) 1 (fun j st => pairUpdate m (2 ^ q) i j st) 0 st)
    (fun t st => LoopInv arr q m t 0 st)
    (by
      intro t st ht hI
      have inner := forStep_mul_inv 1 (2 ^ q) (by omega)
        (fun j st => pairUpdate m (2 ^ q) (t * (2 * 2 ^ q)) j st)
        (fun j st => LoopInv arr q m t j st)
        (by
          intro j st' hj hI'
          have hb : t * (2 * 2 ^ q) + 2 * 2 ^ q ≤ arr.size := by
            rw [hcnt]
            have : (t + 1) * (2 * 2 ^ q) ≤ cnt * (2 * 2 ^ q) := Nat.mul_le_mul_right _ (by omega)
            rw [Nat.succ_mul] at this; exact this
          simpa using inner_step arr q m t j st' hj hb hI')
        0 st (by omega) hI
      simp only [Nat.mul_one] at inner
      obtain ⟨hsz, hv⟩ := inner
      refine ⟨hsz, ?_⟩
      intro k hk
      rw [hv k hk]
      have : doneCells (2 ^ q) t (2 ^ q) k ↔ doneCells (2 ^ q) (t + 1) 0 k := by
        have e : (t + 1) * (2 * 2 ^ q) = t * (2 * 2 ^ q) + 2 * 2 ^ q := Nat.succ_mul _ _
        unfold doneCells; rw [e]; omega
      by_cases hd : doneCells (2 ^ q) t (2 ^ q) k
      · rw [if_pos hd, if_pos (this.mp hd)]
      · rw [if_neg hd, if_neg (fun h => hd (this.mpr h))])
    0 arr (by omega)
    (by
      refine ⟨rfl, ?_⟩
      intro k hk; rw [if_neg]; unfold doneCells; omega)
  simp only [Nat.zero_mul] at outer
  rw [← hcnt] at outer
  obtain ⟨hsz, hv⟩ := outer
  refine ⟨hsz, ?_⟩
  intro k hk
  rw [hv k hk, if_pos]
  unfold doneCells; left; rw [← hcnt]; exact hk

end
end BlochVerif.Sim

namespace BlochVerif.Sim

/-- adding `2^q` to a number whose bit `q` is clear is flipping that bit -/
theorem add_two_pow_eq_xor (k q : Nat) (h : k.testBit q = false) : k + 2 ^ q = k ^^^ 2 ^ q := by
  have hk : k = 2 ^ (q + 1) * (k / 2 ^ (q + 1)) + k % 2 ^ (q + 1) := (Nat.div_add_mod _ _).symm
  generalize ha : k / 2 ^ (q + 1) = a at hk
  generalize hb : k % 2 ^ (q + 1) = b at hk
  have hb1 : b < 2 ^ (q + 1) := by rw [← hb]; exact Nat.mod_lt _ (Nat.two_pow_pos _)
  have hbq : b.testBit q = false := by
    rw [← hb, Nat.testBit_mod_two_pow]; simp [h]
  have hb2 : b < 2 ^ q := by
    apply Nat.lt_pow_two_of_testBit
    intro i hi
    by_cases e : i = q
    · subst e; exact hbq
    · exact Nat.testBit_lt_two_pow (Nat.lt_of_lt_of_le hb1 (Nat.pow_le_pow_right (by omega) (by omega)))
  have e1 : 2 ^ q + b = 2 ^ q ||| b := by
    have := Nat.two_pow_add_eq_or_of_lt hb2 1
    simpa using this
  have hlt : 2 ^ q + b < 2 ^ (q + 1) := by rw [Nat.pow_succ]; omega
  have e2 : 2 ^ (q + 1) * a + (2 ^ q + b) = 2 ^ (q + 1) * a ||| (2 ^ q + b) :=
    Nat.two_pow_add_eq_or_of_lt hlt a
  have e3 : 2 ^ (q + 1) * a + b = 2 ^ (q + 1) * a ||| b := Nat.two_pow_add_eq_or_of_lt hb1 a
  have lhs : k + 2 ^ q = 2 ^ (q + 1) * a ||| (2 ^ q ||| b) := by
    rw [← e1, ← e2, hk]; omega
  rw [lhs]
  apply Nat.eq_of_testBit_eq
  intro i
  rw [Nat.testBit_xor, Nat.testBit_or, Nat.testBit_or, Nat.testBit_two_pow]
  have hki : k.testBit i = ((2 ^ (q + 1) * a).testBit i || b.testBit i) := by
    rw [← Nat.testBit_or, ← e3, ← hk]
  rw [hki]
  by_cases e : q = i
  · subst e
    have : (2 ^ (q + 1) * a).testBit q = false := by
      rw [Nat.mul_comm, Nat.testBit_mul_two_pow]; simp
      intro h; omega
    simp [this, hbq]
  · simp [e]

theorem sub_two_pow_eq_xor (k q : Nat) (h : k.testBit q = true) : k - 2 ^ q = k ^^^ 2 ^ q := by
  have hge : 2 ^ q ≤ k := Nat.ge_two_pow_of_testBit h
  have hclr : (k - 2 ^ q).testBit q = false := by
    have := Nat.testBit_two_pow_add_eq (k - 2 ^ q) q
    rw [show 2 ^ q + (k - 2 ^ q) = k by omega, h] at this
    cases hh : (k - 2 ^ q).testBit q with
    | false => rfl
    | true => rw [hh] at this; simp at this
  have e := add_two_pow_eq_xor (k - 2 ^ q) q hclr
  rw [show k - 2 ^ q + 2 ^ q = k by omega] at e
  calc k - 2 ^ q = ((k - 2 ^ q) ^^^ 2 ^ q) ^^^ 2 ^ q := by
        rw [Nat.xor_assoc, Nat.xor_self, Nat.xor_zero]
    _ = k ^^^ 2 ^ q := by rw [← e]

section
variable {K : Type} [Add K] [Mul K]

/-- the same specification with the partner index written as a bit flip -/
def gateSpecX (ψ : Nat → K) (q : Nat) (m : Mat2 K) (k : Nat) : K :=
  if k.testBit q then m.c * ψ (k ^^^ 2 ^ q) + m.d * ψ k
  else m.a * ψ k + m.b * ψ (k ^^^ 2 ^ q)

theorem gateSpec_eq_gateSpecX (ψ : Nat → K) (q : Nat) (m : Mat2 K) (k : Nat) :
    gateSpec ψ q m k = gateSpecX ψ q m k := by
  unfold gateSpec gateSpecX
  cases h : k.testBit q
  · simp [add_two_pow_eq_xor k q h]
  · simp [sub_two_pow_eq_xor k q h]

end
end BlochVerif.Sim
