/-!
# Multi-shot reporting logic (C17): shot-count resolution, echo policy, aggregation of tracked tables

Mirrors `cli.cpp` (`runImpl`): `isCliShots/cliShots`, `program->shots`, `echoOpt`, the `aggregate` map and the
probability column.  Tables are association lists `(variable, outcome) ↦ count`, as in the evaluator model.
-/
namespace BlochVerif.Cli

/-- `(shotsProvided, shots)` from the `--shots=N` flag and the `@shots(N)` annotation -/
def resolveShots (cli ann : Option Nat) : Bool × Nat :=
  match cli, ann with
  | some c, none => (true, c)
  | none, some a => (true, a)
  | some _, some a => (true, a)
  | none, none => (false, 1)

/-- the annotation differs from the flag: a warning is printed and the flag ignored -/
def warnsIgnoredFlag (cli ann : Option Nat) : Bool :=
  match cli, ann with
  | some c, some a => c != a
  | _, _ => false

/-- `echoAll`: `--echo=<opt>` (`none` = flag absent) -/
def echoAll (opt : Option String) (provided : Bool) (shots : Nat) : Bool :=
  let auto := match opt with
    | none => true
    | some s => s == "" || s == "auto"
  if auto then (!provided || shots == 1) else opt == some "all"

abbrev Table := List ((String × String) × Nat)

def Table.get (t : Table) (k : String × String) : Nat :=
  match t.find? (fun e => e.1 = k) with
  | some e => e.2
  | none => 0

/-- `aggregate[var][outcome] += n` -/
def Table.add (t : Table) (k : String × String) (n : Nat) : Table :=
  if t.any (fun e => e.1 = k) then t.map (fun e => if e.1 = k then (e.1, e.2 + n) else e) else t ++ [(k, n)]

/-- add one shot's table into the aggregate -/
def Table.merge (agg shot : Table) : Table := shot.foldl (fun a e => a.add e.1 e.2) agg

def aggregate (shots : List Table) : Table := shots.foldl Table.merge []

/-- total count of one variable -/
def Table.total (t : Table) (var : String) : Nat := ((t.filter (fun e => e.1.1 = var)).map (·.2)).sum

/-- the probability column: count / the variable's own total, as a fraction -/
def probNum (t : Table) (k : String × String) : Nat × Nat := (t.get k, t.total k.1)

end BlochVerif.Cli
