/-!
# Exact `%f` formatting of an IEEE double (what `std::to_string(double)` prints)

Used only by the executable driver (floats are opaque to Lean's logic, no theorem mentions
this file).  The value `m·2^e` is expanded exactly with integer arithmetic and rounded to six
decimals half-to-even, as glibc's `printf("%f")` does in the default rounding mode.
-/
namespace BlochVerif

/-- decode a double into (negative?, mantissa, exponent) with value = mantissa * 2^exponent;
    `none` for inf/nan -/
def decodeDouble (bits : UInt64) : Option (Bool × Nat × Int) :=
  let b := bits.toNat
  let sign := b >>> 63 == 1
  let ex := (b >>> 52) &&& 0x7FF
  let frac := b &&& 0xFFFFFFFFFFFFF
  if ex == 0x7FF then none
  else if ex == 0 then some (sign, frac, -1074)
  else some (sign, frac + 2 ^ 52, (ex : Int) - 1075)

/-- round-half-even of `num / den` -/
def divRoundHalfEven (num den : Nat) : Nat :=
  let q := num / den
  let r := num % den
  if 2 * r < den then q
  else if 2 * r > den then q + 1
  else if q % 2 == 0 then q else q + 1

def padLeft (s : String) (n : Nat) (c : Char) : String :=
  String.ofList (List.replicate (n - s.length) c) ++ s

/-- `printf("%.{digits}f", x)` -/
def fmtFixedBits (bits : UInt64) (digits : Nat := 6) : String :=
  match decodeDouble bits with
  | none =>
    let b := bits.toNat
    let sign := b >>> 63 == 1
    let frac := b &&& 0xFFFFFFFFFFFFF
    (if sign then "-" else "") ++ (if frac == 0 then "inf" else "nan")
  | some (sign, m, e) =>
    let scale := 10 ^ digits
    let n : Nat :=
      if e ≥ 0 then m * 2 ^ e.toNat * scale
      else divRoundHalfEven (m * scale) (2 ^ (-e).toNat)
    let ip := n / scale
    let fp := n % scale
    (if sign then "-" else "") ++ toString ip ++
      (if digits == 0 then "" else "." ++ padLeft (toString fp) digits '0')

def fmtFixed (x : Float) (digits : Nat := 6) : String := fmtFixedBits x.toBits digits

def hexDigit (n : Nat) : Char :=
  if n < 10 then Char.ofNat (48 + n) else Char.ofNat (87 + n)

def toHex64 (b : UInt64) : String :=
  String.ofList ((List.range 16).map (fun i => hexDigit ((b.toNat >>> (4 * (15 - i))) &&& 0xF)))

def hexVal (c : Char) : Option Nat :=
  if '0' ≤ c ∧ c ≤ '9' then some (c.toNat - 48)
  else if 'a' ≤ c ∧ c ≤ 'f' then some (c.toNat - 87)
  else if 'A' ≤ c ∧ c ≤ 'F' then some (c.toNat - 55)
  else none

def parseHexNat (s : String) : Option Nat :=
  if s.isEmpty then none else
  s.toList.foldl (fun acc c => match acc, hexVal c with
    | some a, some d => some (a * 16 + d)
    | _, _ => none) (some 0)

def floatOfHex (s : String) : Option Float :=
  (parseHexNat s).map (fun n => Float.ofBits (UInt64.ofNat n))

/-- decode a hex string into bytes -/
def bytesOfHex (s : String) : Option (List UInt8) :=
  let rec go : List Char → List UInt8 → Option (List UInt8)
    | [], acc => some acc.reverse
    | [_], _ => none
    | a :: b :: rest, acc => match hexVal a, hexVal b with
      | some x, some y => go rest (UInt8.ofNat (x * 16 + y) :: acc)
      | _, _ => none
  go s.toList []

def hexOfBytes (bs : List UInt8) : String :=
  String.ofList (bs.flatMap (fun b => [hexDigit (b.toNat / 16), hexDigit (b.toNat % 16)]))

end BlochVerif

namespace BlochVerif

/-- largest `X` with `10^X ≤ num/den` (for positive `num/den`), searched from a safe lower bound -/
def decExponent (num den : Nat) : Int :=
  -- num/den > 0.  Use digit counts for a first guess, then adjust.
  let guess : Int := (Nat.log2 num : Int) * 30103 / 100000 - (Nat.log2 den : Int) * 30103 / 100000 - 2
  let rec up (fuel : Nat) (x : Int) : Int :=
    match fuel with
    | 0 => x
    | fuel + 1 =>
      -- is 10^(x+1) ≤ num/den ?
      let ok : Bool :=
        if x + 1 ≥ 0 then decide (den * 10 ^ (x + 1).toNat ≤ num)
        else decide (den ≤ num * 10 ^ (-(x + 1)).toNat)
      if ok then up fuel (x + 1) else x
  up 8 guess

/-- `printf("%.{p-1}e")`-style rounding: returns (digits as a Nat with exactly p digits, exponent) -/
def roundSig (num den : Nat) (p : Nat) : Nat × Int :=
  let x := decExponent num den
  -- scaled = value * 10^(p-1-x)
  let s : Int := (p : Int) - 1 - x
  let (n2, d2) := if s ≥ 0 then (num * 10 ^ s.toNat, den) else (num, den * 10 ^ (-s).toNat)
  let m := divRoundHalfEven n2 d2
  if m ≥ 10 ^ p then (m / 10, x + 1) else (m, x)

def stripTrailingZeros (s : String) : String :=
  if s.contains '.' then
    let t := s.toList.reverse.dropWhile (· == '0')
    let t := match t with | '.' :: r => r | r => r
    String.ofList t.reverse
  else s

/-- `std::ostream << double` with default flags (`%g`, precision 6) -/
def fmtG6Bits (bits : UInt64) : String :=
  match decodeDouble bits with
  | none =>
    let b := bits.toNat
    (if b >>> 63 == 1 then "-" else "") ++ (if b &&& 0xFFFFFFFFFFFFF == 0 then "inf" else "nan")
  | some (sign, m, e) =>
    let sg := if sign then "-" else ""
    if m == 0 then sg ++ "0"
    else
      let (num, den) := if e ≥ 0 then (m * 2 ^ e.toNat, 1) else (m, 2 ^ (-e).toNat)
      let p := 6
      let (digits, x) := roundSig num den p
      let ds := padLeft (toString digits) p '0'
      if x < -4 || x ≥ (p : Int) then
        -- scientific: d.ddddde±XX
        let mant := stripTrailingZeros (String.ofList [ds.toList.head!] ++ "." ++ String.ofList (ds.toList.drop 1))
        let ex := x.natAbs
        sg ++ mant ++ "e" ++ (if x < 0 then "-" else "+") ++ padLeft (toString ex) 2 '0'
      else if x ≥ 0 then
        let k := x.toNat + 1
        let ip := String.ofList (ds.toList.take k)
        let fp := String.ofList (ds.toList.drop k)
        sg ++ stripTrailingZeros (if fp.isEmpty then ip else ip ++ "." ++ fp)
      else
        let zeros := String.ofList (List.replicate (x.natAbs - 1) '0')
        sg ++ stripTrailingZeros ("0." ++ zeros ++ ds)

def fmtG6 (x : Float) : String := fmtG6Bits x.toBits

end BlochVerif
