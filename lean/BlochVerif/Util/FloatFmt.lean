/-!
# Exact `%f` formatting of an IEEE double (what `std::to_string(double)` prints)

Used only by the executable driver (floats are opaque to Lean's logic, no theorem mentions
this file).  The value `m·2^e` is expanded exactly with integer arithmetic and rounded to six
decimals half-to-even, as glibc's `printf("%f")` does in the default rounding mode.
-/
namespace BlochVerif

/-- decode a double into (negative?, mantissa, exponent) with value = mantissa * 2^exponent;
    `none` for inf/nan -/
def decodeDouble (bits : UInt64) : Option (Bool × Nat × Int) :=
  let b := bits.toNat
  let sign := b >>> 63 == 1
  let ex := (b >>> 52) &&& 0x7FF
  let frac := b &&& 0xFFFFFFFFFFFFF
  if ex == 0x7FF then none
  else if ex == 0 then some (sign, frac, -1074)
  else some (sign, frac + 2 ^ 52, (ex : Int) - 1075)

/-- round-half-even of `num / den` -/
def divRoundHalfEven (num den : Nat) : Nat :=
  let q := num / den
  let r := num % den
  if 2 * r < den then q
  else if 2 * r > den then q + 1
  else if q % 2 == 0 then q else q + 1

def padLeft (s : String) (n : Nat) (c : Char) : String :=
  String.ofList (List.replicate (n - s.length) c) ++ s

/-- `printf("%.{digits}f", x)` -/
def fmtFixedBits (bits : UInt64) (digits : Nat := 6) : String :=
  match decodeDouble bits with
  | none =>
    let b := bits.toNat
    let sign := b >>> 63 == 1
    let frac := b &&& 0xFFFFFFFFFFFFF
    (if sign then "-" else "") ++ (if frac == 0 then "inf" else "nan")
  | some (sign, m, e) =>
    let scale := 10 ^ digits
    let n : Nat :=
      if e ≥ 0 then m * 2 ^ e.toNat * scale
      else divRoundHalfEven (m * scale) (2 ^ (-e).toNat)
    let ip := n / scale
    let fp := n % scale
    (if sign then "-" else "") ++ toString ip ++
      (if digits == 0 then "" else "." ++ padLeft (toString fp) digits '0')

def fmtFixed (x : Float) (digits : Nat := 6) : String := fmtFixedBits x.toBits digits

def hexDigit (n : Nat) : Char :=
  if n < 10 then Char.ofNat (48 + n) else Char.ofNat (87 + n)

def toHex64 (b : UInt64) : String :=
  String.ofList ((List.range 16).map (fun i => hexDigit ((b.toNat >>> (4 * (15 - i))) &&& 0xF)))

def hexVal (c : Char) : Option Nat :=
  if '0' ≤ c ∧ c ≤ '9' then some (c.toNat - 48)
  else if 'a' ≤ c ∧ c ≤ 'f' then some (c.toNat - 87)
  else if 'A' ≤ c ∧ c ≤ 'F' then some (c.toNat - 55)
  else none

def parseHexNat (s : String) : Option Nat :=
  if s.isEmpty then none else
  s.toList.foldl (fun acc c => match acc, hexVal c with
    | some a, some d => some (a * 16 + d)
    | _, _ => none) (some 0)

def floatOfHex (s : String) : Option Float :=
  (parseHexNat s).map (fun n => Float.ofBits (UInt64.ofNat n))

/-- decode a hex string into bytes -/
def bytesOfHex (s : String) : Option (List UInt8) :=
  let rec go : List Char → List UInt8 → Option (List UInt8)
    | [], acc => some acc.reverse
    | [_], _ => none
    | a :: b :: rest, acc => match hexVal a, hexVal b with
      | some x, some y => go rest (UInt8.ofNat (x * 16 + y) :: acc)
      | _, _ => none
  go s.toList []

def hexOfBytes (bs : List UInt8) : String :=
  String.ofList (bs.flatMap (fun b => [hexDigit (b.toNat / 16), hexDigit (b.toNat % 16)]))

end BlochVerif
