/-!
# Loops

`forStep stop step body i s` is the C loop `for (; i < stop; i += step) s = body(i, s);`
The simulator model is written with this combinator so that the model has the same loop
structure as `qasm_simulator.cpp`; the theorems about it go through one invariant rule.
Core-only (no Mathlib): this file is linked into the executable driver.
-/

namespace BlochVerif

def forStep {σ : Type} (stop step : Nat) (body : Nat → σ → σ) (i : Nat) (s : σ) : σ :=
  if _h : i < stop ∧ 0 < step then forStep stop step body (i + step) (body i s) else s
termination_by stop - i
decreasing_by omega

/-- `for (i = 0; i < n; ++i)` -/
abbrev forRange {σ : Type} (n : Nat) (body : Nat → σ → σ) (s : σ) : σ :=
  forStep n 1 body 0 s

/-- Invariant rule for a loop whose start index and bound are multiples of `step`:
    if the body takes `I t` to `I (t+1)` for every iteration number `t < cnt`, the loop takes
    `I t` to `I cnt`. -/
theorem forStep_mul_inv {σ : Type} (step cnt : Nat) (hstep : 0 < step) (body : Nat → σ → σ)
    (I : Nat → σ → Prop)
    (hI : ∀ t s, t < cnt → I t s → I (t + 1) (body (t * step) s)) :
    ∀ t s, t ≤ cnt → I t s → I cnt (forStep (cnt * step) step body (t * step) s) := by
  intro t s ht
  induction h : cnt - t generalizing t s with
  | zero =>
    intro hi
    have : t = cnt := by omega
    subst this
    rw [forStep, dif_neg (by omega)]; exact hi
  | succ n ih =>
    intro hi
    have hlt : t < cnt := by omega
    have hlt' : t * step < cnt * step := Nat.mul_lt_mul_of_pos_right hlt hstep
    rw [forStep, dif_pos ⟨hlt', hstep⟩]
    have : t * step + step = (t + 1) * step := by rw [Nat.add_mul, Nat.one_mul]
    rw [this]
    exact ih (t + 1) _ (by omega) (by omega) (hI t s hlt hi)

/-- The unit-step special case, from 0. -/
theorem forRange_inv {σ : Type} (n : Nat) (body : Nat → σ → σ) (I : Nat → σ → Prop)
    (hI : ∀ t s, t < n → I t s → I (t + 1) (body t s)) (s : σ) (h0 : I 0 s) :
    I n (forRange n body s) := by
  have := forStep_mul_inv 1 n (by omega) body I
    (by intro t s ht hi; simpa using hI t s ht hi) 0 s (by omega) h0
  simpa [forRange] using this

/-- A unit-step loop is a fold over `List.range`. -/
theorem forStep_one_eq_foldl {σ : Type} (n : Nat) (body : Nat → σ → σ) :
    ∀ (k i : Nat) (s : σ), i + k = n →
      forStep n 1 body i s = (List.range' i k).foldl (fun s j => body j s) s := by
  intro k
  induction k with
  | zero =>
    intro i s h
    rw [forStep, dif_neg (by omega)]; simp
  | succ k ih =>
    intro i s h
    rw [forStep, dif_pos ⟨by omega, by omega⟩]
    rw [ih (i + 1) (body i s) (by omega)]
    simp [List.range'_succ]

theorem forRange_eq_foldl {σ : Type} (n : Nat) (body : Nat → σ → σ) (s : σ) :
    forRange n body s = (List.range n).foldl (fun s j => body j s) s := by
  unfold forRange
  rw [forStep_one_eq_foldl n body n 0 s (by omega), List.range_eq_range']

end BlochVerif
