/-!
# Model of the decision logic of `src/bloch/update/update_manager.cpp`

Strings are `List Char` (bytes mapped to code points 0–255 by the driver).  Time is in whole
seconds since the epoch (`Int`), the unit the cache file stores; sub-second truncation when the
cache is saved is outside the model.  The network fetch result and the clock are inputs.
Core-only.
-/
namespace BlochVerif.Update

structure SemVer where
  major : Nat := 0
  minor : Nat := 0
  patch : Nat := 0
  valid : Bool := false
deriving Repr, DecidableEq

def SemVer.invalid : SemVer := {}

def intMax : Nat := 2147483647

/-- `std::isdigit` on an `unsigned char` in the C locale -/
def isDigit (c : Char) : Bool := decide (48 ≤ c.toNat ∧ c.toNat ≤ 57)

def digitVal (c : Char) : Nat := c.toNat - 48

/-- the hand-rolled accumulation: `none` as soon as the running value exceeds `INT_MAX` -/
def accum (ds : List Char) : Option Nat :=
  ds.foldl (fun acc c => acc.bind fun w =>
    let w' := w * 10 + digitVal c
    if w' > intMax then none else some w') (some 0)

def SemVer.setIdx (s : SemVer) (idx value : Nat) : SemVer :=
  if idx = 0 then { s with major := value, valid := true }
  else if idx = 1 then { s with minor := value, valid := true }
  else { s with patch := value, valid := true }

/-- longest prefix satisfying `p`, and the rest -/
def spanP (p : Char → Bool) : List Char → List Char × List Char
  | [] => ([], [])
  | c :: cs => if p c then ((c :: (spanP p cs).1), (spanP p cs).2) else ([], c :: cs)

/-- the `while (pos < v.size() && idx < 3)` loop of `parseSemVer`; the first argument is the
    number of components still allowed (`3 - idx`) -/
def parseFrom : Nat → List Char → SemVer → SemVer
  | 0, _, sem => sem
  | k + 1, v, sem =>
    match spanP isDigit v with
    | ([], _) => sem
    | (ds, rest) =>
      match accum ds with
      | none => SemVer.invalid
      | some value =>
        let sem' := sem.setIdx (2 - k) value
        match rest with
        | '.' :: rest' => parseFrom k rest' sem'
        | _ => sem'

def parseSemVer (version : List Char) : SemVer :=
  match version with
  | [] => SemVer.invalid
  | 'v' :: rest => parseFrom 3 rest SemVer.invalid
  | v => parseFrom 3 v SemVer.invalid

/-- `compareSemVer`: -1 / 0 / 1; 0 when either side is invalid -/
def compareSemVer (cur latest : SemVer) : Int :=
  if !cur.valid || !latest.valid then 0
  else if cur.major ≠ latest.major then (if cur.major < latest.major then -1 else 1)
  else if cur.minor ≠ latest.minor then (if cur.minor < latest.minor then -1 else 1)
  else if cur.patch ≠ latest.patch then (if cur.patch < latest.patch then -1 else 1)
  else 0

inductive Label where | new | major | minor | patch
deriving Repr, DecidableEq

def changeLabel (cur latest : SemVer) : Label :=
  if !cur.valid || !latest.valid then .new
  else if latest.major > cur.major then .major
  else if latest.minor > cur.minor then .minor
  else if latest.patch > cur.patch then .patch
  else .new

inductive Decision where | alreadyLatest | unparsable | install
deriving Repr, DecidableEq

/-- `decideUpdate` (the gate of `performSelfUpdate`) -/
def decideUpdate (current latest : List Char) : Decision :=
  let c := parseSemVer current
  let l := parseSemVer latest
  if !c.valid || !l.valid then .unparsable
  else if compareSemVer c l ≥ 0 then .alreadyLatest else .install

/-! ## checksums.txt -/

/-- `std::isspace` in the C locale -/
def isSpace (c : Char) : Bool :=
  c = ' ' || c = '\t' || c = '\n' || c.toNat = 11 || c.toNat = 12 || c = '\r'

/-- split at every character satisfying `p` (separators dropped; `n` separators give `n+1` pieces) -/
def splitAtP (p : Char → Bool) : List Char → List (List Char)
  | [] => [[]]
  | c :: cs =>
    let r := splitAtP p cs
    if p c then [] :: r
    else match r with
      | w :: ws => (c :: w) :: ws
      | [] => [[c]]

/-- whitespace-separated fields of a line (`operator>>`) -/
def fields (line : List Char) : List (List Char) :=
  (splitAtP isSpace line).filter (fun w => !w.isEmpty)

def lines (content : List Char) : List (List Char) := splitAtP (fun c => c = '\n') content

def stripStar (name : List Char) : List Char :=
  match name with
  | '*' :: r => r
  | n => n

/-- the hash on a line if its file-name field is exactly `asset` -/
def lineHash (asset line : List Char) : Option (List Char) :=
  match fields line with
  | hash :: name :: _ => if stripStar name = asset then some hash else none
  | _ => none

/-- `parseChecksum`: first line whose file-name field is exactly the asset -/
def parseChecksum (content asset : List Char) : Option (List Char) :=
  (lines content).findSome? (lineHash asset)

/-! ## the notice window -/

structure Cache where
  latest : List Char := []
  lastChecked : Int := 0
  lastNotified : Int := 0
deriving Repr, DecidableEq

def window : Int := 72 * 3600

def hasExpired (tp now : Int) : Bool := decide (now - tp ≥ window)

/-- `maybePrintNotice`: returns the updated cache and whether the notice was printed -/
def maybeNotice (latest current : List Char) (now : Int) (c : Cache) : Cache × Bool :=
  if latest.isEmpty then (c, false)
  else if !hasExpired c.lastNotified now then (c, false)
  else
    let cur := parseSemVer current
    let lat := parseSemVer latest
    if !cur.valid || !lat.valid then (c, false)
    else if compareSemVer cur lat ≥ 0 then (c, false)
    else ({ c with lastNotified := now, latest := latest }, true)

structure Invocation where
  now : Int
  skip : Bool                       -- BLOCH_NO_UPDATE_CHECK / CI / BLOCH_OFFLINE set
  current : List Char
  fetch : Option (List Char)        -- result of the network request, were it made
deriving Repr

/-- `checkForUpdatesIfDue`: given the cache file (if readable) returns the file afterwards and
    the number of notices printed -/
def checkIfDue (file : Option Cache) (inv : Invocation) : Option Cache × Nat :=
  if inv.skip then (file, 0)
  else
    let cache := file.getD {}
    if file.isSome && !hasExpired cache.lastChecked inv.now then
      if !cache.latest.isEmpty then
        let (c', printed) := maybeNotice cache.latest inv.current inv.now cache
        if printed then (some c', 1) else (file, 0)
      else (file, 0)
    else
      let (cache1, p1, file1) :=
        if file.isSome && !cache.latest.isEmpty then
          let (c', printed) := maybeNotice cache.latest inv.current inv.now cache
          if printed then (c', 1, some c') else (cache, 0, file)
        else (cache, 0, file)
      match inv.fetch with
      | none => (file1, p1)
      | some latest =>
        let cache2 := { cache1 with latest := latest, lastChecked := inv.now }
        let (c3, printed) := maybeNotice latest inv.current inv.now cache2
        (some c3, p1 + (if printed then 1 else 0))

/-- run a sequence of invocations; returns the times at which a notice was printed -/
def runInvocations (file : Option Cache) : List Invocation → List Int
  | [] => []
  | inv :: rest =>
    let (file', k) := checkIfDue file inv
    (List.replicate k inv.now) ++ runInvocations file' rest

end BlochVerif.Update
