import BlochVerif.Update.Model
/-!
# Lemmas about the updater model (core-only)
-/
namespace BlochVerif.Update

/-- positional decimal value of a digit run -/
def digitsVal (ds : List Char) : Nat := ds.foldl (fun w c => w * 10 + digitVal c) 0

theorem foldl_val_append (ds : List Char) (c : Char) (w0 : Nat) :
    (ds ++ [c]).foldl (fun w c => w * 10 + digitVal c) w0 =
      (ds.foldl (fun w c => w * 10 + digitVal c) w0) * 10 + digitVal c := by
  rw [List.foldl_append]; rfl

theorem digitsVal_append (ds : List Char) (c : Char) :
    digitsVal (ds ++ [c]) = digitsVal ds * 10 + digitVal c := foldl_val_append ds c 0

/-- the accumulation from `w0` either overflows or gives the plain value -/
theorem accum_from (ds : List Char) (w0 : Nat) (h0 : w0 ≤ intMax) :
    ds.foldl (fun acc c => acc.bind fun w =>
      let w' := w * 10 + digitVal c
      if w' > intMax then none else some w') (some w0) =
    (if ds.foldl (fun w c => w * 10 + digitVal c) w0 ≤ intMax
     then some (ds.foldl (fun w c => w * 10 + digitVal c) w0) else none) := by
  induction ds generalizing w0 with
  | nil => simp [h0]
  | cons c cs ih =>
    simp only [List.foldl_cons, Option.bind_some]
    by_cases hov : w0 * 10 + digitVal c > intMax
    · rw [if_pos hov]
      -- once overflowed: stays none, and the plain value only grows
      have hnone : ∀ l : List Char, l.foldl (fun acc c => acc.bind fun w =>
          let w' := w * 10 + digitVal c
          if w' > intMax then none else some w') (none : Option Nat) = none := by
        intro l; induction l with
        | nil => rfl
        | cons x xs ihx => simpa using ihx
      have hgrow : ∀ (l : List Char) (w : Nat), w ≤ l.foldl (fun w c => w * 10 + digitVal c) w := by
        intro l; induction l with
        | nil => intro w; exact Nat.le_refl _
        | cons x xs ihx =>
          intro w; simp only [List.foldl_cons]
          exact Nat.le_trans (by omega) (ihx _)
      rw [hnone]
      symm
      apply if_neg
      have := hgrow cs (w0 * 10 + digitVal c)
      omega
    · rw [if_neg hov]
      exact ih _ (by omega)

theorem accum_eq (ds : List Char) :
    accum ds = if digitsVal ds ≤ intMax then some (digitsVal ds) else none := by
  unfold accum digitsVal
  exact accum_from ds 0 (by decide)

def allDigits (ds : List Char) : Prop := ∀ c ∈ ds, isDigit c = true

def startsNonDigit (rest : List Char) : Prop :=
  match rest with
  | [] => True
  | c :: _ => isDigit c = false

theorem span_digits (ds rest : List Char) (hd : allDigits ds) (hr : startsNonDigit rest) :
    spanP isDigit (ds ++ rest) = (ds, rest) := by
  induction ds with
  | nil =>
    cases rest with
    | nil => rfl
    | cons c cs =>
      unfold startsNonDigit at hr
      simp [spanP, hr]
  | cons d ds ih =>
    have h1 : isDigit d = true := hd d (by simp)
    have h2 : allDigits ds := fun c hc => hd c (by simp [hc])
    simp only [List.cons_append, spanP, h1, if_true, ih h2]

/-- one iteration of the `parseSemVer` loop on `ds ++ "." ++ rest'`: continue with the next component -/
theorem parseFrom_step_dot (k : Nat) (ds rest' : List Char) (sem : SemVer)
    (hne : ds ≠ []) (hd : allDigits ds) (hv : digitsVal ds ≤ intMax) :
    parseFrom (k + 1) (ds ++ '.' :: rest') sem =
      parseFrom k rest' (sem.setIdx (2 - k) (digitsVal ds)) := by
  rw [parseFrom]
  rw [span_digits ds ('.' :: rest') hd (by show isDigit '.' = false; decide)]
  cases ds with
  | nil => exact absurd rfl hne
  | cons d ds' => simp only [accum_eq, hv, if_true]

/-- one iteration on `ds ++ rest` where `rest` starts with neither a digit nor a dot: stop -/
theorem parseFrom_step_end (k : Nat) (ds rest : List Char) (sem : SemVer)
    (hne : ds ≠ []) (hd : allDigits ds) (hr : startsNonDigit rest)
    (hdot : ∀ r, rest ≠ '.' :: r) (hv : digitsVal ds ≤ intMax) :
    parseFrom (k + 1) (ds ++ rest) sem = sem.setIdx (2 - k) (digitsVal ds) := by
  rw [parseFrom]
  rw [span_digits ds rest hd hr]
  cases ds with
  | nil => exact absurd rfl hne
  | cons d ds' =>
    simp only [accum_eq, hv, if_true]

theorem parseFrom_overflow (k : Nat) (ds rest : List Char) (sem : SemVer)
    (hne : ds ≠ []) (hd : allDigits ds) (hr : startsNonDigit rest) (hv : ¬ digitsVal ds ≤ intMax) :
    parseFrom (k + 1) (ds ++ rest) sem = SemVer.invalid := by
  rw [parseFrom]
  rw [span_digits ds rest hd hr]
  cases ds with
  | nil => exact absurd rfl hne
  | cons d ds' =>
    simp only [accum_eq, hv, if_false]

theorem parseFrom_done (v : List Char) (sem : SemVer) : parseFrom 0 v sem = sem := by
  rw [parseFrom]

/-! ### canonical decimal rendering -/

def digitChar (d : Nat) : Char :=
  match d with
  | 0 => '0' | 1 => '1' | 2 => '2' | 3 => '3' | 4 => '4'
  | 5 => '5' | 6 => '6' | 7 => '7' | 8 => '8' | _ => '9'

/-- decimal digits of `n`, most significant first (`fuel` ≥ number of digits) -/
def natDigitsAux : Nat → Nat → List Char → List Char
  | 0, _, acc => acc
  | fuel + 1, n, acc =>
    if n < 10 then digitChar n :: acc else natDigitsAux fuel (n / 10) (digitChar (n % 10) :: acc)

def natDigits (n : Nat) : List Char := natDigitsAux (n + 1) n []

theorem digitVal_digitChar (d : Nat) (h : d < 10) : digitVal (digitChar d) = d := by
  have : d = 0 ∨ d = 1 ∨ d = 2 ∨ d = 3 ∨ d = 4 ∨ d = 5 ∨ d = 6 ∨ d = 7 ∨ d = 8 ∨ d = 9 := by omega
  rcases this with h | h | h | h | h | h | h | h | h | h <;> subst h <;> decide

theorem isDigit_digitChar (d : Nat) (h : d < 10) : isDigit (digitChar d) = true := by
  have : d = 0 ∨ d = 1 ∨ d = 2 ∨ d = 3 ∨ d = 4 ∨ d = 5 ∨ d = 6 ∨ d = 7 ∨ d = 8 ∨ d = 9 := by omega
  rcases this with h | h | h | h | h | h | h | h | h | h <;> subst h <;> decide

/-- value of `natDigitsAux`: digits of `n` followed by `acc` -/
theorem natDigitsAux_spec (fuel n : Nat) (acc : List Char) (hf : n < fuel) (w0 : Nat) :
    (natDigitsAux fuel n acc).foldl (fun w c => w * 10 + digitVal c) w0 =
      acc.foldl (fun w c => w * 10 + digitVal c) (w0 * 10 ^ (natDigitsAux fuel n []).length + n) ∧
    (natDigitsAux fuel n acc) = natDigitsAux fuel n [] ++ acc ∧
    allDigits (natDigitsAux fuel n []) ∧ natDigitsAux fuel n [] ≠ [] := by
  induction fuel generalizing n acc w0 with
  | zero => omega
  | succ f ih =>
    unfold natDigitsAux
    by_cases hlt : n < 10
    · simp only [hlt, if_true, List.foldl_cons, List.length_cons, List.length_nil, Nat.zero_add,
        Nat.pow_one, digitVal_digitChar n hlt]
      refine ⟨trivial, rfl, ?_, by simp⟩
      intro c hc
      simp only [List.mem_cons, List.not_mem_nil, or_false] at hc
      rw [hc]; exact isDigit_digitChar n hlt
    · simp only [hlt, if_false]
      have hf' : n / 10 < f := by omega
      obtain ⟨e1, e2, e3, e4⟩ := ih (n / 10) (digitChar (n % 10) :: acc) hf' w0
      obtain ⟨_, e2', _, _⟩ := ih (n / 10) [digitChar (n % 10)] hf' w0
      refine ⟨?_, ?_, ?_, ?_⟩
      · rw [e1, e2']
        simp only [List.foldl_cons, List.length_append, List.length_cons, List.length_nil,
          digitVal_digitChar (n % 10) (by omega)]
        congr 1
        rw [Nat.pow_succ]
        have : n = n / 10 * 10 + n % 10 := by omega
        generalize 10 ^ (natDigitsAux f (n / 10) []).length = P
        rw [Nat.add_mul, Nat.mul_assoc, Nat.add_assoc]
        congr 1
        omega
      · rw [e2, e2']; simp
      · rw [e2']
        intro c hc
        simp only [List.mem_append, List.mem_cons, List.not_mem_nil, or_false] at hc
        rcases hc with hc | hc
        · exact e3 c hc
        · rw [hc]; exact isDigit_digitChar _ (by omega)
      · rw [e2']; simp

theorem digitsVal_natDigits (n : Nat) : digitsVal (natDigits n) = n := by
  unfold digitsVal natDigits
  have := (natDigitsAux_spec (n + 1) n [] (by omega) 0).1
  simpa using this

theorem allDigits_natDigits (n : Nat) : allDigits (natDigits n) :=
  (natDigitsAux_spec (n + 1) n [] (by omega) 0).2.2.1

theorem natDigits_ne_nil (n : Nat) : natDigits n ≠ [] :=
  (natDigitsAux_spec (n + 1) n [] (by omega) 0).2.2.2

end BlochVerif.Update

namespace BlochVerif.Update

theorem maybeNotice_true (latest current : List Char) (now : Int) (c : Cache)
    (h : (maybeNotice latest current now c).2 = true) :
    now - c.lastNotified ≥ window ∧ (maybeNotice latest current now c).1.lastNotified = now := by
  unfold maybeNotice at *
  by_cases h0 : latest.isEmpty
  · simp [h0] at h
  · simp only [h0, Bool.false_eq_true, if_false] at h ⊢
    by_cases h1 : hasExpired c.lastNotified now
    · simp only [h1, Bool.not_true, Bool.false_eq_true, if_false] at h ⊢
      by_cases hv : (!(parseSemVer current).valid || !(parseSemVer latest).valid) = true
      · simp [hv] at h
      · simp only [hv, if_false] at h ⊢
        by_cases hge : compareSemVer (parseSemVer current) (parseSemVer latest) ≥ 0
        · simp [hge] at h
        · simp only [hge, if_false]
          unfold hasExpired at h1
          exact ⟨by simpa using h1, by simp⟩
    · simp [h1] at h

theorem maybeNotice_false (latest current : List Char) (now : Int) (c : Cache)
    (h : (maybeNotice latest current now c).2 = false) : (maybeNotice latest current now c).1 = c := by
  unfold maybeNotice at *
  by_cases h0 : latest.isEmpty
  · simp [h0]
  · simp only [h0, Bool.false_eq_true, if_false] at h ⊢
    by_cases h1 : hasExpired c.lastNotified now
    · simp only [h1, Bool.not_true, Bool.false_eq_true, if_false] at h ⊢
      by_cases hv : (!(parseSemVer current).valid || !(parseSemVer latest).valid) = true
      · simp [hv]
      · simp only [hv, if_false] at h ⊢
        by_cases hge : compareSemVer (parseSemVer current) (parseSemVer latest) ≥ 0
        · simp [hge]
        · simp [hge] at h
    · simp [h1]

theorem window_pos : window > 0 := by decide

/-- a second `maybeNotice` right after a printed one (same `now`) never prints -/
theorem maybeNotice_after (latest current : List Char) (now : Int) (c : Cache)
    (h : c.lastNotified = now) : (maybeNotice latest current now c).2 = false := by
  unfold maybeNotice
  by_cases h0 : latest.isEmpty
  · simp [h0]
  · have : hasExpired c.lastNotified now = false := by
      unfold hasExpired; rw [h]; simp; exact window_pos
    simp [h0, this]

/-- what one invocation does to the cache file and how many notices it prints -/
theorem checkIfDue_spec (file : Option Cache) (inv : Invocation) :
    ((checkIfDue file inv).2 = 0 ∧
        (∀ c, file = some c → ∃ c', (checkIfDue file inv).1 = some c' ∧ c'.lastNotified = c.lastNotified)) ∨
    ((checkIfDue file inv).2 = 1 ∧
        (∃ c', (checkIfDue file inv).1 = some c' ∧ c'.lastNotified = inv.now) ∧
        (∀ c, file = some c → inv.now - c.lastNotified ≥ window)) := by
  unfold checkIfDue
  by_cases hs : inv.skip
  · left; simp only [hs, if_true, true_and]
    intro c hc; exact ⟨c, hc, rfl⟩
  · simp only [hs, Bool.false_eq_true, if_false]
    cases file with
    | none =>
      simp only [Option.isSome_none, Bool.false_and, Bool.false_eq_true, if_false, Option.getD_none]
      cases hf : inv.fetch with
      | none => left; simp
      | some latest =>
        simp only
        cases hp : (maybeNotice latest inv.current inv.now
            { latest := latest, lastChecked := inv.now, lastNotified := ({} : Cache).lastNotified }).2
        · left; simp [hp]
        · right
          have := maybeNotice_true _ _ _ _ hp
          simp [hp, this.2]
    | some c =>
      simp only [Option.isSome_some, Bool.true_and, Option.getD_some]
      by_cases hexp : hasExpired c.lastChecked inv.now
      · simp only [hexp, Bool.not_true, Bool.false_eq_true, if_false]
        by_cases hl : c.latest.isEmpty
        · simp only [hl, Bool.not_true, Bool.false_eq_true, if_false]
          cases hf : inv.fetch with
          | none => left; simp
          | some latest =>
            simp only
            cases hp : (maybeNotice latest inv.current inv.now
                { c with latest := latest, lastChecked := inv.now }).2
            · left
              have := maybeNotice_false _ _ _ _ hp
              simp [hp, this]
            · right
              have := maybeNotice_true _ _ _ _ hp
              simp only [hp, if_true, Nat.zero_add, true_and]
              refine ⟨⟨_, rfl, this.2⟩, ?_⟩
              intro c0 hc0; injection hc0 with hc0; subst hc0; exact this.1
        · simp only [hl, Bool.not_false, if_true]
          cases hp1 : (maybeNotice c.latest inv.current inv.now c).2
          · -- first call silent
            have e1 := maybeNotice_false _ _ _ _ hp1
            simp only [Bool.false_eq_true, if_false]
            cases hf : inv.fetch with
            | none => left; simp
            | some latest =>
              simp only
              cases hp : (maybeNotice latest inv.current inv.now
                  { c with latest := latest, lastChecked := inv.now }).2
              · left
                have := maybeNotice_false _ _ _ _ hp
                simp [hp, this]
              · right
                have := maybeNotice_true _ _ _ _ hp
                simp only [hp, if_true, Nat.zero_add, true_and]
                refine ⟨⟨_, rfl, this.2⟩, ?_⟩
                intro c0 hc0; injection hc0 with hc0; subst hc0; exact this.1
          · -- first call printed: the second cannot
            have t1 := maybeNotice_true _ _ _ _ hp1
            simp only [if_true]
            right
            cases hf : inv.fetch with
            | none =>
              simp only [true_and]
              refine ⟨⟨_, rfl, t1.2⟩, ?_⟩
              intro c0 hc0; injection hc0 with hc0; subst hc0; exact t1.1
            | some latest =>
              simp only
              have hno := maybeNotice_after latest inv.current inv.now
                { (maybeNotice c.latest inv.current inv.now c).1 with latest := latest, lastChecked := inv.now }
                t1.2
              have e2 := maybeNotice_false _ _ _ _ hno
              simp only [hno, Bool.false_eq_true, if_false, Nat.add_zero, true_and]
              refine ⟨⟨_, rfl, ?_⟩, ?_⟩
              · rw [e2]; exact t1.2
              · intro c0 hc0; injection hc0 with hc0; subst hc0; exact t1.1
      · simp only [hexp, Bool.not_false, if_true]
        by_cases hl : c.latest.isEmpty
        · left; simp [hl]
        · simp only [hl, Bool.not_false, if_true]
          cases hp1 : (maybeNotice c.latest inv.current inv.now c).2
          · left; simp
          · right
            have t1 := maybeNotice_true _ _ _ _ hp1
            simp only [if_true, true_and]
            refine ⟨⟨_, rfl, t1.2⟩, ?_⟩
            intro c0 hc0; injection hc0 with hc0; subst hc0; exact t1.1

end BlochVerif.Update
