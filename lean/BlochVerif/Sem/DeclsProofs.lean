import BlochVerif.Sem.Decls
/-!
# The base-chain walk's fuel is exact

`chainOK cs (cs.length + 1) n` is how `accept` decides "the base chain of `n` ends at `Object`".  Here: more fuel never
changes a positive answer, and a positive answer with any fuel is already a positive answer with `cs.length + 1` — a
terminating walk visits pairwise different declared classes.  So the verdict is "the chain ends", not an artefact of the bound.
-/
namespace BlochVerif.Decls

/-- the classes a walk visits before it stops -/
def path (cs : List Cls) : Nat → String → List String
  | 0, _ => []
  | fuel + 1, n =>
    if n = "Object" then []
    else match cs.find? (fun c => c.name == n) with
      | none => []
      | some c => n :: path cs fuel c.baseName

theorem chainOK_mono (cs : List Cls) : ∀ (k : Nat) (n : String), chainOK cs k n = true → chainOK cs (k + 1) n = true := by
  intro k
  induction k with
  | zero => intro n h; simp [chainOK] at h
  | succ k ih =>
    intro n h
    rw [chainOK] at h ⊢
    split
    · rfl
    · rename_i hn
      rw [if_neg hn] at h
      cases hf : cs.find? (fun c => c.name == n) with
      | none => rw [hf] at h; cases h
      | some c => rw [hf] at h; simp only at h ⊢; exact ih _ h

theorem chainOK_mono_le (cs : List Cls) (n : String) : ∀ (k k' : Nat), k ≤ k' → chainOK cs k n = true → chainOK cs k' n = true := by
  intro k k' hle h
  induction hle with
  | refl => exact h
  | step _ ih => exact chainOK_mono cs _ n ih

/-- a successful walk needs exactly one unit of fuel per visited class, plus one to see `Object` -/
theorem chainOK_path_fuel (cs : List Cls) : ∀ (k : Nat) (n : String), chainOK cs k n = true →
    chainOK cs ((path cs k n).length + 1) n = true := by
  intro k
  induction k with
  | zero => intro n h; simp [chainOK] at h
  | succ k ih =>
    intro n h
    rw [chainOK] at h
    rw [path]
    by_cases hn : n = "Object"
    · rw [if_pos hn]; rw [chainOK, if_pos hn]
    · rw [if_neg hn] at h ⊢
      cases hf : cs.find? (fun c => c.name == n) with
      | none => rw [hf] at h; cases h
      | some c =>
        rw [hf] at h
        simp only at h ⊢
        rw [List.length_cons, chainOK, if_neg hn, hf]
        exact ih _ h

/-- the visited classes do not depend on the fuel once the walk succeeds -/
theorem path_fuel_indep (cs : List Cls) : ∀ (k k' : Nat) (n : String), chainOK cs k n = true → chainOK cs k' n = true →
    path cs k n = path cs k' n := by
  intro k
  induction k with
  | zero => intro k' n h; simp [chainOK] at h
  | succ k ih =>
    intro k' n h h'
    cases k' with
    | zero => simp [chainOK] at h'
    | succ k' =>
      rw [chainOK] at h h'
      rw [path, path]
      by_cases hn : n = "Object"
      · rw [if_pos hn, if_pos hn]
      · rw [if_neg hn] at h h' ⊢
        rw [if_neg hn]
        cases hf : cs.find? (fun c => c.name == n) with
        | none => rfl
        | some c =>
          rw [hf] at h h'
          simp only at h h' ⊢
          rw [ih k' _ h h']

/-- from any visited class the walk continues as that class's own (successful) walk -/
theorem path_suffix (cs : List Cls) : ∀ (k : Nat) (n m : String), chainOK cs k n = true → m ∈ path cs k n →
    ∃ pre j, path cs k n = pre ++ path cs j m ∧ chainOK cs j m = true ∧ m ∈ path cs j m := by
  intro k
  induction k with
  | zero => intro n m h; simp [chainOK] at h
  | succ k ih =>
    intro n m h hm
    have h0 := h
    rw [chainOK] at h
    rw [path] at hm
    by_cases hn : n = "Object"
    · rw [if_pos hn] at hm; cases hm
    · rw [if_neg hn] at h hm
      cases hf : cs.find? (fun c => c.name == n) with
      | none => rw [hf] at hm; cases hm
      | some c =>
        rw [hf] at h hm
        simp only at h hm
        rcases List.mem_cons.mp hm with hmn | hmt
        · subst hmn
          refine ⟨[], k + 1, by simp, h0, ?_⟩
          rw [path, if_neg hn, hf]; exact List.mem_cons_self ..
        · obtain ⟨pre, j, hp, hj, hmj⟩ := ih c.baseName m h hmt
          refine ⟨n :: pre, j, ?_, hj, hmj⟩
          rw [path, if_neg hn, hf]
          simp only
          rw [hp]
          rfl

/-- a successful walk never visits a class twice -/
theorem path_nodup (cs : List Cls) : ∀ (k : Nat) (n : String), chainOK cs k n = true → (path cs k n).Nodup := by
  intro k
  induction k with
  | zero => intro n _; simp [path]
  | succ k ih =>
    intro n h
    have h0 := h
    rw [chainOK] at h
    rw [path]
    by_cases hn : n = "Object"
    · rw [if_pos hn]; exact List.nodup_nil
    · rw [if_neg hn] at h ⊢
      cases hf : cs.find? (fun c => c.name == n) with
      | none => exact List.nodup_nil
      | some c =>
        rw [hf] at h
        simp only at h ⊢
        refine List.nodup_cons.mpr ⟨?_, ih _ h⟩
        intro hmem
        -- `n` reappears further up: its own walk would be a strict suffix of itself
        obtain ⟨pre, j, hp, hj, _⟩ := path_suffix cs k c.baseName n h hmem
        have hsame : path cs j n = path cs (k + 1) n := path_fuel_indep cs j (k + 1) n hj h0
        have hexp : path cs (k + 1) n = n :: path cs k c.baseName := by
          rw [path, if_neg hn, hf]
        have hlen : (path cs (k + 1) n).length = 1 + (pre.length + (path cs (k + 1) n).length) := by
          have e1 : path cs (k + 1) n = n :: (pre ++ path cs (k + 1) n) := by
            have := hexp
            rw [hp, hsame] at this
            exact this
          have e2 := congrArg List.length e1
          rw [List.length_cons, List.length_append] at e2
          omega
        omega

theorem path_sub_names (cs : List Cls) : ∀ (k : Nat) (n : String), ∀ m ∈ path cs k n, m ∈ cs.map (·.name) := by
  intro k
  induction k with
  | zero => intro n m hm; simp [path] at hm
  | succ k ih =>
    intro n m hm
    rw [path] at hm
    by_cases hn : n = "Object"
    · rw [if_pos hn] at hm; cases hm
    · rw [if_neg hn] at hm
      cases hf : cs.find? (fun c => c.name == n) with
      | none => rw [hf] at hm; cases hm
      | some c =>
        rw [hf] at hm
        simp only at hm
        rcases List.mem_cons.mp hm with hmn | hmt
        · subst hmn
          have hc := List.find?_some hf
          have hcm := List.mem_of_find?_eq_some hf
          exact List.mem_map.mpr ⟨c, hcm, by simpa using hc⟩
        · exact ih _ m hmt

/-- **Fuel exactness.**  If the walk from `n` ends at `Object` with any amount of fuel, it does so with
`cs.length + 1`: `accept`'s bound never turns an acyclic chain into a rejected one. -/
theorem chainOK_fuel_exact (cs : List Cls) (k : Nat) (n : String) (h : chainOK cs k n = true) :
    chainOK cs (cs.length + 1) n = true := by
  have h1 := chainOK_path_fuel cs k n h
  have hnd := path_nodup cs k n h
  have hsub : path cs k n ⊆ cs.map (·.name) := fun m hm => path_sub_names cs k n m hm
  have hlen := List.Nodup.length_le_of_subset hnd hsub
  rw [List.length_map] at hlen
  exact chainOK_mono_le cs n _ _ (by omega) h1

/-- the verdict of `accept`'s chain test is "some amount of fuel suffices" -/
theorem chainOK_iff_terminates (cs : List Cls) (n : String) :
    chainOK cs (cs.length + 1) n = true ↔ ∃ k, chainOK cs k n = true :=
  ⟨fun h => ⟨_, h⟩, fun ⟨k, h⟩ => chainOK_fuel_exact cs k n h⟩

end BlochVerif.Decls
