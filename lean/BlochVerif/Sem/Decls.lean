/-!
# Acceptance of the top-level declarations (C10, "whether the program is accepted")

`SemanticAnalyser::analyse` first builds the class registry (`buildClassRegistry`: duplicate class names, bases
resolved by name with `Object` as the implicit root, inheritance cycles), predeclares every function with its
signature (duplicate function names), and only then visits class bodies and function bodies, where a call must
name a declared function with the right number of arguments and a `new C()` must name a declared class.
This file is that decision over declaration *lists*; `Props/C10.lean` proves it is a function of the declaration
*sets*, i.e. invariant under every permutation of the classes and of the functions.
-/
namespace BlochVerif.Decls

/-- what a body needs from the global tables: calls `f(a1..ak)` and `new C()` expressions -/
structure Body where
  calls : List (String × Nat) := []
  news : List String := []
deriving Repr

structure Cls where
  name : String
  /-- explicit base; `none` means the implicit root `Object` -/
  base : Option String := none
  body : Body := {}
  /-- declared `abstract` -/
  isAbstract : Bool := false
  /-- own virtual methods without body -/
  abstracts : List String := []
  /-- own methods with a body (they discharge an inherited obligation of the same name) -/
  impls : List String := []
deriving Repr

structure Fn where
  name : String
  arity : Nat
  body : Body := {}
deriving Repr

structure Prog where
  classes : List Cls := []
  functions : List Fn := []
deriving Repr

def Cls.baseName (c : Cls) : String := c.base.getD "Object"

/-- walk the base chain of `n` up to `Object`: every base must be declared, and the walk must end
(`fuel` = number of classes + 1: a chain that long has met some class twice) -/
def chainOK (cs : List Cls) : Nat → String → Bool
  | 0, _ => false
  | fuel + 1, n =>
    if n = "Object" then true
    else match cs.find? (fun c => c.name == n) with
      | none => false
      | some c => chainOK cs fuel c.baseName

/-- `validateAbstractness`, base first: the obligations a class still carries are its base's plus its own bodyless
virtual methods, minus what it implements -/
def required (cs : List Cls) : Nat → String → List String
  | 0, _ => []
  | fuel + 1, n =>
    if n = "Object" then []
    else match cs.find? (fun c => c.name == n) with
      | none => []
      | some c => ((required cs fuel c.baseName) ++ c.abstracts).filter (fun m => !c.impls.contains m)

/-- `new n()` is allowed: the class exists, is not declared abstract and carries no obligation -/
def instantiable (cs : List Cls) (n : String) : Bool :=
  n == "Object" ||
  match cs.find? (fun c => c.name == n) with
  | none => false
  | some c => !c.isAbstract && (required cs (cs.length + 1) n).isEmpty

def bodyOK (p : Prog) (b : Body) : Bool :=
  b.calls.all (fun c => p.functions.any (fun g => g.name == c.1 && g.arity == c.2)) &&
  b.news.all (fun n => instantiable p.classes n)

def accept (p : Prog) : Bool :=
  decide ((p.classes.map (·.name)).Nodup) &&
  decide ((p.functions.map (·.name)).Nodup) &&
  p.classes.all (fun c => chainOK p.classes (p.classes.length + 1) c.baseName) &&
  p.classes.all (fun c => bodyOK p c.body) &&
  p.functions.all (fun f => bodyOK p f.body)

end BlochVerif.Decls
