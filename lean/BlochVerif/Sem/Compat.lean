/-!
# Declared-type compatibility as the analyser decides it, position by position (C16)

`TI` is the analyser's `TypeInfo` restricted to non-generic types: a primitive tag (`Unknown` for class
references and arrays, which are identified by `className`) and a class name — here an index into a linear
hierarchy (`C0 <- C1 <- …`) or an array type name.  `matchesPrimitive` and `isAssignable` mirror the helper
functions of `semantic_analyser.cpp`; `rejectsInit`, `rejectsAssign`, `rejectsFieldAssign`, `rejectsArg`
and `rejectsReturn` mirror, guard by guard, the five places where a value meets a declared type
(`validateTypedInitializer`, `visit(AssignmentStatement/Expression)`, the field branches of the assignment
visitors and `visit(MemberAssignmentExpression)`, `checkArgs`, `visit(ReturnStatement)`).
-/
namespace BlochVerif.Sem

inductive VT where
  | unknown | int | long | float | bit | boolean | string | char | qubit | null | void
deriving DecidableEq, Repr

inductive CName where
  | cls (i : Nat)
  | arr (elem : VT)
  | objArr (i : Nat)
deriving DecidableEq, Repr

structure TI where
  value : VT
  name : Option CName
deriving DecidableEq, Repr

def TI.hasName (t : TI) : Bool := t.name.isSome
def TI.isArray (t : TI) : Bool := match t.name with | some (.arr _) | some (.objArr _) => true | _ => false
def TI.isClassRef (t : TI) : Bool := match t.name with | some (.cls _) => true | _ => false
/-- `isUnknownType`: neither a primitive tag nor a name -/
def TI.isUnknown (t : TI) : Bool := t.value == .unknown && !t.hasName

def matchesPrimitive (e a : VT) : Bool :=
  e == .unknown || a == .unknown || e == a || (e == .long && a == .int)

/-- `actual.className == expected.className || isSubclassOf(actual, expected)` on the linear hierarchy -/
def subclassOrSame (actual expected : Nat) : Bool := expected ≤ actual

/-- `isAssignableType(expected, actual)` (generic type parameters left out) -/
def isAssignable (e a : TI) : Bool :=
  if a.value == .null then e.isClassRef
  else if !e.hasName then
    if e.value != .unknown && a.hasName then false
    else if e.value == .unknown || a.value == .unknown then true
    else if !a.hasName then matchesPrimitive e.value a.value
    else false
  else if e.isArray then a.isArray && e.name == a.name
  else if !a.hasName then a.value == .unknown
  else
    match e.name, a.name with
    | some (.cls i), some (.cls j) => subclassOrSame j i
    | _, _ => false

/-- `validateTypedInitializer`: `T v = init;` and field initialisers -/
def rejectsInit (e a : TI) : Bool :=
  if e.value != .unknown then
    a.hasName || !matchesPrimitive e.value a.value
  else if e.hasName then
    if a.value == .null then e.isArray
    else !isAssignable e a && !a.isUnknown
  else false

/-- `visit(AssignmentStatement)` / `visit(AssignmentExpression)` on a declared variable -/
def rejectsAssign (e a : TI) : Bool :=
  if a.value == .null then !(e.hasName && !e.isArray)
  else !a.isUnknown && !isAssignable e a

/-- the field branches (bare name, `this.f`, `obj.f`, `Type.f`) -/
def rejectsFieldAssign (e a : TI) : Bool :=
  if a.value == .null && (e.isArray || !e.hasName) then true
  else if e.hasName && a.value != .null && !a.isUnknown && !isAssignable e a then true
  else if !e.hasName && e.value != .unknown && !a.isUnknown && !isAssignable e a then true
  else false

/-- `checkArgs`: function, method and constructor arguments -/
def rejectsArg (e a : TI) : Bool :=
  if e.hasName then
    if e.isArray && a.value == .null then true
    else if a.value == .null then false
    else if !a.hasName then a.value != .unknown
    else !isAssignable e a
  else
    e.value != .unknown && (a.hasName || (a.value != .unknown && !matchesPrimitive e.value a.value))

/-- `visit(ReturnStatement)` in a non-void function -/
def rejectsReturn (e a : TI) : Bool :=
  if a.value == .null then !e.hasName || e.isArray
  else if e.hasName then !isAssignable e a
  else a.hasName || !matchesPrimitive e.value a.value

/-! ## the declarative rule -/

/-- source-level types whose declared type is known -/
inductive Ty where
  | prim (p : VT)          -- int, long, float, bit, boolean, string, char, qubit
  | cls (i : Nat)
  | arr (elem : VT)
  | objArr (i : Nat)
  | null
deriving DecidableEq, Repr

def Ty.isPrim : VT → Bool
  | .int | .long | .float | .bit | .boolean | .string | .char | .qubit => true
  | _ => false

def Ty.wf : Ty → Bool
  | .prim p => Ty.isPrim p
  | .arr e => Ty.isPrim e
  | _ => true

def Ty.toTI : Ty → TI
  | .prim p => ⟨p, none⟩
  | .cls i => ⟨.unknown, some (.cls i)⟩
  | .arr e => ⟨.unknown, some (.arr e)⟩
  | .objArr i => ⟨.unknown, some (.objArr i)⟩
  | .null => ⟨.null, none⟩

/-- a value of type `a` may stand where `e` is declared: same type, int widening to long, an instance of a
subclass, or null for a class reference -/
def compatible (e a : Ty) : Bool :=
  match e, a with
  | .prim p, .prim q => p == q || (p == .long && q == .int)
  | .cls i, .cls j => decide (i ≤ j)
  | .cls _, .null => true
  | .arr x, .arr y => x == y
  | .objArr i, .objArr j => i == j
  | _, _ => false

end BlochVerif.Sem
