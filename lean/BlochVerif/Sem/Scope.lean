/-!
# Declaration and `final` rules of the analyser on a statement fragment (C16)

A mirror of the analyser's symbol handling for local variables — `visit(VariableDeclaration)` (redeclaration
in any active scope, initialiser checked before the name is in scope, `final` needs an initialiser),
`visit(AssignmentStatement/Expression)` and `visit(PostfixExpression)` (declared, not final),
`visit(VariableExpression)` (declared), `visit(BlockStatement)` and `visit(ForStatement)` (open a scope;
`if`, `while` and the ternary statement do not) — over a small all-`int` statement language, together with
the rules written as an inductive judgement.  Blocks are `scope (seq …)` so that no nested lists occur.
-/
namespace BlochVerif.Sem

inductive SExpr where
  | lit
  | var (n : String)
  | assign (n : String) (e : SExpr)
  | post (n : String)
  | un (e : SExpr)
  | bin (a b : SExpr)
  | store (n : String) (i e : SExpr)      -- `n[i] = e`: arrays are values, so this writes the variable `n`
deriving Repr, DecidableEq

inductive SStmt where
  | skip
  | seq (a b : SStmt)
  | scope (s : SStmt)
  | decl (isFinal : Bool) (n : String) (init : Option SExpr)
  | assign (n : String) (e : SExpr)
  | expr (e : SExpr)
  | ite (c : SExpr) (t : SStmt) (e : SStmt)
  | while (c : SExpr) (b : SStmt)
  | for (init : SStmt) (c : SExpr) (inc : SExpr) (b : SStmt)
  | ternary (c : SExpr) (t e : SStmt)
  | echo (e : SExpr)
  | ret (e : SExpr)
deriving Repr

inductive ScopeErr where
  | redeclared (n : String)
  | undeclared (n : String)
  | finalWrite (n : String)
  | finalNoInit (n : String)
deriving Repr, DecidableEq

/-- the symbol table: innermost scope first; each binding carries its `final` flag -/
abbrev Scopes := List (List (String × Bool))

/-- `SymbolTable::isDeclared` / `isFinal`: innermost binding of the name -/
def lookupSym : Scopes → String → Option Bool
  | [], _ => none
  | sc :: rest, n =>
    match sc.find? (fun b => b.1 = n) with
    | some b => some b.2
    | none => lookupSym rest n

def declareSym (g : Scopes) (n : String) (f : Bool) : Scopes :=
  match g with
  | [] => [[(n, f)]]
  | sc :: rest => ((n, f) :: sc) :: rest

def checkExpr (g : Scopes) : SExpr → Except ScopeErr Unit
  | .lit => .ok ()
  | .var n => match lookupSym g n with | some _ => .ok () | none => .error (.undeclared n)
  | .assign n e =>
    match lookupSym g n with
    | some true => .error (.finalWrite n)
    | some false => checkExpr g e
    | none => .error (.undeclared n)
  | .post n =>
    match lookupSym g n with
    | some true => .error (.finalWrite n)
    | some false => .ok ()
    | none => .error (.undeclared n)
  | .un e => checkExpr g e
  | .bin a b => match checkExpr g a with | .ok () => checkExpr g b | .error e => .error e
  | .store n i e =>
    -- the analyser visits the collection, the index and the value first, then applies the `final` rule
    match lookupSym g n with
    | none => .error (.undeclared n)
    | some f =>
      match checkExpr g i with
      | .error er => .error er
      | .ok () =>
        match checkExpr g e with
        | .error er => .error er
        | .ok () => if f then .error (.finalWrite n) else .ok ()

/-- the analyser's walk; returns the symbol table after the statement -/
def checkStmt (g : Scopes) : SStmt → Except ScopeErr Scopes
  | .skip => .ok g
  | .seq a b => match checkStmt g a with | .ok g1 => checkStmt g1 b | .error e => .error e
  | .scope s => match checkStmt ([] :: g) s with | .ok _ => .ok g | .error e => .error e
  | .decl f n init =>
    match lookupSym g n with
    | some _ => .error (.redeclared n)
    | none =>
      if f && init.isNone then .error (.finalNoInit n)
      else
        match init with
        | some e => match checkExpr g e with | .ok () => .ok (declareSym g n f) | .error er => .error er
        | none => .ok (declareSym g n f)
  | .assign n e =>
    match lookupSym g n with
    | some true => .error (.finalWrite n)
    | some false => match checkExpr g e with | .ok () => .ok g | .error er => .error er
    | none => .error (.undeclared n)
  | .expr e => match checkExpr g e with | .ok () => .ok g | .error er => .error er
  | .ite c t e =>
    match checkExpr g c with
    | .error er => .error er
    | .ok () => match checkStmt g t with | .ok g1 => checkStmt g1 e | .error er => .error er
  | .while c b => match checkExpr g c with | .ok () => checkStmt g b | .error er => .error er
  | .for init c inc b =>
    match checkStmt ([] :: g) init with
    | .error er => .error er
    | .ok g1 =>
      match checkExpr g1 c with
      | .error er => .error er
      | .ok () =>
        match checkExpr g1 inc with
        | .error er => .error er
        | .ok () => match checkStmt g1 b with | .ok _ => .ok g | .error er => .error er
  | .ternary c t e =>
    match checkExpr g c with
    | .error er => .error er
    | .ok () => match checkStmt g t with | .ok g1 => checkStmt g1 e | .error er => .error er
  | .echo e => match checkExpr g e with | .ok () => .ok g | .error er => .error er
  | .ret e => match checkExpr g e with | .ok () => .ok g | .error er => .error er

/-! ## the rules, stated once and for every position -/

/-- an expression is well scoped: every name it mentions is declared, every name it writes is declared and
not final -/
inductive WSExpr (g : Scopes) : SExpr → Prop
  | lit : WSExpr g .lit
  | var {n f} : lookupSym g n = some f → WSExpr g (.var n)
  | assign {n e} : lookupSym g n = some false → WSExpr g e → WSExpr g (.assign n e)
  | post {n} : lookupSym g n = some false → WSExpr g (.post n)
  | un {e} : WSExpr g e → WSExpr g (.un e)
  | bin {a b} : WSExpr g a → WSExpr g b → WSExpr g (.bin a b)
  | store {n i e} : lookupSym g n = some false → WSExpr g i → WSExpr g e → WSExpr g (.store n i e)

/-- `WS g s g'`: statement `s` obeys the declaration and `final` rules in table `g` and leaves table `g'` -/
inductive WS : Scopes → SStmt → Scopes → Prop
  | skip {g} : WS g .skip g
  | seq {g g1 g2 a b} : WS g a g1 → WS g1 b g2 → WS g (.seq a b) g2
  | scope {g g1 s} : WS ([] :: g) s g1 → WS g (.scope s) g
  | declInit {g f n e} : lookupSym g n = none → WSExpr g e → WS g (.decl f n (some e)) (declareSym g n f)
  | declNoInit {g n} : lookupSym g n = none → WS g (.decl false n none) (declareSym g n false)
  | assign {g n e} : lookupSym g n = some false → WSExpr g e → WS g (.assign n e) g
  | expr {g e} : WSExpr g e → WS g (.expr e) g
  | ite {g g1 g2 c t e} : WSExpr g c → WS g t g1 → WS g1 e g2 → WS g (.ite c t e) g2
  | while {g g1 c b} : WSExpr g c → WS g b g1 → WS g (.while c b) g1
  | for {g g1 g2 init c inc b} : WS ([] :: g) init g1 → WSExpr g1 c → WSExpr g1 inc → WS g1 b g2 →
      WS g (.for init c inc b) g
  | ternary {g g1 g2 c t e} : WSExpr g c → WS g t g1 → WS g1 e g2 → WS g (.ternary c t e) g2
  | echo {g e} : WSExpr g e → WS g (.echo e) g
  | ret {g e} : WSExpr g e → WS g (.ret e) g

end BlochVerif.Sem
