import BlochVerif.Sim.Tensor
import BlochVerif.Eval.QubitBookProofs
import BlochVerif.Eval.Shape
import BlochVerif.Eval.Control
import BlochVerif.Eval.FlagsAgree
/-!
# C03 — the state stays a unit `2^n` vector, in any history (simulator half)

The qubit-handle half (distinct declarations never share a simulator qubit) is about the
evaluator's qubit book and lives in `Props/C03Book.lean`.
-/
namespace BlochVerif.Props.C03
open BlochVerif BlochVerif.Sim Finset

/-- **Every history.** After any finite sequence of allocations, gates, `cx`, measurements and
    resets — refused operations included, draws anywhere in `[0,1)` so outcomes of probability
    ~0 or ~1 are covered — the state has exactly `2^n` amplitudes, `n` the number of qubits
    allocated so far, and unit norm. -/
theorem state_stays_unit_vector (h : List (HOp ℝ)) (hd : ∀ op ∈ h, DrawOK op) :
    let st := runOps complexOps (State.init complexOps) h
    st.amps.size = 2 ^ st.n ∧ nrm2 (absArr st.amps) (2 ^ st.n) = 1 := by
  have := WF_run h (State.init complexOps) WF_init hd
  exact ⟨this.size, this.norm⟩

/-- `n` counts the allocations of the history -/
theorem n_counts_allocations (h : List (HOp ℝ)) (st : State ℂ ℝ) :
    (runOps complexOps st h).n = st.n + (h.filter (fun o => match o with | .alloc => true | _ => false)).length := by
  induction h generalizing st with
  | nil => simp [runOps]
  | cons op rest ih =>
    unfold runOps at *
    rw [List.foldl_cons, ih]
    cases op with
    | alloc => simp [stepOp, allocate_n]; omega
    | gate g =>
      simp only [stepOp]
      cases hg : gate1 complexOps st g with
      | error e => simp
      | ok s =>
        unfold gate1 at hg
        cases hm : gateMat complexOps g with
        | none => rw [hm] at hg; cases hg; simp
        | some qm =>
          rw [hm] at hg
          simp only [bind, Except.bind] at hg
          cases he : ensureActive st qm.1 with
          | error e => rw [he] at hg; cases hg
          | ok u => rw [he] at hg; cases hg; simp
    | cx c t =>
      simp only [stepOp]
      cases hg : cx st c t with
      | error e => simp
      | ok s =>
        unfold cx at hg
        simp only [bind, Except.bind] at hg
        cases he : ensureActive st c with
        | error e => rw [he] at hg; cases hg
        | ok u =>
          rw [he] at hg
          cases he' : ensureActive st t with
          | error e => rw [he'] at hg; cases hg
          | ok u' =>
            rw [he'] at hg
            simp only at hg
            by_cases hct : c = t
            · rw [if_pos hct] at hg; cases hg
            · rw [if_neg hct] at hg; cases hg; simp
    | measure q r =>
      simp only [stepOp]
      cases hg : Sim.measure complexOps st q r with
      | error e => simp
      | ok p =>
        obtain ⟨s, b⟩ := p
        unfold Sim.measure at hg
        simp only [bind, Except.bind] at hg
        cases he : ensureActive st q with
        | error e => rw [he] at hg; cases hg
        | ok u => rw [he] at hg; cases hg; simp [measureCore]
    | reset q r =>
      simp only [stepOp]
      cases hg : reset complexOps st q r with
      | error e => simp
      | ok p =>
        obtain ⟨s, b⟩ := p
        unfold reset at hg
        by_cases hq : q ≥ st.n
        · simp only [hq, if_true, bind, Except.bind, throw, throwThe, MonadExceptOf.throw] at hg
          cases hg
        · simp only [hq, if_false, bind, Except.bind, pure, Except.pure] at hg
          cases hg; simp [resetCore]

/-- **Allocation keeps the existing qubits' state**: the new vector is `ψ ⊗ |0⟩` — the old
    amplitudes in the lower half (new qubit = 0), zeros in the upper half — also after
    entanglement. -/
theorem allocation_preserves_existing_state (st : State ℂ ℝ) (hw : WF st) :
    (allocate complexOps st).2 = st.n ∧
    (allocate complexOps st).1.n = st.n + 1 ∧
    (allocate complexOps st).1.amps.size = 2 ^ (st.n + 1) ∧
    ∀ k, k < 2 ^ (st.n + 1) → (allocate complexOps st).1.amps[k]! =
      if k.testBit st.n then 0 else (absArr st.amps) k := by
  obtain ⟨h1, h2⟩ := allocate_amps complexOps st
  refine ⟨rfl, rfl, by rw [h1, hw.size, Nat.pow_succ]; omega, ?_⟩
  intro k hk
  rw [h2 k (by rw [hw.size]; rw [Nat.pow_succ] at hk; omega), hw.size]
  by_cases hlt : k < 2 ^ st.n
  · rw [if_pos hlt, Nat.testBit_lt_two_pow hlt]; rfl
  · rw [if_neg hlt]
    have : k.testBit st.n = true := by
      rw [Nat.testBit_eq_decide_div_mod_eq]
      have h1 : k / 2 ^ st.n = 1 := by
        apply Nat.div_eq_of_lt_le
        · omega
        · rw [Nat.pow_succ] at hk; omega
      simp [h1]
    rw [this]; rfl

/-! Non-vacuity: a history with entanglement, a measurement at draw 0 and an allocation after it. -/
example : ∀ op ∈ ([.alloc, .alloc, .gate (.h 0), .cx 0 1, .measure 0 0, .alloc, .reset 1 (1/2)] : List (HOp ℝ)),
    DrawOK op := by
  intro op hop
  simp only [List.mem_cons, List.mem_nil_iff, or_false] at hop
  rcases hop with h | h | h | h | h | h | h <;> subst h <;> simp [DrawOK] <;> norm_num

end BlochVerif.Props.C03

/-! ## qubit handles stay distinct, in any history (the evaluator's qubit book) -/
namespace BlochVerif.Props.C03
open BlochVerif.QubitBook

/-- After any sequence of local declarations, object constructions and object destructions, no two live
handles denote the same simulator qubit, and every live handle is inside the register. -/
theorem live_handles_are_distinct_in_any_history (ops : List Op) :
    (run {} ops).1.live.Nodup ∧ ∀ h ∈ (run {} ops).1.live, h < (run {} ops).1.next := by
  have hi := run_inv ops {} inv_init
  exact ⟨(List.nodup_append.mp hi.1).1, fun h hh => hi.2 h (List.mem_append_left _ hh)⟩

/-- Every handle handed out — fresh from the simulator or recycled from a destroyed object — is different
from every handle that is live at that moment, and the handles of one declaration are pairwise distinct. -/
theorem a_new_handle_never_aliases_a_live_one (ops : List Op) (op : Op) :
    let b := (run {} ops).1
    (∀ h ∈ (step b op).2, h ∉ b.live) ∧ (step b op).2.Nodup :=
  (step_spec _ (run_inv ops {} inv_init) op).2

/-- a released index is handed out again only after its owner died: recycling is last-released-first -/
example : (run {} [.newObj 1 2, .declare 1, .destroy 1, .declare 1, .newObj 2 2]).2 =
    [[0, 1], [2], [], [1], [0, 3]] := by decide

end BlochVerif.Props.C03

/-! ## evaluator level: every program, every state it can reach -/
namespace BlochVerif.Props.C03
open BlochVerif BlochVerif.Eval BlochVerif.Parse

/-- **Whatever a program does** — any function, any body, any arguments, any fuel, any draws — the state vector the
simulator holds afterwards has exactly `2 ^ n` amplitudes for its `n` qubits, and `n` has not decreased: the
register is never shrunk, so a handle that was inside the register stays inside it (induction principle of the
evaluator model, `Eval/Shape.lean`). -/
theorem a_program_keeps_the_state_vector_at_two_pow_n (fuel : Nat) (fn : FuncDecl) (args : List Value)
    (st st' : EState) (v : Value) (hs : st.sim.amps.size = 2 ^ st.sim.n)
    (h : (call fuel fn args).run st = .ok (v, st')) :
    st'.sim.amps.size = 2 ^ st'.sim.n ∧ st.sim.n ≤ st'.sim.n :=
  call_keeps_the_register_shaped fuel fn args st st' v hs h

/-- the same for a whole run, started from the empty register: normal end or error, the register handed back has
`2 ^ n` amplitudes -/
theorem a_run_ends_with_a_two_pow_n_state_vector (prog : Program) (draws : List Float) (e l : Bool) (fuel : Nat) :
    (execute prog draws e l fuel).sim.amps.size = 2 ^ (execute prog draws e l fuel).sim.n :=
  execute_shaped prog draws e l fuel

/-- the evaluator's own qubit table has one entry per simulator qubit in every reachable state, so every handle it
has handed to the program indexes inside the register (`Eval.Agree`, the invariant of C06, carries the count) -/
theorem the_evaluator_knows_exactly_the_simulators_qubits (fuel : Nat) (fn : FuncDecl) (args : List Value)
    (st st' : EState) (v : Value) (hi : Agree st) (h : (call fuel fn args).run st = .ok (v, st')) :
    st'.qubits.length = st'.sim.n ∧ st'.sim.measured.size = st'.sim.n :=
  let a := call_keeps_flags_in_agreement fuel fn args st st' v hi h
  ⟨a.count, a.flags⟩

/-- the hypotheses are met by the state every run starts in -/
example (prog : Program) (draws : List Float) (e l : Bool) :
    (startState prog draws e l).sim.amps.size = 2 ^ (startState prog draws e l).sim.n ∧
      Agree (startState prog draws e l) :=
  ⟨by simp [startState, Sim.State.init], ⟨rfl, rfl, fun i hi => by simp [startState, Sim.State.init] at hi⟩⟩

end BlochVerif.Props.C03
