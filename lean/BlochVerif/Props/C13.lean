import BlochVerif.Parse.Model
import BlochVerif.Lex.Proofs
namespace BlochVerif.Props.C13
theorem placeholder : True := trivial
end BlochVerif.Props.C13
