import BlochVerif.Parse.Model
import BlochVerif.Lex.Proofs
/-!
# C13 — the front end is total

*Proved* (model level): the lexer model is total and its loop terminates by consuming input
(the fuel it is run with is provably irrelevant); lexing and parsing return either a result or
**exactly one** located diagnostic of one category.

*Partial, named*: (1) for the parser model the `outOfFuel` outcome is not proved unreachable —
the driver reports it as `OUT-OF-FUEL` and every correspondence run counts it (0 on every run so
far, with fuel `16·tokens + 100`); (2) the semantic analyser and the import loader are not part of
this model (C16/C19 model fragments of them) — "terminates, one diagnostic, analyser reusable" is
checked on the real code with an ASan/UBSan build, a shared analyser instance compared against a
fresh one, and a timeout; (3) memory safety and stack depth of the real C++ are observed, not proved.
-/
namespace BlochVerif.Props.C13
open BlochVerif.Lex BlochVerif.Parse

/-- the lexer returns tokens or exactly one lexical error — for every byte string -/
theorem lexer_total (kw : List Char → Option TokenType) (src : List Char) :
    (∃ toks, tokenize kw src = .ok toks) ∨ (∃ e, tokenize kw src = .error e) := by
  cases h : tokenize kw src with
  | ok t => exact Or.inl ⟨t, rfl⟩
  | error e => exact Or.inr ⟨e, rfl⟩

/-- **the lexer loop never hangs**: any fuel above the input length gives the same answer as the
    fuel `length + 1` that `tokenize` uses, i.e. the loop always ends by exhausting the input -/
theorem lexer_never_runs_out_of_fuel (kw : List Char → Option TokenType) (src : List Char)
    (fuel : Nat) (h : src.length < fuel) :
    tokenizeAux kw fuel src ⟨1, 1⟩ [] = tokenize kw src := by
  unfold tokenize
  exact tokenizeAux_fuel_irrelevant kw fuel (src.length + 1) src ⟨1, 1⟩ [] h (by omega)

/-- an accepted token list always ends with exactly one `Eof`, so the parser's `peek()` beyond
    the end and `previous()` never leave the vector -/
theorem lexed_ends_with_eof {p0 : Pos} {src : List Char} {toks : List Token} (hl : Lexed p0 src toks) :
    ∃ init p, toks = init ++ [⟨.Eof, [], p⟩] := by
  induction hl with
  | @eof p w _ => exact ⟨[], _, rfl⟩
  | @tok p w t rest ts _ _ _ _ ih =>
    obtain ⟨init, q, e⟩ := ih
    exact ⟨t :: init, q, by rw [e]; rfl⟩

theorem tokens_end_with_eof (kw : List Char → Option TokenType) (src : List Char) (toks : List Token)
    (h : tokenize kw src = .ok toks) : ∃ init p, toks = init ++ [⟨.Eof, [], p⟩] :=
  lexed_ends_with_eof (tokenize_lossless kw src toks h)

/-- the parser returns a tree or exactly one located diagnostic -/
theorem parser_total (tb : Tables) (toks : List Token) :
    (∃ p, parseProgram tb toks = .ok p) ∨ (∃ e, parseProgram tb toks = .error e) := by
  cases h : parseProgram tb toks with
  | ok t => exact Or.inl ⟨t, rfl⟩
  | error e => exact Or.inr ⟨e, rfl⟩

end BlochVerif.Props.C13
