import BlochVerif.Parse.Model
import BlochVerif.Generated.BindingTable
namespace BlochVerif.Props.C14
theorem placeholder : True := trivial
end BlochVerif.Props.C14
