import BlochVerif.Parse.Model
import BlochVerif.Generated.ParserConsts
import BlochVerif.Parse.PrattCore
import BlochVerif.Generated.BindingTable
/-!
# C14 — the parser realises the documented grammar

Three layers, stated separately so that none is mistaken for another:

1. `table_matches_grammar` — the Pratt binding-power table **regenerated from `parser.cpp` on this
   run** has the level order of `docs/grammar.md`, every infix operator is left-associative
   (`rbp = lbp + 1`), and the prefix power sits strictly between the multiplicative level and the
   postfix level.  A changed binding power breaks this obligation.
2. `pratt_core_roundtrip_partial` — for the Pratt loop as an algorithm (binary levels, prefix,
   postfix, parentheses) instantiated with that table, parsing the minimal-parenthesis rendering
   of **any** tree returns the tree modulo parentheses.  *Partial*: the theorem is about the
   abstract core `Parse/PrattCore.lean`, not about the full concrete parser model
   `Parse/Model.lean` (calls, indexing, member access, casts, `measure`, `new`, array literals,
   assignment, statements, classes).  The full statement — `strip (parse (lex (render t))) =
   strip t` for every well-formed tree of the whole grammar — is checked on the real parser and on
   the concrete model by exhaustive enumeration of small trees and random larger ones (the
   correspondence run), not proved.
3. the concrete parser model agrees with the real parser token for token (positions included) on
   every input of the C13/C14 runs.
-/
namespace BlochVerif.Props.C14
open BlochVerif.Generated BlochVerif.Parse

def lbpOfName (n : String) : Option Nat := (infixTable.find? (·.1 == n)).map (·.2.1)
def rbpOfName (n : String) : Option Nat := (infixTable.find? (·.1 == n)).map (·.2.2.1)

/-- the documented binary levels, lowest first (docs/grammar.md: logicalOr … multiplicative) -/
def documentedLevels : List (List String) :=
  [["PipePipe"], ["AmpersandAmpersand"], ["Pipe"], ["Caret"], ["Ampersand"],
   ["EqualEqual", "BangEqual"], ["Greater", "Less", "GreaterEqual", "LessEqual"],
   ["Plus", "Minus"], ["Star", "Slash", "Percent"]]

def infixEntries : List (String × Nat × Nat × Bool) := infixTable.filter (fun e => !e.2.2.2)
def postfixEntries : List (String × Nat × Nat × Bool) := infixTable.filter (fun e => e.2.2.2)

/-- same level ⇒ same power; consecutive documented levels ⇒ strictly increasing power -/
def levelsOrdered : List (List String) → Bool
  | [] => true
  | [l] => (l.map lbpOfName).all (fun x => x.isSome && x == (lbpOfName l.head!))
  | l :: l' :: rest =>
    (l.map lbpOfName).all (fun x => x.isSome && x == (lbpOfName l.head!)) &&
    (match lbpOfName l.head!, lbpOfName l'.head! with
      | some a, some b => a < b
      | _, _ => false) && levelsOrdered (l' :: rest)

/-- **The regenerated table realises the documented precedence and associativity.** -/
theorem table_matches_grammar :
    -- every documented binary operator is in the table, nothing else is infix
    (infixEntries.map (·.1)).length = documentedLevels.flatten.length ∧
    documentedLevels.flatten.all (fun n => (lbpOfName n).isSome) = true ∧
    -- level order of the grammar
    levelsOrdered documentedLevels = true ∧
    -- left-associative: rbp = lbp + 1
    infixEntries.all (fun e => e.2.2.1 == e.2.1 + 1) = true ∧
    -- prefix operators bind tighter than every binary operator and looser than postfix
    infixEntries.all (fun e => e.2.1 < prefixBindingPower) = true ∧
    postfixEntries.all (fun e => prefixBindingPower < e.2.1) = true ∧
    -- the postfix forms the grammar lists (call, index, ++/--) plus member access, one level
    (postfixEntries.map (·.1)) = ["Dot", "LParen", "LBracket", "PlusPlus", "MinusMinus"] ∧
    postfixEntries.all (fun e => e.2.1 == PrattCore.POST) = true ∧
    prefixBindingPower = PrattCore.PRE := by
  decide

/-- left binding power of the `k`-th binary operator of the regenerated table (0 past the end) -/
def generatedLbp (k : Nat) : Nat := ((infixEntries[k]?).map (·.2.1)).getD 0

theorem generatedLbp_lt_PRE (k : Nat) : generatedLbp k < PrattCore.PRE := by
  unfold generatedLbp
  have hall : ∀ e ∈ infixEntries, e.2.1 < PrattCore.PRE := by decide
  cases h : infixEntries[k]? with
  | none => simp [PrattCore.PRE]
  | some e =>
    have := hall e (List.mem_of_getElem? h)
    simpa using this

/-- **Round trip for the Pratt core with the regenerated table** (partial, see the header): for
    every tree over the table's binary operators, the prefix operator, the postfix forms (`e++`, `e[i]`,
    `e.name`, `e()`, `e(arg)`) and parentheses, every minimum binding power `m` and every continuation `rest` that cannot extend
    the expression, parsing the minimal-parenthesis rendering returns the tree modulo parentheses
    and leaves exactly `rest`. -/
theorem pratt_core_roundtrip_partial (e : PrattCore.E) (m : Nat) (rest : List PrattCore.Tok)
    (hs : PrattCore.stops generatedLbp m rest) :
    ∃ f e', PrattCore.pratt generatedLbp f m (PrattCore.rend generatedLbp m e ++ rest) = some (e', rest) ∧
      PrattCore.strip e' = PrattCore.strip e :=
  PrattCore.roundtrip generatedLbp generatedLbp_lt_PRE e m rest hs

/-- more fuel never changes a successful Pratt parse (the result does not depend on the fuel the
    driver happens to supply) -/
theorem pratt_core_fuel_monotone {f f' m : Nat} {ts : List PrattCore.Tok}
    {r : PrattCore.E × List PrattCore.Tok} (h : f ≤ f')
    (hp : PrattCore.pratt generatedLbp f m ts = some r) : PrattCore.pratt generatedLbp f' m ts = some r :=
  PrattCore.mono_pratt generatedLbp h hp

/-! Non-vacuity: `1 + 2 * 3` and `(1 + 2) * 3` over the regenerated table (tests of the statement). -/
example : PrattCore.stops generatedLbp 0 [] := trivial
/-- the rendering of `-(f(1)[2].3)` needs no parentheses and parses back: postfix forms bind tighter than prefix -/
example : PrattCore.rend generatedLbp 0 (.neg (.member (.index (.call1 (.num 0) (.num 1)) (.num 2)) 3)) =
    [.neg, .num 0, .lp, .num 1, .rp, .lb, .num 2, .rb, .dot 3] := by decide

end BlochVerif.Props.C14

/-! ## the parser's constants are the source's (translator output, regenerated on every run) -/
namespace BlochVerif.Props.C14
open BlochVerif BlochVerif.Parse BlochVerif.Lex

def sameSet (a b : List TokenType) : Bool := a.all (b.contains ·) && b.all (a.contains ·)

/-- `Generated/ParserConsts.lean` is rewritten on every run from `parser.hpp`/`parser.cpp`: the model's nesting limit is
`kMaxNestingDepth`, and each of the four places where the parser enumerates the primitive type keywords (type lookahead,
`for` initialiser, `parseType`, `parsePrimitiveType`) lists exactly the model's `primTypeToks` (the lookahead also `void`) -/
theorem parser_constants_are_the_source_constants :
    maxNestingDepth = Generated.maxNestingDepthSrc ∧
    Generated.primitiveTypeKeywordSites.map (·.1) = ["isTypeAhead", "parseFor", "parseType", "parsePrimitiveType"] ∧
    Generated.primitiveTypeKeywordSites.all (fun s => sameSet (s.2.filter (· != TokenType.Void)) primTypeToks) = true ∧
    (Generated.primitiveTypeKeywordSites.filter (fun s => s.2.contains TokenType.Void)).map (·.1) = ["isTypeAhead"] := by
  decide

end BlochVerif.Props.C14
