import BlochVerif.Eval.Model
import BlochVerif.Obj.Model
import BlochVerif.Sem.Decls
import BlochVerif.Sem.DeclsProofs
/-!
# C10 — declaration order

The evaluator consults its function table only by name, and the class table resolves bases by name and lays
a class out base-first; with distinct names both are functions of the *set* of declarations.  The analyser's
acceptance is tied by the correspondence run only (every permutation must be accepted/rejected alike) —
this module is therefore PARTIAL with respect to "whether the program is accepted".
-/
namespace BlochVerif.Props.C10
open BlochVerif BlochVerif.Parse BlochVerif.Eval

/-- looking a key up in a list whose keys are pairwise distinct does not depend on the order of the list -/
theorem find_key_perm {α : Type} (key : α → String) {l l' : List α} (hp : l.Perm l')
    (hnd : (l.map key).Nodup) (n : String) :
    l.find? (fun a => key a == n) = l'.find? (fun a => key a == n) := by
  induction hp with
  | nil => rfl
  | cons x _ ih =>
    simp only [List.map_cons, List.nodup_cons] at hnd
    simp only [List.find?_cons]
    split
    · rfl
    · exact ih hnd.2
  | swap x y l =>
    simp only [List.map_cons, List.nodup_cons, List.mem_cons, not_or] at hnd
    simp only [List.find?_cons]
    by_cases hx : (key x == n) = true <;> by_cases hy : (key y == n) = true
    · exfalso
      have h1 : key x = n := by simpa using hx
      have h2 : key y = n := by simpa using hy
      exact hnd.1.1 (by rw [h1, h2])
    · simp [hx, hy]
    · simp [hx, hy]
    · simp [hx, hy]
  | trans h1 _ ih1 ih2 =>
    rw [ih1 hnd]
    exact ih2 ((h1.map key).nodup_iff.mp hnd)

/-- Running a class-free program is independent of the order of its top-level functions. -/
theorem execute_order_independent (prog prog' : Program) (draws : List Float) (e l : Bool) (fuel : Nat)
    (hp : prog.functions.Perm prog'.functions)
    (hnd : (prog.functions.map (·.name)).Nodup)
    (hc : prog.classes = prog'.classes) :
    execute prog draws e l fuel = execute prog' draws e l fuel := by
  have hl : (fun n => prog.functions.find? (·.name == n)) = (fun n => prog'.functions.find? (·.name == n)) := by
    funext n; exact find_key_perm (·.name) hp hnd n
  have hm : prog.functions.find? (·.name == "main") = prog'.functions.find? (·.name == "main") :=
    find_key_perm (·.name) hp hnd "main"
  unfold execute
  simp only [hc, hm, hl]

/-! ## class table: bases resolved by name, layout base-first -/

structure ClsDecl where
  name : String
  base : Option String
  fields : List String

/-- `buildClassTable`: the instance layout of a class is its base's layout followed by its own fields,
whatever the position of the base in the declaration list (`fuel` bounds the chain length). -/
def layoutOf (decls : List ClsDecl) : Nat → String → List (String × String)
  | 0, _ => []
  | fuel + 1, n =>
    match decls.find? (fun d => d.name == n) with
    | none => []
    | some d =>
      (match d.base with
       | some b => layoutOf decls fuel b
       | none => []) ++ d.fields.map (fun f => (d.name, f))

theorem class_layout_order_independent (decls decls' : List ClsDecl) (hp : decls.Perm decls')
    (hnd : (decls.map (·.name)).Nodup) (fuel : Nat) (n : String) :
    layoutOf decls fuel n = layoutOf decls' fuel n := by
  induction fuel generalizing n with
  | zero => rfl
  | succ f ih =>
    simp only [layoutOf]
    rw [find_key_perm (·.name) hp hnd n]
    cases decls'.find? (fun d => d.name == n) with
    | none => rfl
    | some d =>
      simp only
      cases d.base with
      | none => rfl
      | some b => simp only; rw [ih b]

/-- non-vacuity: a derived class written before its base gets the base's fields first -/
example : layoutOf [⟨"D", some "B", ["y"]⟩, ⟨"B", none, ["x"]⟩] 3 "D" = [("B", "x"), ("D", "y")] := by decide

/-! ## acceptance: the analyser's decision about the declarations is a function of their set -/
open BlochVerif.Decls

theorem all_perm {α : Type} {l l' : List α} (hp : l.Perm l') (f : α → Bool) : l.all f = l'.all f := by
  induction hp with
  | nil => rfl
  | cons x _ ih => simp only [List.all_cons, ih]
  | swap x y l => simp only [List.all_cons]; cases f x <;> cases f y <;> rfl
  | trans _ _ ih1 ih2 => rw [ih1, ih2]

theorem any_perm {α : Type} {l l' : List α} (hp : l.Perm l') (f : α → Bool) : l.any f = l'.any f := by
  induction hp with
  | nil => rfl
  | cons x _ ih => simp only [List.any_cons, ih]
  | swap x y l => simp only [List.any_cons]; cases f x <;> cases f y <;> rfl
  | trans _ _ ih1 ih2 => rw [ih1, ih2]

theorem chainOK_perm (cs cs' : List Cls) (hp : cs.Perm cs') (hnd : (cs.map (·.name)).Nodup) (fuel : Nat) (n : String) :
    chainOK cs fuel n = chainOK cs' fuel n := by
  induction fuel generalizing n with
  | zero => rfl
  | succ f ih =>
    simp only [chainOK]
    rw [find_key_perm (·.name) hp hnd n]
    split
    · rfl
    · cases cs'.find? (fun c => c.name == n) with
      | none => rfl
      | some c => exact ih c.baseName

theorem required_perm (cs cs' : List Cls) (hp : cs.Perm cs') (hnd : (cs.map (·.name)).Nodup) (fuel : Nat) (n : String) :
    required cs fuel n = required cs' fuel n := by
  induction fuel generalizing n with
  | zero => rfl
  | succ f ih =>
    simp only [required]
    rw [find_key_perm (·.name) hp hnd n]
    split
    · rfl
    · cases cs'.find? (fun c => c.name == n) with
      | none => rfl
      | some c => simp only; rw [ih c.baseName]

theorem instantiable_perm (cs cs' : List Cls) (hp : cs.Perm cs') (hnd : (cs.map (·.name)).Nodup) (n : String) :
    instantiable cs n = instantiable cs' n := by
  unfold instantiable
  rw [find_key_perm (·.name) hp hnd n, hp.length_eq, required_perm cs cs' hp hnd]

theorem bodyOK_perm (p p' : Prog) (hc : p.classes.Perm p'.classes) (hf : p.functions.Perm p'.functions)
    (hnd : (p.classes.map (·.name)).Nodup) (b : Body) :
    bodyOK p b = bodyOK p' b := by
  unfold bodyOK
  have h1 : (fun (c : String × Nat) => p.functions.any (fun g => g.name == c.1 && g.arity == c.2)) =
      (fun c => p'.functions.any (fun g => g.name == c.1 && g.arity == c.2)) := by
    funext c; exact any_perm hf _
  have h2 : (fun (n : String) => instantiable p.classes n) = (fun n => instantiable p'.classes n) := by
    funext n; exact instantiable_perm _ _ hc hnd n
  rw [h1, h2]

/-- **C10, acceptance.**  Whether the analyser accepts the declarations — no duplicate class or function, every
base declared, no inheritance cycle, every call naming a declared function of that arity, every `new` naming a
declared class that is not abstract, where abstractness is inherited down the chain until implemented — does not
depend on the order in which classes and functions are written. -/
theorem acceptance_order_independent (p p' : Prog) (hc : p.classes.Perm p'.classes)
    (hf : p.functions.Perm p'.functions) : accept p = accept p' := by
  unfold accept
  have hn1 : decide ((p.classes.map (·.name)).Nodup) = decide ((p'.classes.map (·.name)).Nodup) :=
    decide_eq_decide.mpr (hc.map _).nodup_iff
  have hn2 : decide ((p.functions.map (·.name)).Nodup) = decide ((p'.functions.map (·.name)).Nodup) :=
    decide_eq_decide.mpr (hf.map _).nodup_iff
  rw [← hn1, ← hn2, ← hc.length_eq]
  by_cases hnd : (p.classes.map (·.name)).Nodup
  · have hb : (fun (c : Cls) => bodyOK p c.body) = (fun c => bodyOK p' c.body) := by
      funext c; exact bodyOK_perm p p' hc hf hnd c.body
    have hb2 : (fun (f : Fn) => bodyOK p f.body) = (fun f => bodyOK p' f.body) := by
      funext f; exact bodyOK_perm p p' hc hf hnd f.body
    have hch : (fun (c : Cls) => chainOK p.classes (p.classes.length + 1) c.baseName) =
        (fun c => chainOK p'.classes (p.classes.length + 1) c.baseName) := by
      funext c; exact chainOK_perm _ _ hc hnd _ _
    rw [hb, hb2, hch, ← all_perm hc, ← all_perm hc, ← all_perm hf]
  · simp [hnd]

/-- the chain test inside `accept` is exact: its bound (number of classes + 1) never rejects a chain that ends, because
a walk that ends visits pairwise different declared classes (`Sem/DeclsProofs.lean`) -/
theorem inheritance_test_is_exact (cs : List Cls) (n : String) :
    chainOK cs (cs.length + 1) n = true ↔ ∃ k, chainOK cs k n = true := chainOK_iff_terminates cs n

/-- non-vacuity: accepted with a derived class and a caller written first; rejected for a cycle, a missing base,
a wrong arity, in either order -/
def okProg : Prog := { classes := [{ name := "D", base := some "B", body := ⟨[("f", 1)], ["B"]⟩ }, { name := "B" }],
                       functions := [⟨"main", 0, ⟨[("f", 1)], ["D"]⟩⟩, ⟨"f", 1, {}⟩] }
example : accept okProg = true := by decide
example : accept { okProg with classes := okProg.classes.reverse } = true := by decide
example : accept { classes := [{ name := "A", base := some "B" }, { name := "B", base := some "A" }] } = false := by decide
example : accept { classes := [{ name := "A", base := some "Z" }] } = false := by decide
example : accept { functions := [⟨"main", 0, ⟨[("f", 2)], []⟩⟩, ⟨"f", 1, {}⟩] } = false := by decide
/-- an obligation passed through an intermediate class: the leaf is abstract until somebody implements it -/
def shapes (leafImpl : List String) : List Cls :=
  [{ name := "Square", base := some "Polygon", impls := leafImpl }, { name := "Polygon", base := some "Shape", isAbstract := true },
   { name := "Shape", isAbstract := true, abstracts := ["area"] }]
example : accept { classes := shapes [], functions := [⟨"main", 0, ⟨[], ["Square"]⟩⟩] } = false := by decide
example : accept { classes := (shapes []).reverse, functions := [⟨"main", 0, ⟨[], ["Square"]⟩⟩] } = false := by decide
example : accept { classes := shapes ["area"], functions := [⟨"main", 0, ⟨[], ["Square"]⟩⟩] } = true := by decide

end BlochVerif.Props.C10
