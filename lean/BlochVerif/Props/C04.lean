import BlochVerif.Sim.Tensor
/-!
# C04 — reset is local: the target goes to |0⟩, the other qubits' statistics are unchanged

`resetCore` is the body of `QasmSimulator::reset` (after the repair recorded in
known_findings.json: the pinned code projected onto the target's `|0⟩` subspace, i.e.
post-selected) with its uniform draw `r` explicit.  Reset is the channel "measure, discard the
outcome, flip if 1": branch `b` is taken with probability `p_b = ‖P_b ψ‖²` (`r < p₁` selects
`b = 1`, see C02) and ends in `resetSpec ψ q b`.
-/
namespace BlochVerif.Props.C04
open BlochVerif BlochVerif.Sim Finset

/-- the reduced density matrix of the qubits other than `q`, between rest-basis states `j`, `j'`
    (indices with bit `q` clear): `ρ(j,j') = Σ_b ψ(j + b·2^q) · conj ψ(j' + b·2^q)` -/
noncomputable def reducedRho (ψ : ℕ → ℂ) (q j j' : ℕ) : ℂ :=
  ψ j * (starRingEnd ℂ) (ψ j') + ψ (j ^^^ 2 ^ q) * (starRingEnd ℂ) (ψ (j' ^^^ 2 ^ q))

theorem massSpec_zero_amp (ψ : ℕ → ℂ) (N q : ℕ) (b : Bool) (h : massSpec ψ N q b = 0)
    (k : ℕ) (hk : k < N) (hb : k.testBit q = b) : ψ k = 0 := by
  unfold massSpec at h
  have := (Finset.sum_eq_zero_iff_of_nonneg (fun i _ => by
    split
    · exact Complex.normSq_nonneg _
    · exact le_refl _)).mp h k (mem_range.mpr hk)
  rw [if_pos hb] at this
  exact Complex.normSq_eq_zero.mp this

theorem weighted_branch (p : ℝ) (hp : 0 ≤ p) (x y : ℂ) (hx : p = 0 → x = 0) :
    (p : ℂ) * (x / ((Real.sqrt p : ℝ) : ℂ)) * (starRingEnd ℂ) (y / ((Real.sqrt p : ℝ) : ℂ)) =
      x * (starRingEnd ℂ) y := by
  by_cases h0 : p = 0
  · rw [hx h0]; simp
  · have hpos : 0 < p := lt_of_le_of_ne hp (Ne.symm h0)
    have hs : ((Real.sqrt p : ℝ) : ℂ) ≠ 0 := by
      rw [Complex.ofReal_ne_zero]; exact (Real.sqrt_pos.mpr hpos).ne'
    have hsq : ((Real.sqrt p : ℝ) : ℂ) * ((Real.sqrt p : ℝ) : ℂ) = (p : ℂ) := by
      rw [← Complex.ofReal_mul, Real.mul_self_sqrt hp]
    rw [map_div₀, Complex.conj_ofReal]
    field_simp
    rw [← hsq]; ring

/-- **Target in |0⟩, unentangled.** After reset every amplitude with the target bit set is zero,
    so the state is `|0⟩_q ⊗ φ`; it is again a unit `2^n` vector. -/
theorem reset_target_zero (st : State ℂ ℝ) (hw : WF st) (q : ℕ) (hq : q < st.n) (r : ℝ)
    (hr0 : 0 ≤ r) (hr1 : r < 1) :
    (∀ k, k < 2 ^ st.n → k.testBit q = true → (resetCore complexOps st q r).1.amps[k]! = 0) ∧
    WF (resetCore complexOps st q r).1 := by
  obtain ⟨_, _, _, h4, _⟩ := resetCore_spec st hw q hq r
  refine ⟨?_, WF_resetCore st hw q hq r hr0 hr1⟩
  intro k hk hb
  rw [h4 k hk]; unfold resetSpec; rw [if_pos hb]

/-- the branch taken and the resulting amplitudes, as a function of the draw -/
theorem reset_branches (st : State ℂ ℝ) (hw : WF st) (q : ℕ) (hq : q < st.n) (r : ℝ) :
    ((resetCore complexOps st q r).2 = true ↔ r < massSpec (absArr st.amps) (2 ^ st.n) q true) ∧
    ∀ k, k < 2 ^ st.n → (resetCore complexOps st q r).1.amps[k]! =
      resetSpec (absArr st.amps) (2 ^ st.n) q (resetCore complexOps st q r).2 k := by
  obtain ⟨h1, _, _, h4, _⟩ := resetCore_spec st hw q hq r
  refine ⟨by rw [h1]; simp, ?_⟩
  intro k hk; rw [h4 k hk, h1]

/-- **Locality.** Averaged over the reset's own random branch (branch `b` has probability
    `p_b = ‖P_b ψ‖²`), the reduced state of the remaining qubits is the one immediately before the
    reset — also when the target is entangled with them and has not been measured:
    `p₀·ρ_rest(post₀) + p₁·ρ_rest(post₁) = ρ_rest(ψ)`. -/
theorem reset_preserves_reduced_state (ψ : ℕ → ℂ) (n q : ℕ) (hq : q < n) (j j' : ℕ)
    (hj : j < 2 ^ n) (hj' : j' < 2 ^ n) (hb : j.testBit q = false) (hb' : j'.testBit q = false) :
    (massSpec ψ (2 ^ n) q false : ℂ) * reducedRho (resetSpec ψ (2 ^ n) q false) q j j' +
    (massSpec ψ (2 ^ n) q true : ℂ) * reducedRho (resetSpec ψ (2 ^ n) q true) q j j' =
      reducedRho ψ q j j' := by
  have hx : (j ^^^ 2 ^ q).testBit q = true := by rw [testBit_xor_two_pow_self, hb]; rfl
  have hx' : (j' ^^^ 2 ^ q).testBit q = true := by rw [testBit_xor_two_pow_self, hb']; rfl
  unfold reducedRho resetSpec
  simp only [hb, hb', hx, hx', Bool.false_eq_true, if_false, if_true, zero_mul, add_zero, map_zero,
    mul_zero]
  have e0 := weighted_branch (massSpec ψ (2 ^ n) q false) (massSpec_nonneg _ _ _ _) (ψ j) (ψ j')
    (fun h => massSpec_zero_amp ψ _ q false h j hj hb)
  have e1 := weighted_branch (massSpec ψ (2 ^ n) q true) (massSpec_nonneg _ _ _ _)
    (ψ (j ^^^ 2 ^ q)) (ψ (j' ^^^ 2 ^ q))
    (fun h => massSpec_zero_amp ψ _ q true h _ (xor_two_pow_lt hq hj) hx)
  rw [← mul_assoc, ← mul_assoc, e0, e1]

/-- the measurement flag of the target is cleared (reset makes a measured qubit usable again) and
    the log gains exactly one `reset` line -/
theorem reset_clears_flag_and_logs (st : State ℂ ℝ) (hw : WF st) (q : ℕ) (hq : q < st.n) (r : ℝ) :
    (resetCore complexOps st q r).1.measured = st.measured.setIfInBounds q false ∧
    (resetCore complexOps st q r).1.ops =
      (if st.logOps then st.ops ++ [QOp.reset q] else st.ops) :=
  ⟨(resetCore_spec st hw q hq r).2.2.2.2.1, (resetCore_spec st hw q hq r).2.2.2.2.2.1⟩

/-- the public `reset` (range check only: a measured qubit may be reset) runs the core -/
theorem reset_runs_core (st : State ℂ ℝ) (q : ℕ) (r : ℝ) (hq : q < st.n) :
    reset complexOps st q r = .ok ((resetCore complexOps st q r).1,
      if (resetCore complexOps st q r).2 then 1 else 0) :=
  reset_eq_core st q r hq

/-! Non-vacuity. -/
example : WF (allocate complexOps (allocate complexOps (State.init complexOps)).1).1 ∧
    (0 : ℕ) < (allocate complexOps (allocate complexOps (State.init complexOps)).1).1.n :=
  ⟨WF_allocate _ (WF_allocate _ WF_init), by simp [allocate_n, State.init]⟩

end BlochVerif.Props.C04
