import BlochVerif.Obj.Proofs
import BlochVerif.Life.Proofs
/-!
# C08 — object model: construction order, dispatch, overloads, statics, destruction

Theorems about `Obj.Model` (the mechanisms of the class runtime over linear hierarchies) for every
hierarchy, every class index and every candidate list.  `tools/props/c08.py` ties the model to the real
pipeline: programs rendered from random hierarchy/action descriptions must print exactly `programTrace`.
Generic specialisation is covered by the correspondence programs only (not modelled).
-/
namespace BlochVerif.Props.C08
open BlochVerif.Obj

/-- `k` is the most-derived class at or above `dyn` that declares the method -/
def IsMostDerivedOverride (h : Hier) (dyn k : Nat) : Prop :=
  k ≤ dyn ∧ h.ovr k = true ∧ ∀ j, k < j → j ≤ dyn → h.ovr j = false

/-- A virtual call runs the most-derived override of the receiver's *dynamic* class, whatever the
declared class of the variable it is called through. -/
theorem dispatch_most_derived (h : Hier) (stat dyn : Nat) :
    IsMostDerivedOverride h dyn (dispatchWho h stat dyn) :=
  ⟨vtableWho_le h dyn, vtableWho_ovr h dyn, fun j h1 h2 => vtableWho_max h dyn j h1 h2⟩

theorem most_derived_unique (h : Hier) (dyn k k' : Nat)
    (a : IsMostDerivedOverride h dyn k) (b : IsMostDerivedOverride h dyn k') : k = k' := by
  obtain ⟨a1, a2, a3⟩ := a
  obtain ⟨b1, b2, b3⟩ := b
  rcases Nat.lt_trichotomy k k' with hlt | heq | hgt
  · have := a3 k' hlt b1; simp_all
  · exact heq
  · have := b3 k hgt a1; simp_all

/-- `super.who()` written in class `impl` runs the version a `C_{impl-1}` object would run: it is resolved
from the base of the class that *declares* the calling method, never from the receiver's class. -/
theorem super_runs_base_version (h : Hier) (impl fuel : Nat) (hf : impl < fuel) (hs : h.sup impl = true) :
    whoChain h fuel impl = impl :: whoChain h fuel (findWho h (impl - 1)) ∧
    IsMostDerivedOverride h (impl - 1) (findWho h (impl - 1)) := by
  constructor
  · cases fuel with
    | zero => omega
    | succ f =>
      have hpos : impl ≠ 0 := by intro h0; subst h0; simp [Hier.sup] at hs
      have hlt : findWho h (impl - 1) < impl := by
        have := vtableWho_le h (impl - 1); rw [findWho_eq_vtableWho]; omega
      show (impl :: (if h.sup impl then whoChain h f (findWho h (impl - 1)) else [])) = _
      rw [if_pos hs, whoChain_fuel h f (f + 1) _ (by omega) (by omega)]
  · rw [findWho_eq_vtableWho]; exact dispatch_most_derived h 0 (impl - 1)

theorem no_super_stops (h : Hier) (impl fuel : Nat) (hf : impl < fuel) (hs : h.sup impl = false) :
    whoChain h fuel impl = [impl] := by
  cases fuel with
  | zero => omega
  | succ f => simp [whoChain, hs]

/-- the bodies run by one virtual call: strictly descending classes, each declaring the method, starting
at the dispatched class; in particular the chain terminates and never re-enters a body. -/
theorem who_chain_descends (h : Hier) (stat dyn : Nat) :
    let impl := dispatchWho h stat dyn
    (∃ rest, whoChain h (impl + 1) impl = impl :: rest) ∧
    (whoChain h (impl + 1) impl).Pairwise (· > ·) ∧
    ∀ x ∈ whoChain h (impl + 1) impl, h.ovr x = true :=
  ⟨whoChain_head h _ _ (Nat.lt_succ_self _), whoChain_pairwise h _ _,
   whoChain_all_ovr h _ _ (vtableWho_ovr h dyn)⟩

/-- Construction is base-first: the classes complete their (initialisers; body) in the order C0, C1, …, C_dyn,
each exactly once. -/
theorem construction_base_first (dyn : Nat) : ctorOrder dyn = List.range (dyn + 1) :=
  ctorOrder_eq_range dyn

/-- within one class the field initialisers precede the constructor body, and the body sees the
initialised field -/
theorem initialisers_before_body (h : Hier) (dyn a i : Nat) :
    ctorLines h dyn a i =
      [s!"init f{i}", s!"init h{i}", s!"ctor C{i} {a + (dyn - i)} {(h.getD i default).field}"] := rfl

/-- Destruction is derived-first: exactly the classes from C_dyn up to C0 that declare a destructor,
in descending order. -/
theorem destruction_derived_first (h : Hier) (dyn : Nat) :
    dtorOrder h dyn = ((List.range (dyn + 1)).reverse).filter (fun i => (h.getD i default).dtor) :=
  dtorOrder_eq h dyn

/-- One static slot per class: slot `i` changes only when an instance of `C_i` or of a subclass is
constructed (`+1`), or — for `C0` — when `bump()` (declared in `C0`) runs (`+100`); no action touches
another class's slot, and the number of slots never changes. -/
theorem static_slot_per_class (h : Hier) (s : St) (a : Action) (i : Nat) (hi : i < s.made.length) :
    (step h s a).1.made.length = s.made.length ∧
    (step h s a).1.made.getD i 0 = s.made.getD i 0 +
      (match a with
       | .new _ _ dyn _ => if i ≤ dyn then 1 else 0
       | .bump v => if (lookupVar s v).isSome ∧ i = 0 then 100 else 0
       | _ => 0) := by
  cases a with
  | new v st dy a' =>
    refine ⟨by simp [step, bumpMade_length], ?_⟩
    simpa [step] using bumpMade_getD s.made dy i hi
  | bump v =>
    simp only [step]
    cases hl : lookupVar s v with
    | none => simp
    | some p =>
      refine ⟨by simp [addAt_length], ?_⟩
      simpa using addAt_getD s.made 0 100 i hi
  | readRoot v => simp only [step]; cases lookupVar s v <;> simp
  | who v => simp only [step]; cases lookupVar s v <;> simp
  | call v => simp only [step]; cases lookupVar s v <;> simp
  | getf v => simp only [step]; cases lookupVar s v <;> simp
  | g arg => simp only [step]; cases pick (gCands h.length) [gArgTy arg] <;> simp
  | churn a' n => simp [step]
  | echoChurn n => simp [step]
  | drop v => simp only [step]; cases lookupVar s v <;> simp

/-- The selected overload is applicable and strictly cheaper than every other applicable candidate. -/
theorem overload_chosen_is_unique_cheapest (cands : List (List Ty)) (args : List Ty) (i : Nat)
    (hp : pick cands args = .chosen i) :
    ∃ b, (cands.map (paramsCost · args))[i]? = some (some b) ∧
      ∀ (j k : Nat), j ≠ i → (cands.map (paramsCost · args))[j]? = some (some k) → b < k := by
  have hinv := pickAux_spec args cands
  unfold pick at hp
  cases hr : pickAux args cands 0 none with
  | none => rw [hr] at hp; cases hp
  | some t =>
    obtain ⟨b, j, amb⟩ := t
    rw [hr] at hp hinv
    cases amb with
    | true => cases hp
    | false =>
      simp only [Pick.chosen.injEq] at hp
      subst hp
      simp only [PickInv] at hinv
      obtain ⟨h1, h2, _, h4⟩ := hinv
      refine ⟨b, h1, ?_⟩
      intro j' k hne hv
      have hle := h2 j' k hv
      rcases Nat.lt_or_eq_of_le hle with hlt | heq
      · exact hlt
      · subst heq
        have : false = true := h4.mpr ⟨j', hne, hv⟩
        cases this

/-- no overload is reported exactly when no candidate is applicable -/
theorem overload_none_iff (cands : List (List Ty)) (args : List Ty) :
    pick cands args = .none ↔ ∀ j : Nat, j < cands.length → (cands.map (paramsCost · args))[j]? = some none := by
  have hinv := pickAux_spec args cands
  unfold pick
  cases hr : pickAux args cands 0 none with
  | none => rw [hr] at hinv; simp only [PickInv] at hinv; simpa using hinv
  | some t =>
    obtain ⟨b, j, amb⟩ := t
    rw [hr] at hinv
    simp only [PickInv] at hinv
    have hjl : j < cands.length := by
      have := (List.getElem?_eq_some_iff.mp hinv.1).1; simpa using this
    constructor
    · intro hf; cases amb <;> cases hf
    · intro hall
      have := hall j hjl
      rw [hinv.1] at this; cases this

/-- an ambiguity is reported only when two different candidates tie at the minimal cost -/
theorem overload_ambiguous_has_tie (cands : List (List Ty)) (args : List Ty)
    (hp : pick cands args = .ambiguous) :
    ∃ (i j b : Nat), i ≠ j ∧ (cands.map (paramsCost · args))[i]? = some (some b) ∧
      (cands.map (paramsCost · args))[j]? = some (some b) ∧
      ∀ (j' k : Nat), (cands.map (paramsCost · args))[j']? = some (some k) → b ≤ k := by
  have hinv := pickAux_spec args cands
  unfold pick at hp
  cases hr : pickAux args cands 0 none with
  | none => rw [hr] at hp; cases hp
  | some t =>
    obtain ⟨b, j, amb⟩ := t
    rw [hr] at hp hinv
    cases amb with
    | false => cases hp
    | true =>
      simp only [PickInv] at hinv
      obtain ⟨h1, h2, _, h4⟩ := hinv
      obtain ⟨j', hne, hv⟩ := h4.mp trivial
      exact ⟨j', j, b, hne, hv, h1, h2⟩

/-- an argument of declared class `C_a` selects, among single-parameter class overloads, the nearest
ancestor: the cost is the inheritance distance, and a non-ancestor is inapplicable -/
theorem class_argument_cost (e a : Nat) :
    convCost (.cls e) (.cls a) = if e ≤ a then some (a - e) else none := by
  simp [convCost]

/-- a class reference never converts to a primitive parameter, nor a primitive to a class parameter -/
theorem class_never_matches_primitive (t : Ty) (a : Nat) (ht : ∀ e, t ≠ .cls e) :
    convCost t (.cls a) = none ∧ (t ≠ .null → convCost (.cls a) t = none) := by
  cases t <;> simp_all [convCost]

/-- Each generic instantiation has its own specialisation: the counter a `new Box<T>` reports is the number
of constructions so far *with the same type argument*, unaffected by the other instantiations. -/
theorem generic_specialisation_per_argument (seen : List Nat) (t : Nat) (ts : List Nat) :
    genRun seen (t :: ts) = toString (seen.count t + 1) :: genRun (seen ++ [t]) ts := by
  simp [genRun, List.count_append]

/-- constructions with a different type argument never move a specialisation's counter -/
theorem generic_other_arguments_inert (seen : List Nat) (t u : Nat) (hne : u ≠ t) :
    (seen ++ [u]).count t = seen.count t := by
  simp [List.count_append, List.count_cons, hne]

/-! ### non-vacuity: a three-level hierarchy where the middle class overrides and calls super -/
def exH : Hier := [⟨true, false, 3, true⟩, ⟨true, true, 5, false⟩, ⟨false, false, 2, true⟩]
example : dispatchWho exH 0 2 = 1 := by decide
example : whoChain exH 2 1 = [1, 0] := by decide
example : dtorOrder exH 2 = [2, 0] := by decide
example : pick (gCands 3) [.cls 2] = .chosen 4 ∧ pick (gCands 3) [.cls 1] = .chosen 3 := by decide
example : pick [[.cls 0], [.cls 0]] [.cls 1] = .ambiguous := by decide
example : pick [[.long], [.float]] [.int] = .chosen 0 := by decide

/-! ### lifetime: the destructor runs when, and only when, the last reference goes

`Life.Model` is the evaluator's shared-pointer discipline over arbitrary object graphs (fields `a`, `b`, any
aliasing, cycles included).  For every program of the heap language and every state it reaches: -/
open BlochVerif.Life in
/-- the stored count of every object whose destructor has not run is exactly the number of slots and fields of
live objects that reference it, and it is positive -/
theorem reference_count_is_exact (ops : List Gc.Op) (h : ∀ op ∈ ops, Life.Op.wf op) (x : Nat) (o : LObj)
    (hx : (runOps ops).heap[x]? = some o) (hd : o.dead = false) :
    o.rc = refs (runOps ops) x ∧ 1 ≤ o.rc := by
  obtain ⟨hi, hp⟩ := runOps_inv ops h
  have := hi.live x o hx hd
  exact ⟨by omega, hp x o hx hd⟩

open BlochVerif.Life in
/-- an object's destructor has run exactly when nothing references it any more: never while a variable or a
field of a live object still points to it, and always as soon as none does -/
theorem destructor_has_run_iff_unreferenced (ops : List Gc.Op) (h : ∀ op ∈ ops, Life.Op.wf op) (x : Nat) (o : LObj)
    (hx : (runOps ops).heap[x]? = some o) :
    o.dead = true ↔ refs (runOps ops) x = 0 := by
  obtain ⟨hi, hp⟩ := runOps_inv ops h
  constructor
  · intro hd; exact (hi.deadObj x o hx hd).2.2.1
  · intro hr
    cases hd : o.dead with
    | true => rfl
    | false =>
      have h1 := hi.live x o hx hd
      have h2 := hp x o hx hd
      omega

open BlochVerif.Life in
/-- a destroyed object holds nothing: its fields were released with it -/
theorem destroyed_object_released_its_fields (ops : List Gc.Op) (h : ∀ op ∈ ops, Life.Op.wf op) (x : Nat) (o : LObj)
    (hx : (runOps ops).heap[x]? = some o) (hd : o.dead = true) : o.a = none ∧ o.b = none := by
  obtain ⟨hi, _⟩ := runOps_inv ops h
  have := hi.deadObj x o hx hd
  exact ⟨this.1, this.2.1⟩

/-- releasing a reference prints one destructor line for each object that dies of it, and nothing else; nothing
comes back to life (so no destructor can run twice) -/
theorem one_destructor_line_per_death (fuel : Nat) (s : Life.St) (v : Option Nat) :
    (Life.release fuel s v).out.length + Life.liveCount (Life.release fuel s v) =
      s.out.length + Life.liveCount s := Life.release_lines fuel s v

/-- non-vacuity: a parent holding a child; dropping the parent destroys both, parent first -/
def exOps : List Gc.Op := [.new 0 1, .new 1 2, .seta 0 1, .null 1, .show 0, .null 0]
example : ∀ op ∈ exOps, Life.Op.wf op := by
  intro op h; simp [exOps] at h; rcases h with h | h | h | h | h | h <;> subst h <;> simp [Life.Op.wf]
example : ((Life.runOps exOps).heap.map (·.dead)) = [true, true] := by decide
example : ((Life.runOps (exOps.take 5)).heap.map (fun o => (o.rc, o.dead))) = [(1, false), (1, false)] := by decide

end BlochVerif.Props.C08
