import BlochVerif.Eval.Flags
import BlochVerif.Eval.Model
import BlochVerif.Eval.FlagsAgree
import BlochVerif.Eval.GateCall
import BlochVerif.Eval.Control
/-!
# C06 — a measured qubit cannot be operated on until reset

`Flags` is the evaluator's measured-flag machine; the theorems say that, for every history, an operation is
refused exactly when it touches a qubit whose last {declare, reset, measure} event was a measure.  The
evaluator model's guard (`ensureQubitActive`) is shown to be that machine's test.  The access-path clause
(variable, array element, parameter, object field) is about aliasing in the evaluator and is tied by the
correspondence run: exhaustive operation sequences rendered through every access path.
-/
namespace BlochVerif.Props.C06
open BlochVerif.Flags

theorem isMeasured_setFlag (m : List Bool) (q q' : Nat) (b : Bool) (hq : q < m.length) :
    isMeasured (setFlag m q' b) q = if q = q' then b else isMeasured m q := by
  unfold isMeasured setFlag
  by_cases h : q = q'
  · subst h; simp [hq]
  · simp [h, List.getElem?_set_ne (Ne.symm h)]

theorem setFlag_length (m : List Bool) (q : Nat) (b : Bool) : (setFlag m q b).length = m.length := by
  simp [setFlag]

theorem measureAll_some (qs : List Nat) : ∀ (m m' : List Bool), measureAll m qs = some m' →
    m'.length = m.length ∧ (∀ q, q < m.length → isMeasured m' q = if q ∈ qs then true else isMeasured m q) ∧
    (∀ q ∈ qs, isMeasured m q = false) := by
  induction qs with
  | nil => intro m m' h; simp [measureAll] at h; subst h; simp
  | cons q0 rest ih =>
    intro m m' h
    simp only [measureAll] at h
    split at h
    · cases h
    · rename_i hq0
      obtain ⟨hl, hf, ha⟩ := ih _ _ h
      rw [setFlag_length] at hl
      refine ⟨hl, ?_, ?_⟩
      · intro q hq
        rw [hf q (by rw [setFlag_length]; exact hq), isMeasured_setFlag _ _ _ _ hq]
        by_cases h1 : q ∈ rest <;> by_cases h2 : q = q0 <;> simp [h1, h2]
      · intro q hq
        rcases List.mem_cons.mp hq with rfl | hq
        · simpa using hq0
        · have := ha q hq
          by_cases hlt : q < m.length
          · rw [isMeasured_setFlag _ _ _ _ hlt] at this
            split at this
            · cases this
            · exact this
          · unfold isMeasured; simp [List.getD_eq_getElem?_getD, List.getElem?_eq_none (Nat.le_of_not_lt hlt)]

theorem measureAll_none (qs : List Nat) (hnd : qs.Nodup) : ∀ (m : List Bool), measureAll m qs = none →
    ∃ q ∈ qs, isMeasured m q = true := by
  induction qs with
  | nil => intro m h; simp [measureAll] at h
  | cons q0 rest ih =>
    intro m h
    simp only [measureAll] at h
    have hnd' := List.nodup_cons.mp hnd
    split at h
    · rename_i hq0; exact ⟨q0, List.mem_cons_self .., hq0⟩
    · obtain ⟨q, hq, hm⟩ := ih hnd'.2 _ h
      refine ⟨q, List.mem_cons_of_mem _ hq, ?_⟩
      have hne : q ≠ q0 := fun e => hnd'.1 (e ▸ hq)
      unfold isMeasured setFlag at hm
      rw [List.getD_eq_getElem?_getD, List.getElem?_set_ne (Ne.symm hne)] at hm
      simpa [isMeasured, List.getD_eq_getElem?_getD] using hm

/-- an accepted operation touched only usable qubits and updates the flags as the history prescribes -/
theorem step_accepts (m m' : List Bool) (op : Op) (h : step m op = some m') :
    m'.length = m.length ∧
    (∀ q, q < m.length → isMeasured m' q = (effect q op).getD (isMeasured m q)) ∧
    (∀ q ∈ touches op, isMeasured m q = false) := by
  cases op with
  | gate q0 =>
    simp only [step] at h
    split at h
    · cases h
    · cases h; rename_i hq; exact ⟨rfl, by simp [effect], by simpa [touches] using hq⟩
  | cx c t =>
    simp only [step] at h
    split at h
    · cases h
    · cases h; rename_i hq
      simp only [Bool.or_eq_true, not_or, Bool.not_eq_true] at hq
      exact ⟨rfl, by simp [effect], by simp [touches, hq.1, hq.2]⟩
  | measure q0 =>
    simp only [step] at h
    split at h
    · cases h
    · cases h; rename_i hq
      refine ⟨setFlag_length .., ?_, by simpa [touches] using hq⟩
      intro q hql
      rw [isMeasured_setFlag _ _ _ _ hql]
      by_cases e : q = q0
      · subst e; simp [effect]
      · simp [effect, e, Ne.symm e]
  | reset q0 =>
    simp only [step] at h
    cases h
    refine ⟨setFlag_length .., ?_, by simp [touches]⟩
    intro q hql
    rw [isMeasured_setFlag _ _ _ _ hql]
    by_cases e : q = q0
    · subst e; simp [effect]
    · simp [effect, e, Ne.symm e]
  | measureArr qs =>
    simp only [step] at h
    obtain ⟨hl, hf, ha⟩ := measureAll_some qs m m' h
    refine ⟨hl, ?_, by simpa [touches] using ha⟩
    intro q hql
    rw [hf q hql]
    by_cases e : q ∈ qs <;> simp [effect, e]

/-- a refused operation touches a qubit whose flag is set -/
theorem step_refuses (m : List Bool) (op : Op) (hwf : WFOp op) (h : step m op = none) :
    ∃ q ∈ touches op, isMeasured m q = true := by
  cases op with
  | gate q0 =>
    simp only [step] at h
    split at h
    · rename_i hq; exact ⟨q0, by simp [touches], hq⟩
    · cases h
  | cx c t =>
    simp only [step] at h
    split at h
    · rename_i hq
      simp only [Bool.or_eq_true] at hq
      rcases hq with hq | hq
      · exact ⟨c, by simp [touches], hq⟩
      · exact ⟨t, by simp [touches], hq⟩
    · cases h
  | measure q0 =>
    simp only [step] at h
    split at h
    · rename_i hq; exact ⟨q0, by simp [touches], hq⟩
    · cases h
  | reset q0 => simp [step] at h
  | measureArr qs =>
    simp only [step] at h
    exact measureAll_none qs hwf m h

theorem measuredBy_snoc (q : Nat) (init : Bool) (pre : List Op) (op : Op) :
    measuredBy q init (pre ++ [op]) = (effect q op).getD (measuredBy q init pre) := by
  simp [measuredBy, List.foldl_append]

/-- Main theorem, refusal side: the first refused operation touches a qubit whose last
{declare, reset, measure} event — in the history up to that point — was a measure. -/
theorem refusal_means_measured_and_not_reset (m0 : List Bool) (ops : List Op)
    (hwf : ∀ op ∈ ops, WFOp op) (hb : ∀ op ∈ ops, ∀ q ∈ touches op, q < m0.length) (k : Nat)
    (h : firstRefused m0 ops 0 = some k) :
    ∃ op q, ops[k]? = some op ∧ q ∈ touches op ∧ measuredBy q (isMeasured m0 q) (ops.take k) = true := by
  -- generalise over the already executed prefix
  suffices H : ∀ (rest pre : List Op) (m : List Bool), m.length = m0.length →
      (∀ q, q < m0.length → isMeasured m q = measuredBy q (isMeasured m0 q) pre) →
      (∀ op ∈ rest, WFOp op) → (∀ op ∈ rest, ∀ q ∈ touches op, q < m0.length) →
      ∀ k, firstRefused m rest pre.length = some k →
      ∃ op q, (pre ++ rest)[k]? = some op ∧ q ∈ touches op ∧
        measuredBy q (isMeasured m0 q) ((pre ++ rest).take k) = true by
    simpa using H ops [] m0 rfl (by intro q _; simp [measuredBy]) hwf hb k (by simpa using h)
  intro rest
  induction rest with
  | nil => intro pre m _ _ _ _ k h; simp [firstRefused] at h
  | cons op rest ih =>
    intro pre m hl hinv hwf hb k h
    simp only [firstRefused] at h
    cases hs : step m op with
    | none =>
      simp only [hs, Option.some.injEq] at h
      subst h
      obtain ⟨q, hq, hm⟩ := step_refuses m op (hwf op (List.mem_cons_self ..)) hs
      refine ⟨op, q, by simp, hq, ?_⟩
      have hql := hb op (List.mem_cons_self ..) q hq
      have htk : List.take pre.length (pre ++ op :: rest) = pre := by simp
      rw [htk, ← hinv q hql]
      exact hm
    | some m' =>
      simp only [hs] at h
      obtain ⟨hl', hf, _⟩ := step_accepts m m' op hs
      have := ih (pre ++ [op]) m' (by rw [hl', hl]) (by
          intro q hq
          rw [hf q (by rw [hl]; exact hq), measuredBy_snoc, hinv q hq])
        (fun o ho => hwf o (List.mem_cons_of_mem _ ho)) (fun o ho => hb o (List.mem_cons_of_mem _ ho)) k
        (by simpa using h)
      simpa [List.append_assoc] using this

/-- Main theorem, acceptance side: if nothing is refused, no operation ever touched a qubit whose last event
was a measure — a never-measured or reset qubit is never refused, and every measured one always is. -/
theorem no_refusal_means_every_touched_qubit_was_usable (m0 : List Bool) (ops : List Op)
    (hb : ∀ op ∈ ops, ∀ q ∈ touches op, q < m0.length)
    (h : firstRefused m0 ops 0 = none) :
    ∀ (k : Nat) (op : Op) (q : Nat), ops[k]? = some op → q ∈ touches op →
      measuredBy q (isMeasured m0 q) (ops.take k) = false := by
  suffices H : ∀ (rest pre : List Op) (m : List Bool), m.length = m0.length →
      (∀ q, q < m0.length → isMeasured m q = measuredBy q (isMeasured m0 q) pre) →
      (∀ op ∈ rest, ∀ q ∈ touches op, q < m0.length) →
      firstRefused m rest pre.length = none →
      ∀ (j : Nat) (op : Op) (q : Nat), rest[j]? = some op → q ∈ touches op →
        measuredBy q (isMeasured m0 q) (pre ++ rest.take j) = false by
    intro k op q hk hq
    simpa using H ops [] m0 rfl (by intro q _; simp [measuredBy]) hb (by simpa using h) k op q hk hq
  intro rest
  induction rest with
  | nil => intro pre m _ _ _ _ j op q hj; simp at hj
  | cons op0 rest ih =>
    intro pre m hl hinv hb h j op q hj hq
    simp only [firstRefused] at h
    cases hs : step m op0 with
    | none => simp [hs] at h
    | some m' =>
      simp only [hs] at h
      obtain ⟨hl', hf, ha⟩ := step_accepts m m' op0 hs
      cases j with
      | zero =>
        simp only [List.getElem?_cons_zero, Option.some.injEq] at hj
        subst hj
        have hql := hb op0 (List.mem_cons_self ..) q hq
        simp only [List.take_zero, List.append_nil]
        rw [← hinv q hql]
        exact ha q hq
      | succ j =>
        have := ih (pre ++ [op0]) m' (by rw [hl', hl]) (by
            intro q hq
            rw [hf q (by rw [hl]; exact hq), measuredBy_snoc, hinv q hq])
          (fun o ho => hb o (List.mem_cons_of_mem _ ho)) (by simpa using h) j op q (by simpa using hj) hq
        simpa [List.append_assoc] using this

/-! ### the evaluator model's guard is this test -/
open BlochVerif BlochVerif.Eval BlochVerif.Parse in
theorem guard_refuses_measured (st : EState) (idx : Nat) (p : P) (hi : idx < st.qubits.length)
    (hm : (st.qubits.getD idx default).measured = true) :
    (ensureQubitActive (idx : Int) p).run st = .error (.runtime p.line p.col "qubit has already been measured") := by
  simp [ensureQubitActive, ensureQubitExists, rtErr, StateT.run, bind, StateT.bind, get, getThe, MonadStateOf.get,
    StateT.get, pure, Except.pure, Except.bind, hi, hm, throw, throwThe, MonadExceptOf.throw, StateT.lift, liftM, monadLift, MonadLift.monadLift]
  have h1 : ¬ (((idx : Int) < 0) ∨ st.qubits.length ≤ idx) := by omega
  rw [if_neg h1]
  have hm' : (st.qubits[idx]?.getD default).measured = true := by
    simpa [List.getD_eq_getElem?_getD] using hm
  simp [StateT.pure, pure, Except.pure, hm', StateT.lift, bind, Except.bind, Except.map, Functor.map]

/-! ### whole-evaluator form: the flag the guard reads is the simulator's, in every reachable state

`Eval.Agree st`: the evaluator knows exactly the simulator's qubits and its measured flag of each equals the
simulator's.  Established at program start and preserved by every call of every function (the evaluator's induction
principle applied to the invariant, `Eval/FlagsAgree.lean`).  The guard consults the flag *by qubit index*, so the
access path — variable, array element, parameter — cannot matter. -/
open BlochVerif BlochVerif.Eval BlochVerif.Parse in
theorem flags_agree_at_program_start (prog : Program) (draws : List Float) (e l : Bool) :
    Agree (startState prog draws e l) :=
  ⟨rfl, rfl, fun i hi => by simp [startState, Sim.State.init] at hi⟩

open BlochVerif BlochVerif.Eval BlochVerif.Parse in
theorem flags_agree_after_every_call (fuel : Nat) (fn : FuncDecl) (args : List Value) (st st' : EState) (v : Value)
    (hi : Agree st) (h : (call fuel fn args).run st = .ok (v, st')) : Agree st' :=
  call_keeps_flags_in_agreement fuel fn args st st' v hi h

open BlochVerif BlochVerif.Eval BlochVerif.Parse in
/-- under agreement the evaluator's guard refuses a qubit exactly when the simulator holds it as measured -/
theorem guard_refuses_iff_simulator_flag (st : EState) (hi : Agree st) (idx : Nat) (p : P) (hl : idx < st.sim.n) :
    (ensureQubitActive (idx : Int) p).run st = .error (.runtime p.line p.col "qubit has already been measured") ↔
      st.sim.measured[idx]! = true := by
  have hlen : idx < st.qubits.length := by rw [hi.count]; exact hl
  constructor
  · intro h
    rw [← hi.same idx hl]
    cases hm : (st.qubits.getD idx default).measured with
    | true => rfl
    | false =>
      exfalso
      unfold ensureQubitActive ensureQubitExists at h
      have h1 : ¬ (((idx : Int) < 0) ∨ (st.qubits.length : Int) ≤ idx) := by omega
      simp only [run_bind', run_get, ebind_ok, run_ite, run_rtErr, run_pure, Bool.or_eq_true, decide_eq_true_eq, h1,
        if_false, ge_iff_le, Int.toNat_natCast, hm, Bool.false_eq_true] at h
      cases h
  · intro h
    exact guard_refuses_measured st idx p hlen (by rw [hi.same idx hl]; exact h)

open BlochVerif BlochVerif.Eval BlochVerif.Parse in
/-- **The simulator's own refusal is never reached.**  In a state where the flags agree — every state a program can
reach — a qubit reference that the evaluator's guard lets through (at the position of the call) is inside the register
and the simulator's guard accepts it too: the un-located "cannot operate on measured qubit" / "out of range" of the
simulator cannot be what a program sees after the located check has passed. -/
theorem guard_passes_implies_simulator_accepts (st st' : EState) (hi : Agree st) (idx : Int) (p : P)
    (h : (ensureQubitActive idx p).run st = .ok ((), st')) :
    st' = st ∧ 0 ≤ idx ∧ idx.toNat < st.sim.n ∧ Sim.ensureActive st.sim idx.toNat = .ok () := by
  unfold ensureQubitActive ensureQubitExists at h
  by_cases h1 : (idx < 0) ∨ (st.qubits.length : Int) ≤ idx
  · simp only [run_bind', run_get, ebind_ok, run_ite, run_rtErr, run_pure, Bool.or_eq_true, decide_eq_true_eq, h1,
      if_true, ge_iff_le, ebind_err] at h
    cases h
  · have hn : 0 ≤ idx := by omega
    have hlt : idx.toNat < st.sim.n := by rw [← hi.count]; omega
    cases hm : (st.qubits.getD idx.toNat default).measured with
    | true =>
      simp only [run_bind', run_get, ebind_ok, run_ite, run_rtErr, run_pure, Bool.or_eq_true, decide_eq_true_eq, h1,
        if_false, ge_iff_le, hm, if_true] at h
      cases h
    | false =>
      simp only [run_bind', run_get, ebind_ok, run_ite, run_rtErr, run_pure, Bool.or_eq_true, decide_eq_true_eq, h1,
        if_false, ge_iff_le, hm, Bool.false_eq_true] at h
      cases h
      refine ⟨rfl, hn, hlt, ?_⟩
      have hf : st.sim.measured[idx.toNat]! = false := by rw [← hi.same idx.toNat hlt]; exact hm
      unfold Sim.ensureActive
      rw [if_neg (by omega)]
      simp [hf]

open BlochVerif BlochVerif.Eval BlochVerif.Parse in
/-- **The life cycle of a measured qubit in the evaluator**, for every state and every access path (the guard and the three
operations take the qubit by index): (1) after a successful `measure q`, every further operation on `q` is refused with a
located runtime error — at whatever position it is attempted; (2) a built-in gate call — on any operands — leaves the
evaluator's flags exactly as they were, so neither a refusal nor a permission can be changed by operating on *other*
qubits; (3) after a successful `reset q` the guard lets `q` through again. -/
theorem measured_until_reset (st st' : EState) (q : Int) (p p' : P) :
    (∀ v, (measureQubit q p).run st = .ok (v, st') →
        (ensureQubitActive q p').run st' = .error (.runtime p'.line p'.col "qubit has already been measured")) ∧
    (∀ name argv, (applyBuiltin name argv p).run st = .ok ((), st') → st'.qubits = st.qubits) ∧
    ((resetQubit q p).run st = .ok ((), st') → (ensureQubitActive q p').run st' = .ok ((), st')) :=
  ⟨fun v h => measure_makes_unusable st st' q p p' v h,
   fun name argv h => gate_call_keeps_the_flags st st' name argv p h,
   fun h => reset_makes_usable st st' q p' (by
     -- `resetQubit` uses its position only in its own refusal, which a successful run did not take
     unfold resetQubit ensureQubitExists at h ⊢
     by_cases h1 : (q < 0) ∨ (st.qubits.length : Int) ≤ q
     · simp only [run_bind', run_get, ebind_ok, run_ite, run_rtErr, run_pure, Bool.or_eq_true, decide_eq_true_eq, h1,
         if_true, ge_iff_le, ebind_err] at h
       cases h
     · simp only [run_bind', run_get, ebind_ok, run_ite, run_rtErr, run_pure, Bool.or_eq_true, decide_eq_true_eq, h1,
         if_false, ge_iff_le] at h ⊢
       exact h)⟩

open BlochVerif BlochVerif.Eval BlochVerif.Parse in
/-- the register a whole run hands back — whatever the program, the draws, the switches and the fuel, normal end or error —
carries exactly one measured flag per qubit (the agreement invariant, read off at the end of `execute`) -/
theorem a_run_ends_with_one_flag_per_qubit (prog : Program) (draws : List Float) (e l : Bool) (fuel : Nat) :
    (execute prog draws e l fuel).sim.measured.size = (execute prog draws e l fuel).sim.n := by
  have h0 : Agree (startState prog draws e l) := flags_agree_at_program_start prog draws e l
  unfold execute
  dsimp only
  split
  · rfl
  · split
    · rename_i st hrun
      split at hrun
      · rename_i fn _
        obtain ⟨v, st1, h1, h2⟩ := run_bind_ok hrun
        rw [run_pure] at h2
        cases h2
        exact (flags_agree_after_every_call fuel fn [] _ _ v h0 h1).flags
      · rw [run_pure] at hrun
        cases hrun
        rfl
    · rfl

/-! ### non-vacuity -/
example : firstRefused [false, false] [.gate 0, .measure 0, .gate 1, .reset 0, .gate 0, .measureArr [0, 1], .cx 1 0] 0 = some 6 := by
  decide
example : measuredBy 0 false [.gate 0, .measure 0, .gate 1, .reset 0, .gate 0, .measureArr [0, 1]] = true := by decide

end BlochVerif.Props.C06
