import BlochVerif.Eval.Model
namespace BlochVerif.Props.C06
theorem placeholder : True := trivial
end BlochVerif.Props.C06
