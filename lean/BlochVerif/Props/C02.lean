import BlochVerif.Sim.Tensor
import BlochVerif.Eval.MeasureProofs
/-!
# C02 — measurement follows the Born rule and collapses to the normalised projection

`measureCore` is the body of `QasmSimulator::measure` with the uniform draw `r` made an explicit
input.  Theorems are over exact amplitudes (`ℂ`, `ℝ`); uniformity of the C++ generator and IEEE
rounding are assumptions (DESIGN.md §5).
-/
namespace BlochVerif.Props.C02
open BlochVerif BlochVerif.Sim Finset

/-- **Born rule, per draw.** The reported outcome is 1 exactly when the uniform draw falls below
    the squared norm of the component of the state in which the qubit is 1. -/
theorem outcome_iff_draw_below_born_probability (st : State ℂ ℝ) (hw : WF st) (q : ℕ) (r : ℝ) :
    (measureCore complexOps st q r).2 = true ↔ r < massSpec (absArr st.amps) (2 ^ st.n) q true := by
  rw [(measureCore_spec st hw q r).1]; simp

/-- the squared norms of the two components are probabilities: non-negative and summing to 1,
    so a draw uniform on `[0,1)` selects 1 with probability `‖P₁ψ‖²` -/
theorem born_probabilities (st : State ℂ ℝ) (hw : WF st) (q : ℕ) :
    0 ≤ massSpec (absArr st.amps) (2 ^ st.n) q true ∧
    0 ≤ massSpec (absArr st.amps) (2 ^ st.n) q false ∧
    massSpec (absArr st.amps) (2 ^ st.n) q true + massSpec (absArr st.amps) (2 ^ st.n) q false = 1 :=
  ⟨massSpec_nonneg _ _ _ _, massSpec_nonneg _ _ _ _, by rw [massSpec_add]; exact hw.norm⟩

/-- **Collapse.** After the measurement the state is exactly the normalised projection of the
    pre-measurement state onto the reported outcome, the projected component is non-zero, and
    the result is again a unit vector. -/
theorem collapse_is_normalised_projection (st : State ℂ ℝ) (hw : WF st) (q : ℕ) (r : ℝ)
    (hr0 : 0 ≤ r) (hr1 : r < 1) :
    0 < massSpec (absArr st.amps) (2 ^ st.n) q (measureCore complexOps st q r).2 ∧
    (∀ k, k < 2 ^ st.n → (measureCore complexOps st q r).1.amps[k]! =
      if k.testBit q = (measureCore complexOps st q r).2 then (absArr st.amps) k /
        ((Real.sqrt (massSpec (absArr st.amps) (2 ^ st.n) q (measureCore complexOps st q r).2) : ℝ) : ℂ)
      else 0) ∧
    WF (measureCore complexOps st q r).1 := by
  obtain ⟨h1, _, _, h4, _⟩ := measureCore_spec st hw q r
  refine ⟨?_, ?_, WF_measureCore st hw q r hr0 hr1⟩
  · rw [h1]; exact branch_pos _ _ _ hw.norm r hr0 hr1
  · intro k hk
    rw [h4 k hk, h1]; rfl

/-- the public `measure` (with the activity check) returns exactly the core's outcome as 0/1 -/
theorem measure_returns_core_outcome (st : State ℂ ℝ) (q : ℕ) (r : ℝ) (hq : q < st.n)
    (hm : st.measured[q]! = false) :
    measure complexOps st q r = .ok ((measureCore complexOps st q r).1,
      if (measureCore complexOps st q r).2 then 1 else 0) :=
  measure_eq_core st q r hq hm

theorem massSpec_congr (f g : ℕ → ℂ) (N q : ℕ) (b : Bool) (h : ∀ k, k < N → f k = g k) :
    massSpec f N q b = massSpec g N q b := by
  unfold massSpec
  apply Finset.sum_congr rfl
  intro k hk; rw [h k (mem_range.mp hk)]

/-- **An immediate re-read gives the same value**, whatever the second draw. -/
theorem remeasure_same (st : State ℂ ℝ) (hw : WF st) (q : ℕ) (r r' : ℝ)
    (hr0 : 0 ≤ r) (hr1 : r < 1) (hr0' : 0 ≤ r') (hr1' : r' < 1) :
    (measureCore complexOps (measureCore complexOps st q r).1 q r').2 =
      (measureCore complexOps st q r).2 := by
  obtain ⟨h1, h2, _, h4, _⟩ := measureCore_spec st hw q r
  have hw' := WF_measureCore st hw q r hr0 hr1
  rw [(measureCore_spec _ hw' q r').1, h2]
  have hp := branch_pos (absArr st.amps) (2 ^ st.n) q hw.norm r hr0 hr1
  rw [massSpec_congr (absArr (measureCore complexOps st q r).1.amps) _ _ q true (fun k hk => h4 k hk),
    massSpec_collapse _ _ _ _ true hp, h1]
  by_cases h : r < massSpec (absArr st.amps) (2 ^ st.n) q true
  · simp [h, hr1']
  · simp [h]; linarith

/-- **Correlated qubits agree.** If the state is supported on basis states where qubits `a` and
    `b` carry the same value, then after measuring `a` a measurement of `b` returns the same bit,
    whatever the second draw. -/
theorem correlated_qubits_agree (st : State ℂ ℝ) (hw : WF st) (a b : ℕ) (r r' : ℝ)
    (hr0 : 0 ≤ r) (hr1 : r < 1) (hr0' : 0 ≤ r') (hr1' : r' < 1)
    (hcorr : ∀ k, k < 2 ^ st.n → (absArr st.amps) k ≠ 0 → k.testBit a = k.testBit b) :
    (measureCore complexOps (measureCore complexOps st a r).1 b r').2 =
      (measureCore complexOps st a r).2 := by
  obtain ⟨h1, h2, _, h4, _⟩ := measureCore_spec st hw a r
  have hw' := WF_measureCore st hw a r hr0 hr1
  rw [(measureCore_spec _ hw' b r').1, h2]
  generalize hres : (measureCore complexOps st a r).2 = res at *
  -- the mass of `b ≠ res` in the post-state is 0
  have hz : massSpec (absArr (measureCore complexOps st a r).1.amps) (2 ^ st.n) b (!res) = 0 := by
    unfold massSpec
    apply Finset.sum_eq_zero
    intro k hk
    have hk' := mem_range.mp hk
    by_cases hb : k.testBit b = !res
    · rw [if_pos hb]
      have : (absArr (measureCore complexOps st a r).1.amps) k = 0 := by
        unfold absArr
        rw [h4 k hk', ← h1]
        unfold collapseSpec
        by_cases ha : k.testBit a = res
        · rw [if_pos ha]
          by_cases hne : (absArr st.amps) k = 0
          · simp [hne]
          · exfalso
            have := hcorr k hk' hne
            rw [ha, hb] at this
            cases res <;> simp at this
        · rw [if_neg ha]
      rw [this]; simp
    · rw [if_neg hb]
  have hsum := massSpec_add (absArr (measureCore complexOps st a r).1.amps) (2 ^ st.n) b
  have hn := hw'.norm
  rw [h2] at hn
  cases res
  · -- mass of b = true is 0
    simp only [Bool.not_false] at hz
    rw [hz]; simp; linarith
  · simp only [Bool.not_true] at hz
    have : massSpec (absArr (measureCore complexOps st a r).1.amps) (2 ^ st.n) b true = 1 := by
      linarith
    rw [this]; simp [hr1']

/-- the qubit is flagged as measured and the log gains exactly one `measure` line -/
theorem measure_marks_and_logs (st : State ℂ ℝ) (hw : WF st) (q : ℕ) (r : ℝ) :
    (measureCore complexOps st q r).1.measured = st.measured.setIfInBounds q true ∧
    (measureCore complexOps st q r).1.ops =
      (if st.logOps then st.ops ++ [QOp.measure q] else st.ops) :=
  ⟨(measureCore_spec st hw q r).2.2.2.2.1, (measureCore_spec st hw q r).2.2.2.2.2.1⟩

/-! Non-vacuity: a Bell-pair-capable register exists and is well-formed. -/
example : WF (allocate complexOps (allocate complexOps (State.init complexOps)).1).1 :=
  WF_allocate _ (WF_allocate _ WF_init)

end BlochVerif.Props.C02

/-! ## evaluator level: the returned bit, the stored value and the reported outcome agree -/
namespace BlochVerif.Props.C02
open BlochVerif BlochVerif.Eval BlochVerif.Parse

/-- The bit a measurement returns, the value remembered for the qubit, the outcome a `@tracked` qubit reports and the
outcome the simulator recorded are one and the same bit. -/
theorem measured_bit_is_stored_and_reported (q : Nat) (p : P) (st st' : EState) (v : Value)
    (hq : q < st.lastMeasurement.length)
    (h : (measureQubit (q : Int) p).run st = .ok (v, st')) :
    ∃ bit : Int, v = mkBit bit ∧ (bit = 0 ∨ bit = 1) ∧
      lastOf st'.lastMeasurement q = some bit ∧
      st'.outcomes.head? = some ('m', q, bit.toNat) ∧
      trackedOutcome st'.lastMeasurement { type := .Qubit, qubit := q } = some ("qubit ", if bit = 0 then "0" else "1") := by
  obtain ⟨bit, st0, st1, h1, h2, hv, hst⟩ := measureQubit_decompose (q : Int) p st st' v h
  have hs0 := ensureQubitActive_state (q : Int) p st st0 h1
  rw [hs0] at h2
  obtain ⟨hl, hqb, _, hbit, hout⟩ := simMeasure_spec (q : Int) st st1 bit h2
  have hlen : (q : Int) ≥ 0 ∧ (q : Int) < (markF (q : Int) st1).lastMeasurement.length := by
    constructor
    · exact Int.natCast_nonneg q
    · have : (markF (q : Int) st1).lastMeasurement = st1.lastMeasurement := by
        unfold markF; split <;> rfl
      rw [this, hl]; exact_mod_cast hq
  have hlm : st'.lastMeasurement = setNth (markF (q : Int) st1).lastMeasurement q bit := by
    rw [hst]; unfold setLastF
    simp [hlen.1, hlen.2]
  have hmo : st'.outcomes = ('m', q, bit.toNat) :: st.outcomes := by
    rw [hst]
    have : (setLastF (q : Int) bit (markF (q : Int) st1)).outcomes = st1.outcomes := by
      unfold setLastF markF; split <;> split <;> rfl
    rw [this, hout]; simp
  have hlast : lastOf st'.lastMeasurement q = some bit := by
    unfold lastOf
    have hlen' : q < st'.lastMeasurement.length := by
      rw [hlm]; simp [setNth]
      have : (markF (q : Int) st1).lastMeasurement = st1.lastMeasurement := by unfold markF; split <;> rfl
      rw [this, hl]; exact hq
    have hge : (q : Int) ≥ 0 := Int.natCast_nonneg q
    have hlt : (q : Int) < st'.lastMeasurement.length := by exact_mod_cast hlen'
    simp only [hge, hlt, decide_true, Bool.and_self, if_true]
    have hget : st'.lastMeasurement.getD q (-1) = bit := by
      rw [hlm]; simp [setNth]
      have : (markF (q : Int) st1).lastMeasurement = st1.lastMeasurement := by unfold markF; split <;> rfl
      rw [this, hl]; simp [hq]
    simp only [Int.toNat_natCast, hget]
    rcases hbit with h0 | h0 <;> simp [h0]
  refine ⟨bit, hv, hbit, hlast, by rw [hmo]; rfl, ?_⟩
  simp only [trackedOutcome, outcomeChar, hlast]
  rcases hbit with h0 | h0 <;> simp [h0]

end BlochVerif.Props.C02
