import BlochVerif.Gc.Model
namespace BlochVerif.Props.C11
theorem placeholder : True := trivial
end BlochVerif.Props.C11
