import BlochVerif.Life.Gc
import BlochVerif.Gc.Sim
/-!
# C11 — the cycle collector is unobservable under every schedule

About `Gc.Model`: the evaluator's mark-sweep collector over a heap of two-field objects, and a register
machine (program variables, callee locals, pending arguments / return values as root slots) that may be
interrupted by a collection before every primitive step.  The race-freedom clause of the property is not
a statement about this model; it is observed with ThreadSanitizer by `tools/props/c11.py` (PARTIAL).
-/
namespace BlochVerif.Props.C11
open BlochVerif.Gc

/-- The mark phase (depth-first, early exit on marked objects, recursion bounded by the heap size) marks
every object reachable from the roots. -/
theorem mark_reaches_everything_reachable (h : Heap) (hwf : WFHeap h) (roots : List Nat)
    (hr : ∀ r ∈ roots, r < h.length) (i : Nat) (hi : Reach h roots i) : i ∈ markRoots h roots :=
  mark_complete h hwf roots hr i hi

/-- An object still reachable from a variable, a field, a pending argument or a return value is never
cleared: a collection leaves every reachable object exactly as it was. -/
theorem collector_never_clears_reachable (h : Heap) (hwf : WFHeap h) (roots : List Nat)
    (hr : ∀ r ∈ roots, r < h.length) (i : Nat) (hi : Reach h roots i) :
    (collect h roots)[i]? = h[i]? :=
  sweep_get_marked h _ i (mark_complete h hwf roots hr i hi)

/-- and it never changes the number of objects or breaks well-formedness of references -/
theorem collector_preserves_shape (h : Heap) (hwf : WFHeap h) (roots : List Nat) :
    (collect h roots).length = h.length ∧ WFHeap (collect h roots) :=
  ⟨sweep_length h _, sweep_wf h _ hwf⟩

/-- Whenever and however often the collector runs — never, at every boundary, or at any subset of
boundaries — the program prints the same output. -/
theorem schedule_unobservable (sched : Nat → Bool) (ops : List Op) :
    runOps sched ops = runOps (fun _ => false) ops :=
  (exec_sim sched (ops.flatMap compile) 0 0 initSt initSt Sim.refl_init).out

theorem any_two_schedules_agree (s1 s2 : Nat → Bool) (ops : List Op) : runOps s1 ops = runOps s2 ops := by
  rw [schedule_unobservable s1, schedule_unobservable s2]

/-- the same at the level of arbitrary primitive programs and arbitrary related start states -/
theorem schedule_unobservable_prims (sched : Nat → Bool) (ps : List Prim) (k k' : Nat) (s1 s2 : St)
    (h : Sim s1 s2) : (exec sched k ps s1).out = (exec (fun _ => false) k' ps s2).out :=
  (exec_sim sched ps k k' s1 s2 h).out

/-! ### with destructors: reference counting and the collector together (`Life/Gc.lean`)

In `Life.Model` every object carries its reference count and dies — destructor line, then its fields are released —
when the count reaches zero; `Life.lcollect` clears the fields of what no slot reaches without touching any count (the
implementation parks references from garbage to live objects in `m_limbo`).  For every program of the heap language and
every schedule `Nat → Bool`: -/
theorem schedule_unobservable_with_destructors (sched : Nat → Bool) (ops : List Op) :
    (Life.runOpsS sched ops).out = (Life.runOps ops).out ∧
    Life.finalDestructors (Life.runOpsS sched ops) = Life.finalDestructors (Life.runOps ops) :=
  Life.schedule_unobservable_with_destructors sched ops

/-- a collection really clears cyclic garbage in this model too, and leaves its counts alone -/
example : (Life.lcollect { heap := [⟨1, some 1, none, 1, false⟩, ⟨2, some 0, none, 1, false⟩, ⟨3, none, none, 1, false⟩],
                            slots := [some 2], out := [] }).heap =
    [⟨1, none, none, 1, false⟩, ⟨2, none, none, 1, false⟩, ⟨3, none, none, 1, false⟩] := by decide

/-! ### non-vacuity: the collector does clear cyclic garbage, and programs do print -/
example : collect [⟨1, some 1, none⟩, ⟨2, some 0, none⟩, ⟨3, none, none⟩] [2] =
    [⟨1, none, none⟩, ⟨2, none, none⟩, ⟨3, none, none⟩] := by decide
example : collect [⟨1, some 1, none⟩, ⟨2, some 0, none⟩, ⟨3, none, some 0⟩] [2] =
    [⟨1, some 1, none⟩, ⟨2, some 0, none⟩, ⟨3, none, some 0⟩] := by decide
example : (exec (fun _ => true) 0 [.new 7 (-1), .new 8 (-2), .set .a 7 8, .set .a 8 7, .clr 7, .clr 8, .new 0 5] initSt).heap =
    [⟨-1, none, none⟩, ⟨-2, none, none⟩, ⟨5, none, none⟩] := by decide

end BlochVerif.Props.C11
