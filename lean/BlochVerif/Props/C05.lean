import BlochVerif.Eval.OpsLog
import BlochVerif.Generated.QasmLines
import BlochVerif.Sim.Qasm
import BlochVerif.Sim.Replay
/-!
# C05 — the emitted OpenQASM lists what was done, once, in order, and is well formed

About the simulator model (any scalar instance): every operation the simulator performs appends exactly
its own line to the log, a refused operation and an allocation append nothing, so after any history the
log is the list of performed operations in execution order (`log_is_history`); every logged operand is in
range of the final register and `cx` operands are distinct (`log_wellformed`).  The replay clause (an
independent OpenQASM interpreter reaches the simulator's final state): over exact complex amplitudes, declaring
the whole register first and then performing the logged operations with the same draws reaches exactly the state
of the interleaved run (`replay_reaches_the_same_state`, from `Sim/Replay.lean`: allocation commutes with every
performed operation).  What remains outside the theorem is the text level of the replay — six-decimal angles and
the parsing of the text — which the independent interpreter in `tools/qasmlib.py` decides on generated programs
(PARTIAL).
-/
namespace BlochVerif.Props.C05
open BlochVerif BlochVerif.Sim

variable {K R : Type} [Inhabited K] [Add K] [Mul K]

/-- the log line an operation contributes when it is performed in state `st` (nothing when refused) -/
def lineOf (o : ROps K R) (st : State K R) : HOp R → List (QOp R)
  | .alloc => []
  | .gate op =>
    match gateMat o op, gate1 o st op with
    | some _, .ok _ => [op]
    | _, _ => []
  | .cx c t => match cx st c t with | .ok _ => [.cx c t] | .error _ => []
  | .measure q r => match measure o st q r with | .ok _ => [.measure q] | .error _ => []
  | .reset q r => match reset o st q r with | .ok _ => [.reset q] | .error _ => []

/-- operands in range, `cx` on distinct qubits -/
def opOK (n : Nat) : QOp R → Prop
  | .h q | .x q | .y q | .z q | .rx q _ | .ry q _ | .rz q _ | .reset q | .measure q => q < n
  | .cx c t => c < n ∧ t < n ∧ c ≠ t

theorem opOK_mono {n m : Nat} (h : n ≤ m) (op : QOp R) (hk : opOK n op) : opOK m op := by
  cases op <;> simp only [opOK] at hk ⊢ <;> omega

theorem ensureActive_ok (st : State K R) (q : Nat) (h : ensureActive st q = .ok ()) : q < st.n := by
  unfold ensureActive at h
  split at h
  · cases h
  · omega

/-- one step: the log grows by exactly `lineOf`, logging stays on, the register never shrinks, and what was
logged is in range of the new register -/
theorem step_log (o : ROps K R) (st : State K R) (hl : st.logOps = true) (hop : HOp R) :
    (stepOp o st hop).ops = st.ops ++ lineOf o st hop ∧ (stepOp o st hop).logOps = true ∧
    st.n ≤ (stepOp o st hop).n ∧ ∀ l ∈ lineOf o st hop, opOK (stepOp o st hop).n l := by
  cases hop with
  | alloc => simp [stepOp, lineOf, allocate, hl]
  | gate op =>
    simp only [stepOp, lineOf]
    unfold gate1
    cases hg : gateMat o op with
    | none => simp [hl]
    | some qm =>
      obtain ⟨q, m⟩ := qm
      simp only
      cases he : ensureActive st q with
      | error e => simp [bind, Except.bind, hl]
      | ok u =>
        have hq := ensureActive_ok st q he
        simp only [bind, Except.bind, pure, Except.pure, State.log, hl, if_true]
        refine ⟨by simp, trivial, Nat.le_refl _, ?_⟩
        intro l hlm
        simp only [List.mem_singleton] at hlm
        subst hlm
        cases l <;> simp only [gateMat, Option.some.injEq, Prod.mk.injEq] at hg <;> try (cases hg)
        all_goals (simp only [opOK]; omega)
  | cx c t =>
    simp only [stepOp, lineOf]
    unfold cx
    cases hc : ensureActive st c with
    | error e => simp [bind, Except.bind, hl]
    | ok u =>
      cases ht : ensureActive st t with
      | error e => simp [bind, Except.bind, hl]
      | ok u' =>
        have h1 := ensureActive_ok st c hc
        have h2 := ensureActive_ok st t ht
        by_cases hct : c = t
        · simp [bind, Except.bind, hct, throw, throwThe, MonadExceptOf.throw, hl]
        · simp [bind, Except.bind, hct, pure, Except.pure, State.log, hl, opOK, h1, h2]
  | measure q r =>
    simp only [stepOp, lineOf]
    unfold Sim.measure
    cases hc : ensureActive st q with
    | error e => simp [bind, Except.bind, hl]
    | ok u =>
      have h1 := ensureActive_ok st q hc
      simp [bind, Except.bind, pure, Except.pure, measureCore, State.log, hl, opOK, h1]
  | reset q r =>
    simp only [stepOp, lineOf]
    unfold Sim.reset
    by_cases hq : q ≥ st.n
    · simp [hq, bind, Except.bind, throw, throwThe, MonadExceptOf.throw, hl]
    · simp [hq, bind, Except.bind, pure, Except.pure, resetCore, State.log, hl, opOK]
      omega

/-- the operations performed along a history, in execution order -/
def performed (o : ROps K R) : State K R → List (HOp R) → List (QOp R)
  | _, [] => []
  | st, hop :: rest => lineOf o st hop ++ performed o (stepOp o st hop) rest

/-- The log after any history is exactly the list of operations the simulator performed: each one once,
in execution order, nothing else. -/
theorem log_is_history (o : ROps K R) (h : List (HOp R)) (st : State K R) (hl : st.logOps = true) :
    (runOps o st h).ops = st.ops ++ performed o st h := by
  induction h generalizing st with
  | nil => simp [runOps, performed]
  | cons hop rest ih =>
    obtain ⟨h1, h2, _, _⟩ := step_log o st hl hop
    have := ih (stepOp o st hop) h2
    simp only [runOps, List.foldl_cons] at this ⊢
    rw [this, h1, performed, List.append_assoc]

theorem runOps_n_mono (o : ROps K R) (h : List (HOp R)) (st : State K R) (hl : st.logOps = true) :
    st.n ≤ (runOps o st h).n := by
  induction h generalizing st with
  | nil => simp [runOps]
  | cons hop rest ih =>
    obtain ⟨_, h2, h3, _⟩ := step_log o st hl hop
    have := ih (stepOp o st hop) h2
    simp only [runOps, List.foldl_cons] at this ⊢
    omega

/-- Every logged operand is in range of the final register and two-qubit gates act on distinct qubits. -/
theorem log_wellformed (o : ROps K R) (h : List (HOp R)) (st : State K R) (hl : st.logOps = true)
    (hst : ∀ l ∈ st.ops, opOK st.n l) : ∀ l ∈ (runOps o st h).ops, opOK (runOps o st h).n l := by
  induction h generalizing st with
  | nil => simpa [runOps] using hst
  | cons hop rest ih =>
    obtain ⟨h1, h2, h3, h4⟩ := step_log o st hl hop
    have := ih (stepOp o st hop) h2 (by
      intro l hlm
      rw [h1] at hlm
      rcases List.mem_append.mp hlm with hm | hm
      · exact opOK_mono h3 l (hst l hm)
      · exact h4 l hm)
    simpa [runOps] using this

/-- from the initial state: the whole program text is the header for the final register size followed by one
line per performed operation -/
theorem qasm_text_is_header_plus_history (o : ROps K R) (fmt : R → String) (h : List (HOp R)) :
    getQasm fmt (runOps o (State.init o true) h) =
      renderProgram (runOps o (State.init o true) h).n ((performed o (State.init o true) h).map (QOp.toText fmt)) := by
  unfold getQasm
  rw [log_is_history o h (State.init o true) rfl]
  simp [State.init]

end BlochVerif.Props.C05

/-! ## the replay clause -/
namespace BlochVerif.Props.C05
open BlochVerif.Sim

/-- Replaying the performed operations on a register declared up front (`qreg q[n]` with `n` the number of
allocations) with the same draws reaches the very state the simulation ended in — amplitudes, measured flags
and operation log. -/
theorem replay_reaches_the_same_state (h : List (HOp ℝ)) (hd : ∀ op ∈ h, DrawOK op)
    (hp : AllPerformed (State.init complexOps true) h) :
    runOps complexOps (State.init complexOps true) h =
      runOps complexOps (allocN (nAllocs h) (State.init complexOps true)) (opsOnly h) :=
  interleaved_allocation_equals_upfront h _ (WF_init' true) hd hp

/-- **Evaluator level.**  Whatever a program does — any function, any body, any fuel — the simulator's operation log,
from which the OpenQASM text is printed, is only extended at its end, and the logging switch is never touched: no emitted
line is ever retracted, reordered or rewritten (induction principle of the evaluator model, `Eval/OpsLog.lean`). -/
theorem a_program_only_appends_to_the_emitted_operations (fuel : Nat) (fn : Parse.FuncDecl) (args : List Eval.Value)
    (st st' : Eval.EState) (v : Eval.Value) (h : (Eval.call fuel fn args).run st = .ok (v, st')) :
    (∃ suf, st'.sim.ops = st.sim.ops ++ suf) ∧ st'.sim.logOps = st.sim.logOps :=
  Eval.call_only_extends_the_log fuel fn args st st' v h

end BlochVerif.Props.C05

/-! ## the text the model prints is the text the source prints (translator output, regenerated on every run) -/
namespace BlochVerif.Props.C05
open BlochVerif BlochVerif.Sim

/-- `Generated/QasmLines.lean` is rewritten on every run from the `m_ops.emplace_back(...)` of each simulator
operation and from `getQasm`; the line the model renders for an operation is that concatenation, piece for piece -/
theorem rendered_line_is_the_source_line {R : Type} (fmt : R → String) (op : QOp R) :
    (QOp.toText fmt op).render = Generated.logLineSrc fmt op := by
  cases op <;> rfl

/-- … and the whole text is the source's preamble followed by the logged lines in order -/
theorem qasm_text_is_the_source_concatenation {K R : Type} (fmt : R → String) (st : State K R) :
    getQasm fmt st = Generated.preambleSrc st.n ++ String.join (st.ops.map (Generated.logLineSrc fmt)) := by
  unfold getQasm renderProgram Generated.preambleSrc header
  have : (st.ops.map (QOp.toText fmt)).map TOp.render = st.ops.map (Generated.logLineSrc fmt) := by
    rw [List.map_map]
    exact List.map_congr_left (fun op _ => rendered_line_is_the_source_line fmt op)
  rw [this]
  simp only [String.append_assoc]

end BlochVerif.Props.C05
