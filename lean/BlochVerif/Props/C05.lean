import BlochVerif.Eval.Model
namespace BlochVerif.Props.C05
theorem placeholder : True := trivial
end BlochVerif.Props.C05
