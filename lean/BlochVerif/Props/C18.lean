import BlochVerif.Eval.Model
import BlochVerif.Eval.Draws
/-!
# C18 — shots are isolated

The evaluator model is a function of the program and the draws: a fresh `EState` is built from the
program for every execution, so nothing a shot did can reach the next one (`shots_are_independent_runs`).
The one channel the real evaluator has that the pure model has not is the shared `Program` tree: it writes
`ArrayType::size` back into the tree when the size is still unknown.  `SizeNode` models exactly that
write-back together with the analyser's constant folding, and `writeback_inert` shows the branch is dead on
every analysed declaration, so executing never alters the tree.  The tie to the C++ (including statics,
generic specialisations, qubit indices and tracked counts living in the per-shot evaluator) is the `shots`
harness command: one analysed `Program` executed N times against N fresh parse-analyse-run pipelines with
the same draws (PARTIAL: differential, bounded).
-/
namespace BlochVerif.Props.C18
open BlochVerif BlochVerif.Eval BlochVerif.Parse

/-- multi-shot mode: the same analysed program executed once per shot, each with its own draws -/
def runShots (prog : Program) (draws : List (List Float)) (echo : Bool) (fuel : Nat) : List RunResult :=
  draws.map (fun ds => execute prog ds echo true fuel)

/-- N fresh pipelines: `reparse k` is whatever parsing and analysing the source again yields for shot `k` -/
def runFresh (reparse : Nat → Program) (draws : List (List Float)) (echo : Bool) (fuel : Nat) : List RunResult :=
  draws.zipIdx.map (fun (ds, k) => execute (reparse k) ds echo true fuel)

/-- A multi-shot run equals independent fresh runs with the same draws, provided re-parsing yields the same
tree — i.e. provided analysing and executing never alter the shared tree, which is what
`writeback_inert` establishes for the only write the evaluator performs. -/
theorem shots_are_independent_runs (prog : Program) (reparse : Nat → Program) (hre : ∀ k, reparse k = prog)
    (draws : List (List Float)) (echo : Bool) (fuel : Nat) :
    runShots prog draws echo fuel = runFresh reparse draws echo fuel := by
  unfold runShots runFresh
  apply List.ext_getElem?
  intro i
  simp only [List.getElem?_map, List.getElem?_zipIdx]
  cases draws[i]? <;> simp [hre]

/-- the k-th shot's result depends on the program and on its own draws only -/
theorem shot_depends_on_own_draws_only (prog : Program) (d1 d2 : List (List Float)) (k : Nat)
    (h : d1[k]? = d2[k]?) (echo : Bool) (fuel : Nat) :
    (runShots prog d1 echo fuel)[k]? = (runShots prog d2 echo fuel)[k]? := by
  simp [runShots, h]

/-! ## the array-size write-back -/

/-- `ArrayType`: `size` (-1 = not known) and an optional size expression, abstracted to its constant value
when the analyser can fold it -/
structure SizeNode where
  size : Int
  /-- `none`: no size expression; `some none`: an expression that is not a compile-time constant;
  `some (some v)`: a constant expression of value `v` -/
  expr : Option (Option Int)
deriving DecidableEq, Repr

/-- `SemanticAnalyser::visit(VariableDeclaration&)`: fold the size expression into `size`, reject what is not
constant or is negative -/
def analyse (n : SizeNode) : Option SizeNode :=
  match n.expr with
  | some none => none
  | some (some v) => if v < 0 then none else some { n with size := v }
  | none => if n.size ≥ 0 || n.size = -1 then some n else none

/-- `exec(VariableDeclaration)`: `if (arr->size < 0 && arr->sizeExpression) arr->size = eval(sizeExpression)` -/
def execDecl (n : SizeNode) (evalSize : Int) : SizeNode :=
  if n.size < 0 && n.expr.isSome then { n with size := evalSize } else n

/-- On an analysed declaration the evaluator's write-back never fires: executing leaves the tree as it is,
whatever the run-time value of the size expression. -/
theorem writeback_inert (n n' : SizeNode) (h : analyse n = some n') (evalSize : Int) :
    execDecl n' evalSize = n' := by
  unfold analyse at h
  unfold execDecl
  cases he : n.expr with
  | none =>
    simp only [he] at h
    split at h
    · cases h; simp [he]
    · cases h
  | some e =>
    cases e with
    | none => simp [he] at h
    | some v =>
      simp only [he] at h
      split at h
      · cases h
      · cases h
        have : ¬ v < 0 := by assumption
        simp [this]

/-- analysing an analysed declaration again (an analyser instance reused, or the same tree analysed twice)
changes nothing -/
theorem analyse_idempotent (n n' : SizeNode) (h : analyse n = some n') : analyse n' = some n' := by
  unfold analyse at h ⊢
  cases he : n.expr with
  | none =>
    simp only [he] at h
    split at h
    · cases h; simp only [he]; simp_all
    · cases h
  | some e =>
    cases e with
    | none => simp [he] at h
    | some v =>
      simp only [he] at h
      split at h
      · cases h
      · cases h; simp only [he]; simp_all

example : analyse ⟨-1, some (some 3)⟩ = some ⟨3, some (some 3)⟩ ∧ execDecl ⟨3, some (some 3)⟩ 99 = ⟨3, some (some 3)⟩ := by
  decide
/-- without analysis the write-back does fire: the hypothesis of `writeback_inert` is needed -/
example : execDecl ⟨-1, some (some 3)⟩ 99 = ⟨99, some (some 3)⟩ := by decide

end BlochVerif.Props.C18

/-! ## the randomness a shot consumes is accounted for -/
namespace BlochVerif.Props.C18
open BlochVerif BlochVerif.Eval BlochVerif.Parse

/-- **Whatever a program does**, the draws a successful run consumes are taken from the front of its own list, one for each
measurement or reset record it adds and none otherwise: a shot cannot consume randomness without recording an outcome, record
an outcome without consuming a draw, or reach into another shot's draws (induction principle of the evaluator model,
`Eval/Draws.lean`).  The forced-draw correspondence runs rely on exactly this alignment. -/
theorem a_run_consumes_one_draw_per_recorded_outcome (fuel : Nat) (fn : FuncDecl) (args : List Value)
    (st st' : EState) (v : Value) (h : (call fuel fn args).run st = .ok (v, st')) :
    ∃ k pre, st'.draws = st.draws.drop k ∧ st'.outcomes = pre ++ st.outcomes ∧ pre.length = k :=
  call_pairs_draws_with_outcomes fuel fn args st st' v h

end BlochVerif.Props.C18
