import BlochVerif.Sim.Model
namespace BlochVerif.Props.C01
theorem placeholder : True := trivial
end BlochVerif.Props.C01
