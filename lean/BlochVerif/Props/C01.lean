import BlochVerif.Sim.Tensor
import BlochVerif.Eval.Model
import BlochVerif.Generated.GateMatrices
import BlochVerif.Generated.Builtins
/-!
# C01 — built-in gates act as their defining unitaries on exactly the addressed qubits

Property theorems only (helper lemmas live in `BlochVerif/Sim/*`).  The model is
`BlochVerif/Sim/Model.lean`, one definition per member function of `qasm_simulator.cpp` with
the same loops; the driver executes the *same* definitions with `Float` and is compared with
the real simulator after every operation.
-/
namespace BlochVerif.Props.C01
open BlochVerif BlochVerif.Sim Finset

/-- (loop level, any scalar type) the blocked double loop of `applySingleQubitGate` writes, at
    every index `k`, row `k_q` of `M` applied to the pair of amplitudes that differ in bit `q` -/
theorem applySingle_loop_correct {K : Type} [Inhabited K] [Add K] [Mul K]
    (arr : Array K) (n q : Nat) (m : Mat2 K) (hsize : arr.size = 2 ^ n) (hq : q < n) :
    (applySingle arr q m).size = arr.size ∧
    ∀ k, k < arr.size → (applySingle arr q m)[k]! = gateSpecX (absArr arr) q m k := by
  obtain ⟨h1, h2⟩ := applySingle_eq_gateSpec arr n q m hsize hq
  exact ⟨h1, fun k hk => by rw [h2 k hk, gateSpec_eq_gateSpecX]⟩

/-- (loop level, any scalar type) the triple loop of `cx` is the permutation
    `|x⟩ ↦ |x xor (x_c · 2^t)⟩`, for every ordered pair of distinct qubits -/
theorem cx_loop_correct {K : Type} [Inhabited K]
    (arr : Array K) (n c t : Nat) (hsize : arr.size = 2 ^ n) (hc : c < n) (ht : t < n)
    (hct : c ≠ t) :
    (cxLoop arr c t).size = arr.size ∧
    ∀ k, k < arr.size → (cxLoop arr c t)[k]! = (absArr arr) (if k.testBit c then k ^^^ 2 ^ t else k) :=
  cxLoop_eq_cxSpec arr n c t hsize hc ht hct

/-- **Single-qubit gates.** For every register size, every active qubit `q`, every gate of
    `h x y z rx ry rz` (any angle) and every state: the simulator accepts the call and the new
    state is `(I ⊗ … ⊗ M_q ⊗ … ⊗ I) ψ`, with `M` unitary. -/
theorem gate_acts_as_unitary_on_addressed_qubit (st : State ℂ ℝ) (hw : WF st) (op : QOp ℝ)
    (q : ℕ) (m : Mat2 ℂ) (hg : gateMat complexOps op = some (q, m)) (hq : q < st.n)
    (hm : st.measured[q]! = false) :
    ∃ st', gate1 complexOps st op = .ok st' ∧ st'.n = st.n ∧ st'.amps.size = 2 ^ st.n ∧
      IsUnitary2 m ∧
      ∀ k, k < 2 ^ st.n →
        st'.amps[k]! = ∑ j ∈ range (2 ^ st.n), tensorEntry q m k j * (absArr st.amps) j := by
  obtain ⟨a1, a2⟩ := applySingle_loop_correct st.amps st.n q m hw.size hq
  refine ⟨({ st with amps := applySingle st.amps q m }).log op, ?_, by simp, by simp [a1, hw.size],
    gateMat_unitary op q m hg, ?_⟩
  · unfold gate1; rw [hg]
    simp only [bind, Except.bind, ensureActive_ok st q hq hm, pure, Except.pure]
  · intro k hk
    simp only [log_amps]
    rw [a2 k (by rw [hw.size]; exact hk), gateSpecX_eq_tensor _ st.n q hq m k hk]

/-- **cx.** For every register size, every ordered pair of distinct active qubits and every state
    the new amplitude of `|k⟩` is the old amplitude of `|k with bit t flipped iff bit c set⟩`. -/
theorem cx_acts_as_controlled_not (st : State ℂ ℝ) (hw : WF st) (c t : ℕ) (hc : c < st.n)
    (ht : t < st.n) (hct : c ≠ t) (hmc : st.measured[c]! = false) (hmt : st.measured[t]! = false) :
    ∃ st', cx st c t = .ok st' ∧ st'.n = st.n ∧ st'.amps.size = 2 ^ st.n ∧
      ∀ k, k < 2 ^ st.n → st'.amps[k]! = (absArr st.amps) (cxMap c t k) := by
  obtain ⟨a1, a2⟩ := cx_loop_correct st.amps st.n c t hw.size hc ht hct
  refine ⟨({ st with amps := cxLoop st.amps c t }).log (.cx c t), ?_, by simp, by simp [a1, hw.size], ?_⟩
  · unfold cx
    simp only [bind, Except.bind, ensureActive_ok st c hc hmc, ensureActive_ok st t ht hmt,
      hct, if_false, pure, Except.pure]
  · intro k hk
    simp only [log_amps]
    rw [a2 k (by rw [hw.size]; exact hk)]; rfl

/-- `cxMap` flips bit `t` exactly when bit `c` is set and touches no other bit -/
theorem cxMap_bits (c t k i : ℕ) :
    (cxMap c t k).testBit i = (k.testBit i ^^ (decide (t = i) && k.testBit c)) := by
  unfold cxMap
  cases h : k.testBit c
  · simp
  · simp [Nat.testBit_xor, Nat.testBit_two_pow]

/-- **The seven matrices are the standard ones**: Paulis and Hadamard literally, rotations
    `R_P(t) = cos(t/2)·1 − i·sin(t/2)·P`, i.e. `exp(−i t P/2)` since `P² = 1`, with the
    one-parameter group law. -/
theorem matrices_are_standard (q : ℕ) (t : ℝ) :
    gateMat complexOps (.x q) = some (q, pauliX) ∧
    gateMat complexOps (.y q) = some (q, pauliY) ∧
    gateMat complexOps (.z q) = some (q, pauliZ) ∧
    gateMat complexOps (.h q) = some (q, hadamard) ∧
    gateMat complexOps (.rx q t) = some (q, rotOf pauliX t) ∧
    gateMat complexOps (.ry q t) = some (q, rotOf pauliY t) ∧
    gateMat complexOps (.rz q t) = some (q, rotOf pauliZ t) :=
  ⟨gate_x q, gate_y q, gate_z q, gate_h q, gate_rx q t, gate_ry q t, gate_rz q t⟩

theorem rotations_form_one_parameter_groups (s t : ℝ) :
    (matMul pauliX pauliX = ident ∧ matMul pauliY pauliY = ident ∧ matMul pauliZ pauliZ = ident) ∧
    (∀ p, matMul p p = ident → rotOf p 0 = ident ∧ matMul (rotOf p s) (rotOf p t) = rotOf p (s + t)) :=
  ⟨pauli_sq, fun p hp => ⟨rotOf_zero p, rotOf_add p hp s t⟩⟩

/-- on a computational basis state the gate writes column `x_q` of `M` onto factor `q` and leaves
    every other qubit of `|x⟩` as it was — this fixes the whole linear map -/
theorem gate_on_basis_state (q : ℕ) (m : Mat2 ℂ) (x k : ℕ) :
    gateSpecX (fun j => if j = x then (1 : ℂ) else 0) q m k =
      if agreeOff q k x then m.entry (k.testBit q) (x.testBit q) else 0 :=
  gateSpecX_basis q m x k

/-! Non-vacuity: a concrete two-qubit state meets the hypotheses. -/
example : WF (allocate complexOps (allocate complexOps (State.init complexOps)).1).1 ∧
    (1 : ℕ) < (allocate complexOps (allocate complexOps (State.init complexOps)).1).1.n :=
  ⟨WF_allocate _ (WF_allocate _ WF_init), by simp [allocate_n, State.init]⟩

end BlochVerif.Props.C01

/-! ## the model's gate table is the source's (translator output, regenerated on every run) -/
namespace BlochVerif.Props.C01
open BlochVerif BlochVerif.Sim

/-- `Generated/GateMatrices.lean` is rewritten on every run from the seven gate functions of `qasm_simulator.cpp`,
entry for entry; the matrices every theorem above speaks about are those: a changed entry in the source changes the
generated table and this stops checking. -/
theorem model_matrices_are_the_source_matrices {K R : Type} (o : ROps K R) (op : QOp R) :
    gateMat o op = Generated.gateMatSrc o op := by
  cases op <;> rfl

/-- `Generated/Builtins.lean` is rewritten on every run from `built_ins.cpp`: the names the evaluator model dispatches
are exactly the declared built-in gates, each is filed under its own name, returns nothing, takes a qubit first,
and the signatures are the documented ones. -/
theorem gate_signatures_are_the_documented_ones :
    Eval.builtinGates = Generated.builtinGateTable.map (·.1) ∧
    Generated.builtinGateTable.all (fun r => r.1 == r.2.1 && r.2.2.2 == "Void" && r.2.2.1.head? == some "Qubit") = true ∧
    Generated.builtinGateTable.map (fun r => (r.1, r.2.2.1)) =
      [("h", ["Qubit"]), ("x", ["Qubit"]), ("y", ["Qubit"]), ("z", ["Qubit"]),
       ("rx", ["Qubit", "Float"]), ("ry", ["Qubit", "Float"]), ("rz", ["Qubit", "Float"]), ("cx", ["Qubit", "Qubit"])] := by
  decide

end BlochVerif.Props.C01
