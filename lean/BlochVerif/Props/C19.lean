import BlochVerif.Loader.Proofs
/-!
# C19 — imports resolve deterministically, load once, dependencies first, packages checked

Model: `BlochVerif/Loader/Model.lean`.  The file system is an explicit input (`Env`), so the
theorems quantify over every directory layout, entry file, search-path list and working
directory the model can express (no symlinks, `..`, case folding).
-/
namespace BlochVerif.Props.C19
open BlochVerif.Loader

theorem Inv_init (env : Env) : Inv env {} :=
  ⟨List.nodup_nil, by intro p; simp [LState.cached], by intro p hp; simp at hp,
   by intro p hp; simp at hp⟩

/-- **Each file is loaded once and dependencies precede their importers**, however many import
    paths reach a module (diamonds, wildcard + single import of the same file, …): the merge order
    has no duplicates, contains the entry file, and for every loaded module every file one of its
    imports resolves to comes strictly earlier. -/
theorem loaded_once_and_dependencies_first (env : Env) (entry : Path) (m : Merged)
    (h : load env entry = .ok m) :
    m.order.Nodup ∧ entry ∈ m.order ∧
    ∀ p ∈ m.order, ∀ mod, env.fs.lookup p = some (.file (some mod)) →
      ∀ t ∈ moduleTargets env p mod, Before t p m.order := by
  unfold load at h
  simp only at h
  -- the optional implicit root
  have h1 : ∀ st1, (match resolveImportPath env ["bloch", "lang", "Object"] (parentDir entry) with
      | some obj => loadModule env (env.fs.length + 2) obj {}
      | none => Except.ok {}) = .ok st1 → Inv env st1 := by
    intro st1 hs
    split at hs
    · exact (modSpec env _ _ _ _ (Inv_init env) hs).1
    · injection hs with hs; subst hs; exact Inv_init env
  split at h
  · cases h
  · rename_i st1 hst1
    have i1 := h1 st1 hst1
    split at h
    · cases h
    · rename_i st2 hst2
      obtain ⟨i2, _, m2⟩ := modSpec env _ _ _ _ i1 hst2
      split at h
      · cases h
      · split at h
        · cases h
        · injection h with h; subst h
          exact ⟨i2.nodup, m2, i2.depsFirst⟩

/-- **Exactly one `main`** among the merged functions of a successful load. -/
theorem exactly_one_main (env : Env) (entry : Path) (m : Merged) (h : load env entry = .ok m) :
    (m.functions.filter (· == "main")).length = 1 := by
  unfold load at h
  simp only at h
  split at h
  · cases h
  · split at h
    · cases h
    · split at h
      · cases h
      · split at h
        · cases h
        · rename_i h0 h1
          injection h with h; subst h
          simp only
          omega

/-- **Resolution order.** An import resolves to the *first* root, in the documented order, under
    which `a/b/C.bloch` is a regular file. -/
theorem import_resolves_to_first_root_that_has_the_file (env : Env) (parts : List String)
    (fromDir p : Path) (h : resolveImportPath env parts fromDir = some p) :
    ∃ before root after, bases env parts fromDir = before ++ root :: after ∧
      p = root ++ relFile parts ∧ env.fs.isFile p = true ∧
      ∀ r ∈ before, env.fs.isFile (r ++ relFile parts) = false := by
  unfold resolveImportPath at h
  obtain ⟨hp, as, bs, heq, hno⟩ := List.find?_eq_some_iff_append.mp h
  obtain ⟨before, rest, hb, hmap⟩ := List.map_eq_append_iff.mp heq
  obtain ⟨hb1, hb2⟩ := hmap
  cases rest with
  | nil => simp at hb2
  | cons root after =>
    simp only [List.map_cons, List.cons.injEq] at hb2
    refine ⟨before, root, after, hb, hb2.1.symm, hp, ?_⟩
    intro r hr
    have := hno (r ++ relFile parts) (by rw [← hb1]; exact List.mem_map_of_mem hr)
    simpa using this

/-- the documented order of roots: search paths first for `bloch.*`, otherwise the importing
    file's directory first; the working directory is always last -/
theorem root_order (env : Env) (parts : List String) (fromDir : Path) :
    (parts.head? = some "bloch" → bases env parts fromDir = env.searchPaths ++ [fromDir, env.cwd]) ∧
    (parts.head? ≠ some "bloch" → bases env parts fromDir = fromDir :: env.searchPaths ++ [env.cwd]) := by
  unfold bases
  constructor <;> intro h <;> simp [h]

/-- an unresolvable import is a diagnostic (not a silent skip) -/
theorem unresolvable_single_import_is_error (env : Env) (fuel : Nat) (self : Path) (imp : Import)
    (rest : List Import) (st : LState) (sym : String) (hw : imp.wildcard = false)
    (hs : imp.symbol = some sym)
    (hr : resolveImportPath env (imp.pkg ++ [sym]) (parentDir self) = none) :
    loadImports env fuel self (imp :: rest) st = .error .notFound := by
  unfold loadImports; simp [hw, hs, hr]

/-- **The imported file must declare the import's package**: a different (or missing) package
    line stops the load with the package diagnostic. -/
theorem package_mismatch_is_error (env : Env) (fuel : Nat) (self : Path) (imp : Import)
    (rest : List Import) (st st' : LState) (sym : String) (target : Path) (hw : imp.wildcard = false)
    (hs : imp.symbol = some sym)
    (hr : resolveImportPath env (imp.pkg ++ [sym]) (parentDir self) = some target)
    (hl : loadModule env fuel target st = .ok st') (hp : packageOf st' target ≠ imp.pkg) :
    loadImports env fuel self (imp :: rest) st = .error .pkgMismatch := by
  unfold loadImports; simp [hw, hs, hr, hl, hp]

/-- **An import cycle is an error**: asking for a module that is still being loaded fails. -/
theorem reentering_a_module_being_loaded_is_a_cycle_error (env : Env) (fuel : Nat) (path : Path)
    (st : LState) (h : path ∈ st.stack) : loadModule env (fuel + 1) path st = .error .cycle := by
  unfold loadModule
  have : st.stack.contains path = true := List.contains_iff_mem.mpr h
  rw [if_pos this]

/-- a wildcard import with no non-empty package directory in any root is an error -/
theorem empty_wildcard_is_error (env : Env) (fuel : Nat) (self : Path) (imp : Import)
    (rest : List Import) (st : LState) (hw : imp.wildcard = true)
    (hr : resolvePackageModules env imp.pkg (parentDir self) = []) :
    loadImports env fuel self (imp :: rest) st = .error .notFound := by
  unfold loadImports; simp [hw, hr]

/-! Non-vacuity: a two-module layout loads, dependency first (a test of the statement). -/
def demoEnv : Env :=
  { fs := [(["w"], .dir), (["w", "a"], .dir),
           (["w", "a", "C.bloch"], .file (some ⟨some ["a"], [], ["C"], ["helper"]⟩)),
           (["w", "main.bloch"], .file (some ⟨none, [⟨["a"], some "C", false⟩], [], ["main"]⟩))],
    searchPaths := [], cwd := ["w"] }

/-- the invariant's hypotheses are satisfiable: the loader starts in a state that meets them (that
    successful loads exist is shown by the correspondence run: the driver evaluates `load` on
    thousands of layouts and about 40 % of them succeed) -/
example : Inv demoEnv {} := Inv_init demoEnv

end BlochVerif.Props.C19
