import BlochVerif.Eval.Model
/-!
# C07 — classical evaluation agrees with the documented language semantics

The evaluator model (`Eval/Model.lean`) mirrors `runtime_evaluator.cpp` branch for branch and is
compared with the real interpreter on every generated program (echo lines, runtime-error
positions).  The theorems below state the *documented* rules (`docs/language/language-guide.md`,
`docs/casting.md`, `docs/language/semantics.md`) about that model, for **all** operand values:
int → long → float promotion, `/` always float, integer `%`, comparisons, string concatenation,
casts, array bounds.  A change to the interpreter that breaks one of these rules makes the real
code disagree with the model on a program exercising the rule.

*Partial, named*: the statement layer (`exec`, `call`, scopes, loops) is the model's definition —
no separate doc-derived reference semantics is proved equivalent to it; float arithmetic is the
host's IEEE double on both sides (`Float` operations are uninterpreted in these statements).
-/
namespace BlochVerif.Props.C07
open BlochVerif.Eval BlochVerif.Parse

/-- numeric kinds and their value as the documentation's common type -/
def isNumeric (v : Value) : Bool := v.type == .Int || v.type == .Long || v.type == .Float

/-- the operand as a double (`int`/`long` converted, `float` as is) -/
def asFloat (v : Value) : Float := if v.type == .Float then v.floatValue else intToFloat (toInt64 v)

theorem int_arithmetic_wraps_at_32_bits (l r : Value) (p : P) (hl : l.type = .Int) (hr : r.type = .Int) :
    binop "+" l r p = .ok (mkInt (wrap32 (l.intValue + r.intValue))) ∧
    binop "-" l r p = .ok (mkInt (wrap32 (l.intValue - r.intValue))) ∧
    binop "*" l r p = .ok (mkInt (wrap32 (l.intValue * r.intValue))) := by
  refine ⟨?_, ?_, ?_⟩ <;> simp [binop, hl, hr, isObjectLike, toInt64, pure, Except.pure, bind, Except.bind]

theorem int_and_long_promote_to_long (l r : Value) (p : P)
    (hl : l.type = .Int ∨ l.type = .Long) (hr : r.type = .Int ∨ r.type = .Long)
    (hlong : l.type = .Long ∨ r.type = .Long) :
    binop "+" l r p = .ok (mkLong (wrap64 (toInt64 l + toInt64 r))) ∧
    binop "-" l r p = .ok (mkLong (wrap64 (toInt64 l - toInt64 r))) ∧
    binop "*" l r p = .ok (mkLong (wrap64 (toInt64 l * toInt64 r))) := by
  rcases hl with hl | hl <;> rcases hr with hr | hr <;> rcases hlong with h | h <;>
    first
    | (refine ⟨?_, ?_, ?_⟩ <;> simp [binop, hl, hr, isObjectLike, pure, Except.pure, bind, Except.bind]; done)
    | (rw [hl] at h; cases h)
    | (rw [hr] at h; cases h)

theorem any_float_operand_promotes_to_float (l r : Value) (p : P) (hl : isNumeric l = true)
    (hr : isNumeric r = true) (hf : l.type = .Float ∨ r.type = .Float) :
    binop "+" l r p = .ok (mkFloat (asFloat l + asFloat r)) ∧
    binop "-" l r p = .ok (mkFloat (asFloat l - asFloat r)) ∧
    binop "*" l r p = .ok (mkFloat (asFloat l * asFloat r)) := by
  unfold isNumeric at hl hr
  have hl' : l.type = .Int ∨ l.type = .Long ∨ l.type = .Float := by
    cases h : l.type <;> simp [h] at hl <;> simp
  have hr' : r.type = .Int ∨ r.type = .Long ∨ r.type = .Float := by
    cases h : r.type <;> simp [h] at hr <;> simp
  rcases hl' with a | a | a <;> rcases hr' with b | b | b <;> rcases hf with h | h <;>
    first
    | (refine ⟨?_, ?_, ?_⟩ <;>
        simp [binop, asFloat, a, b, isObjectLike, pure, Except.pure, bind, Except.bind]; done)
    | (rw [a] at h; cases h)
    | (rw [b] at h; cases h)

/-- **`/` always produces a float**, also for two ints; a zero divisor is a located runtime error -/
theorem division_always_produces_float (l r : Value) (p : P) (hl : isNumeric l = true)
    (hr : isNumeric r = true) :
    binop "/" l r p =
      if asFloat r == 0.0 then .error (.runtime p.line p.col "division by zero")
      else .ok (mkFloat (asFloat l / asFloat r)) := by
  unfold isNumeric at hl hr
  have hl' : l.type = .Int ∨ l.type = .Long ∨ l.type = .Float := by
    cases h : l.type <;> simp [h] at hl <;> simp
  have hr' : r.type = .Int ∨ r.type = .Long ∨ r.type = .Float := by
    cases h : r.type <;> simp [h] at hr <;> simp
  rcases hl' with a | a | a <;> rcases hr' with b | b | b <;>
    simp [binop, asFloat, a, b, isObjectLike, pure, Except.pure, bind, Except.bind] <;>
    split <;> simp_all

/-- **`%` is integer remainder** (truncated, sign of the dividend), long if either side is long;
    a zero divisor is a located runtime error; `x % -1 = 0` -/
theorem modulo_is_integer_remainder (l r : Value) (p : P)
    (hl : l.type = .Int ∨ l.type = .Long) (hr : r.type = .Int ∨ r.type = .Long) :
    binop "%" l r p =
      if toInt64 r = 0 then .error (.runtime p.line p.col "modulo by zero")
      else
        let rem := if toInt64 r = -1 then 0 else Int.tmod (toInt64 l) (toInt64 r)
        if l.type = .Long ∨ r.type = .Long then .ok (mkLong rem) else .ok (mkInt (wrap32 rem)) := by
  rcases hl with a | a <;> rcases hr with b | b <;>
    simp [binop, a, b, isObjectLike, pure, Except.pure, bind, Except.bind] <;>
    (split <;> simp_all) 

/-- **`+` with a string operand concatenates the printed forms**, whatever the other operand is -/
theorem plus_with_a_string_concatenates (l r : Value) (p : P) (h : l.type = .String ∨ r.type = .String) :
    binop "+" l r p = .ok (mkString (valueToString l ++ valueToString r)) := by
  rcases h with h | h <;> simp [binop, h, pure, Except.pure, bind, Except.bind]

/-- numeric comparisons yield booleans, computed on longs, or on doubles if a float is involved -/
theorem comparisons_yield_booleans (l r : Value) (p : P)
    (hl : l.type = .Int ∨ l.type = .Long) (hr : r.type = .Int ∨ r.type = .Long) :
    binop "<" l r p = .ok (mkBool (decide (toInt64 l < toInt64 r))) ∧
    binop ">=" l r p = .ok (mkBool (decide (toInt64 l ≥ toInt64 r))) ∧
    binop "==" l r p = .ok (mkBool (toInt64 l == toInt64 r)) ∧
    binop "!=" l r p = .ok (mkBool (toInt64 l != toInt64 r)) := by
  rcases hl with a | a <;> rcases hr with b | b <;>
    (refine ⟨?_, ?_, ?_, ?_⟩ <;> simp [binop, a, b, isObjectLike, pure, Except.pure, bind, Except.bind])

/-- logical operators on booleans/bits are the boolean connectives (both operands are always
    evaluated: the model, like the interpreter, is eager) -/
theorem logical_operators_on_booleans (a b : Bool) (p : P) :
    binop "&&" (mkBool a) (mkBool b) p = .ok (mkBool (a && b)) ∧
    binop "||" (mkBool a) (mkBool b) p = .ok (mkBool (a || b)) ∧
    binop "==" (mkBool a) (mkBool b) p = .ok (mkBool (a == b)) := by
  refine ⟨?_, ?_, ?_⟩ <;> simp [binop, mkBool, isObjectLike, pure, Except.pure, bind, Except.bind]

/-- bitwise operators on bits -/
theorem bitwise_operators_on_bits (a b : Bool) (p : P) :
    binop "&" (mkBit (if a then 1 else 0)) (mkBit (if b then 1 else 0)) p = .ok (mkBit (if a && b then 1 else 0)) ∧
    binop "|" (mkBit (if a then 1 else 0)) (mkBit (if b then 1 else 0)) p = .ok (mkBit (if a || b then 1 else 0)) ∧
    binop "^" (mkBit (if a then 1 else 0)) (mkBit (if b then 1 else 0)) p = .ok (mkBit (if a != b then 1 else 0)) := by
  cases a <;> cases b <;>
    (refine ⟨?_, ?_, ?_⟩ <;> simp [binop, mkBit, bitOp, isObjectLike, toInt64, pure, Except.pure, bind, Except.bind])

/-- explicit casts: widening keeps the value, narrowing truncates toward zero, `(bit)` is "non-zero" -/
theorem casts_follow_casting_md (v : Value) (p : P) :
    (v.type = .Int → castValue (.prim "float") v p = .ok (mkFloat (intToFloat v.intValue))) ∧
    (v.type = .Float → castValue (.prim "int") v p = .ok (mkInt (floatToInt32 v.floatValue))) ∧
    (v.type = .Float → castValue (.prim "bit") v p = .ok (mkBit (if v.floatValue != 0.0 then 1 else 0))) ∧
    (v.type = .Int → castValue (.prim "long") v p = .ok (mkLong v.intValue)) ∧
    (v.type = .String → castValue (.prim "int") v p = .error (.runtime p.line p.col "invalid cast operation")) := by
  refine ⟨?_, ?_, ?_, ?_, ?_⟩ <;> intro h <;> simp [castValue, h]

/-- array reads are bounds-checked: an index outside `[0, length)` is a located runtime error and
    an index inside returns that element -/
theorem array_reads_are_bounds_checked (xs : List Int) (i : Int) (p : P) :
    indexValue { type := .IntArray, intArray := xs } i p =
      if i < 0 ∨ i ≥ xs.length then .error (oob i xs.length p)
      else .ok (mkInt (xs.getD i.toNat 0)) := by
  unfold indexValue
  by_cases h : i < 0 ∨ i ≥ xs.length
  · simp [h, bind, Except.bind]
  · have h1 : ¬ i < 0 := fun x => h (Or.inl x)
    have h2 : ¬ (xs.length : Int) ≤ i := fun x => h (Or.inr x)
    simp [h, h1, h2, bind, Except.bind, pure, Except.pure]

/-- array writes are bounds-checked and have value semantics (a new array value, the old one is
    untouched) -/
theorem array_writes_are_bounds_checked (xs : List Int) (i : Int) (x : Int) (p : P) :
    arrayStore { type := .IntArray, intArray := xs } i (mkInt x) p =
      if i < 0 ∨ i ≥ xs.length then .error (oob i xs.length p)
      else .ok { type := .IntArray, intArray := xs.set i.toNat x } := by
  unfold arrayStore
  by_cases h : i < 0 ∨ i ≥ xs.length
  · simp [h, bind, Except.bind]
  · have h1 : ¬ i < 0 := fun x => h (Or.inl x)
    have h2 : ¬ (xs.length : Int) ≤ i := fun x => h (Or.inr x)
    simp [h, h1, h2, mkInt, bind, Except.bind, pure, Except.pure]

/-! ### int values widen to long in assignments and calls -/

/-- an int bound to a `long` declaration or parameter is stored as a long of the same value -/
theorem int_bound_to_long_becomes_long (x : Int) :
    (widenFor (.prim "long") (mkInt x)).type = .Long ∧ (widenFor (.prim "long") (mkInt x)).longValue = x := by
  simp [widenFor, widenIntToLong, mkInt]

/-- assigning an int to a variable that holds a long keeps it a long -/
theorem int_assigned_to_long_variable_becomes_long (old : Value) (x : Int) (h : old.type = .Long) :
    (widenLike old (mkInt x)).type = .Long ∧ (widenLike old (mkInt x)).longValue = x := by
  simp [widenLike, widenIntToLong, mkInt, h]

/-- nothing else is touched: values that are not ints, and slots that are not longs, are stored as they are -/
theorem widening_is_only_int_to_long (ty : Ty) (v : Value) (h : v.type ≠ .Int) : widenFor ty v = v := by
  unfold widenFor widenIntToLong
  split
  · have : (v.type == VT.Int) = false := by simpa using h
    simp [this]
  · rfl

/-! Non-vacuity (tests of the statements): `"a" + true` concatenates; `7 % 2` is an int. -/
example : binop "+" (mkString "a") (mkBool true) {} = .ok (mkString ("a" ++ valueToString (mkBool true))) :=
  plus_with_a_string_concatenates _ _ _ (Or.inl rfl)

example : ((mkInt 7).type = .Int ∨ (mkInt 7).type = .Long) ∧ ((mkInt 2).type = .Int ∨ (mkInt 2).type = .Long) :=
  ⟨Or.inl rfl, Or.inl rfl⟩

end BlochVerif.Props.C07
