import BlochVerif.Update.Proofs
import BlochVerif.Generated.UpdateConsts
/-!
# C20 — self-update: strictly newer only, exact checksum line, throttled notice

Model: `BlochVerif/Update/Model.lean` (decision logic of `update_manager.cpp`; the network result
and the clock are inputs).  Core-only proofs.
-/
namespace BlochVerif.Props.C20
open BlochVerif.Update

/-- lexicographic order on `(major, minor, patch)` -/
def tripleLt (a b : SemVer) : Prop :=
  a.major < b.major ∨ (a.major = b.major ∧ a.minor < b.minor) ∨
    (a.major = b.major ∧ a.minor = b.minor ∧ a.patch < b.patch)

def tripleEq (a b : SemVer) : Prop := a.major = b.major ∧ a.minor = b.minor ∧ a.patch = b.patch

/-- **Versions are compared numerically as triples.** On valid versions `compareSemVer` is exactly
    the lexicographic comparison of `(major, minor, patch)` in `ℕ³`. -/
theorem compare_is_triple_order (a b : SemVer) (ha : a.valid = true) (hb : b.valid = true) :
    (compareSemVer a b = -1 ↔ tripleLt a b) ∧ (compareSemVer a b = 0 ↔ tripleEq a b) ∧
    (compareSemVer a b = 1 ↔ tripleLt b a) := by
  unfold compareSemVer tripleLt tripleEq
  simp only [ha, hb, Bool.not_true, Bool.or_self, Bool.false_eq_true, if_false]
  (repeat' split) <;> omega

theorem compare_antisymm (a b : SemVer) : compareSemVer a b = - compareSemVer b a := by
  unfold compareSemVer
  by_cases ha : a.valid <;> by_cases hb : b.valid <;> simp only [ha, hb, Bool.not_true, Bool.not_false,
    Bool.or_self, Bool.or_true, Bool.true_or, Bool.false_eq_true, if_false, if_true, Int.neg_zero]
  (repeat' split) <;> omega

theorem tripleLt_trans (a b c : SemVer) (h1 : tripleLt a b) (h2 : tripleLt b c) : tripleLt a c := by
  unfold tripleLt at *; omega

theorem tripleLt_irrefl (a : SemVer) : ¬ tripleLt a a := by unfold tripleLt; omega

/-- **Parsing is numeric, not textual**: `[v]A.B.C<suffix>` parses to the numbers `(A, B, C)` for
    every `A B C ≤ INT_MAX` and every suffix that starts with neither a digit
    (so `1.10.0 > 1.9.0`). -/
theorem parse_numeric (a b c : Nat) (ha : a ≤ intMax) (hb : b ≤ intMax) (hc : c ≤ intMax)
    (suffix : List Char) (hs : startsNonDigit suffix) (v : Bool) :
    parseSemVer ((if v then ['v'] else []) ++ natDigits a ++ '.' :: (natDigits b ++ '.' :: (natDigits c ++ suffix))) =
      { major := a, minor := b, patch := c, valid := true } := by
  have core : parseFrom 3 (natDigits a ++ '.' :: (natDigits b ++ '.' :: (natDigits c ++ suffix))) SemVer.invalid =
      { major := a, minor := b, patch := c, valid := true } := by
    rw [parseFrom_step_dot 2 _ _ _ (natDigits_ne_nil a) (allDigits_natDigits a)
        (by rw [digitsVal_natDigits]; exact ha),
      parseFrom_step_dot 1 _ _ _ (natDigits_ne_nil b) (allDigits_natDigits b)
        (by rw [digitsVal_natDigits]; exact hb)]
    rw [digitsVal_natDigits, digitsVal_natDigits]
    -- third component: whatever follows is ignored
    cases suffix with
    | nil =>
      have := parseFrom_step_end 0 (natDigits c) [] ((SemVer.invalid.setIdx (2 - 2) a).setIdx (2 - 1) b)
        (natDigits_ne_nil c) (allDigits_natDigits c) trivial (by intro r h; cases h)
        (by rw [digitsVal_natDigits]; exact hc)
      rw [this, digitsVal_natDigits]; rfl
    | cons x xs =>
      by_cases hx : x = '.'
      · subst hx
        rw [parseFrom_step_dot 0 _ _ _ (natDigits_ne_nil c) (allDigits_natDigits c)
          (by rw [digitsVal_natDigits]; exact hc), parseFrom_done, digitsVal_natDigits]; rfl
      · have := parseFrom_step_end 0 (natDigits c) (x :: xs)
          ((SemVer.invalid.setIdx (2 - 2) a).setIdx (2 - 1) b) (natDigits_ne_nil c) (allDigits_natDigits c) hs
          (by intro r h; injection h with h1 _; exact hx h1) (by rw [digitsVal_natDigits]; exact hc)
        rw [this, digitsVal_natDigits]; rfl
  cases v
  · -- no prefix: the first character is a digit, not 'v'
    simp only [Bool.false_eq_true, if_false, List.nil_append]
    have hne := natDigits_ne_nil a
    have hd := allDigits_natDigits a
    cases hda : natDigits a with
    | nil => exact absurd hda hne
    | cons d ds =>
      have hdig : isDigit d = true := hd d (by rw [hda]; simp)
      have hv : d ≠ 'v' := by intro e; rw [e] at hdig; revert hdig; decide
      rw [hda] at core
      unfold parseSemVer
      simp only [List.cons_append]
      split
      · rename_i h; cases h
      · rename_i r h; injection h with h1 _; exact absurd h1 hv
      · exact core
  · simp only [if_true, List.cons_append, List.nil_append]
    unfold parseSemVer
    exact core

/-- missing components default to 0: `[v]A<suffix>` with a suffix starting with neither a digit
    nor a dot parses to `(A, 0, 0)` -/
theorem parse_single_component (a : Nat) (ha : a ≤ intMax) (suffix : List Char)
    (hs : startsNonDigit suffix) (hdot : ∀ r, suffix ≠ '.' :: r) :
    parseSemVer ('v' :: (natDigits a ++ suffix)) = { major := a, minor := 0, patch := 0, valid := true } := by
  show parseFrom 3 (natDigits a ++ suffix) SemVer.invalid = _
  have := parseFrom_step_end 2 (natDigits a) suffix SemVer.invalid (natDigits_ne_nil a)
    (allDigits_natDigits a) hs hdot (by rw [digitsVal_natDigits]; exact ha)
  rw [this, digitsVal_natDigits]; rfl

/-- a component beyond `INT_MAX` makes the version invalid — it is never an exception and
    never a wrapped-around number -/
theorem overflow_component_is_invalid (a : Nat) (ha : ¬ a ≤ intMax) (rest : List Char)
    (hs : startsNonDigit rest) :
    (parseSemVer ('v' :: (natDigits a ++ rest))).valid = false := by
  show (parseFrom 3 (natDigits a ++ rest) SemVer.invalid).valid = false
  rw [parseFrom_overflow 2 (natDigits a) rest SemVer.invalid (natDigits_ne_nil a)
    (allDigits_natDigits a) hs (by rw [digitsVal_natDigits]; exact ha)]
  rfl

/-- **Install / announce only a strictly newer release.** -/
theorem install_iff_strictly_newer (current latest : List Char) :
    decideUpdate current latest = .install ↔
      (parseSemVer current).valid = true ∧ (parseSemVer latest).valid = true ∧
        tripleLt (parseSemVer current) (parseSemVer latest) := by
  unfold decideUpdate
  simp only
  by_cases hc : (parseSemVer current).valid <;> by_cases hl : (parseSemVer latest).valid <;>
    simp only [hc, hl, Bool.not_true, Bool.not_false, Bool.or_self, Bool.or_true, Bool.true_or,
      Bool.false_eq_true, if_true, if_false, false_and, and_false, true_and, reduceCtorEq]
  obtain ⟨h1, h2, h3⟩ := compare_is_triple_order _ _ hc hl
  constructor
  · intro h
    split at h
    · cases h
    · rename_i hge
      apply h1.mp
      have : compareSemVer (parseSemVer current) (parseSemVer latest) = -1 ∨
          compareSemVer (parseSemVer current) (parseSemVer latest) = 0 ∨
          compareSemVer (parseSemVer current) (parseSemVer latest) = 1 := by
        unfold compareSemVer; simp only [hc, hl]; (repeat' split) <;> simp
      omega
  · intro h
    rw [if_neg]
    rw [h1.mpr h]; decide

/-- **'already latest' otherwise**, and **never act on a version that cannot be parsed**. -/
theorem decision_cases (current latest : List Char) :
    (decideUpdate current latest = .unparsable ↔
      ((parseSemVer current).valid = false ∨ (parseSemVer latest).valid = false)) ∧
    (decideUpdate current latest = .alreadyLatest ↔
      ((parseSemVer current).valid = true ∧ (parseSemVer latest).valid = true ∧
        ¬ tripleLt (parseSemVer current) (parseSemVer latest))) := by
  have hi := install_iff_strictly_newer current latest
  unfold decideUpdate at *
  simp only at *
  by_cases hc : (parseSemVer current).valid <;> by_cases hl : (parseSemVer latest).valid <;>
    simp only [hc, hl, Bool.not_true, Bool.not_false, Bool.or_self, Bool.or_true, Bool.true_or,
      Bool.false_eq_true, if_true, if_false, false_and, and_false, true_and, reduceCtorEq,
      or_self, or_true, true_or, false_or, or_false] at *
  split <;> simp_all

/-- the notice is printed only for a strictly newer, parsable release, and only when the previous
    notice is at least 72 h old -/
theorem notice_only_if_newer_and_due (latest current : List Char) (now : Int) (c : Cache)
    (h : (maybeNotice latest current now c).2 = true) :
    (parseSemVer current).valid = true ∧ (parseSemVer latest).valid = true ∧
      tripleLt (parseSemVer current) (parseSemVer latest) ∧ now - c.lastNotified ≥ window ∧
      (maybeNotice latest current now c).1.lastNotified = now := by
  unfold maybeNotice at *
  by_cases h0 : latest.isEmpty
  · simp [h0] at h
  · simp only [h0, Bool.false_eq_true, if_false] at h ⊢
    by_cases h1 : hasExpired c.lastNotified now
    · simp only [h1, Bool.not_true, Bool.false_eq_true, if_false] at h ⊢
      by_cases hc : (parseSemVer current).valid <;> by_cases hl : (parseSemVer latest).valid <;>
        simp only [hc, hl, Bool.not_true, Bool.not_false, Bool.or_self, Bool.or_true, Bool.true_or,
          Bool.false_eq_true, if_true, if_false] at h ⊢
      by_cases hge : compareSemVer (parseSemVer current) (parseSemVer latest) ≥ 0
      · simp [hge] at h
      · simp only [hge, if_false, true_and]
        refine ⟨?_, ?_, trivial⟩
        · apply (compare_is_triple_order _ _ hc hl).1.mp
          have : compareSemVer (parseSemVer current) (parseSemVer latest) = -1 ∨
              compareSemVer (parseSemVer current) (parseSemVer latest) = 0 ∨
              compareSemVer (parseSemVer current) (parseSemVer latest) = 1 := by
            unfold compareSemVer; simp only [hc, hl]; (repeat' split) <;> simp
          omega
        · unfold hasExpired at h1; simpa using h1
    · simp [h1] at h

/-- without a notice the cache is untouched -/
theorem no_notice_no_change (latest current : List Char) (now : Int) (c : Cache)
    (h : (maybeNotice latest current now c).2 = false) : (maybeNotice latest current now c).1 = c := by
  unfold maybeNotice at *
  by_cases h0 : latest.isEmpty
  · simp [h0]
  · simp only [h0, Bool.false_eq_true, if_false] at h ⊢
    by_cases h1 : hasExpired c.lastNotified now
    · simp only [h1, Bool.not_true, Bool.false_eq_true, if_false] at h ⊢
      by_cases hv : (!(parseSemVer current).valid || !(parseSemVer latest).valid) = true
      · simp [hv]
      · simp only [hv, if_false] at h ⊢
        by_cases hge : compareSemVer (parseSemVer current) (parseSemVer latest) ≥ 0
        · simp [hge]
        · simp [hge] at h
    · simp [h1]

/-- **Disabled by environment: never a notice, never a cache write.** -/
theorem disabled_never (file : Option Cache) (inv : Invocation) (h : inv.skip = true) :
    checkIfDue file inv = (file, 0) := by
  unfold checkIfDue; simp [h]

/-- **The checksum used is the one listed for exactly that asset name.** -/
theorem checksum_is_exact_line (content asset hash : List Char)
    (h : parseChecksum content asset = some hash) :
    ∃ line ∈ lines content, ∃ name rest,
      fields line = hash :: name :: rest ∧ stripStar name = asset := by
  unfold parseChecksum at h
  obtain ⟨line, hmem, hl⟩ := List.exists_of_findSome?_eq_some h
  refine ⟨line, hmem, ?_⟩
  unfold lineHash at hl
  split at hl
  · rename_i hh name rest heq
    split at hl
    · rename_i hname
      injection hl with hl; subst hl
      exact ⟨name, rest, heq, hname⟩
    · cases hl
  · cases hl

/-- and if no line lists exactly that asset there is no checksum (never a similarly named one) -/
theorem checksum_none_iff (content asset : List Char) :
    parseChecksum content asset = none ↔ ∀ line ∈ lines content, lineHash asset line = none := by
  unfold parseChecksum
  exact List.findSome?_eq_none_iff

/-- consecutive notice times are at least 72 h apart -/
def gapsOK : List Int → Prop
  | [] => True
  | [_] => True
  | a :: b :: r => b - a ≥ window ∧ gapsOK (b :: r)

theorem gapsOK_cons (a : Int) (l : List Int) (h1 : gapsOK l)
    (h2 : ∀ t, l.head? = some t → t - a ≥ window) : gapsOK (a :: l) := by
  cases l with
  | nil => trivial
  | cons b r => exact ⟨h2 b rfl, h1⟩

/-- **At most one notice per 72-hour window**, for every sequence of invocations (any clock
    readings, any fetch results, any current versions, any environment switches) over a cache file
    that only the updater writes: every invocation prints at most one notice, any two consecutive
    notices are at least 72 h apart, and the first one is at least 72 h after the time recorded in
    the cache file the sequence started from. -/
theorem notice_at_most_once_per_window (invs : List Invocation) (file : Option Cache) :
    gapsOK (runInvocations file invs) ∧
    (∀ c, file = some c → ∀ t, (runInvocations file invs).head? = some t →
      t - c.lastNotified ≥ window) := by
  induction invs generalizing file with
  | nil => exact ⟨trivial, by intro c _ t h; cases h⟩
  | cons inv rest ih =>
    unfold runInvocations
    simp only
    rcases checkIfDue_spec file inv with ⟨hk, hkeep⟩ | ⟨hk, ⟨c', hc', hn⟩, hgap⟩
    · rw [hk]
      simp only [List.replicate_zero, List.nil_append]
      obtain ⟨g, hfirst⟩ := ih (checkIfDue file inv).1
      refine ⟨g, ?_⟩
      intro c hc t ht
      obtain ⟨c2, hc2, hl⟩ := hkeep c hc
      rw [← hl]
      exact hfirst c2 hc2 t ht
    · rw [hk]
      simp only [List.replicate_one, List.singleton_append]
      obtain ⟨g, hfirst⟩ := ih (checkIfDue file inv).1
      refine ⟨gapsOK_cons _ _ g ?_, ?_⟩
      · intro t ht
        have := hfirst c' hc' t ht
        rw [hn] at this; exact this
      · intro c hc t ht
        simp only [List.head?_cons, Option.some.injEq] at ht
        rw [← ht]; exact hgap c hc

theorem at_most_one_notice_per_invocation (file : Option Cache) (inv : Invocation) :
    (checkIfDue file inv).2 ≤ 1 := by
  rcases checkIfDue_spec file inv with ⟨hk, _⟩ | ⟨hk, _⟩ <;> omega

/-! Non-vacuity: concrete instances (these are tests of the statements, not the theorems). -/
example : parseSemVer ['v', '1', '.', '1', '0', '.', '0'] = { major := 1, minor := 10, patch := 0, valid := true } := by decide
example : decideUpdate ['1', '.', '9', '.', '0'] ['v', '1', '.', '1', '0', '.', '0'] = .install := by decide
example : decideUpdate ['1', '.', '1', '0', '.', '0'] ['1', '.', '9', '.', '0'] = .alreadyLatest := by decide
example : decideUpdate ['1', '.', '0', '.', '0'] ['g', 'a', 'r'] = .unparsable := by decide
example : parseChecksum ['a', ' ', 'x', '.', 's', '\n', 'b', ' ', ' ', 'x', '\n'] ['x'] = some ['b'] := by decide

end BlochVerif.Props.C20

/-! ## the constants are the source's (translator output, regenerated on every run) -/
namespace BlochVerif.Props.C20
open BlochVerif BlochVerif.Update

/-- `Generated/UpdateConsts.lean` is rewritten on every run from `update_manager.cpp`: the model's notice window is
`kUpdateWindow` (72 hours), and the check is disabled by the presence of exactly the three documented variables -/
theorem window_and_switches_are_the_source_constants :
    window = (Generated.updateWindowSeconds : Int) ∧ Generated.updateWindowSeconds = 72 * 3600 ∧
      Generated.skipEnvNames = ["BLOCH_NO_UPDATE_CHECK", "CI", "BLOCH_OFFLINE"] := by
  decide

end BlochVerif.Props.C20
