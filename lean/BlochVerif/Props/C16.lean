import BlochVerif.Sem.Compat
import BlochVerif.Sem.Scope
/-!
# C16 — the declared-type rule is the same rule in every position

`Sem.Compat` mirrors the five places of the analyser where a value meets a declared type.  For every pair of
known types each of them rejects exactly the incompatible pairs — the "in every syntactic position, and only
there" statement for the type rule.  The other rules of the property (final, visibility, declaration order,
void, static/abstract, this/super, @quantum, @shots, null) are decided by the rule × position matrix of
`tools/semgen.py` on the real analyser (every violating program with its repaired twin); they are not
modelled (PARTIAL).
-/
namespace BlochVerif.Props.C16
open BlochVerif.Sem

/-- expected types are declared types: never `null` -/
def Declared (e : Ty) : Prop := e.wf = true ∧ e ≠ .null

theorem objArr_beq (i j : Nat) : (CName.objArr i == CName.objArr j) = (i == j) := by
  by_cases h : i = j
  · subst h; simp
  · have hne : CName.objArr i ≠ CName.objArr j := by intro e; injection e with e'; exact h e'
    have h1 : (CName.objArr i == CName.objArr j) = false := by simpa using hne
    have h2 : (i == j) = false := by simpa using h
    rw [h1, h2]

theorem lt_eq_not_le (i j : Nat) : decide (j < i) = !decide (i ≤ j) := by
  by_cases h : i ≤ j <;> simp [h] <;> omega

theorem dec_eq_beq (i j : Nat) : decide (i = j) = (i == j) := by
  by_cases h : i = j <;> simp [h]

macro "compat_simp" : tactic => `(tactic| ((try simp_all [Ty.wf, Ty.toTI, rejectsInit, rejectsAssign, rejectsFieldAssign,
  rejectsArg, rejectsReturn, compatible, isAssignable, matchesPrimitive, TI.hasName, TI.isArray, TI.isClassRef,
  TI.isUnknown, subclassOrSame, Ty.isPrim, objArr_beq, lt_eq_not_le, dec_eq_beq]) <;> try decide))

macro "compat_cases" e:ident a:ident hn:ident : tactic => `(tactic|
  (cases $e:ident with
   | prim p => cases $a:ident with
     | prim q => cases p <;> cases q <;> compat_simp
     | cls j => cases p <;> compat_simp
     | arr f => cases p <;> cases f <;> compat_simp
     | objArr j => cases p <;> compat_simp
     | null => cases p <;> compat_simp
   | cls i => cases $a:ident with
     | prim q => cases q <;> compat_simp
     | cls j => compat_simp
     | arr f => cases f <;> compat_simp
     | objArr j => compat_simp
     | null => compat_simp
   | arr x => cases $a:ident with
     | prim q => cases x <;> cases q <;> compat_simp
     | cls j => cases x <;> compat_simp
     | arr f => cases x <;> cases f <;> compat_simp
     | objArr j => cases x <;> compat_simp
     | null => cases x <;> compat_simp
   | objArr i => cases $a:ident with
     | prim q => cases q <;> compat_simp
     | cls j => compat_simp
     | arr f => cases f <;> compat_simp
     | objArr j => compat_simp
     | null => compat_simp
   | null => exact absurd rfl $hn:ident))

/-- `T v = init;` and field initialisers -/
theorem initialiser_enforces_the_rule (e a : Ty) (he : Declared e) (ha : a.wf = true) :
    rejectsInit e.toTI a.toTI = !compatible e a := by
  obtain ⟨hw, hn⟩ := he
  compat_cases e a hn

/-- `v = value;` on a declared variable -/
theorem assignment_enforces_the_rule (e a : Ty) (he : Declared e) (ha : a.wf = true) :
    rejectsAssign e.toTI a.toTI = !compatible e a := by
  obtain ⟨hw, hn⟩ := he
  compat_cases e a hn

/-- `f = value;`, `this.f = value;`, `obj.f = value;`, `Type.f = value;` -/
theorem field_assignment_enforces_the_rule (e a : Ty) (he : Declared e) (ha : a.wf = true) :
    rejectsFieldAssign e.toTI a.toTI = !compatible e a := by
  obtain ⟨hw, hn⟩ := he
  compat_cases e a hn

/-- arguments of functions, methods and constructors -/
theorem argument_enforces_the_rule (e a : Ty) (he : Declared e) (ha : a.wf = true) :
    rejectsArg e.toTI a.toTI = !compatible e a := by
  obtain ⟨hw, hn⟩ := he
  compat_cases e a hn

/-- `return value;` -/
theorem return_enforces_the_rule (e a : Ty) (he : Declared e) (ha : a.wf = true) :
    rejectsReturn e.toTI a.toTI = !compatible e a := by
  obtain ⟨hw, hn⟩ := he
  compat_cases e a hn

/-- consequently the five positions agree with each other on every pair of known types -/
theorem positions_agree (e a : Ty) (he : Declared e) (ha : a.wf = true) :
    rejectsInit e.toTI a.toTI = rejectsAssign e.toTI a.toTI ∧
    rejectsAssign e.toTI a.toTI = rejectsFieldAssign e.toTI a.toTI ∧
    rejectsFieldAssign e.toTI a.toTI = rejectsArg e.toTI a.toTI ∧
    rejectsArg e.toTI a.toTI = rejectsReturn e.toTI a.toTI := by
  rw [initialiser_enforces_the_rule e a he ha, assignment_enforces_the_rule e a he ha,
    field_assignment_enforces_the_rule e a he ha, argument_enforces_the_rule e a he ha,
    return_enforces_the_rule e a he ha]
  exact ⟨rfl, rfl, rfl, rfl⟩

/-- what the rule says, spelled out -/
theorem rule_spelled_out (e a : Ty) :
    compatible e a = true ↔
      (∃ p q, e = .prim p ∧ a = .prim q ∧ (p = q ∨ (p = .long ∧ q = .int))) ∨
      (∃ i j, e = .cls i ∧ a = .cls j ∧ i ≤ j) ∨
      (∃ i, e = .cls i ∧ a = .null) ∨
      (∃ x, e = .arr x ∧ a = .arr x) ∨
      (∃ i, e = .objArr i ∧ a = .objArr i) := by
  cases e <;> cases a <;> simp [compatible]
  · exact eq_comm
  · exact eq_comm

/-! ### non-vacuity -/
example : rejectsInit (Ty.prim .int).toTI (Ty.cls 0).toTI = true ∧ rejectsArg (Ty.cls 1).toTI (Ty.cls 0).toTI = true ∧
    rejectsReturn (Ty.cls 0).toTI (Ty.cls 1).toTI = false ∧ rejectsAssign (Ty.prim .long).toTI (Ty.prim .int).toTI = false := by
  decide

end BlochVerif.Props.C16

/-! ## declaration and `final` rules: the analyser's walk is the rule system, at every position -/
namespace BlochVerif.Props.C16
open BlochVerif.Sem

theorem checkExpr_sound (g : Scopes) : ∀ (e : SExpr), checkExpr g e = .ok () → WSExpr g e := by
  intro e
  induction e with
  | lit => intro _; exact .lit
  | var n =>
    intro h
    simp only [checkExpr] at h
    cases hl : lookupSym g n with
    | none => rw [hl] at h; cases h
    | some f => exact .var hl
  | assign n e ih =>
    intro h
    simp only [checkExpr] at h
    cases hl : lookupSym g n with
    | none => rw [hl] at h; cases h
    | some f =>
      cases f with
      | true => rw [hl] at h; cases h
      | false => rw [hl] at h; exact .assign hl (ih h)
  | post n =>
    intro h
    simp only [checkExpr] at h
    cases hl : lookupSym g n with
    | none => rw [hl] at h; cases h
    | some f =>
      cases f with
      | true => rw [hl] at h; cases h
      | false => exact .post hl
  | un e ih => intro h; simp only [checkExpr] at h; exact .un (ih h)
  | bin a b iha ihb =>
    intro h
    simp only [checkExpr] at h
    cases ha : checkExpr g a with
    | error er => rw [ha] at h; cases h
    | ok u => rw [ha] at h; exact .bin (iha ha) (ihb h)
  | store n i e ihi ihe =>
    intro h
    simp only [checkExpr] at h
    cases hl : lookupSym g n with
    | none => rw [hl] at h; cases h
    | some f =>
      rw [hl] at h
      cases hi : checkExpr g i with
      | error er => rw [hi] at h; cases h
      | ok u =>
        rw [hi] at h
        cases he : checkExpr g e with
        | error er => rw [he] at h; cases h
        | ok u2 =>
          rw [he] at h
          cases f with
          | true => simp at h
          | false => exact .store hl (ihi hi) (ihe he)

theorem checkExpr_complete {g : Scopes} {e : SExpr} (h : WSExpr g e) : checkExpr g e = .ok () := by
  induction h with
  | lit => rfl
  | var hl => simp [checkExpr, hl]
  | assign hl _ ih => simp [checkExpr, hl, ih]
  | post hl => simp [checkExpr, hl]
  | un _ ih => simp [checkExpr, ih]
  | bin _ _ iha ihb => simp [checkExpr, iha, ihb]
  | store hl _ _ ihi ihe => simp [checkExpr, hl, ihi, ihe]

theorem checkExpr_iff (g : Scopes) (e : SExpr) : checkExpr g e = .ok () ↔ WSExpr g e :=
  ⟨checkExpr_sound g e, checkExpr_complete⟩

theorem checkStmt_sound : ∀ (s : SStmt) (g g' : Scopes), checkStmt g s = .ok g' → WS g s g' := by
  intro s
  induction s with
  | skip => intro g g' h; simp only [checkStmt] at h; cases h; exact .skip
  | seq a b iha ihb =>
    intro g g' h
    simp only [checkStmt] at h
    cases ha : checkStmt g a with
    | error er => rw [ha] at h; cases h
    | ok g1 => rw [ha] at h; exact .seq (iha g g1 ha) (ihb g1 g' h)
  | scope s ih =>
    intro g g' h
    simp only [checkStmt] at h
    cases hs : checkStmt ([] :: g) s with
    | error er => rw [hs] at h; cases h
    | ok g1 => rw [hs] at h; cases h; exact .scope (ih _ g1 hs)
  | decl f n init =>
    intro g g' h
    simp only [checkStmt] at h
    cases hl : lookupSym g n with
    | some x => rw [hl] at h; cases h
    | none =>
      rw [hl] at h
      cases init with
      | none =>
        cases f with
        | true => simp at h
        | false => simp at h; cases h; exact .declNoInit hl
      | some e =>
        simp only [Option.isNone_some, Bool.and_false, Bool.false_eq_true, if_false] at h
        cases he : checkExpr g e with
        | error er => rw [he] at h; cases h
        | ok u => rw [he] at h; cases h; exact .declInit hl ((checkExpr_iff g e).mp he)
  | assign n e =>
    intro g g' h
    simp only [checkStmt] at h
    cases hl : lookupSym g n with
    | none => rw [hl] at h; cases h
    | some f =>
      cases f with
      | true => rw [hl] at h; cases h
      | false =>
        rw [hl] at h
        cases he : checkExpr g e with
        | error er => rw [he] at h; cases h
        | ok u => rw [he] at h; cases h; exact .assign hl ((checkExpr_iff g e).mp he)
  | expr e =>
    intro g g' h
    simp only [checkStmt] at h
    cases he : checkExpr g e with
    | error er => rw [he] at h; cases h
    | ok u => rw [he] at h; cases h; exact .expr ((checkExpr_iff g e).mp he)
  | ite c t e iht ihe =>
    intro g g' h
    simp only [checkStmt] at h
    cases hc : checkExpr g c with
    | error er => rw [hc] at h; cases h
    | ok u =>
      rw [hc] at h
      cases ht : checkStmt g t with
      | error er => rw [ht] at h; cases h
      | ok g1 => rw [ht] at h; exact .ite ((checkExpr_iff g c).mp hc) (iht g g1 ht) (ihe g1 g' h)
  | «while» c b ihb =>
    intro g g' h
    simp only [checkStmt] at h
    cases hc : checkExpr g c with
    | error er => rw [hc] at h; cases h
    | ok u => rw [hc] at h; exact .while ((checkExpr_iff g c).mp hc) (ihb g g' h)
  | «for» init c inc b ihi ihb =>
    intro g g' h
    simp only [checkStmt] at h
    cases hi : checkStmt ([] :: g) init with
    | error er => rw [hi] at h; dsimp only at h; cases h
    | ok g1 =>
      rw [hi] at h; dsimp only at h
      cases hc : checkExpr g1 c with
      | error er => rw [hc] at h; dsimp only at h; cases h
      | ok u =>
        rw [hc] at h; dsimp only at h
        cases hn : checkExpr g1 inc with
        | error er => rw [hn] at h; dsimp only at h; cases h
        | ok u' =>
          rw [hn] at h; dsimp only at h
          cases hb : checkStmt g1 b with
          | error er => rw [hb] at h; dsimp only at h; cases h
          | ok g2 =>
            rw [hb] at h; dsimp only at h; cases h
            exact .for (ihi _ g1 hi) ((checkExpr_iff g1 c).mp hc) ((checkExpr_iff g1 inc).mp hn) (ihb g1 g2 hb)
  | ternary c t e iht ihe =>
    intro g g' h
    simp only [checkStmt] at h
    cases hc : checkExpr g c with
    | error er => rw [hc] at h; cases h
    | ok u =>
      rw [hc] at h
      cases ht : checkStmt g t with
      | error er => rw [ht] at h; cases h
      | ok g1 => rw [ht] at h; exact .ternary ((checkExpr_iff g c).mp hc) (iht g g1 ht) (ihe g1 g' h)
  | echo e =>
    intro g g' h
    simp only [checkStmt] at h
    cases he : checkExpr g e with
    | error er => rw [he] at h; cases h
    | ok u => rw [he] at h; cases h; exact .echo ((checkExpr_iff g e).mp he)
  | ret e =>
    intro g g' h
    simp only [checkStmt] at h
    cases he : checkExpr g e with
    | error er => rw [he] at h; cases h
    | ok u => rw [he] at h; cases h; exact .ret ((checkExpr_iff g e).mp he)

theorem checkStmt_complete {g g' : Scopes} {s : SStmt} (h : WS g s g') : checkStmt g s = .ok g' := by
  induction h with
  | skip => rfl
  | seq _ _ iha ihb => simp only [checkStmt, iha, ihb]
  | scope _ ih => simp only [checkStmt, ih]
  | declInit hl he => simp [checkStmt, hl, (checkExpr_iff _ _).mpr he]
  | declNoInit hl => simp [checkStmt, hl]
  | assign hl he => simp [checkStmt, hl, (checkExpr_iff _ _).mpr he]
  | expr he => simp [checkStmt, (checkExpr_iff _ _).mpr he]
  | ite hc _ _ iht ihe => simp [checkStmt, (checkExpr_iff _ _).mpr hc, iht, ihe]
  | «while» hc _ ihb => simp [checkStmt, (checkExpr_iff _ _).mpr hc, ihb]
  | «for» _ hc hn _ ihi ihb => simp [checkStmt, ihi, (checkExpr_iff _ _).mpr hc, (checkExpr_iff _ _).mpr hn, ihb]
  | ternary hc _ _ iht ihe => simp [checkStmt, (checkExpr_iff _ _).mpr hc, iht, ihe]
  | echo he => simp [checkStmt, (checkExpr_iff _ _).mpr he]
  | ret he => simp [checkStmt, (checkExpr_iff _ _).mpr he]

/-- The analyser's walk accepts a statement exactly when the declaration and `final` rules hold at every
position in it — statement, nested expression, loop header, branch of a ternary statement, inner block. -/
theorem declaration_and_final_rules_enforced_everywhere_and_only_there (g g' : Scopes) (s : SStmt) :
    checkStmt g s = .ok g' ↔ WS g s g' :=
  ⟨checkStmt_sound s g g', checkStmt_complete⟩

/-! non-vacuity: a final written in a for-header update, and the same program with a plain variable -/
example : checkStmt [[]] (.seq (.decl true "k" (some .lit)) (.for (.decl false "i" (some .lit)) (.var "i") (.assign "k" .lit) .skip)) =
    .error (.finalWrite "k") := by
  simp [checkStmt, checkExpr, lookupSym, declareSym]
example : (checkStmt [[]] (.seq (.decl false "k" (some .lit)) (.for (.decl false "i" (some .lit)) (.var "i") (.assign "k" .lit) .skip))).isOk = true := by
  decide
example : checkStmt [[]] (.decl false "x" (some (.bin (.var "x") .lit))) = .error (.undeclared "x") := by
  simp [checkStmt, checkExpr, lookupSym]

end BlochVerif.Props.C16
