import BlochVerif.Sem.Compat
/-!
# C16 — the declared-type rule is the same rule in every position

`Sem.Compat` mirrors the five places of the analyser where a value meets a declared type.  For every pair of
known types each of them rejects exactly the incompatible pairs — the "in every syntactic position, and only
there" statement for the type rule.  The other rules of the property (final, visibility, declaration order,
void, static/abstract, this/super, @quantum, @shots, null) are decided by the rule × position matrix of
`tools/semgen.py` on the real analyser (every violating program with its repaired twin); they are not
modelled (PARTIAL).
-/
namespace BlochVerif.Props.C16
open BlochVerif.Sem

/-- expected types are declared types: never `null` -/
def Declared (e : Ty) : Prop := e.wf = true ∧ e ≠ .null

theorem objArr_beq (i j : Nat) : (CName.objArr i == CName.objArr j) = (i == j) := by
  by_cases h : i = j
  · subst h; simp
  · have hne : CName.objArr i ≠ CName.objArr j := by intro e; injection e with e'; exact h e'
    have h1 : (CName.objArr i == CName.objArr j) = false := by simpa using hne
    have h2 : (i == j) = false := by simpa using h
    rw [h1, h2]

theorem lt_eq_not_le (i j : Nat) : decide (j < i) = !decide (i ≤ j) := by
  by_cases h : i ≤ j <;> simp [h] <;> omega

theorem dec_eq_beq (i j : Nat) : decide (i = j) = (i == j) := by
  by_cases h : i = j <;> simp [h]

macro "compat_simp" : tactic => `(tactic| ((try simp_all [Ty.wf, Ty.toTI, rejectsInit, rejectsAssign, rejectsFieldAssign,
  rejectsArg, rejectsReturn, compatible, isAssignable, matchesPrimitive, TI.hasName, TI.isArray, TI.isClassRef,
  TI.isUnknown, subclassOrSame, Ty.isPrim, objArr_beq, lt_eq_not_le, dec_eq_beq]) <;> try decide))

macro "compat_cases" e:ident a:ident hn:ident : tactic => `(tactic|
  (cases $e:ident with
   | prim p => cases $a:ident with
     | prim q => cases p <;> cases q <;> compat_simp
     | cls j => cases p <;> compat_simp
     | arr f => cases p <;> cases f <;> compat_simp
     | objArr j => cases p <;> compat_simp
     | null => cases p <;> compat_simp
   | cls i => cases $a:ident with
     | prim q => cases q <;> compat_simp
     | cls j => compat_simp
     | arr f => cases f <;> compat_simp
     | objArr j => compat_simp
     | null => compat_simp
   | arr x => cases $a:ident with
     | prim q => cases x <;> cases q <;> compat_simp
     | cls j => cases x <;> compat_simp
     | arr f => cases x <;> cases f <;> compat_simp
     | objArr j => cases x <;> compat_simp
     | null => cases x <;> compat_simp
   | objArr i => cases $a:ident with
     | prim q => cases q <;> compat_simp
     | cls j => compat_simp
     | arr f => cases f <;> compat_simp
     | objArr j => compat_simp
     | null => compat_simp
   | null => exact absurd rfl $hn:ident))

/-- `T v = init;` and field initialisers -/
theorem initialiser_enforces_the_rule (e a : Ty) (he : Declared e) (ha : a.wf = true) :
    rejectsInit e.toTI a.toTI = !compatible e a := by
  obtain ⟨hw, hn⟩ := he
  compat_cases e a hn

/-- `v = value;` on a declared variable -/
theorem assignment_enforces_the_rule (e a : Ty) (he : Declared e) (ha : a.wf = true) :
    rejectsAssign e.toTI a.toTI = !compatible e a := by
  obtain ⟨hw, hn⟩ := he
  compat_cases e a hn

/-- `f = value;`, `this.f = value;`, `obj.f = value;`, `Type.f = value;` -/
theorem field_assignment_enforces_the_rule (e a : Ty) (he : Declared e) (ha : a.wf = true) :
    rejectsFieldAssign e.toTI a.toTI = !compatible e a := by
  obtain ⟨hw, hn⟩ := he
  compat_cases e a hn

/-- arguments of functions, methods and constructors -/
theorem argument_enforces_the_rule (e a : Ty) (he : Declared e) (ha : a.wf = true) :
    rejectsArg e.toTI a.toTI = !compatible e a := by
  obtain ⟨hw, hn⟩ := he
  compat_cases e a hn

/-- `return value;` -/
theorem return_enforces_the_rule (e a : Ty) (he : Declared e) (ha : a.wf = true) :
    rejectsReturn e.toTI a.toTI = !compatible e a := by
  obtain ⟨hw, hn⟩ := he
  compat_cases e a hn

/-- consequently the five positions agree with each other on every pair of known types -/
theorem positions_agree (e a : Ty) (he : Declared e) (ha : a.wf = true) :
    rejectsInit e.toTI a.toTI = rejectsAssign e.toTI a.toTI ∧
    rejectsAssign e.toTI a.toTI = rejectsFieldAssign e.toTI a.toTI ∧
    rejectsFieldAssign e.toTI a.toTI = rejectsArg e.toTI a.toTI ∧
    rejectsArg e.toTI a.toTI = rejectsReturn e.toTI a.toTI := by
  rw [initialiser_enforces_the_rule e a he ha, assignment_enforces_the_rule e a he ha,
    field_assignment_enforces_the_rule e a he ha, argument_enforces_the_rule e a he ha,
    return_enforces_the_rule e a he ha]
  exact ⟨rfl, rfl, rfl, rfl⟩

/-- what the rule says, spelled out -/
theorem rule_spelled_out (e a : Ty) :
    compatible e a = true ↔
      (∃ p q, e = .prim p ∧ a = .prim q ∧ (p = q ∨ (p = .long ∧ q = .int))) ∨
      (∃ i j, e = .cls i ∧ a = .cls j ∧ i ≤ j) ∨
      (∃ i, e = .cls i ∧ a = .null) ∨
      (∃ x, e = .arr x ∧ a = .arr x) ∨
      (∃ i, e = .objArr i ∧ a = .objArr i) := by
  cases e <;> cases a <;> simp [compatible]
  · exact eq_comm
  · exact eq_comm

/-! ### non-vacuity -/
example : rejectsInit (Ty.prim .int).toTI (Ty.cls 0).toTI = true ∧ rejectsArg (Ty.cls 1).toTI (Ty.cls 0).toTI = true ∧
    rejectsReturn (Ty.cls 0).toTI (Ty.cls 1).toTI = false ∧ rejectsAssign (Ty.prim .long).toTI (Ty.prim .int).toTI = false := by
  decide

end BlochVerif.Props.C16
