import BlochVerif.Lex.Proofs
import BlochVerif.Generated.Keywords
import BlochVerif.Lex.Operators
/-!
# C15 — the lexer is lossless and token positions are exact

Model: `BlochVerif/Lex/Model.lean` (one function per scanner of `lexer.cpp`).  The theorems hold
for *every* keyword table, so they hold for the table regenerated from the source on this run
(`BlochVerif/Generated/Keywords.lean`), which is what the driver executes.
-/
namespace BlochVerif.Props.C15
open BlochVerif.Lex

/-- **Lossless, with exact positions** (the structured statement): the accepted source is
    trivia/token/trivia/…/trivia, tokens stamped with the position of their first character. -/
theorem lexer_is_lossless_with_exact_positions (kw : List Char → Option TokenType) (src : List Char)
    (toks : List Token) (h : tokenize kw src = .ok toks) : Lexed ⟨1, 1⟩ src toks :=
  tokenize_lossless kw src toks h

theorem lexed_positions {p : Pos} {src : List Char} {toks : List Token} (hl : Lexed p src toks) :
    ∀ t ∈ toks, ∃ pre suf, src = pre ++ t.text ++ suf ∧ t.pos = posAfter p pre := by
  induction hl with
  | @eof p w _ =>
    intro t ht
    simp only [List.mem_singleton] at ht
    subst ht
    exact ⟨w, [], by simp, rfl⟩
  | @tok p w t rest ts _ _ hpos _ ih =>
    intro t' ht'
    simp only [List.mem_cons] at ht'
    rcases ht' with rfl | ht'
    · exact ⟨w, rest, rfl, hpos⟩
    · obtain ⟨pre, suf, h1, h2⟩ := ih t' ht'
      refine ⟨w ++ t.text ++ pre, suf, by rw [h1]; simp, ?_⟩
      rw [h2, ← posAfter_append]

/-- **Every token is where it says it is**: for each returned token there is a split
    `src = pre ++ text ++ suf` with the token's reported position equal to the position of the
    first byte after `pre`. -/
theorem every_token_sits_at_its_reported_position (kw : List Char → Option TokenType)
    (src : List Char) (toks : List Token) (h : tokenize kw src = .ok toks) :
    ∀ t ∈ toks, ∃ pre suf, src = pre ++ t.text ++ suf ∧ t.pos = posAfter ⟨1, 1⟩ pre :=
  lexed_positions (tokenize_lossless kw src toks h)

/-- the position function is the usual one: line = 1 + number of newlines before the byte -/
theorem reported_line_counts_newlines (pre : List Char) :
    (posAfter ⟨1, 1⟩ pre).line = 1 + pre.count '\n' := posAfter_line _ _

/-- … and column = 1 + number of bytes since the last newline -/
theorem reported_column_counts_from_last_newline (a b : List Char) (hb : ∀ c ∈ b, c ≠ '\n') :
    (posAfter ⟨1, 1⟩ (a ++ '\n' :: b)).col = 1 + b.length ∧
    (posAfter ⟨1, 1⟩ b).col = 1 + b.length := by
  refine ⟨posAfter_col_after_newline _ a b hb, ?_⟩
  rw [posAfter_no_nl _ b hb]; simp [Pos.advN]

/-- between tokens only whitespace and `//` comments are dropped, and what follows skipped
    trivia is the start of a token (not whitespace, not `//`) -/
theorem skipped_text_is_trivia (s : List Char) (p : Pos) :
    ∃ w, s = w ++ (skipWs s p).1 ∧ Triv false w ∧ (skipWs s p).2 = posAfter p w ∧
      StartsToken (skipWs s p).1 :=
  skipWsAux_spec false s p

/-- the lexer is total: on every input it returns tokens or exactly one lexical error, and extra
    fuel never changes the answer (so the fuel `length + 1` it is run with is enough) -/
theorem tokenize_total (kw : List Char → Option TokenType) (src : List Char) :
    (∃ toks, tokenize kw src = .ok toks) ∨ (∃ e, tokenize kw src = .error e) := by
  cases h : tokenize kw src with
  | ok t => exact Or.inl ⟨t, rfl⟩
  | error e => exact Or.inr ⟨e, rfl⟩

/-! Non-vacuity (a test of the statement on a multi-line string, with an empty keyword table). -/
example : tokenize (fun _ => none) ['"', 'a', '\n', 'b', '"', ' ', 'x'] =
    .ok [⟨.StringLiteral, ['"', 'a', '\n', 'b', '"'], ⟨1, 1⟩⟩, ⟨.Identifier, ['x'], ⟨2, 4⟩⟩, ⟨.Eof, [], ⟨2, 5⟩⟩] := by
  rfl

end BlochVerif.Props.C15

/-! ## the operator tokens are the source's (translator output, regenerated on every run) -/
namespace BlochVerif.Props.C15
open BlochVerif.Lex

/-- the model's operator scanner — which one- and two-character tokens exist, which second character extends which first,
in which order, with which text — is the `switch (c)` of `Lexer::scanToken` as the source has it now -/
theorem operator_scanner_is_the_source_switch (c : Char) (rest : List Char) :
    scanOp c rest = scanOpBy BlochVerif.Generated.operatorTable c rest :=
  scanOp_eq_table c rest

end BlochVerif.Props.C15
