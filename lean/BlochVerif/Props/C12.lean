import BlochVerif.Eval.Model
import BlochVerif.Eval.GateCall
/-!
# C12 — running an accepted program never crashes the interpreter

What a theorem about the evaluator *model* can carry: the operator layer is total, and whenever it refuses
an operation it does so with a runtime diagnostic located at the operator — in particular at the arithmetic
edge cases (division and modulo by zero, modulo by -1, wrap-around at the int/long boundaries) and at
out-of-range indices.  Memory safety of the C++ (no use after free, no raw C++ exception, no signal) is not a
property of the model: `tools/props/c12.py` observes it with an ASan+UBSan build on generated programs
(PARTIAL).
-/
namespace BlochVerif.Props.C12
open BlochVerif BlochVerif.Eval BlochVerif.Parse

/-- 32-bit wrap-around stays inside the int range: the model never produces an unrepresentable int -/
theorem wrap32_in_range (x : Int) : -2147483648 ≤ wrap32 x ∧ wrap32 x < 2147483648 := by
  simp only [wrap32]
  split <;> omega

theorem wrap64_in_range (x : Int) : -9223372036854775808 ≤ wrap64 x ∧ wrap64 x < 9223372036854775808 := by
  simp only [wrap64]
  split <;> omega

/-- modulo by zero is a located runtime error for every int operand, never a trap (the float comparison that
guards `/` is opaque to the kernel: division by zero is covered by the correspondence run only) -/
theorem modulo_by_zero_is_located (l : Value) (p : P) (hl : l.type = .Int) :
    binop "%" l (mkInt 0) p = .error (.runtime p.line p.col "modulo by zero") := by
  simp [binop, hl, mkInt, isObjectLike, toInt64]

/-- `x % -1` is defined (0) for every int, including the minimum, where the hardware instruction traps -/
theorem modulo_by_minus_one_is_zero (l : Value) (p : P) (hl : l.type = .Int) :
    binop "%" l (mkInt (-1)) p = .ok (mkInt 0) := by
  simp [binop, hl, mkInt, isObjectLike, toInt64, wrap32]
  rfl

theorem long_modulo_by_minus_one_is_zero (l : Value) (p : P) (hl : l.type = .Long) :
    binop "%" l (mkLong (-1)) p = .ok (mkLong 0) := by
  simp [binop, hl, mkLong, isObjectLike, toInt64]
  rfl

/-- every refusal of `x` is a runtime diagnostic located at `p` -/
def Loc {α : Type} (p : P) (x : Except RErr α) : Prop := ∀ e, x = .error e → ∃ msg, e = .runtime p.line p.col msg

theorem loc_pure {α : Type} {p : P} (v : α) : Loc p (pure v : Except RErr α) := by intro e h; cases h
theorem loc_ok {α : Type} {p : P} (v : α) : Loc p (.ok v : Except RErr α) := by intro e h; cases h
theorem loc_err {α : Type} {p : P} (m : String) : Loc p (.error (.runtime p.line p.col m) : Except RErr α) := by
  intro e h; injection h with h; exact ⟨m, h.symm⟩
theorem loc_ite {α : Type} {p : P} {c : Prop} [Decidable c] {a b : Except RErr α} (ha : Loc p a) (hb : Loc p b) :
    Loc p (if c then a else b) := by split <;> assumption
theorem loc_bind {α β : Type} {p : P} {x : Except RErr α} {f : α → Except RErr β} (hx : Loc p x) (hf : ∀ v, Loc p (f v)) :
    Loc p (x >>= f) := by
  intro e h
  cases x with
  | error e' => simp [bind, Except.bind] at h; subst h; exact hx e' rfl
  | ok v => exact hf v e h

/-- The binary-operator cascade never fails in any other way than a runtime diagnostic at the operator's
position — whatever the operator string and the operand values (extreme ints and longs, mixed kinds, references). -/
theorem binop_refusals_are_located (op : String) (l r : Value) (p : P) : Loc p (binop op l r p) := by
  unfold binop
  repeat' first
    | apply loc_ite
    | apply loc_bind
    | apply loc_pure
    | apply loc_ok
    | apply loc_err
    | intro _

macro "loc_tac" : tactic => `(tactic| repeat' first
    | apply loc_ite
    | apply loc_bind
    | apply loc_pure
    | apply loc_ok
    | apply loc_err
    | intro _)

theorem unop_refusals_are_located (op : String) (r : Value) (p : P) : Loc p (unop op r p) := by
  unfold unop
  loc_tac

theorem index_refusals_are_located (coll : Value) (i : Int) (p : P) : Loc p (indexValue coll i p) := by
  unfold indexValue
  simp only [oob]
  split <;> loc_tac

theorem store_refusals_are_located (arr : Value) (i : Int) (rhs : Value) (p : P) : Loc p (arrayStore arr i rhs p) := by
  unfold arrayStore
  simp only [oob]
  split <;> loc_tac

end BlochVerif.Props.C12

/-! ## quantum operations: the simulator's un-located refusals are unreachable -/
namespace BlochVerif.Props.C12
open BlochVerif BlochVerif.Eval BlochVerif.Parse

/-- In every state a program can reach (`Eval.Agree` is an invariant of every call: `Props/C06`), a built-in gate call,
a measurement and a reset either succeed or stop with a runtime diagnostic **at the position of the operation**: the
simulator's own checks, which know no source position, can never be what the user sees, because the evaluator's
located guard refuses first and the simulator accepts whatever the guard has let through. -/
theorem quantum_operations_fail_only_with_located_diagnostics (st : EState) (hi : Agree st) (p : P) (e : RErr) :
    (∀ name argv, (applyBuiltin name argv p).run st = .error e → ∃ msg, e = .runtime p.line p.col msg) ∧
    (∀ q, (measureQubit q p).run st = .error e → ∃ msg, e = .runtime p.line p.col msg) ∧
    (∀ q, (resetQubit q p).run st = .error e → ∃ msg, e = .runtime p.line p.col msg) :=
  ⟨fun name argv h => applyBuiltin_errors_are_located st hi name argv p e h,
   fun q h => measureQubit_errors_are_located st hi q p e h,
   fun q h => resetQubit_errors_are_located st hi q p e h⟩

/-- the refusals do occur (the statement is not vacuous): `h` on a measured qubit stops at the call's position -/
example : (applyBuiltin "h" [{ type := .Qubit, qubit := 0 }] ⟨3, 7⟩).run
      { sim := { n := 1, amps := #[default, default], measured := #[true] },
        qubits := [{ name := "q", measured := true }], lookupFn := fun _ => none } =
    .error (.runtime 3 7 "qubit has already been measured") := by
  rfl

end BlochVerif.Props.C12
