import BlochVerif.Eval.Frame
/-!
# C09 — scoping is lexical

About the evaluator model's environment: `enterFrame` starts a frame of exactly one scope at every call,
`lookup` and `assignVar` consult only the innermost `frameDepth` scopes.  Hence the scopes of the caller
(everything below the current frame) can neither influence what a name evaluates to nor be changed by an
assignment in the callee — first for the primitives, then, through the evaluator's induction principle
(`Eval/Closed.lean`, `Eval/Frame.lean`), for every call of every function at every fuel:
`a_call_never_sees_or_changes_its_callers_environment`.  The renaming corollary of the property (consistent renaming
of a local never changes the output) is checked on the real pipeline and the model by `tools/props/c09.py`; an
alpha-equivalence theorem is not proved (PARTIAL), nor is the class fragment modelled.
-/
namespace BlochVerif.Props.C09
open BlochVerif BlochVerif.Eval BlochVerif.Parse

theorem lookup_is_frameLookup (st : EState) (name : String) :
    (lookup name).run st = .ok (frameLookup (st.env.take st.frameDepth) name, st) := by
  unfold lookup frameLookup
  simp only [StateT.run, bind, StateT.bind, get, getThe, MonadStateOf.get, StateT.get, pure, Except.pure, Except.bind]
  cases (List.take st.frameDepth st.env).findSome? (fun sc => (sc.find? (·.1 == name)).map (·.2.value)) <;> rfl

/-- A callee never sees its caller's locals: two states whose current frames coincide give every name the
same value, whatever the scopes below the frame (the caller's, the caller's caller's, …) contain. -/
theorem callee_never_sees_caller_locals (st1 st2 : EState) (name : String)
    (h : st1.env.take st1.frameDepth = st2.env.take st2.frameDepth) :
    ((lookup name).run st1).map (·.1) = ((lookup name).run st2).map (·.1) := by
  rw [lookup_is_frameLookup, lookup_is_frameLookup, h]
  rfl

/-- a call starts a frame consisting of one fresh, empty scope: no binding of the caller is in it -/
theorem call_starts_with_an_empty_frame (st : EState) :
    ∃ st', enterFrame.run st = .ok (st.frameDepth, st') ∧ st'.env.take st'.frameDepth = [[]] ∧
      st'.env.drop st'.frameDepth = st.env := by
  refine ⟨{ st with env := [] :: st.env, frameDepth := 1 }, ?_, by simp, by simp⟩
  simp [enterFrame, StateT.run, bind, StateT.bind, get, getThe, MonadStateOf.get, StateT.get, set, StateT.set, pure,
    Except.pure, Except.bind, StateT.pure]

/-- A callee never changes its caller's locals: an assignment leaves every scope below the current frame
exactly as it was. -/
theorem callee_never_changes_caller_locals (st st' : EState) (name : String) (v : Value)
    (hd : 1 ≤ st.frameDepth) (hle : st.frameDepth ≤ st.env.length)
    (h : (assignVar name v).run st = .ok ((), st')) :
    st'.frameDepth = st.frameDepth ∧ st'.env.drop st'.frameDepth = st.env.drop st.frameDepth := by
  unfold assignVar at h
  simp only [StateT.run, bind, StateT.bind, get, getThe, MonadStateOf.get, StateT.get, pure, Except.pure, Except.bind] at h
  cases hg : assignVar.go name v (List.take st.frameDepth st.env) with
  | some env' =>
    simp only [hg, set, StateT.set] at h
    simp only [pure, Except.pure, Except.ok.injEq, Prod.mk.injEq, true_and] at h
    subst h
    have hl := go_length name v _ _ hg
    simp only [List.length_take] at hl
    refine ⟨rfl, ?_⟩
    simp only
    rw [List.drop_append_of_le_length (by omega), List.drop_eq_nil_of_le (by omega)]
    simp
  | none =>
    simp only [hg, declareVar, modify, modifyGet, MonadStateOf.modifyGet, StateT.modifyGet, pure, Except.pure, Except.ok.injEq,
      Prod.mk.injEq, true_and] at h
    subst h
    cases he : st.env with
    | nil => simp [he] at hle; omega
    | cons top rest =>
      refine ⟨rfl, ?_⟩
      simp only
      obtain ⟨d, hd'⟩ : ∃ d, st.frameDepth = d + 1 := ⟨st.frameDepth - 1, by omega⟩
      rw [hd']
      simp

/-- **Whole-evaluator form.**  Run any call of any function with any arguments in two states that differ only in
the caller's environment (all of it: its own frame and everything below) and frame depth: the result or the error
is the same, every other component of the final state is the same, and each run hands back exactly the environment
it was given.  No fuel bound, no restriction on the function body (loops, nested calls, recursion, blocks,
declarations, quantum statements). -/
theorem a_call_never_sees_or_changes_its_callers_environment (fuel : Nat) (fn : FuncDecl) (args : List Value)
    (st : EState) (env' : List Scope) (depth' : Nat) :
    (call fuel fn args).run { st with env := env', frameDepth := depth' } =
      ((call fuel fn args).run st).map (fun r => (r.1, { r.2 with env := env', frameDepth := depth' })) ∧
    ∀ v st', (call fuel fn args).run st = .ok (v, st') → st'.env = st.env ∧ st'.frameDepth = st.frameDepth :=
  call_cut_off fuel fn args st env' depth'

/-- inside a function body every expression, statement and nested call leaves the scopes below the current frame
as they were and is unaffected by replacing them -/
theorem statements_are_frame_independent (fuel : Nat) (s : Stmt) : FrameInd (exec fuel s) := frameInd_exec fuel s

/-- non-vacuity: a frame state exists, and replacing what is below it is not the identity -/
example : FWF { sim := Sim.State.init Sim.floatOps, env := [[], [("x", { value := {} })]], frameDepth := 1 } := by
  unfold FWF; simp

end BlochVerif.Props.C09
