import BlochVerif.Eval.Model
namespace BlochVerif.Props.C09
theorem placeholder : True := trivial
end BlochVerif.Props.C09
