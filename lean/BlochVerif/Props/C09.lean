import BlochVerif.Eval.Model
/-!
# C09 — scoping is lexical

About the evaluator model's environment: `enterFrame` starts a frame of exactly one scope at every call,
`lookup` and `assignVar` consult only the innermost `frameDepth` scopes.  Hence the scopes of the caller
(everything below the current frame) can neither influence what a name evaluates to nor be changed by an
assignment in the callee.  The renaming corollary of the property (consistent renaming of a local never
changes the output) is checked on the real pipeline and the model by `tools/props/c09.py`; an
alpha-equivalence theorem for the whole evaluator is not proved (PARTIAL).
-/
namespace BlochVerif.Props.C09
open BlochVerif BlochVerif.Eval BlochVerif.Parse

/-- what a name evaluates to is a function of the current frame only -/
def frameLookup (frame : List Scope) (name : String) : Value :=
  match frame.findSome? (fun sc => (sc.find? (·.1 == name)).map (·.2.value)) with
  | some v => v
  | none => {}

theorem lookup_is_frameLookup (st : EState) (name : String) :
    (lookup name).run st = .ok (frameLookup (st.env.take st.frameDepth) name, st) := by
  unfold lookup frameLookup
  simp only [StateT.run, bind, StateT.bind, get, getThe, MonadStateOf.get, StateT.get, pure, Except.pure, Except.bind]
  cases (List.take st.frameDepth st.env).findSome? (fun sc => (sc.find? (·.1 == name)).map (·.2.value)) <;> rfl

/-- A callee never sees its caller's locals: two states whose current frames coincide give every name the
same value, whatever the scopes below the frame (the caller's, the caller's caller's, …) contain. -/
theorem callee_never_sees_caller_locals (st1 st2 : EState) (name : String)
    (h : st1.env.take st1.frameDepth = st2.env.take st2.frameDepth) :
    ((lookup name).run st1).map (·.1) = ((lookup name).run st2).map (·.1) := by
  rw [lookup_is_frameLookup, lookup_is_frameLookup, h]
  rfl

/-- a call starts a frame consisting of one fresh, empty scope: no binding of the caller is in it -/
theorem call_starts_with_an_empty_frame (st : EState) :
    ∃ st', enterFrame.run st = .ok (st.frameDepth, st') ∧ st'.env.take st'.frameDepth = [[]] ∧
      st'.env.drop st'.frameDepth = st.env := by
  refine ⟨{ st with env := [] :: st.env, frameDepth := 1 }, ?_, by simp, by simp⟩
  simp [enterFrame, StateT.run, bind, StateT.bind, get, getThe, MonadStateOf.get, StateT.get, set, StateT.set, pure,
    Except.pure, Except.bind, StateT.pure]

theorem go_length (name : String) (v : Value) : ∀ (l l' : List Scope), assignVar.go name v l = some l' → l'.length = l.length := by
  intro l
  induction l with
  | nil => intro l' h; simp [assignVar.go] at h
  | cons sc rest ih =>
    intro l' h
    simp only [assignVar.go] at h
    split at h
    · cases h; simp
    · cases hg : assignVar.go name v rest with
      | none => simp [hg] at h
      | some r => simp [hg] at h; subst h; simp [ih r hg]

/-- A callee never changes its caller's locals: an assignment leaves every scope below the current frame
exactly as it was. -/
theorem callee_never_changes_caller_locals (st st' : EState) (name : String) (v : Value)
    (hd : 1 ≤ st.frameDepth) (hle : st.frameDepth ≤ st.env.length)
    (h : (assignVar name v).run st = .ok ((), st')) :
    st'.frameDepth = st.frameDepth ∧ st'.env.drop st'.frameDepth = st.env.drop st.frameDepth := by
  unfold assignVar at h
  simp only [StateT.run, bind, StateT.bind, get, getThe, MonadStateOf.get, StateT.get, pure, Except.pure, Except.bind] at h
  cases hg : assignVar.go name v (List.take st.frameDepth st.env) with
  | some env' =>
    simp only [hg, set, StateT.set] at h
    simp only [pure, Except.pure, Except.ok.injEq, Prod.mk.injEq, true_and] at h
    subst h
    have hl := go_length name v _ _ hg
    simp only [List.length_take] at hl
    refine ⟨rfl, ?_⟩
    simp only
    rw [List.drop_append_of_le_length (by omega), List.drop_eq_nil_of_le (by omega)]
    simp
  | none =>
    simp only [hg, declareVar, modify, modifyGet, MonadStateOf.modifyGet, StateT.modifyGet, pure, Except.pure, Except.ok.injEq,
      Prod.mk.injEq, true_and] at h
    subst h
    cases he : st.env with
    | nil => simp [he] at hle; omega
    | cons top rest =>
      refine ⟨rfl, ?_⟩
      simp only
      obtain ⟨d, hd'⟩ : ∃ d, st.frameDepth = d + 1 := ⟨st.frameDepth - 1, by omega⟩
      rw [hd']
      simp

end BlochVerif.Props.C09
