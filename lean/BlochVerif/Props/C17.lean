import BlochVerif.Cli.Model
import BlochVerif.Eval.Model
import BlochVerif.Eval.Control
import Mathlib.Tactic.Ring
import Mathlib.Tactic.FieldSimp
import Mathlib.Data.Rat.Defs
import Mathlib.Algebra.Order.Field.Basic
import Mathlib.Algebra.Order.Field.Rat
/-!
# C17 — @tracked/@shots reporting

`Cli.Model` mirrors the reporting logic of `cli.cpp`; the evaluator model records tracked outcomes in
`endScope` (`bump`, `trackedOutcome`).  Theorems: the annotation wins over the flag; echo policy; adding a
shot's table to the aggregate adds its counts, so the aggregate's total per variable is the sum of the
per-shot totals (N × exits when every shot has the same number of exits); probabilities are count / the
variable's own total, lie in [0,1] and sum to 1; each recorded exit adds exactly one outcome; the outcome
string of a register is the concatenation of its elements' last measurements or '?'.
-/
namespace BlochVerif.Props.C17
open BlochVerif.Cli

/-- `@shots(N)` on main takes precedence over `--shots`, whatever the flag says -/
theorem annotation_takes_precedence (cli : Option Nat) (a : Nat) : resolveShots cli (some a) = (true, a) := by
  cases cli <;> rfl

theorem flag_used_only_without_annotation (c : Nat) : resolveShots (some c) none = (true, c) := rfl

/-- when the echo switch is off, no program prints anything: for every program, draw sequence and fuel (the
evaluator's induction principle applied to the relation "only forward", `Eval/Control.lean`) -/
theorem a_quiet_run_echoes_nothing (prog : Parse.Program) (draws : List Float) (logOps : Bool) (fuel : Nat) :
    (Eval.execute prog draws false logOps fuel).echo = [] := Eval.execute_quiet prog draws logOps fuel

/-- echo output appears exactly when `--echo=all`, or the option is absent/auto and a single shot is run -/
theorem echo_policy (opt : Option String) (cli ann : Option Nat) :
    echoAll opt (resolveShots cli ann).1 (resolveShots cli ann).2 = true ↔
      opt = some "all" ∨ ((opt = none ∨ opt = some "" ∨ opt = some "auto") ∧ (resolveShots cli ann).2 = 1) := by
  have hprov : (resolveShots cli ann).1 = false → (resolveShots cli ann).2 = 1 := by
    cases cli <;> cases ann <;> simp [resolveShots]
  generalize (resolveShots cli ann).1 = p at *
  generalize (resolveShots cli ann).2 = n at *
  unfold echoAll
  cases opt with
  | none => cases p <;> simp_all
  | some s =>
    by_cases h1 : s = ""
    · subst h1; cases p <;> simp_all
    · by_cases h2 : s = "auto"
      · subst h2; cases p <;> simp_all
      · simp [h1, h2]

/-! ## aggregation -/

def KeysNodup (t : Table) : Prop := (t.map (·.1)).Nodup

theorem map_noop (t : Table) (k : String × String) (n : Nat) (h : ∀ e ∈ t, e.1 ≠ k) :
    t.map (fun e => if e.1 = k then (e.1, e.2 + n) else e) = t := by
  induction t with
  | nil => rfl
  | cons e rest ih =>
    have he := h e (List.mem_cons_self ..)
    simp only [List.map_cons, he, if_false]
    rw [ih (fun e' h' => h e' (List.mem_cons_of_mem _ h'))]

theorem add_total (t : Table) (hnd : KeysNodup t) (k : String × String) (n : Nat) (v : String) :
    (t.add k n).total v = t.total v + (if k.1 = v then n else 0) := by
  unfold Table.add
  by_cases hany : t.any (fun e => decide (e.1 = k)) = true
  · rw [if_pos hany]
    induction t with
    | nil => simp at hany
    | cons e rest ih =>
      have hnd' : KeysNodup rest := (List.nodup_cons.mp hnd).2
      have hnot : e.1 ∉ rest.map (·.1) := (List.nodup_cons.mp hnd).1
      by_cases hek : e.1 = k
      · have hrest : ∀ e' ∈ rest, e'.1 ≠ k := by
          intro e' he' heq
          exact hnot (List.mem_map.mpr ⟨e', he', by rw [heq, hek]⟩)
        simp only [List.map_cons, hek, if_true]
        rw [map_noop rest k n hrest]
        subst hek
        unfold Table.total
        by_cases hv : e.1.1 = v
        · simp [List.filter_cons, hv]; omega
        · simp [List.filter_cons, hv]
      · have hany' : rest.any (fun e => decide (e.1 = k)) = true := by
          simpa [List.any_cons, hek] using hany
        simp only [List.map_cons, hek, if_false]
        have := ih hnd' hany'
        unfold Table.total at this ⊢
        by_cases hv : e.1.1 = v
        · simp only [List.filter_cons, hv, decide_true, if_true, List.map_cons, List.sum_cons] at this ⊢
          omega
        · simp only [List.filter_cons, hv, decide_false] at this ⊢
          exact this
  · rw [if_neg hany]
    unfold Table.total
    by_cases hv : k.1 = v
    · simp [List.filter_append, List.filter_cons, hv]
    · simp [List.filter_append, List.filter_cons, hv]

theorem add_keysNodup (t : Table) (hnd : KeysNodup t) (k : String × String) (n : Nat) : KeysNodup (t.add k n) := by
  unfold Table.add
  by_cases hany : t.any (fun e => decide (e.1 = k)) = true
  · rw [if_pos hany]
    unfold KeysNodup at hnd ⊢
    have : (t.map (fun e => if e.1 = k then (e.1, e.2 + n) else e)).map (·.1) = t.map (·.1) := by
      rw [List.map_map]
      apply List.map_congr_left
      intro e _
      simp only [Function.comp]
      split <;> rfl
    rw [this]; exact hnd
  · rw [if_neg hany]
    unfold KeysNodup at hnd ⊢
    rw [List.map_append, List.map_cons, List.map_nil]
    refine List.nodup_append.mpr ⟨hnd, by simp, ?_⟩
    intro a ha b hb
    simp only [List.mem_singleton] at hb
    subst hb
    intro heq
    apply hany
    obtain ⟨e, he, hek⟩ := List.mem_map.mp ha
    exact List.any_eq_true.mpr ⟨e, he, by simp [hek, heq]⟩

theorem merge_total (shot : Table) : ∀ (agg : Table), KeysNodup agg → ∀ v,
    KeysNodup (agg.merge shot) ∧ (agg.merge shot).total v = agg.total v + shot.total v := by
  induction shot with
  | nil => intro agg h v; exact ⟨h, by simp [Table.merge, Table.total]⟩
  | cons e rest ih =>
    intro agg h v
    have h1 := add_keysNodup agg h e.1 e.2
    obtain ⟨h2, h3⟩ := ih (agg.add e.1 e.2) h1 v
    refine ⟨by simpa [Table.merge] using h2, ?_⟩
    have : (agg.merge (e :: rest)) = (agg.add e.1 e.2).merge rest := by simp [Table.merge]
    rw [this, h3, add_total agg h]
    unfold Table.total
    by_cases hv : e.1.1 = v
    · simp [List.filter_cons, hv]; omega
    · simp [List.filter_cons, hv]

/-- The aggregate table is the per-shot tables added together: a variable's total is the sum of its
per-shot totals, in whatever order the shots ran. -/
theorem aggregate_total (shots : List Table) (v : String) :
    (aggregate shots).total v = (shots.map (·.total v)).sum := by
  suffices H : ∀ (agg : Table), KeysNodup agg →
      (shots.foldl Table.merge agg).total v = agg.total v + (shots.map (·.total v)).sum by
    simpa [aggregate, Table.total] using H [] (by simp [KeysNodup])
  induction shots with
  | nil => intro agg _; simp
  | cons s rest ih =>
    intro agg h
    obtain ⟨h1, h2⟩ := merge_total s agg h v
    rw [List.foldl_cons, ih _ h1, h2]
    simp only [List.map_cons, List.sum_cons]
    omega

/-- so with the same number `e` of scope exits in each of `n` shots the counts sum to `n * e` -/
theorem counts_sum_to_shots_times_exits (shots : List Table) (v : String) (e : Nat)
    (h : ∀ s ∈ shots, s.total v = e) : (aggregate shots).total v = shots.length * e := by
  rw [aggregate_total]
  induction shots with
  | nil => simp
  | cons s rest ih =>
    simp only [List.map_cons, List.sum_cons, List.length_cons]
    rw [ih (fun s' hs' => h s' (List.mem_cons_of_mem _ hs')), h s (List.mem_cons_self ..)]
    ring

/-! ## probabilities -/

theorem sum_map_div (l : List Nat) (T : ℚ) : (l.map (fun (c : Nat) => (c : ℚ) / T)).sum = ((l.sum : Nat) : ℚ) / T := by
  induction l with
  | nil => simp
  | cons c rest ih => rw [List.map_cons, List.sum_cons, List.sum_cons, ih, Nat.cast_add, add_div]

theorem mem_le_sum (l : List Nat) (c : Nat) (h : c ∈ l) : c ≤ l.sum := by
  induction l with
  | nil => cases h
  | cons x rest ih =>
    rcases List.mem_cons.mp h with rfl | h'
    · simp
    · have := ih h'; simp only [List.sum_cons]; omega

/-- the probabilities printed for one variable are counts divided by that variable's own total: each lies in
[0,1] and together they sum to 1 -/
theorem probabilities_form_a_distribution (t : Table) (v : String) (hpos : 0 < t.total v) :
    (((t.filter (fun e => e.1.1 = v)).map (·.2)).map (fun (c : Nat) => (c : ℚ) / (t.total v : ℚ))).sum = 1 ∧
    ∀ (c : Nat), c ∈ (t.filter (fun e => e.1.1 = v)).map (·.2) →
      0 ≤ (c : ℚ) / (t.total v : ℚ) ∧ (c : ℚ) / (t.total v : ℚ) ≤ 1 := by
  have hT : (0 : ℚ) < (t.total v : ℚ) := by exact_mod_cast hpos
  constructor
  · rw [sum_map_div]
    unfold Table.total at hT ⊢
    exact div_self (ne_of_gt hT)
  · intro c hc
    have hle : c ≤ t.total v := by
      unfold Table.total
      exact mem_le_sum _ c hc
    constructor
    · exact div_nonneg (Nat.cast_nonneg c) (le_of_lt hT)
    · rw [div_le_one hT]; exact_mod_cast hle

/-! ## the evaluator's recording -/
open BlochVerif.Eval

def trTotal (tr : List (String × String × Nat)) (key : String) : Nat :=
  ((tr.filter (·.1 == key)).map (·.2.2)).sum

def TrNodup (tr : List (String × String × Nat)) : Prop := (tr.map (fun t => (t.1, t.2.1))).Nodup

/-- every recorded scope exit adds exactly one outcome to the variable's counts and leaves the others alone -/
theorem bump_adds_exactly_one (tr : List (String × String × Nat)) (hnd : TrNodup tr) (key outcome k : String) :
    trTotal (bump tr key outcome) k = trTotal tr k + (if key = k then 1 else 0) := by
  unfold bump
  by_cases hany : tr.any (fun t => decide (t.1 = key ∧ t.2.1 = outcome)) = true
  · rw [if_pos hany]
    induction tr with
    | nil => simp at hany
    | cons e rest ih =>
      have hnd' : TrNodup rest := (List.nodup_cons.mp hnd).2
      have hnot := (List.nodup_cons.mp hnd).1
      by_cases hek : e.1 = key ∧ e.2.1 = outcome
      · have hrest : rest.map (fun t => if t.1 = key ∧ t.2.1 = outcome then (t.1, t.2.1, t.2.2 + 1) else t) = rest := by
          have hno : ∀ e' ∈ rest, ¬ (e'.1 = key ∧ e'.2.1 = outcome) := by
            intro e' he' h'
            exact hnot (List.mem_map.mpr ⟨e', he', by simp [h'.1, h'.2, hek.1, hek.2]⟩)
          clear ih hnd hnd' hnot hany
          induction rest with
          | nil => rfl
          | cons r rs ihr =>
            have hr := hno r (List.mem_cons_self ..)
            simp only [List.map_cons, hr, if_false]
            rw [ihr (fun e' he' => hno e' (List.mem_cons_of_mem _ he'))]
        simp only [List.map_cons, hek, and_self, if_true]
        rw [hrest]
        unfold trTotal
        by_cases hv : key = k
        · simp [List.filter_cons, hek.1, hv]; omega
        · simp [List.filter_cons, hek.1, hv]
      · have hany' : rest.any (fun t => decide (t.1 = key ∧ t.2.1 = outcome)) = true := by
          simpa [List.any_cons, hek] using hany
        simp only [List.map_cons, hek, if_false]
        have := ih hnd' hany'
        unfold trTotal at this ⊢
        by_cases hv : e.1 = k
        · simp only [List.filter_cons, hv, beq_self_eq_true, if_true, List.map_cons, List.sum_cons] at this ⊢
          omega
        · have hv' : (e.1 == k) = false := by simpa using hv
          simp only [List.filter_cons, hv'] at this ⊢
          exact this
  · rw [if_neg hany]
    unfold trTotal
    by_cases hv : key = k
    · simp [List.filter_append, List.filter_cons, hv]
    · simp [List.filter_append, List.filter_cons, hv]

/-- the outcome of a single tracked qubit: its last measurement, or '?' when it was never measured (or reset
since) -/
theorem qubit_outcome (lm : List Int) (v : Value) (h : v.type = .Qubit) :
    trackedOutcome lm v = some ("qubit ", outcomeChar lm v.qubit) := by
  simp [trackedOutcome, h]

theorem outcomeChar_spec (lm : List Int) (q : Int) :
    outcomeChar lm q = (match lastOf lm q with | some b => if b != 0 then "1" else "0" | none => "?") := rfl

/-- the outcome of a tracked register: '?' if any element is unmeasured at that moment, otherwise the bit
string of the elements' last measurements in index order -/
theorem register_outcome (lm : List Int) (v : Value) (h : v.type = .QubitArray) :
    trackedOutcome lm v = some ("qubit[] ",
      if v.qubitArray.all (fun q => (lastOf lm q).isSome) then String.join (v.qubitArray.map (outcomeChar lm))
      else "?") := by
  simp only [trackedOutcome, h]
  by_cases ha : v.qubitArray.all (fun q => (lastOf lm q).isSome) = true <;> simp [ha]

end BlochVerif.Props.C17

/-! ## every scope exit records each tracked variable exactly once -/
namespace BlochVerif.Props.C17
open BlochVerif.Eval

theorem bump_preserves_nodup (tr : List (String × String × Nat)) (hnd : TrNodup tr) (key outcome : String) :
    TrNodup (bump tr key outcome) := by
  unfold bump
  by_cases hany : tr.any (fun t => decide (t.1 = key ∧ t.2.1 = outcome)) = true
  · rw [if_pos hany]
    unfold TrNodup at hnd ⊢
    have : (tr.map (fun t => if t.1 = key ∧ t.2.1 = outcome then (t.1, t.2.1, t.2.2 + 1) else t)).map (fun t => (t.1, t.2.1)) =
        tr.map (fun t => (t.1, t.2.1)) := by
      rw [List.map_map]
      apply List.map_congr_left
      intro t _
      simp only [Function.comp]
      split <;> rfl
    rw [this]; exact hnd
  · rw [if_neg hany]
    unfold TrNodup at hnd ⊢
    rw [List.map_append, List.map_cons, List.map_nil]
    refine List.nodup_append.mpr ⟨hnd, by simp, ?_⟩
    intro a ha b hb
    simp only [List.mem_singleton] at hb
    subst hb
    intro heq
    apply hany
    obtain ⟨t, ht, hte⟩ := List.mem_map.mp ha
    refine List.any_eq_true.mpr ⟨t, ht, ?_⟩
    have h1 : t.1 = key := by have := congrArg Prod.fst (hte.trans heq); simpa using this
    have h2 : t.2.1 = outcome := by have := congrArg Prod.snd (hte.trans heq); simpa using this
    simp [h1, h2]

/-- what one variable of the ending scope contributes -/
def recordEntry (lm : List Int) (tr : List (String × String × Nat)) (kv : String × VarEntry) :
    List (String × String × Nat) :=
  if !kv.2.tracked then tr else
  match trackedOutcome lm kv.2.value with
  | some (pre, outcome) => bump tr (pre ++ kv.1) outcome
  | none => tr

/-- the key under which a variable of the ending scope is recorded, if it is recorded at all -/
def recordKey (lm : List Int) (kv : String × VarEntry) : Option String :=
  if !kv.2.tracked then none else (trackedOutcome lm kv.2.value).map (fun po => po.1 ++ kv.1)

theorem recordEntry_total (lm : List Int) (tr : List (String × String × Nat)) (hnd : TrNodup tr)
    (kv : String × VarEntry) (k : String) :
    TrNodup (recordEntry lm tr kv) ∧
    trTotal (recordEntry lm tr kv) k = trTotal tr k + (if recordKey lm kv = some k then 1 else 0) := by
  unfold recordEntry recordKey
  by_cases ht : kv.2.tracked = true
  · simp only [ht, Bool.not_true, Bool.false_eq_true, if_false]
    cases ho : trackedOutcome lm kv.2.value with
    | none => simp [hnd]
    | some po =>
      obtain ⟨pre, outcome⟩ := po
      simp only [Option.map_some, Option.some.injEq]
      exact ⟨bump_preserves_nodup tr hnd _ _, bump_adds_exactly_one tr hnd _ _ k⟩
  · simp [ht, hnd]

/-- Ending a scope adds, for every variable key, exactly the number of tracked qubits / registers of that scope
recorded under that key — one outcome per tracked variable per exit, nothing for the others. -/
theorem scope_exit_records_each_tracked_variable_once (lm : List Int) (top : List (String × VarEntry))
    (tr : List (String × String × Nat)) (hnd : TrNodup tr) (k : String) :
    TrNodup (top.foldl (recordEntry lm) tr) ∧
    trTotal (top.foldl (recordEntry lm) tr) k =
      trTotal tr k + (top.filter (fun kv => recordKey lm kv = some k)).length := by
  induction top generalizing tr with
  | nil => simp [hnd]
  | cons kv rest ih =>
    obtain ⟨h1, h2⟩ := recordEntry_total lm tr hnd kv k
    obtain ⟨h3, h4⟩ := ih (recordEntry lm tr kv) h1
    refine ⟨by simpa using h3, ?_⟩
    simp only [List.foldl_cons, h4, h2, List.filter_cons]
    by_cases hk : recordKey lm kv = some k
    · simp [hk]; omega
    · simp [hk]

/-- the evaluator model's `endScope` is that fold over the innermost scope -/
theorem endScope_is_the_fold (st : EState) (top : List (String × VarEntry)) (rest : List Scope)
    (he : st.env = top :: rest) :
    ∃ st', endScope.run st = .ok ((), st') ∧ st'.env = rest ∧
      st'.tracked = top.foldl (recordEntry st.lastMeasurement) st.tracked := by
  unfold endScope
  simp only [modify, modifyGet, MonadStateOf.modifyGet, StateT.modifyGet, StateT.run, pure, Except.pure, he]
  exact ⟨_, rfl, rfl, rfl⟩

end BlochVerif.Props.C17

/-! ## whole-evaluator form: counts are never lost and the table stays keyed -/
namespace BlochVerif.Props.C17
open BlochVerif BlochVerif.Eval BlochVerif.Parse

/-- the table has one row per (variable, outcome) -/
def Keyed (st : EState) : Prop := TrNodup st.tracked

/-- no count goes down -/
def CountsGrow (s s' : EState) : Prop := ∀ k, trTotal s.tracked k ≤ trTotal s'.tracked k

/-- a primitive that does not touch the table -/
macro "trk_same" defs:ident* : tactic => `(tactic|
  (intro st hi a st' hr; unfold $defs:ident* at hr; prim_cases hr <;> (try dsimp only) <;> (repeat' split) <;>
    exact ⟨hi, fun _ => Nat.le_refl _⟩))

theorem trk_endScope : Hoare Keyed CountsGrow endScope := by
  intro st hi a st' hr
  cases he : st.env with
  | nil =>
    unfold endScope at hr
    rw [run_modify] at hr
    cases hr
    simp only [he]
    exact ⟨hi, fun _ => Nat.le_refl _⟩
  | cons top rest =>
    obtain ⟨st2, h1, _, h3⟩ := endScope_is_the_fold st top rest he
    have e : st2 = st' := by rw [h1] at hr; cases hr; rfl
    subst e
    refine ⟨?_, fun k => ?_⟩
    · show TrNodup st2.tracked
      rw [h3]
      exact (scope_exit_records_each_tracked_variable_once st.lastMeasurement top st.tracked hi "").1
    · show trTotal st.tracked k ≤ trTotal st2.tracked k
      rw [h3, (scope_exit_records_each_tracked_variable_once st.lastMeasurement top st.tracked hi k).2]
      omega

theorem tracked_prims : PrimsHoare Keyed CountsGrow where
  refl := fun _ _ => Nat.le_refl _
  trans := fun _ _ _ h1 h2 k => Nat.le_trans (h1 k) (h2 k)
  lookup := fun n => by (trk_same lookup)
  assignVar := fun n v => by (trk_same assignVar)
  declareVar := fun n e => by (trk_same declareVar)
  beginScope := by (trk_same beginScope)
  endScope := trk_endScope
  enterFrame := by (trk_same enterFrame)
  leaveFrame := fun d => by (trk_same leaveFrame)
  getHasReturn := by (trk_same getHasReturn)
  setHasReturn := fun b => by (trk_same setHasReturn)
  clearReturn := by (trk_same clearReturn)
  getReturnValue := by (trk_same getReturnValue)
  setReturnValue := fun v => by (trk_same setReturnValue)
  lookupFnM := fun n => by (trk_same lookupFnM)
  echoLine := fun l => by (trk_same echoLine)
  allocateTrackedQubit := fun n => by (trk_same allocateTrackedQubit simReset nextDraw unmarkMeasured)
  ensureQubitActive := fun i p => by (trk_same ensureQubitActive ensureQubitExists)
  resetQubit := fun q p => by (trk_same resetQubit ensureQubitExists simReset nextDraw unmarkMeasured)
  simGate := fun op => by (trk_same simGate)
  simCx := fun c t => by (trk_same simCx)
  measureQubit := fun q p => by
    (trk_same measureQubit ensureQubitActive ensureQubitExists simMeasure nextDraw markMeasured setLastMeasurement)

/-- **Whatever a program does** — any function, any body, any fuel — the tracked table keeps one row per (variable,
outcome) and no count ever goes down: what a scope exit has recorded survives every later statement, call and scope exit of
the shot, so the per-shot table the aggregate is built from holds every record that was made (induction principle of the
evaluator model; the only primitive that touches the table is `endScope`, which is the fold of
`scope_exit_records_each_tracked_variable_once`). -/
theorem a_program_never_loses_a_tracked_count (fuel : Nat) (fn : FuncDecl) (args : List Value) (st st' : EState)
    (v : Value) (hi : TrNodup st.tracked) (h : (call fuel fn args).run st = .ok (v, st')) :
    TrNodup st'.tracked ∧ ∀ k, trTotal st.tracked k ≤ trTotal st'.tracked k :=
  hoare_call tracked_prims fuel fn args st hi v st' h

/-- the empty table a shot starts with is keyed -/
example : TrNodup ([] : List (String × String × Nat)) := by simp [TrNodup]

/-- the table a whole run hands back — whatever the program, the draws, the switches and the fuel, normal end or error — has one
row per (variable, outcome): the aggregate over shots adds rows that are well defined -/
theorem a_run_ends_with_a_keyed_table (prog : Program) (draws : List Float) (e l : Bool) (fuel : Nat) :
    TrNodup (execute prog draws e l fuel).tracked := by
  have h0 : TrNodup ([] : List (String × String × Nat)) := by simp [TrNodup]
  unfold execute
  dsimp only
  split
  · exact h0
  · split
    · rename_i st hrun
      split at hrun
      · rename_i fn _
        obtain ⟨v, st1, h1, h2⟩ := run_bind_ok hrun
        rw [run_pure] at h2
        cases h2
        exact (a_program_never_loses_a_tracked_count fuel fn [] _ _ v h0 h1).1
      · rw [run_pure] at hrun
        cases hrun
        exact h0
    · exact h0

end BlochVerif.Props.C17
