import BlochVerif.Obj.Model
/-! Lemmas about the object-model layer. Property theorems are in `Props/C08.lean`. -/
namespace BlochVerif.Obj

/-! ## vtable / findMethod -/

theorem findWho_eq_vtableWho (h : Hier) (i : Nat) : findWho h i = vtableWho h i := by
  induction i with
  | zero => rfl
  | succ i ih => simp [findWho, vtableWho, ih]

theorem vtableWho_le (h : Hier) (i : Nat) : vtableWho h i ≤ i := by
  induction i with
  | zero => simp [vtableWho]
  | succ i ih => unfold vtableWho; split <;> omega

theorem ovr_zero (h : Hier) : h.ovr 0 = true := by simp [Hier.ovr]

theorem vtableWho_ovr (h : Hier) (i : Nat) : h.ovr (vtableWho h i) = true := by
  induction i with
  | zero => simp [vtableWho, ovr_zero]
  | succ i ih => unfold vtableWho; split <;> simp_all

theorem vtableWho_max (h : Hier) (i j : Nat) (h1 : vtableWho h i < j) (h2 : j ≤ i) : h.ovr j = false := by
  induction i with
  | zero => simp [vtableWho] at h1; omega
  | succ i ih =>
    unfold vtableWho at h1
    split at h1
    · omega
    · rename_i hn
      by_cases hj : j = i + 1
      · subst hj; simpa using hn
      · exact ih h1 (by omega)

/-! ## who chain -/

theorem whoChain_fuel (h : Hier) : ∀ (fuel fuel' impl : Nat), impl < fuel → impl < fuel' →
    whoChain h fuel impl = whoChain h fuel' impl := by
  intro fuel
  induction fuel with
  | zero => intro _ _ h1; omega
  | succ f ih =>
    intro fuel' impl h1 h2
    cases fuel' with
    | zero => omega
    | succ f' =>
      simp only [whoChain]
      by_cases hs : h.sup impl = true
      · simp only [hs, if_true]
        have hpos : impl ≠ 0 := by
          intro h0; subst h0; simp [Hier.sup] at hs
        have hlt : findWho h (impl - 1) < impl := by
          have := vtableWho_le h (impl - 1); rw [findWho_eq_vtableWho]; omega
        rw [ih f' (findWho h (impl - 1)) (by omega) (by omega)]
      · simp [hs]

theorem whoChain_head (h : Hier) (fuel impl : Nat) (hf : impl < fuel) :
    ∃ rest, whoChain h fuel impl = impl :: rest := by
  cases fuel with
  | zero => omega
  | succ f => exact ⟨_, rfl⟩

theorem whoChain_bound (h : Hier) : ∀ (fuel impl : Nat), ∀ x ∈ whoChain h fuel impl, x ≤ impl := by
  intro fuel
  induction fuel with
  | zero => intro impl x hx; simp [whoChain] at hx
  | succ f ih =>
    intro impl x hx
    simp only [whoChain, List.mem_cons] at hx
    rcases hx with rfl | hx
    · exact Nat.le_refl _
    · split at hx
      · have := ih _ x hx
        have := vtableWho_le h (impl - 1)
        rw [findWho_eq_vtableWho] at *
        omega
      · simp at hx

theorem whoChain_pairwise (h : Hier) : ∀ (fuel impl : Nat), (whoChain h fuel impl).Pairwise (· > ·) := by
  intro fuel
  induction fuel with
  | zero => intro impl; simp [whoChain]
  | succ f ih =>
    intro impl
    simp only [whoChain]
    split
    · rename_i hs
      have hpos : impl ≠ 0 := by
        intro h0; subst h0; simp [Hier.sup] at hs
      refine List.Pairwise.cons ?_ (ih _)
      intro x hx
      have := whoChain_bound h f _ x hx
      have := vtableWho_le h (impl - 1)
      rw [findWho_eq_vtableWho] at *
      omega
    · simp

theorem whoChain_all_ovr (h : Hier) : ∀ (fuel impl : Nat), h.ovr impl = true →
    ∀ x ∈ whoChain h fuel impl, h.ovr x = true := by
  intro fuel
  induction fuel with
  | zero => intro impl _ x hx; simp [whoChain] at hx
  | succ f ih =>
    intro impl hi x hx
    simp only [whoChain, List.mem_cons] at hx
    rcases hx with rfl | hx
    · exact hi
    · split at hx
      · exact ih _ (by rw [findWho_eq_vtableWho]; exact vtableWho_ovr h _) x hx
      · simp at hx

/-! ## construction and destruction order -/

theorem ctorOrder_eq_range (n : Nat) : ctorOrder n = List.range (n + 1) := by
  induction n with
  | zero => rfl
  | succ n ih => rw [ctorOrder, ih, List.range_succ (n := n + 1)]

theorem dtorOrder_eq (h : Hier) (n : Nat) :
    dtorOrder h n = ((List.range (n + 1)).reverse).filter (fun i => (h.getD i default).dtor) := by
  induction n with
  | zero => simp [dtorOrder, List.range_succ, List.filter]; split <;> simp_all
  | succ n ih =>
    rw [dtorOrder, ih, List.range_succ (n := n + 1), List.reverse_append]
    simp only [List.reverse_cons, List.reverse_nil, List.nil_append, List.singleton_append, List.filter_cons]
    split <;> simp_all

/-! ## static slots -/

theorem bumpMade_length (m : List Nat) (d : Nat) : (bumpMade m d).length = m.length := by
  simp [bumpMade]

theorem addAt_length (m : List Nat) (i k : Nat) : (addAt m i k).length = m.length := by
  simp [addAt]

theorem bumpMade_getD (m : List Nat) (d i : Nat) (hi : i < m.length) :
    (bumpMade m d).getD i 0 = m.getD i 0 + (if i ≤ d then 1 else 0) := by
  simp only [bumpMade, List.getD_eq_getElem?_getD, List.getElem?_map, List.getElem?_zipIdx]
  simp [List.getElem?_eq_getElem hi]
  split <;> simp

theorem addAt_getD (m : List Nat) (j k i : Nat) (hi : i < m.length) :
    (addAt m j k).getD i 0 = m.getD i 0 + (if i = j then k else 0) := by
  simp only [addAt, List.getD_eq_getElem?_getD, List.getElem?_map, List.getElem?_zipIdx]
  simp [List.getElem?_eq_getElem hi]
  split <;> simp

/-! ## overload selection -/

/-- what the scan has established about the candidates seen so far -/
def PickInv (costs : List (Option Nat)) : Option (Nat × Nat × Bool) → Prop
  | none => ∀ j : Nat, j < costs.length → costs[j]? = some none
  | some (b, j, amb) =>
    costs[j]? = some (some b) ∧
    (∀ (j' k : Nat), costs[j']? = some (some k) → b ≤ k) ∧
    (∀ (j' k : Nat), j' < j → costs[j']? = some (some k) → b < k) ∧
    (amb = true ↔ ∃ j' : Nat, j' ≠ j ∧ costs[j']? = some (some b))

theorem pickAux_inv (args : List Ty) : ∀ (cs : List (List Ty)) (pre : List (List Ty)) (acc),
    PickInv (pre.map (paramsCost · args)) acc →
    PickInv ((pre ++ cs).map (paramsCost · args)) (pickAux args cs pre.length acc) := by
  intro cs
  induction cs with
  | nil => intro pre acc h; simpa [pickAux] using h
  | cons c cs ih =>
    intro pre acc hinv
    have hstep : ∀ acc', PickInv ((pre ++ [c]).map (paramsCost · args)) acc' →
        PickInv ((pre ++ c :: cs).map (paramsCost · args)) (pickAux args cs (pre.length + 1) acc') := by
      intro acc' h'
      have := ih (pre ++ [c]) acc' h'
      simpa [List.append_assoc] using this
    -- abbreviations
    have hlen : (pre.map (paramsCost · args)).length = pre.length := by simp
    have hget_old : ∀ j, j < pre.length →
        ((pre ++ [c]).map (paramsCost · args))[j]? = (pre.map (paramsCost · args))[j]? := by
      intro j hj; simp [List.getElem?_append_left, hj]
    have hget_new : ((pre ++ [c]).map (paramsCost · args))[pre.length]? = some (paramsCost c args) := by
      simp
    have hget_cases : ∀ j v, ((pre ++ [c]).map (paramsCost · args))[j]? = some v →
        (j < pre.length ∧ (pre.map (paramsCost · args))[j]? = some v) ∨ (j = pre.length ∧ v = paramsCost c args) := by
      intro j v hv
      by_cases hj : j < pre.length
      · left; exact ⟨hj, by rw [← hget_old j hj]; exact hv⟩
      · right
        have hjl : j < (pre ++ [c]).length := by
          have := (List.getElem?_eq_some_iff.mp hv).1; simpa using this
        have : j = pre.length := by simp at hjl; omega
        subst this
        rw [hget_new] at hv
        exact ⟨rfl, (Option.some.inj hv).symm⟩
    unfold pickAux
    cases hk : paramsCost c args with
    | none =>
      apply hstep
      cases acc with
      | none =>
        simp only [PickInv] at hinv ⊢
        intro j hj
        by_cases hj' : j < pre.length
        · rw [hget_old j hj']; exact hinv j (by simpa using hj')
        · have : j = pre.length := by simp at hj; omega
          subst this; rw [hget_new, hk]
      | some t =>
        obtain ⟨b, j, amb⟩ := t
        simp only [PickInv] at hinv ⊢
        obtain ⟨h1, h2, h3, h4⟩ := hinv
        have hjlt : j < pre.length := by
          have := (List.getElem?_eq_some_iff.mp h1).1; simpa using this
        refine ⟨by rw [hget_old j hjlt]; exact h1, ?_, ?_, ?_⟩
        · intro j' k hv
          rcases hget_cases j' _ hv with ⟨_, hv'⟩ | ⟨_, hv'⟩
          · exact h2 j' k hv'
          · rw [hk] at hv'; cases hv'
        · intro j' k hlt hv
          rcases hget_cases j' _ hv with ⟨_, hv'⟩ | ⟨_, hv'⟩
          · exact h3 j' k hlt hv'
          · rw [hk] at hv'; cases hv'
        · rw [h4]
          constructor
          · rintro ⟨j', hne, hv⟩
            have hj'lt : j' < pre.length := by
              have := (List.getElem?_eq_some_iff.mp hv).1; simpa using this
            exact ⟨j', hne, by rw [hget_old j' hj'lt]; exact hv⟩
          · rintro ⟨j', hne, hv⟩
            rcases hget_cases j' _ hv with ⟨_, hv'⟩ | ⟨_, hv'⟩
            · exact ⟨j', hne, hv'⟩
            · rw [hk] at hv'; cases hv'
    | some k =>
      cases acc with
      | none =>
        apply hstep
        simp only [PickInv] at hinv ⊢
        refine ⟨by rw [hget_new, hk], ?_, ?_, ?_⟩
        · intro j' k' hv
          rcases hget_cases j' _ hv with ⟨hlt, hv'⟩ | ⟨_, hv'⟩
          · have := hinv j' (by simpa using hlt); rw [this] at hv'; cases hv'
          · rw [hk] at hv'; cases hv'; exact Nat.le_refl _
        · intro j' k' hlt hv
          rcases hget_cases j' _ hv with ⟨hlt', hv'⟩ | ⟨he, _⟩
          · have := hinv j' (by simpa using hlt'); rw [this] at hv'; cases hv'
          · omega
        · constructor
          · intro hf; cases hf
          · rintro ⟨j', hne, hv⟩
            rcases hget_cases j' _ hv with ⟨hlt', hv'⟩ | ⟨he, _⟩
            · have := hinv j' (by simpa using hlt'); rw [this] at hv'; cases hv'
            · exact absurd he hne
      | some t =>
        obtain ⟨b, j, amb⟩ := t
        simp only [PickInv] at hinv
        obtain ⟨h1, h2, h3, h4⟩ := hinv
        have hjlt : j < pre.length := by
          have := (List.getElem?_eq_some_iff.mp h1).1; simpa using this
        by_cases hkb : k < b
        · simp only [hkb, if_true]
          apply hstep
          simp only [PickInv]
          refine ⟨by rw [hget_new, hk], ?_, ?_, ?_⟩
          · intro j' k' hv
            rcases hget_cases j' _ hv with ⟨_, hv'⟩ | ⟨_, hv'⟩
            · have := h2 j' k' hv'; omega
            · rw [hk] at hv'; cases hv'; exact Nat.le_refl _
          · intro j' k' hlt hv
            rcases hget_cases j' _ hv with ⟨_, hv'⟩ | ⟨he, _⟩
            · have := h2 j' k' hv'; omega
            · omega
          · constructor
            · intro hf; cases hf
            · rintro ⟨j', hne, hv⟩
              rcases hget_cases j' _ hv with ⟨_, hv'⟩ | ⟨he, _⟩
              · have := h2 j' k hv'; omega
              · exact absurd he hne
        · simp only [hkb, if_false]
          by_cases hkeq : k = b
          · simp only [hkeq, if_true]
            apply hstep
            simp only [PickInv]
            refine ⟨by rw [hget_old j hjlt]; exact h1, ?_, ?_, ?_⟩
            · intro j' k' hv
              rcases hget_cases j' _ hv with ⟨_, hv'⟩ | ⟨_, hv'⟩
              · exact h2 j' k' hv'
              · rw [hk] at hv'; cases hv'; omega
            · intro j' k' hlt hv
              rcases hget_cases j' _ hv with ⟨_, hv'⟩ | ⟨he, _⟩
              · exact h3 j' k' hlt hv'
              · omega
            · constructor
              · intro _
                exact ⟨pre.length, by omega, by rw [hget_new, hk, hkeq]⟩
              · intro _; trivial
          · simp only [hkeq, if_false]
            apply hstep
            simp only [PickInv]
            refine ⟨by rw [hget_old j hjlt]; exact h1, ?_, ?_, ?_⟩
            · intro j' k' hv
              rcases hget_cases j' _ hv with ⟨_, hv'⟩ | ⟨_, hv'⟩
              · exact h2 j' k' hv'
              · rw [hk] at hv'; cases hv'; omega
            · intro j' k' hlt hv
              rcases hget_cases j' _ hv with ⟨_, hv'⟩ | ⟨he, _⟩
              · exact h3 j' k' hlt hv'
              · omega
            · rw [h4]
              constructor
              · rintro ⟨j', hne, hv⟩
                have hj'lt : j' < pre.length := by
                  have := (List.getElem?_eq_some_iff.mp hv).1; simpa using this
                exact ⟨j', hne, by rw [hget_old j' hj'lt]; exact hv⟩
              · rintro ⟨j', hne, hv⟩
                rcases hget_cases j' _ hv with ⟨_, hv'⟩ | ⟨_, hv'⟩
                · exact ⟨j', hne, hv'⟩
                · rw [hk] at hv'; cases hv'; omega

theorem pickAux_spec (args : List Ty) (cands : List (List Ty)) :
    PickInv (cands.map (paramsCost · args)) (pickAux args cands 0 none) := by
  have := pickAux_inv args cands [] none (by simp [PickInv])
  simpa using this

end BlochVerif.Obj
