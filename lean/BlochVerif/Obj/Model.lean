/-!
# Object-model layer (C08)

An executable model of the mechanisms `runtime_evaluator.cpp` uses for classes — the class table built
base-first (`buildClassTable`), the per-class vtable (copy of the base's slots, then this class's virtual
methods), `findMethod` walking the base chain, `callMethod` running a body in the context of the class that
*declares* the method (so `super` names that class's base), `runConstructorChain`
(base constructor, field initialisers, body), `destroyObject` (destructors from the dynamic class up to the
root), static storage per class — over linear hierarchies `C0 <- C1 <- …` described by `Cls` records, plus
the cost-based overload selection shared by `findMethodInHierarchy` (analyser) and `findMethod` (runtime).

The echo trace of an action list is what `tools/classgen.py` renders as a Bloch program and runs through
the real pipeline; `Driver.ObjCmd` prints the model's trace for the same description.
-/
namespace BlochVerif.Obj

structure Cls where
  /-- this class declares `who()` (virtual in C0, override below) -/
  overrides : Bool
  /-- its `who()` body ends with `super.who()` -/
  callsSuper : Bool
  /-- value of the field initialiser `f<i>` -/
  field : Nat
  /-- the class declares a destructor -/
  dtor : Bool
deriving Repr, DecidableEq, Inhabited

abbrev Hier := List Cls

def Hier.ovr (h : Hier) (i : Nat) : Bool := i == 0 || (h.getD i default).overrides
def Hier.sup (h : Hier) (i : Nat) : Bool := i != 0 && (h.getD i default).callsSuper

/-- `vtable["who()"]` of class `i`: the base's slot, replaced when the class declares the method. -/
def vtableWho (h : Hier) : Nat → Nat
  | 0 => 0
  | i + 1 => if h.ovr (i + 1) then i + 1 else vtableWho h i

/-- `findMethod(cls = C_i, "who")`: first declaration found walking from `C_i` towards the root. -/
def findWho (h : Hier) : Nat → Nat
  | 0 => 0
  | i + 1 => if h.ovr (i + 1) then i + 1 else findWho h i

/-- a member call `v.who()`: static lookup from the declared class, then the receiver's vtable slot -/
def dispatchWho (h : Hier) (_stat dyn : Nat) : Nat := vtableWho h dyn

/-- classes whose `who()` bodies run, in order, starting from the body of class `impl`:
`super.who()` is resolved non-virtually from the base of the *declaring* class. -/
def whoChain (h : Hier) : Nat → Nat → List Nat
  | 0, _ => []
  | fuel + 1, impl =>
    impl :: (if h.sup impl then whoChain h fuel (findWho h (impl - 1)) else [])

def whoTrace (h : Hier) (impl : Nat) : List String :=
  (whoChain h (impl + 1) impl).map (fun i => s!"C{i}.who")

/-- classes in the order their constructor bodies complete: `runConstructorChain` recurses into the base
first (explicit `super(a+1)`), then runs this class's field initialisers, then its body. -/
def ctorOrder : Nat → List Nat
  | 0 => [0]
  | i + 1 => ctorOrder i ++ [i + 1]

def ctorLines (h : Hier) (dyn a : Nat) (i : Nat) : List String :=
  [s!"init f{i}", s!"init h{i}", s!"ctor C{i} {a + (dyn - i)} {(h.getD i default).field}"]

def ctorTrace (h : Hier) (dyn a : Nat) : List String :=
  (ctorOrder dyn).flatMap (ctorLines h dyn a)

/-- `destroyObject`: `for (cur = obj->cls; cur; cur = cur->base) if (cur->destructorDecl) run` -/
def dtorOrder (h : Hier) : Nat → List Nat
  | 0 => if (h.getD 0 default).dtor then [0] else []
  | i + 1 => (if (h.getD (i + 1) default).dtor then [i + 1] else []) ++ dtorOrder h i

def dtorTrace (h : Hier) (dyn : Nat) : List String := (dtorOrder h dyn).map (fun i => s!"dtor C{i}")

/-! ## Overload selection -/

inductive Ty where
  | int | long | float | string | boolean | bit | char
  | cls (i : Nat)
  | null
deriving Repr, DecidableEq, Inhabited

/-- `conversionCost(expected, actual)` on the closed universe above (classes = the linear hierarchy) -/
def convCost (expected actual : Ty) : Option Nat :=
  match expected, actual with
  | .cls _, .null => some 3
  | _, .null => none
  | .cls e, .cls a => if e ≤ a then some (a - e) else none
  | .cls _, _ => none
  | _, .cls _ => none
  | .long, .int => some 1
  | e, a => if e = a then some 0 else none

def paramsCost : List Ty → List Ty → Option Nat
  | [], [] => some 0
  | e :: es, a :: as =>
    match convCost e a, paramsCost es as with
    | some c, some r => some (c + r)
    | _, _ => none
  | _, _ => none

inductive Pick where
  | none | ambiguous | chosen (i : Nat)
deriving Repr, DecidableEq

/-- scan the candidates in declaration order keeping the strictly cheapest; a tie at the best cost is an
ambiguity (`findMethodInHierarchy`, `findMethod`). Returns (bestCost, index, ambiguous). -/
def pickAux (args : List Ty) : List (List Ty) → Nat → Option (Nat × Nat × Bool) → Option (Nat × Nat × Bool)
  | [], _, acc => acc
  | c :: cs, i, acc =>
    match paramsCost c args with
    | Option.none => pickAux args cs (i + 1) acc
    | some k =>
      match acc with
      | Option.none => pickAux args cs (i + 1) (some (k, i, false))
      | some (b, j, amb) =>
        if k < b then pickAux args cs (i + 1) (some (k, i, false))
        else if k = b then pickAux args cs (i + 1) (some (b, j, true))
        else pickAux args cs (i + 1) (some (b, j, amb))

def pick (cands : List (List Ty)) (args : List Ty) : Pick :=
  match pickAux args cands 0 Option.none with
  | Option.none => .none
  | some (_, _, true) => .ambiguous
  | some (_, i, false) => .chosen i

/-! ## Action machine -/

inductive GArg where
  | int | float | string
  | obj (stat : Nat)
deriving Repr, DecidableEq

inductive Action where
  | new (var stat dyn a : Nat)
  | who (var : Nat)
  | call (var : Nat)
  | getf (var : Nat)
  | bump (var : Nat)
  /-- `echo(v.root)`: a static declared in C0 read through an instance -/
  | readRoot (var : Nat)
  | g (arg : GArg)
  | churn (a n : Nat)
  | echoChurn (n : Nat)
  /-- the last reference disappears: `destroy v;` or the end of the block that declares `v` -/
  | drop (var : Nat)
deriving Repr, DecidableEq

structure St where
  /-- one static slot `made` per class -/
  made : List Nat
  /-- live variables: var ↦ (static class, dynamic class) -/
  vars : List (Nat × Nat × Nat)
deriving Repr

def St.init (depth : Nat) : St := { made := List.replicate depth 0, vars := [] }

def lookupVar (s : St) (v : Nat) : Option (Nat × Nat) := (s.vars.find? (·.1 == v)).map (·.2)

/-- every constructor body in the chain bumps its own class's slot -/
def bumpMade (made : List Nat) (dyn : Nat) : List Nat :=
  made.zipIdx.map (fun (m, i) => if i ≤ dyn then m + 1 else m)

def addAt (l : List Nat) (i k : Nat) : List Nat :=
  l.zipIdx.map (fun (m, j) => if j = i then m + k else m)

/-- the candidates of `K.g`, in declaration order -/
def gCands (depth : Nat) : List (List Ty) :=
  [[.int], [.float], [.string], [.cls 0]] ++ (if depth > 1 then [[.cls (depth - 1)]] else [])

def gName (depth : Nat) (i : Nat) : String :=
  match i with
  | 0 => "g(int)" | 1 => "g(float)" | 2 => "g(string)" | 3 => "g(C0)"
  | _ => s!"g(C{depth - 1})"

def gArgTy : GArg → Ty
  | .int => .int | .float => .float | .string => .string | .obj s => .cls s

def step (h : Hier) (s : St) : Action → St × List String
  | .new v stat dyn a =>
    ({ made := bumpMade s.made dyn, vars := (v, stat, dyn) :: s.vars }, ctorTrace h dyn a)
  | .who v =>
    match lookupVar s v with
    | some (stat, dyn) => (s, whoTrace h (dispatchWho h stat dyn))
    | Option.none => (s, ["<no such variable>"])
  | .call v =>
    match lookupVar s v with
    -- `call()` is declared in C0; its body's unqualified `who()` dispatches on the receiver
    | some (_, dyn) => (s, "call" :: whoTrace h (vtableWho h dyn))
    | Option.none => (s, ["<no such variable>"])
  | .getf v =>
    match lookupVar s v with
    | some _ => (s, [toString (h.getD 0 default).field])
    | Option.none => (s, ["<no such variable>"])
  | .bump v =>
    match lookupVar s v with
    -- `bump()` is declared in C0: the unqualified static `made` is C0's slot
    | some _ => let made := addAt s.made 0 100; ({ s with made := made }, [toString (made.getD 0 0)])
    | Option.none => (s, ["<no such variable>"])
  | .readRoot v =>
    match lookupVar s v with
    -- the slot of the declaring class, whatever the receiver's declared or dynamic class
    | some _ => (s, [toString (40 + (h.getD 0 default).field)])
    | Option.none => (s, ["<no such variable>"])
  | .g arg =>
    match pick (gCands h.length) [gArgTy arg] with
    | .chosen i => (s, [gName h.length i])
    | .ambiguous => (s, ["<ambiguous>"])
    | .none => (s, ["<no overload>"])
  | .churn _ n => (s, [s!"g(int){n}"])
  | .echoChurn n => (s, [toString n])
  | .drop v =>
    match lookupVar s v with
    | some (_, dyn) => ({ s with vars := s.vars.filter (·.1 != v) }, dtorTrace h dyn)
    | Option.none => (s, ["<no such variable>"])

def runActions (h : Hier) : St → List Action → St × List String
  | s, [] => (s, [])
  | s, a :: as =>
    let (s1, o1) := step h s a
    let (s2, o2) := runActions h s1 as
    (s2, o1 ++ o2)

/-- whole-program trace: the actions, then `echo("made C<i> " + C<i>.made)` for every class -/
def programTrace (h : Hier) (as : List Action) : List String :=
  let (s, out) := runActions h (St.init h.length) as
  out ++ (s.made.zipIdx.map (fun (m, i) => s!"made C{i} {m}"))

/-! ## Generic specialisation: `Box<T>` with a static counter bumped by its constructor -/

/-- each `new Box<T_t>(…)` echoes the counter of *that* specialisation; `seen` = type arguments so far -/
def genRun : List Nat → List Nat → List String
  | _, [] => []
  | seen, t :: ts => toString ((seen ++ [t]).count t) :: genRun (seen ++ [t]) ts

end BlochVerif.Obj
