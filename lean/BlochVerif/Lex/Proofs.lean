import BlochVerif.Lex.Model
/-!
# C15: the lexer is lossless and token positions are exact (core-only proofs)
-/
namespace BlochVerif.Lex

/-- **Independent definition of "position after a prefix"**: fold over the bytes, a newline starts
    the next line at column 1, any other byte advances the column. -/
def posAfter (p : Pos) (s : List Char) : Pos := s.foldl Pos.step p

theorem posAfter_append (p : Pos) (a b : List Char) :
    posAfter p (a ++ b) = posAfter (posAfter p a) b := by
  unfold posAfter; rw [List.foldl_append]

theorem posAfter_cons (p : Pos) (c : Char) (s : List Char) :
    posAfter p (c :: s) = posAfter (p.step c) s := rfl

theorem step_ne_nl (p : Pos) (c : Char) (h : c ≠ '\n') : p.step c = p.adv := by
  unfold Pos.step; rw [if_neg h]

theorem posAfter_no_nl (p : Pos) (s : List Char) (h : ∀ c ∈ s, c ≠ '\n') :
    posAfter p s = p.advN s.length := by
  induction s generalizing p with
  | nil => simp [posAfter, Pos.advN]
  | cons c cs ih =>
    rw [posAfter_cons, step_ne_nl p c (h c (by simp)), ih _ (fun x hx => h x (by simp [hx]))]
    simp only [Pos.adv, Pos.advN, List.length_cons]
    congr 1; omega

/-- closed form: line = start line + number of newlines; column counts from the last newline -/
theorem posAfter_line (p : Pos) (s : List Char) :
    (posAfter p s).line = p.line + s.count '\n' := by
  induction s generalizing p with
  | nil => simp [posAfter]
  | cons c cs ih =>
    rw [posAfter_cons, ih]
    by_cases h : c = '\n'
    · subst h; simp [Pos.step, Pos.nl]; omega
    · rw [step_ne_nl p c h]
      have : List.count '\n' (c :: cs) = List.count '\n' cs := by
        rw [List.count_cons]; simp [h]
      rw [this]; rfl

theorem posAfter_col_after_newline (p : Pos) (a b : List Char) (hb : ∀ c ∈ b, c ≠ '\n') :
    (posAfter p (a ++ '\n' :: b)).col = 1 + b.length := by
  rw [posAfter_append, posAfter_cons]
  have : (posAfter p a).step '\n' = ⟨(posAfter p a).line + 1, 1⟩ := by simp [Pos.step, Pos.nl]
  rw [this, posAfter_no_nl _ b hb]
  rfl

/-! ## trivia: whitespace and `//` comments -/

/-- `Triv false w`: `w` consists of whitespace and `//` comments (a comment runs to the next
    newline or to the end of input).  `Triv true w`: `w` is the tail of such a sequence that starts
    inside a comment. -/
inductive Triv : Bool → List Char → Prop
  | nil (m : Bool) : Triv m []
  | space {c : Char} {w : List Char} : isSpace c = true → Triv false w → Triv false (c :: w)
  | opn {w : List Char} : Triv true w → Triv false ('/' :: '/' :: w)
  | body {c : Char} {w : List Char} : c ≠ '\n' → Triv true w → Triv true (c :: w)
  | close {w : List Char} : Triv false w → Triv true ('\n' :: w)

/-- what remains after skipping trivia does not start with whitespace or `//` -/
def StartsToken (s : List Char) : Prop :=
  match s with
  | [] => True
  | [c] => isSpace c = false
  | c :: d :: _ => isSpace c = false ∧ ¬ (c = '/' ∧ d = '/')

theorem skipWsAux_spec (m : Bool) (s : List Char) (p : Pos) :
    ∃ w, s = w ++ (skipWsAux m s p).1 ∧ Triv m w ∧ (skipWsAux m s p).2 = posAfter p w ∧
      StartsToken (skipWsAux m s p).1 := by
  fun_induction skipWsAux m s p with
  | case1 m p => exact ⟨[], rfl, Triv.nil m, rfl, trivial⟩
  | case2 cs p ih =>
    obtain ⟨w, h1, h2, h3, h4⟩ := ih
    refine ⟨'\n' :: w, by rw [List.cons_append, ← h1], Triv.close h2, ?_, h4⟩
    rw [h3, posAfter_cons]; simp [Pos.step]
  | case3 c cs p hc ih =>
    obtain ⟨w, h1, h2, h3, h4⟩ := ih
    refine ⟨c :: w, by rw [List.cons_append, ← h1], Triv.body hc h2, ?_, h4⟩
    rw [h3, posAfter_cons, step_ne_nl p c hc]
  | case4 c cs p hs ih =>
    obtain ⟨w, h1, h2, h3, h4⟩ := ih
    exact ⟨c :: w, by rw [List.cons_append, ← h1], Triv.space hs h2, by rw [h3, posAfter_cons], h4⟩
  | case5 p cs' hs ih =>
    obtain ⟨w, h1, h2, h3, h4⟩ := ih
    refine ⟨'/' :: '/' :: w, by simp only [List.cons_append]; rw [← h1], Triv.opn h2, ?_, h4⟩
    rw [h3, posAfter_cons, posAfter_cons, step_ne_nl p '/' (by decide),
      step_ne_nl p.adv '/' (by decide)]
  | case6 c cs p hs hno =>
    refine ⟨[], rfl, Triv.nil false, rfl, ?_⟩
    have hs' : isSpace c = false := by cases h : isSpace c <;> simp_all
    cases cs with
    | nil => exact hs'
    | cons d ds =>
      refine ⟨hs', ?_⟩
      rintro ⟨rfl, rfl⟩
      exact hno ds rfl rfl

theorem spanP_append (f : Char → Bool) (s : List Char) : (spanP f s).1 ++ (spanP f s).2 = s := by
  induction s with
  | nil => rfl
  | cons c cs ih =>
    unfold spanP
    split
    · simp [ih]
    · simp

theorem spanP_all (f : Char → Bool) (s : List Char) : ∀ c ∈ (spanP f s).1, f c = true := by
  induction s with
  | nil => intro c hc; simp [spanP] at hc
  | cons c cs ih =>
    unfold spanP
    split
    · rename_i h
      intro x hx
      simp only [List.mem_cons] at hx
      rcases hx with rfl | hx
      · exact h
      · exact ih x hx
    · intro x hx; simp at hx

theorem digit_ne_nl (c : Char) (h : isDigit c = true) : c ≠ '\n' := by
  rintro rfl; revert h; decide

theorem identPart_ne_nl (c : Char) (h : isIdentPart c = true) : c ≠ '\n' := by
  rintro rfl; revert h; decide

theorem identStart_ne_nl (c : Char) (h : isIdentStart c = true) : c ≠ '\n' := by
  rintro rfl; revert h; decide

/-- what one successful token scan guarantees -/
structure ScanOK (start : Pos) (input : List Char) (tok : Token) (rest' : List Char) (p' : Pos) : Prop where
  split : input = tok.text ++ rest'
  nonempty : tok.text ≠ []
  pos : tok.pos = start
  after : p' = posAfter start tok.text

theorem advN_advN (p : Pos) (a b : Nat) : (p.advN a).advN b = p.advN (a + b) := by
  simp [Pos.advN]; omega

theorem advN_adv (p : Pos) (a : Nat) : (p.advN a).adv = p.advN (a + 1) := by
  simp [Pos.advN, Pos.adv]; omega

/-- the common shape of every successful scan: the token text is a non-empty prefix of the input
    without newlines, stamped with the start position; the position advances by its length -/
theorem ScanOK.of_prefix (start : Pos) (input : List Char) (ty : TokenType) (text rest' : List Char)
    (h1 : input = text ++ rest') (h2 : text ≠ []) (h3 : ∀ c ∈ text, c ≠ '\n') :
    ScanOK start input ⟨ty, text, start⟩ rest' (start.advN text.length) :=
  ⟨h1, h2, rfl, by rw [posAfter_no_nl _ _ h3]⟩

theorem scanNumber_ok (kw : List Char → Option TokenType) (start : Pos) (d : Char) (rest : List Char)
    (hd : isDigit d = true) (tok : Token) (rest' : List Char) (p' : Pos)
    (h : scanNumber kw start d rest = .ok (tok, rest', p')) : ScanOK start (d :: rest) tok rest' p' := by
  unfold scanNumber at h
  simp only at h
  have hsp := spanP_append isDigit rest
  have hall := spanP_all isDigit rest
  generalize (spanP isDigit rest).1 = ds at *
  generalize (spanP isDigit rest).2 = r1 at *
  have hint : ∀ c ∈ d :: ds, c ≠ '\n' := by
    intro c hc; simp only [List.mem_cons] at hc
    rcases hc with rfl | hc
    · exact digit_ne_nl _ hd
    · exact digit_ne_nl _ (hall c hc)
  subst hsp
  split at h
  next r2 =>
    have hsp2 := spanP_append isDigit r2
    have hall2 := spanP_all isDigit r2
    generalize (spanP isDigit r2).1 = fs at *
    generalize (spanP isDigit r2).2 = r3 at *
    subst hsp2
    split at h
    next r4 =>
      injection h with h; injection h with h1 h2; injection h2 with h2 h3
      subst h1; subst h2; subst h3
      have := ScanOK.of_prefix start (d :: (ds ++ '.' :: (fs ++ 'f' :: r4))) .FloatLiteral
        (d :: ds ++ '.' :: fs ++ ['f']) r4 (by simp) (by simp)
        (by intro c hc
            simp only [List.cons_append, List.mem_cons, List.mem_append, List.not_mem_nil, or_false] at hc
            rcases hc with rfl | (hc | rfl | hc) | rfl
            · exact hint _ (by simp)
            · exact hint _ (by simp [hc])
            · decide
            · exact digit_ne_nl _ (hall2 c hc)
            · decide)
      refine ⟨this.split, this.nonempty, this.pos, ?_⟩
      rw [← this.after]
      simp [Pos.advN, Pos.adv]; omega
    next => cases h
  next r2 =>
    injection h with h; injection h with h1 h2; injection h2 with h2 h3
    subst h1; subst h2; subst h3
    have := ScanOK.of_prefix start (d :: (ds ++ 'f' :: r2)) .FloatLiteral (d :: ds ++ ['f']) r2 (by simp) (by simp)
      (by intro c hc
          simp only [List.cons_append, List.mem_cons, List.mem_append, List.not_mem_nil, or_false] at hc
          rcases hc with rfl | hc | rfl
          · exact hint _ (by simp)
          · exact hint _ (by simp [hc])
          · decide)
    refine ⟨this.split, this.nonempty, this.pos, ?_⟩
    rw [← this.after]; simp [Pos.advN, Pos.adv]; omega
  next r2 =>
    injection h with h; injection h with h1 h2; injection h2 with h2 h3
    subst h1; subst h2; subst h3
    have := ScanOK.of_prefix start (d :: (ds ++ 'L' :: r2)) .LongLiteral (d :: ds ++ ['L']) r2 (by simp) (by simp)
      (by intro c hc
          simp only [List.cons_append, List.mem_cons, List.mem_append, List.not_mem_nil, or_false] at hc
          rcases hc with rfl | hc | rfl
          · exact hint _ (by simp)
          · exact hint _ (by simp [hc])
          · decide)
    refine ⟨this.split, this.nonempty, this.pos, ?_⟩
    rw [← this.after]; simp [Pos.advN, Pos.adv]; omega
  next r2 =>
    split at h
    · injection h with h; injection h with h1 h2; injection h2 with h2 h3
      subst h1; subst h2; subst h3
      have := ScanOK.of_prefix start (d :: (ds ++ 'b' :: r2)) .BitLiteral (d :: ds ++ ['b']) r2 (by simp) (by simp)
        (by intro c hc
            simp only [List.cons_append, List.mem_cons, List.mem_append, List.not_mem_nil, or_false] at hc
            rcases hc with rfl | hc | rfl
            · exact hint _ (by simp)
            · exact hint _ (by simp [hc])
            · decide)
      refine ⟨this.split, this.nonempty, this.pos, ?_⟩
      rw [← this.after]; simp [Pos.advN, Pos.adv]; omega
    · cases h
  next =>
    injection h with h; injection h with h1 h2; injection h2 with h2 h3
    subst h1; subst h2; subst h3
    exact ScanOK.of_prefix start (d :: (ds ++ r1)) .IntegerLiteral (d :: ds) r1 (by simp) (by simp) hint

theorem scanIdent_ok (kw : List Char → Option TokenType) (start : Pos) (c : Char) (rest : List Char)
    (hc : isIdentStart c = true) (tok : Token) (rest' : List Char) (p' : Pos)
    (h : scanIdent kw start c rest = .ok (tok, rest', p')) : ScanOK start (c :: rest) tok rest' p' := by
  unfold scanIdent at h
  simp only at h
  have hsp := spanP_append isIdentPart rest
  have hall := spanP_all isIdentPart rest
  generalize (spanP isIdentPart rest).1 = body at *
  generalize (spanP isIdentPart rest).2 = r1 at *
  subst hsp
  injection h with h; injection h with h1 h2; injection h2 with h2 h3
  subst h1; subst h2; subst h3
  exact ScanOK.of_prefix start (c :: (body ++ r1)) _ (c :: body) r1 (by simp) (by simp)
    (by intro x hx; simp only [List.mem_cons] at hx
        rcases hx with rfl | hx
        · exact identStart_ne_nl _ hc
        · exact identPart_ne_nl _ (hall x hx))

theorem stringBody_spec (s : List Char) (p : Pos) :
    s = (stringBody s p).1 ++ (stringBody s p).2.1 ∧
    (stringBody s p).2.2 = posAfter p (stringBody s p).1 ∧
    (∀ c ∈ (stringBody s p).1, c ≠ '"') := by
  fun_induction stringBody s p with
  | case1 p => exact ⟨rfl, rfl, by intro c hc; cases hc⟩
  | case2 cs p => exact ⟨rfl, rfl, by intro c hc; cases hc⟩
  | case3 c cs p hq r ih =>
    obtain ⟨h1, h2, h3⟩ := ih
    refine ⟨by simp only [List.cons_append]; rw [← h1], by rw [posAfter_cons]; exact h2, ?_⟩
    intro x hx
    simp only [List.mem_cons] at hx
    rcases hx with rfl | hx
    · exact hq
    · exact h3 x hx

theorem scanString_ok (start : Pos) (rest : List Char) (tok : Token) (rest' : List Char) (p' : Pos)
    (h : scanString start start.adv rest = .ok (tok, rest', p')) :
    ScanOK start ('"' :: rest) tok rest' p' := by
  unfold scanString at h
  simp only at h
  obtain ⟨h1, h2, _⟩ := stringBody_spec rest start.adv
  generalize (stringBody rest start.adv).1 = body at *
  generalize (stringBody rest start.adv).2.1 = r at *
  generalize (stringBody rest start.adv).2.2 = pe at *
  subst h1
  split at h
  next r2 =>
    injection h with h; injection h with t1 t2; injection t2 with t2 t3
    subst t1; subst t2; subst t3
    refine ⟨by simp, by simp, rfl, ?_⟩
    show pe.adv = posAfter start ('"' :: body ++ ['"'])
    rw [List.cons_append, posAfter_cons, posAfter_append, step_ne_nl start '"' (by decide), ← h2]
    rfl
  next => cases h

theorem scanChar_ok (start : Pos) (rest : List Char) (tok : Token) (rest' : List Char) (p' : Pos)
    (h : scanChar start start.adv rest = .ok (tok, rest', p')) :
    ScanOK start ('\'' :: rest) tok rest' p' := by
  unfold scanChar at h
  split at h
  next => cases h
  next x r1 =>
    split at h
    next r2 =>
      injection h with h; injection h with t1 t2; injection t2 with t2 t3
      subst t1; subst t2; subst t3
      refine ⟨rfl, by simp, rfl, ?_⟩
      show (start.adv.step x).adv = posAfter start ['\'', x, '\'']
      simp only [posAfter, List.foldl_cons, List.foldl_nil]
      rw [step_ne_nl start '\'' (by decide), step_ne_nl (start.adv.step x) '\'' (by decide)]
    next => cases h

/-- the shape of every `scanOp` result: a non-empty prefix of the input without newline -/
def GoodOp (c : Char) (rest : List Char) (r : TokenType × List Char × List Char) : Prop :=
  c :: rest = r.2.1 ++ r.2.2 ∧ r.2.1 ≠ [] ∧ (∀ x ∈ r.2.1, x ≠ '\n')

theorem GoodOp.ite {c : Char} {rest : List Char} {p : Prop} [Decidable p]
    {a b : TokenType × List Char × List Char} (ha : GoodOp c rest a) (hb : GoodOp c rest b) :
    GoodOp c rest (if p then a else b) := by
  split <;> assumption

theorem GoodOp.one (c : Char) (rest : List Char) (hcn : c ≠ '\n') (t : TokenType) :
    GoodOp c rest (t, [c], rest) := by
  refine ⟨rfl, by simp, ?_⟩
  intro x hx; simp at hx; subst hx; exact hcn

theorem GoodOp.two (c : Char) (rest : List Char) (hcn : c ≠ '\n') (second : Char) (t2 t1 : TokenType)
    (hs : second ≠ '\n') : GoodOp c rest (scanTwo c second t2 t1 rest) := by
  unfold scanTwo
  cases rest with
  | nil => exact GoodOp.one c [] hcn t1
  | cons x r =>
    simp only
    by_cases hx : x = second
    · simp only [hx, if_true]
      refine ⟨rfl, by simp, ?_⟩
      intro y hy; simp at hy; rcases hy with rfl | rfl
      · exact hcn
      · exact hs
    · simp only [hx, if_false]; exact GoodOp.one c _ hcn t1

theorem GoodOp.minus (rest : List Char) : GoodOp '-' rest (scanMinus rest) := by
  unfold scanMinus
  split
  · exact ⟨rfl, by simp, by intro y hy; simp at hy; rcases hy with rfl | rfl <;> decide⟩
  · exact ⟨rfl, by simp, by intro y hy; simp at hy; rcases hy with rfl | rfl <;> decide⟩
  · exact GoodOp.one '-' rest (by decide) _

/-- what `scanOp` returns: a one- or two-character prefix without newline (given the first
    character is not whitespace) -/
theorem scanOp_spec (c : Char) (rest : List Char) (hc : isSpace c = false) :
    GoodOp c rest (scanOp c rest) := by
  have hcn : c ≠ '\n' := by rintro rfl; revert hc; decide
  unfold scanOp
  by_cases hm : c = '-'
  · subst hm
    simpa using GoodOp.minus rest
  · simp only [hm, if_false]
    repeat' (first
      | exact GoodOp.one c rest hcn _
      | exact GoodOp.two c rest hcn _ _ _ (by decide)
      | (apply GoodOp.ite))

theorem scanToken_ok (kw : List Char → Option TokenType) (start : Pos) (c : Char) (rest : List Char)
    (hc : isSpace c = false) (tok : Token) (rest' : List Char) (p' : Pos)
    (h : scanToken kw start c rest = .ok (tok, rest', p')) : ScanOK start (c :: rest) tok rest' p' := by
  unfold scanToken at h
  by_cases h1 : isDigit c = true
  · rw [if_pos h1] at h; exact scanNumber_ok kw start c rest h1 tok rest' p' h
  · rw [if_neg h1] at h
    by_cases h2 : isIdentStart c = true
    · rw [if_pos h2] at h; exact scanIdent_ok kw start c rest h2 tok rest' p' h
    · rw [if_neg h2] at h
      by_cases h3 : c = '"'
      · subst h3; rw [if_pos rfl] at h; exact scanString_ok start rest tok rest' p' h
      · rw [if_neg h3] at h
        by_cases h4 : c = '\''
        · subst h4; rw [if_pos rfl] at h; exact scanChar_ok start rest tok rest' p' h
        · rw [if_neg h4] at h
          simp only at h
          obtain ⟨g1, g2, g3⟩ := scanOp_spec c rest hc
          injection h with h; injection h with t1 t2; injection t2 with t2 t3
          subst t1; subst t2; subst t3
          exact ScanOK.of_prefix start (c :: rest) _ _ _ g1 g2 g3

/-- **The lossless/position specification.** `Lexed p src toks`: starting at position `p`, the
    source `src` is `w₀ ++ t₁ ++ w₁ ++ … ++ tₙ ++ wₙ` where the `tᵢ` are the token texts in order,
    every `wᵢ` is whitespace/`//` comments, each token is stamped with the position of its first
    character (`posAfter` of everything before it) and the final `Eof` token with the end position. -/
inductive Lexed : Pos → List Char → List Token → Prop
  | eof {p : Pos} {w : List Char} : Triv false w → Lexed p w [⟨.Eof, [], posAfter p w⟩]
  | tok {p : Pos} {w : List Char} {t : Token} {rest : List Char} {ts : List Token} :
      Triv false w → t.text ≠ [] → t.pos = posAfter p w →
      Lexed (posAfter p (w ++ t.text)) rest ts →
      Lexed p (w ++ t.text ++ rest) (t :: ts)

theorem tokenizeAux_spec (kw : List Char → Option TokenType) (fuel : Nat) (s : List Char) (p : Pos)
    (acc : List Token) (toks : List Token) (hf : s.length < fuel)
    (h : tokenizeAux kw fuel s p acc = .ok toks) :
    ∃ ts, toks = acc.reverse ++ ts ∧ Lexed p s ts := by
  induction fuel generalizing s p acc with
  | zero => omega
  | succ f ih =>
    unfold tokenizeAux at h
    cases s with
    | nil =>
      injection h with h
      exact ⟨_, h.symm, Lexed.eof (Triv.nil false)⟩
    | cons c0 cs =>
      simp only at h
      obtain ⟨w, hw1, hw2, hw3, hw4⟩ := skipWsAux_spec false (c0 :: cs) p
      have hskip : skipWs (c0 :: cs) p = skipWsAux false (c0 :: cs) p := rfl
      rw [hskip] at h
      generalize hr : (skipWsAux false (c0 :: cs) p).1 = r at *
      generalize hp2 : (skipWsAux false (c0 :: cs) p).2 = p2 at *
      cases r with
      | nil =>
        simp only at h
        injection h with h
        refine ⟨_, h.symm, ?_⟩
        rw [hw1, List.append_nil, hw3]
        exact Lexed.eof hw2
      | cons c rest =>
        simp only at h
        have hcs : isSpace c = false := by
          cases rest with
          | nil => exact hw4
          | cons d ds => exact hw4.1
        cases hsc : scanToken kw p2 c rest with
        | error e => rw [hsc] at h; cases h
        | ok res =>
          obtain ⟨tok, rest', p'⟩ := res
          rw [hsc] at h
          simp only at h
          have ok := scanToken_ok kw p2 c rest hcs tok rest' p' hsc
          have hlen : rest'.length < f := by
            have e1 : (c0 :: cs).length = w.length + (c :: rest).length := by rw [hw1]; simp
            have e2 : (c :: rest).length = tok.text.length + rest'.length := by rw [ok.split]; simp
            have e3 : 0 < tok.text.length := List.length_pos_iff.mpr ok.nonempty
            omega
          obtain ⟨ts, hts1, hts2⟩ := ih rest' p' (tok :: acc) hlen h
          refine ⟨tok :: ts, by rw [hts1]; simp, ?_⟩
          rw [hw1, ok.split, ← List.append_assoc]
          refine Lexed.tok hw2 ok.nonempty (by rw [ok.pos, hw3]) ?_
          rw [posAfter_append, ← hw3, ← ok.after]
          exact hts2

/-- **C15.** Whatever the keyword table: if the lexer accepts `src`, the tokens it returns
    reproduce `src` exactly except for whitespace and `//` comments, and every token (including
    multi-line strings and the final `Eof`) is reported at the position of its first character. -/
theorem tokenize_lossless (kw : List Char → Option TokenType) (src : List Char) (toks : List Token)
    (h : tokenize kw src = .ok toks) : Lexed ⟨1, 1⟩ src toks := by
  unfold tokenize at h
  obtain ⟨ts, h1, h2⟩ := tokenizeAux_spec kw (src.length + 1) src ⟨1, 1⟩ [] toks (by omega) h
  simp at h1; subst h1; exact h2

end BlochVerif.Lex

namespace BlochVerif.Lex

/-- a successful scan strictly shortens the input -/
theorem scanToken_shrinks (kw : List Char → Option TokenType) (start : Pos) (c : Char) (rest : List Char)
    (hc : isSpace c = false) (tok : Token) (rest' : List Char) (p' : Pos)
    (h : scanToken kw start c rest = .ok (tok, rest', p')) : rest'.length < (c :: rest).length := by
  have ok := scanToken_ok kw start c rest hc tok rest' p' h
  have e2 : (c :: rest).length = tok.text.length + rest'.length := by rw [ok.split]; simp
  have e3 : 0 < tok.text.length := List.length_pos_iff.mpr ok.nonempty
  omega

/-- **The lexer never runs out of fuel**: with any fuel above the input length the result is the
    same, so the `fuel = 0` branch is unreachable from `tokenize` — the loop always terminates by
    consuming the input (every iteration consumes at least one byte). -/
theorem tokenizeAux_fuel_irrelevant (kw : List Char → Option TokenType) (f1 f2 : Nat) (s : List Char)
    (p : Pos) (acc : List Token) (h1 : s.length < f1) (h2 : s.length < f2) :
    tokenizeAux kw f1 s p acc = tokenizeAux kw f2 s p acc := by
  induction f1 generalizing f2 s p acc with
  | zero => omega
  | succ n ih =>
    cases f2 with
    | zero => omega
    | succ m =>
      unfold tokenizeAux
      cases s with
      | nil => rfl
      | cons c0 cs =>
        simp only
        obtain ⟨w, hw1, _, _, hw4⟩ := skipWsAux_spec false (c0 :: cs) p
        have hskip : skipWs (c0 :: cs) p = skipWsAux false (c0 :: cs) p := rfl
        rw [hskip]
        generalize hr : (skipWsAux false (c0 :: cs) p).1 = r at *
        generalize (skipWsAux false (c0 :: cs) p).2 = p2 at *
        cases r with
        | nil => rfl
        | cons c rest =>
          simp only
          have hcs : isSpace c = false := by
            cases rest with
            | nil => exact hw4
            | cons d ds => exact hw4.1
          cases hsc : scanToken kw p2 c rest with
          | error e => rfl
          | ok res =>
            obtain ⟨tok, rest', p'⟩ := res
            simp only
            have hs := scanToken_shrinks kw p2 c rest hcs tok rest' p' hsc
            have e1 : (c0 :: cs).length = w.length + (c :: rest).length := by rw [hw1]; simp
            exact ih m rest' p' (tok :: acc) (by omega) (by omega)

end BlochVerif.Lex
