import BlochVerif.Lex.Model
import BlochVerif.Generated.Operators
/-!
# The operator scanner is the source's `switch (c)`

`Generated/Operators.lean` is rewritten on every run from the `switch (c)` of `Lexer::scanToken`.  `scanOpBy` reads such a table
the way the switch reads its cases (first character; then the second characters in the order they are tried; else the
one-character token; a character with no case is `Unknown`), and the hand-written `scanOp` of the model is that reading of
the regenerated table, for every character and every continuation.
-/
namespace BlochVerif.Lex

def scanOpBy (tbl : List (Char × List (Char × TokenType × List Char) × TokenType × List Char))
    (c : Char) (rest : List Char) : TokenType × List Char × List Char :=
  match tbl.find? (fun r => c == r.1) with
  | none => (.Unknown, [c], rest)
  | some (_, seconds, t1, txt1) =>
    match rest with
    | [] => (t1, txt1, rest)
    | x :: r =>
      match seconds.find? (fun s => x == s.1) with
      | some (_, t2, txt2) => (t2, txt2, r)
      | none => (t1, txt1, rest)

set_option hygiene false in
macro "op_case" : tactic => `(tactic|
  (cases rest with
   | nil => rfl
   | cons x r =>
     simp only [scanOp, scanOpBy, Generated.operatorTable, List.find?, scanTwo, scanMinus]
     simp
     try (split <;> simp_all)))

theorem scanOp_eq_table (c : Char) (rest : List Char) :
    scanOp c rest = scanOpBy Generated.operatorTable c rest := by
  by_cases h0 : c = '='
  · subst h0; op_case
  by_cases h1 : c = '!'
  · subst h1; op_case
  by_cases h2 : c = '+'
  · subst h2; op_case
  by_cases h3 : c = '&'
  · subst h3; op_case
  by_cases h4 : c = '|'
  · subst h4; op_case
  by_cases h5 : c = '^'
  · subst h5; op_case
  by_cases h6 : c = '~'
  · subst h6; op_case
  by_cases h7 : c = '-'
  · subst h7; op_case
  by_cases h8 : c = '*'
  · subst h8; op_case
  by_cases h9 : c = '/'
  · subst h9; op_case
  by_cases h10 : c = '%'
  · subst h10; op_case
  by_cases h11 : c = '>'
  · subst h11; op_case
  by_cases h12 : c = '<'
  · subst h12; op_case
  by_cases h13 : c = '?'
  · subst h13; op_case
  by_cases h14 : c = ':'
  · subst h14; op_case
  by_cases h15 : c = '.'
  · subst h15; op_case
  by_cases h16 : c = ';'
  · subst h16; op_case
  by_cases h17 : c = ','
  · subst h17; op_case
  by_cases h18 : c = '@'
  · subst h18; op_case
  by_cases h19 : c = '('
  · subst h19; op_case
  by_cases h20 : c = ')'
  · subst h20; op_case
  by_cases h21 : c = '{'
  · subst h21; op_case
  by_cases h22 : c = '}'
  · subst h22; op_case
  by_cases h23 : c = '['
  · subst h23; op_case
  by_cases h24 : c = ']'
  · subst h24; op_case
  have hb : ∀ d : Char, ¬ c = d → (c == d) = false := fun d h => by simpa using h
  simp only [scanOp, scanOpBy, Generated.operatorTable, List.find?]
  simp [*]
end BlochVerif.Lex
