/-!
# Model of `src/bloch/compiler/lexer/lexer.cpp`

Source bytes are `Char`s with code points 0–255 (the driver maps bytes to code points); the
character classes are the C-locale `<cctype>` ones.  Each scanner mirrors its C++ namesake:
`advance` bumps the column, newlines are handled at exactly the three places the C++ handles them
(`skipWhitespace`, `scanString`, `scanChar`), and a token is stamped with the position captured
when `scanToken` starts.  Core-only.
-/
namespace BlochVerif.Lex

inductive TokenType where
  | Identifier | IntegerLiteral | FloatLiteral | LongLiteral | BitLiteral | StringLiteral | CharLiteral
  | True | False
  | Null | Int | Long | Float | String | Char | Qubit | Bit | Boolean | Void | Function | Return
  | If | Else | For | While | Measure | Final | Reset | Default
  | At | Quantum | Tracked | Shots
  | Class | Public | Private | Protected | Static | Extends | Abstract | Virtual | Override | Super
  | This | Import | Package | New | Constructor | Destructor | Destroy
  | Equals | Plus | PlusPlus | Minus | MinusMinus | Star | Slash | Percent | Greater | GreaterEqual
  | Less | LessEqual | EqualEqual | Bang | BangEqual | Ampersand | AmpersandAmpersand | Pipe
  | PipePipe | Caret | Tilde | Question | Colon | Dot | Semicolon | Comma | Arrow
  | LParen | RParen | LBrace | RBrace | LBracket | RBracket
  | Echo | Eof | Unknown
deriving Repr, DecidableEq, Inhabited

structure Pos where
  line : Nat
  col : Nat
deriving Repr, DecidableEq, Inhabited

structure Token where
  type : TokenType
  text : List Char
  pos : Pos
deriving Repr, DecidableEq, Inhabited

inductive LexErrKind where
  | floatNoF | badBit | unterminatedString | unterminatedChar
deriving Repr, DecidableEq

structure LexError where
  kind : LexErrKind
  pos : Pos
deriving Repr, DecidableEq

/-! ## C-locale character classes -/
def isSpace (c : Char) : Bool := c.toNat = 32 || (9 ≤ c.toNat && c.toNat ≤ 13)
def isDigit (c : Char) : Bool := 48 ≤ c.toNat && c.toNat ≤ 57
def isAlpha (c : Char) : Bool := (65 ≤ c.toNat && c.toNat ≤ 90) || (97 ≤ c.toNat && c.toNat ≤ 122)
def isAlnum (c : Char) : Bool := isAlpha c || isDigit c
def isIdentStart (c : Char) : Bool := isAlpha c || c = '_'
def isIdentPart (c : Char) : Bool := isAlnum c || c = '_'

/-- `advance()`: one more column -/
def Pos.adv (p : Pos) : Pos := ⟨p.line, p.col + 1⟩
/-- consuming a newline where the C++ handles it: next line, column 1 -/
def Pos.nl (p : Pos) : Pos := ⟨p.line + 1, 1⟩
/-- consume `c` at a newline-aware site -/
def Pos.step (p : Pos) (c : Char) : Pos := if c = '\n' then p.nl else p.adv
def Pos.advN (p : Pos) (n : Nat) : Pos := ⟨p.line, p.col + n⟩

/-- `skipWhitespace` with `skipComment` folded in: in comment mode everything up to the newline
    is dropped; the newline itself is then consumed as whitespace (next line, column 1), exactly as
    the C++ loop does after `skipComment` returns. -/
def skipWsAux : Bool → List Char → Pos → List Char × Pos
  | _, [], p => ([], p)
  | true, c :: cs, p => if c = '\n' then skipWsAux false cs p.nl else skipWsAux true cs p.adv
  | false, c :: cs, p =>
    if isSpace c then skipWsAux false cs (p.step c)
    else match c, cs with
      | '/', '/' :: cs' => skipWsAux true cs' p.adv.adv
      | _, _ => (c :: cs, p)

def skipWs (s : List Char) (p : Pos) : List Char × Pos := skipWsAux false s p

/-- longest prefix satisfying `f`, and the rest -/
def spanP (f : Char → Bool) : List Char → List Char × List Char
  | [] => ([], [])
  | c :: cs => if f c then ((c :: (spanP f cs).1), (spanP f cs).2) else ([], c :: cs)

theorem spanP_len (f : Char → Bool) (s : List Char) :
    (spanP f s).1.length + (spanP f s).2.length = s.length := by
  induction s with
  | nil => rfl
  | cons c cs ih =>
    unfold spanP
    split
    · simp only [List.length_cons]; omega
    · simp

/-- result of scanning one token: the token, the remaining input, the position after it -/
abbrev ScanRes := Except LexError (Token × List Char × Pos)

/-- `scanNumber`; `d` is the first digit (already consumed), `start` the token start -/
def scanNumber (keyword : List Char → Option TokenType) (start : Pos) (d : Char) (rest : List Char) : ScanRes :=
  let _ := keyword
  let ds := (spanP isDigit rest).1
  let r1 := (spanP isDigit rest).2
  let intPart := d :: ds
  let p1 := start.advN intPart.length
  match r1 with
  | '.' :: r2 =>
    let fs := (spanP isDigit r2).1
    let r3 := (spanP isDigit r2).2
    let p3 := p1.advN (1 + fs.length)
    match r3 with
    | 'f' :: r4 => .ok (⟨.FloatLiteral, intPart ++ '.' :: fs ++ ['f'], start⟩, r4, p3.adv)
    | _ => .error ⟨.floatNoF, p3⟩
  | 'f' :: r2 => .ok (⟨.FloatLiteral, intPart ++ ['f'], start⟩, r2, p1.adv)
  | 'L' :: r2 => .ok (⟨.LongLiteral, intPart ++ ['L'], start⟩, r2, p1.adv)
  | 'b' :: r2 =>
    if intPart = ['0'] ∨ intPart = ['1'] then .ok (⟨.BitLiteral, intPart ++ ['b'], start⟩, r2, p1.adv)
    else .error ⟨.badBit, p1⟩
  | _ => .ok (⟨.IntegerLiteral, intPart, start⟩, r1, p1)

/-- `scanIdentifierOrKeyword` -/
def scanIdent (keyword : List Char → Option TokenType) (start : Pos) (c : Char) (rest : List Char) : ScanRes :=
  let body := (spanP isIdentPart rest).1
  let r1 := (spanP isIdentPart rest).2
  let text := c :: body
  let ty := match keyword text with | some t => t | none => .Identifier
  .ok (⟨ty, text, start⟩, r1, start.advN text.length)

/-- the `while (... peek() != '"')` loop of `scanString`: consumed characters, rest, position -/
def stringBody : List Char → Pos → List Char × List Char × Pos
  | [], p => ([], [], p)
  | c :: cs, p =>
    if c = '"' then ([], c :: cs, p)
    else
      let r := stringBody cs (p.step c)
      (c :: r.1, r.2.1, r.2.2)

theorem stringBody_len (s : List Char) (p : Pos) :
    (stringBody s p).1.length + (stringBody s p).2.1.length = s.length := by
  induction s generalizing p with
  | nil => rfl
  | cons c cs ih =>
    unfold stringBody
    split
    · simp
    · simp only [List.length_cons]; have := ih (p.step c); omega

/-- `scanString`; the opening quote is consumed, `p` is the position after it -/
def scanString (start p : Pos) (rest : List Char) : ScanRes :=
  let r := stringBody rest p
  match r.2.1 with
  | '"' :: r2 => .ok (⟨.StringLiteral, '"' :: r.1 ++ ['"'], start⟩, r2, r.2.2.adv)
  | _ => .error ⟨.unterminatedString, r.2.2⟩

/-- `scanChar`; the opening quote is consumed, `p` is the position after it -/
def scanChar (start p : Pos) (rest : List Char) : ScanRes :=
  match rest with
  | [] => .error ⟨.unterminatedChar, p⟩
  | x :: r1 =>
    match r1 with
    | '\'' :: r2 => .ok (⟨.CharLiteral, ['\'', x, '\''], start⟩, r2, (p.step x).adv)
    | _ => .error ⟨.unterminatedChar, p.step x⟩

/-- `match(second) ? two-character token : one-character token` -/
def scanTwo (c second : Char) (t2 t1 : TokenType) (rest : List Char) : TokenType × List Char × List Char :=
  match rest with
  | x :: r => if x = second then (t2, [c, second], r) else (t1, [c], rest)
  | [] => (t1, [c], rest)

/-- the three tokens that start with `-` -/
def scanMinus (rest : List Char) : TokenType × List Char × List Char :=
  match rest with
  | '>' :: r => (.Arrow, ['-', '>'], r)
  | '-' :: r => (.MinusMinus, ['-', '-'], r)
  | _ => (.Minus, ['-'], rest)

/-- one- and two-character operators: `(type, text, rest)` -/
def scanOp (c : Char) (rest : List Char) : TokenType × List Char × List Char :=
  if c = '=' then scanTwo c '=' .EqualEqual .Equals rest
  else if c = '!' then scanTwo c '=' .BangEqual .Bang rest
  else if c = '+' then scanTwo c '+' .PlusPlus .Plus rest
  else if c = '&' then scanTwo c '&' .AmpersandAmpersand .Ampersand rest
  else if c = '|' then scanTwo c '|' .PipePipe .Pipe rest
  else if c = '^' then (.Caret, [c], rest)
  else if c = '~' then (.Tilde, [c], rest)
  else if c = '-' then scanMinus rest
  else if c = '*' then (.Star, [c], rest)
  else if c = '/' then (.Slash, [c], rest)
  else if c = '%' then (.Percent, [c], rest)
  else if c = '>' then scanTwo c '=' .GreaterEqual .Greater rest
  else if c = '<' then scanTwo c '=' .LessEqual .Less rest
  else if c = '?' then (.Question, [c], rest)
  else if c = ':' then (.Colon, [c], rest)
  else if c = '.' then (.Dot, [c], rest)
  else if c = ';' then (.Semicolon, [c], rest)
  else if c = ',' then (.Comma, [c], rest)
  else if c = '@' then (.At, [c], rest)
  else if c = '(' then (.LParen, [c], rest)
  else if c = ')' then (.RParen, [c], rest)
  else if c = '{' then (.LBrace, [c], rest)
  else if c = '}' then (.RBrace, [c], rest)
  else if c = '[' then (.LBracket, [c], rest)
  else if c = ']' then (.RBracket, [c], rest)
  else (.Unknown, [c], rest)

/-- `scanToken` on `c :: rest` at position `start` -/
def scanToken (keyword : List Char → Option TokenType) (start : Pos) (c : Char) (rest : List Char) : ScanRes :=
  if isDigit c then scanNumber keyword start c rest
  else if isIdentStart c then scanIdent keyword start c rest
  else if c = '"' then scanString start start.adv rest
  else if c = '\'' then scanChar start start.adv rest
  else
    let r := scanOp c rest
    .ok (⟨r.1, r.2.1, start⟩, r.2.2, start.advN r.2.1.length)

/-- the `tokenize` loop, with explicit fuel (one unit per iteration; `src.length + 1` suffices) -/
def tokenizeAux (keyword : List Char → Option TokenType) :
    Nat → List Char → Pos → List Token → Except LexError (List Token)
  | 0, _, p, acc => .ok (acc.reverse ++ [⟨.Eof, [], p⟩])     -- unreachable with enough fuel
  | fuel + 1, s, p, acc =>
    match s with
    | [] => .ok (acc.reverse ++ [⟨.Eof, [], p⟩])
    | _ =>
      let w := skipWs s p
      match w.1 with
      | [] => .ok (acc.reverse ++ [⟨.Eof, [], w.2⟩])
      | c :: rest =>
        match scanToken keyword w.2 c rest with
        | .error e => .error e
        | .ok (tok, rest', p') => tokenizeAux keyword fuel rest' p' (tok :: acc)

def tokenize (keyword : List Char → Option TokenType) (src : List Char) : Except LexError (List Token) :=
  tokenizeAux keyword (src.length + 1) src ⟨1, 1⟩ []

end BlochVerif.Lex
