/-!
# The syntax tree of `src/bloch/compiler/ast/ast.hpp`

One constructor per C++ node type, with the fields the parser fills.  `P` is the node's
`line`/`column`; the parser leaves some nodes at `(0,0)` (literals, `if`/`for`/`while`/ternary,
expression statements) and the model does the same.
-/
namespace BlochVerif.Parse

structure P where
  line : Nat := 0
  col : Nat := 0
deriving Repr, DecidableEq, Inhabited

structure Ann where
  name : String
  value : String := ""
  isFunction : Bool := false
  isVariable : Bool := false
deriving Repr, DecidableEq, Inhabited

mutual
inductive Ty where
  | void
  | prim (name : String)
  | named (parts : List String) (args : List Ty) (hasArgs : Bool)
  | array (elem : Ty) (size : Int) (sizeExpr : Option Expr)
inductive Expr where
  | lit (value : String) (ty : String) (p : P)
  | null (p : P)
  | var (name : String) (p : P)
  | bin (op : String) (l r : Expr) (p : P)
  | un (op : String) (r : Expr) (p : P)
  | cast (ty : Ty) (e : Expr) (p : P)
  | postfix (op : String) (l : Expr) (p : P)
  | call (callee : Expr) (args : List Expr) (p : P)
  | member (obj : Expr) (name : String) (p : P)
  | new (ty : Ty) (args : List Expr) (p : P)
  | this (p : P)
  | super (p : P)
  | index (coll idx : Expr) (p : P)
  | arrLit (elems : List Expr) (p : P)
  | paren (e : Expr) (p : P)
  | measure (q : Expr) (p : P)
  | assign (name : String) (v : Expr) (p : P)
  | memberAssign (obj : Expr) (name : String) (v : Expr) (p : P)
  | arrAssign (coll idx v : Expr) (p : P)
end

instance : Inhabited Ty := ⟨.void⟩
instance : Inhabited Expr := ⟨.null {}⟩

/-- the node's `line`/`column` -/
def exprPos : Expr → P
  | .lit _ _ p | .null p | .var _ p | .bin _ _ _ p | .un _ _ p | .cast _ _ p | .postfix _ _ p | .call _ _ p
  | .member _ _ p | .new _ _ p | .this p | .super p | .index _ _ p | .arrLit _ p | .paren _ p
  | .measure _ p | .assign _ _ p | .memberAssign _ _ _ p | .arrAssign _ _ _ p => p

inductive Stmt where
  | varDecl (name : String) (ty : Ty) (init : Option Expr) (anns : List Ann)
      (isFinal isTracked : Bool) (p : P)
  | block (stmts : List Stmt) (p : P)
  | expr (e : Expr)
  | ret (v : Option Expr) (p : P)
  | ifs (c : Expr) (t : Stmt) (e : Option Stmt)
  | fors (init : Option Stmt) (c : Expr) (inc : Expr) (body : Stmt)
  | whiles (c : Expr) (body : Stmt)
  | echo (v : Expr) (p : P)
  | reset (t : Expr) (p : P)
  | measure (q : Expr) (p : P)
  | destroy (t : Expr) (p : P)
  | ternary (c : Expr) (t e : Stmt)
  | assign (name : String) (v : Expr) (p : P)

instance : Inhabited Stmt := ⟨.block [] {}⟩

structure Param where
  name : String
  ty : Ty
  p : P

structure TypeParam where
  name : String
  bound : Option Ty
  p : P

inductive Vis where | pub | priv | prot
deriving Repr, DecidableEq, Inhabited

inductive Member where
  | field (vis : Vis) (name : String) (ty : Ty) (init : Option Expr) (anns : List Ann)
      (isFinal isStatic isTracked : Bool) (p : P)
  | method (vis : Vis) (name : String) (params : List Param) (ret : Ty) (body : Option Stmt)
      (anns : List Ann) (quantum isStatic isVirtual isOverride : Bool) (p : P)
  | ctor (vis : Vis) (params : List Param) (body : Option Stmt) (isDefault : Bool) (p : P)
  | dtor (vis : Vis) (body : Option Stmt) (isDefault : Bool) (p : P)

structure ClassDecl where
  name : String
  typeParams : List TypeParam
  baseName : List String
  baseType : Option Ty
  isStatic : Bool
  isAbstract : Bool
  members : List Member
  p : P

structure FuncDecl where
  name : String
  params : List Param
  ret : Ty
  body : Stmt
  anns : List Ann
  quantum : Bool
  shots : Bool
  p : P

structure ImportDecl where
  pkg : List String
  symbol : Option String
  wildcard : Bool
  p : P

structure Program where
  package : Option (List String × P) := none
  imports : List ImportDecl := []
  classes : List ClassDecl := []
  functions : List FuncDecl := []
  statements : List Stmt := []

end BlochVerif.Parse
